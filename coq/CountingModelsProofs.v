(* Theorems about the transcript-model bookkeeping of CountingModels.v: the counter calls issued by forward_counts are, up to order,
   one add_read_info_raw per read that is stored for some model (with ALL its models), hence the transcript-model table is the
   documented weighted sum, its statistics lines are tallies, transcript_model_reads.tsv determines the table, the groups partition
   it; the invariant this rests on (read_assignment_counts[r] = number of stored (model, r) pairs) is kept by every bookkeeping step. *)
From Coq Require Import ZArith NArith QArith Qabs List Bool Lia Lqa Permutation.
From IQ Require Import Counting CountingCounter CountingProofs GroupedProofs CountingModels.
Import ListNotations.
Open Scope Z_scope.

(* ---------------------------------------------------------------- lists *)
Lemma nodup_app {A} (a b:list A) : NoDup a -> NoDup b -> (forall x, In x a -> ~ In x b) -> NoDup (a ++ b).
Proof. induction a as [|x t IH]; intros Na Nb D; cbn [app]; [exact Nb|]. inversion Na; subst. constructor.
  - intros H. apply in_app_or in H. destruct H as [H|H]; [contradiction|]. apply (D x); [left; reflexivity|exact H].
  - apply IH; [assumption|assumption|]. intros y Hy. apply D. right. exact Hy. Qed.
Lemma perm_filter {A} (p:A -> bool) (a b:list A) : Permutation a b -> Permutation (filter p a) (filter p b).
Proof. induction 1; cbn [filter].
  - constructor.
  - destruct (p x); [constructor|]; assumption.
  - destruct (p x), (p y); try apply perm_swap; apply Permutation_refl.
  - eapply Permutation_trans; eassumption. Qed.
Lemma filter_partition_perm {A} (p:A -> bool) (l:list A) : Permutation (filter p l ++ filter (fun x => negb (p x)) l) l.
Proof. induction l as [|x t IH]; cbn [filter app]; [constructor|]. destruct (p x); cbn [negb app].
  - constructor. exact IH.
  - apply Permutation_sym. apply Permutation_cons_app. apply Permutation_sym. exact IH. Qed.
Lemma filter_length_le {A} (p:A -> bool) l : (length (filter p l) <= length l)%nat.
Proof. induction l as [|x t IH]; cbn [filter length]; [lia|]. destruct (p x); cbn [length]; lia. Qed.
Lemma filter_filter_comm {A} (p q:A -> bool) l : filter p (filter q l) = filter q (filter p l).
Proof. induction l as [|x t IH]; cbn [filter]; [reflexivity|]. destruct (p x) eqn:P, (q x) eqn:Q; cbn [filter]; rewrite ?P, ?Q, IH; reflexivity. Qed.
Lemma filter_filter_imp {A} (p q:A -> bool) l : (forall x, In x l -> p x = true -> q x = true) -> filter p (filter q l) = filter p l.
Proof. induction l as [|x t IH]; intros H; cbn [filter]; [reflexivity|].
  assert (IH' : filter p (filter q t) = filter p t) by (apply IH; intros y Hy; apply H; right; exact Hy).
  destruct (q x) eqn:Q; cbn [filter]; destruct (p x) eqn:P; rewrite ?IH'; try reflexivity.
  rewrite (H x (or_introl eq_refl) P) in Q. discriminate. Qed.
Lemma filter_single {A} (p:A -> bool) l e : length (filter p l) = 1%nat -> In e l -> p e = true -> filter p l = [e].
Proof. intros L I P. assert (H: In e (filter p l)) by (apply filter_In; split; assumption).
  destruct (filter p l) as [|a [|b t]]; cbn [length] in L; try lia. destruct H as [H|[]]. subst. reflexivity. Qed.
(* keys of the elements selected by p are pairwise different when every selected key occurs once *)
Lemma nodup_map_filter {A} (key:A -> Z) (p:A -> bool) l :
  (forall e, In e l -> p e = true -> (length (filter (fun e' => (key e' =? key e)%Z) l) <= 1)%nat) -> NoDup (map key (filter p l)).
Proof. induction l as [|x t IH]; intros H; cbn [filter map]; [constructor|].
  assert (IH' : NoDup (map key (filter p t))).
  { apply IH. intros e He Pe. specialize (H e (or_intror He) Pe). cbn [filter] in H. destruct (key x =? key e); cbn [length] in H; lia. }
  destruct (p x) eqn:P; [|exact IH']. cbn [map]. constructor; [|exact IH'].
  intros I. apply in_map_iff in I. destruct I as [e [K E]]. apply filter_In in E. destruct E as [E _].
  specialize (H x (or_introl eq_refl) P). cbn [filter] in H. rewrite Z.eqb_refl in H. cbn [length] in H.
  assert (In e (filter (fun e' => key e' =? key x) t)) by (apply filter_In; split; [exact E|apply Z.eqb_eq; exact K]).
  destruct (filter (fun e' => key e' =? key x) t); [destruct H0|cbn [length] in H; lia]. Qed.
Lemma qsum'_perm (a b:list Q) : Permutation a b -> (qsum' a == qsum' b)%Q.
Proof. induction 1; cbn [qsum']; try lra. Qed.
Lemma qsum'_filter_zero {A} (h:A -> Q) (p:A -> bool) l : (forall x, In x l -> p x = false -> (h x == 0)%Q) ->
  (qsum' (map h (filter p l)) == qsum' (map h l))%Q.
Proof. induction l as [|x t IH]; intros H; cbn [filter map qsum']; [lra|].
  assert (IH' := IH (fun y Hy => H y (or_intror Hy))). destruct (p x) eqn:P; cbn [map qsum'].
  - rewrite IH'. lra.
  - rewrite IH', (H x (or_introl eq_refl) P). lra. Qed.
Lemma qsum'_scale {A} (h:A -> Q) (w:Q) l : (qsum' (map (fun x => h x * w) l) == qsum' (map h l) * w)%Q.
Proof. induction l as [|x t IH]; cbn [map qsum']; [lra|]. rewrite IH. lra. Qed.
Lemma existsb_perm {A} (p:A -> bool) a b : Permutation a b -> existsb p a = existsb p b.
Proof. induction 1 as [|x a b H IH|x y l|a b c H1 IH1 H2 IH2]; cbn [existsb]; try congruence.
  destruct (p x), (p y); reflexivity. Qed.

(* ---------------------------------------------------------------- defaultdict(int) *)
Lemma rac_get_upd c r f r' : rac_get (rac_upd c r f) r' = if r =? r' then f (rac_get c r) else rac_get c r'.
Proof. induction c as [|p t IH]; cbn [rac_upd rac_get fst snd].
  - destruct (r =? r'); reflexivity.
  - destruct (fst p =? r) eqn:E; cbn [rac_get fst snd].
    + apply Z.eqb_eq in E. rewrite E. destruct (r =? r'); reflexivity.
    + rewrite IH. destruct (r =? r') eqn:E2; [|reflexivity]. apply Z.eqb_eq in E2. subst r'. rewrite E. reflexivity. Qed.
Lemma rac_get_touch c r r' : rac_get (rac_touch c r) r' = rac_get c r'.
Proof. unfold rac_touch. rewrite rac_get_upd. destruct (r =? r') eqn:E; [apply Z.eqb_eq in E; subst|]; reflexivity. Qed.
Lemma rac_keys_upd c r f : map fst (rac_upd c r f) = if memz r (map fst c) then map fst c else map fst c ++ [r].
Proof. induction c as [|p t IH]; cbn [rac_upd map memz existsb app fst]; [reflexivity|]. fold (memz r (map fst t)).
  rewrite (Z.eqb_sym r (fst p)). destruct (fst p =? r) eqn:E; cbn [map fst orb]; [reflexivity|].
  rewrite IH. destruct (memz r (map fst t)); reflexivity. Qed.
Lemma rac_keys_NoDup c r f : NoDup (map fst c) -> NoDup (map fst (rac_upd c r f)).
Proof. intros H. rewrite rac_keys_upd. destruct (memz r (map fst c)) eqn:M; [exact H|].
  apply nodup_app; [exact H|constructor; [intros []|constructor]|]. intros x Hx [E|[]]. subst. apply memz_false in M. contradiction. Qed.
Lemma rac_keys_In c r f x : In x (map fst (rac_upd c r f)) <-> x = r \/ In x (map fst c).
Proof. rewrite rac_keys_upd. destruct (memz r (map fst c)) eqn:M.
  - apply memz_In in M. split; [intros H; right; exact H|intros [E|H]; [subst; exact M|exact H]].
  - rewrite in_app_iff. cbn [In]. split; [intros [H|[H|[]]]; auto|intros [E|H]; auto]. Qed.
Lemma rac_upd_id c r : In r (map fst c) -> rac_upd c r (fun v => v) = c.
Proof. induction c as [|p t IH]; cbn [map In rac_upd fst]; [intros []|]. intros H. destruct (fst p =? r) eqn:E.
  - destruct p; reflexivity.
  - f_equal. apply IH. destruct H as [H|H]; [apply Z.eqb_neq in E; contradiction|exact H]. Qed.
Lemma rac_get_key c r : rac_get c r <> 0 -> In r (map fst c).
Proof. induction c as [|p t IH]; cbn [rac_get map In fst]; [intros H; contradiction|]. destruct (fst p =? r) eqn:E; intros H.
  - left. apply Z.eqb_eq. exact E.
  - right. apply IH, H. Qed.
Lemma rac_get_In c p : NoDup (map fst c) -> In p c -> rac_get c (fst p) = snd p.
Proof. induction c as [|q t IH]; cbn [map In rac_get fst]; [intros _ []|]. intros N H. inversion N; subst. destruct H as [H|H].
  - subst. rewrite Z.eqb_refl. reflexivity.
  - destruct (fst q =? fst p) eqn:E; [|apply IH; assumption]. apply Z.eqb_eq in E. exfalso. apply H2. rewrite E. apply in_map. exact H. Qed.
Lemma touch_fold_id (fl:list entry) c : (forall e, In e fl -> In (e_r e) (map fst c)) -> fold_left (fun c e => rac_touch c (e_r e)) fl c = c.
Proof. induction fl as [|e t IH]; intros H; cbn [fold_left]; [reflexivity|].
  unfold rac_touch at 2. rewrite rac_upd_id by (apply H; left; reflexivity). apply IH. intros x Hx. apply H. right. exact Hx. Qed.
(* the zero entries of the dictionary, counted over its keys *)
Lemma zeros_keys c : NoDup (map fst c) -> zeros c = Z.of_nat (length (filter (fun r => rac_get c r =? 0) (map fst c))).
Proof. intros N. unfold zeros. f_equal.
  assert (G: forall l, (forall p, In p l -> rac_get c (fst p) = snd p) ->
             length (filter (fun p => snd p =? 0) l) = length (filter (fun r => rac_get c r =? 0) (map fst l))).
  { induction l as [|p t IH]; intros H; cbn [filter map]; [reflexivity|]. rewrite (H p (or_introl eq_refl)).
    destruct (snd p =? 0); cbn [length]; rewrite IH; auto; intros q Hq; apply H; right; exact Hq. }
  apply G. intros p Hp. apply rac_get_In; assumption. Qed.

(* ---------------------------------------------------------------- defaultdict(list) *)
Lemma flat_tri_append t m a : Permutation (flat (tri_append t m a)) ((m, fst a, snd a) :: flat t).
Proof. induction t as [|p u IH]; cbn [tri_append]; [cbn; apply Permutation_refl|]. destruct (fst p =? m) eqn:E.
  - apply Z.eqb_eq in E. unfold flat. cbn [flat_map fst snd]. rewrite map_app. cbn [map]. rewrite <- app_assoc. cbn [app]. rewrite E.
    apply Permutation_sym. apply Permutation_middle.
  - unfold flat in *. cbn [flat_map]. eapply Permutation_trans; [apply Permutation_app_head, IH|]. apply Permutation_sym, Permutation_middle. Qed.
Lemma tri_keys_append t m a : map fst (tri_append t m a) = if memz m (map fst t) then map fst t else map fst t ++ [m].
Proof. induction t as [|p u IH]; cbn [tri_append map memz existsb app fst]; [reflexivity|]. fold (memz m (map fst u)).
  rewrite (Z.eqb_sym m (fst p)). destruct (fst p =? m) eqn:E; cbn [map fst orb]; [reflexivity|]. rewrite IH. destruct (memz m (map fst u)); reflexivity. Qed.
Lemma tri_keys_append_NoDup t m a : NoDup (map fst t) -> NoDup (map fst (tri_append t m a)).
Proof. intros H. rewrite tri_keys_append. destruct (memz m (map fst t)) eqn:M; [exact H|].
  apply nodup_app; [exact H|constructor; [intros []|constructor]|]. intros x Hx [E|[]]. subst. apply memz_false in M. contradiction. Qed.
Lemma flat_tri_del t m : Permutation (flat t) (map (fun a => (m, fst a, snd a)) (tri_get t m) ++ flat (tri_del t m)).
Proof. induction t as [|p u IH]; cbn [tri_get tri_del]; [cbn; constructor|]. destruct (fst p =? m) eqn:E.
  - apply Z.eqb_eq in E. unfold flat. cbn [flat_map]. rewrite E. apply Permutation_refl.
  - unfold flat in *. cbn [flat_map]. eapply Permutation_trans; [apply Permutation_app_head, IH|].
    rewrite !app_assoc. apply Permutation_app_tail. apply Permutation_app_comm. Qed.
Lemma tri_del_keys t m x : In x (map fst (tri_del t m)) -> In x (map fst t).
Proof. induction t as [|p u IH]; cbn [tri_del map In fst]; [intros []|]. destruct (fst p =? m); cbn [map In fst]; intros H.
  - right. exact H.
  - destruct H as [H|H]; [left; exact H|right; apply IH, H]. Qed.
Lemma tri_del_NoDup t m : NoDup (map fst t) -> NoDup (map fst (tri_del t m)).
Proof. induction t as [|p u IH]; cbn [tri_del map fst]; intros N; [constructor|]. inversion N; subst. destruct (fst p =? m); [assumption|].
  cbn [map fst]. constructor; [|apply IH; assumption]. intros H. apply H1. apply (tri_del_keys u m). exact H. Qed.
Lemma flat_key (t:list (Z * list (Z * Z))) e : In e (flat t) -> In (e_m e) (map fst t).
Proof. unfold flat. intros H. apply in_flat_map in H. destruct H as [p [Hp H]]. apply in_map_iff in H. destruct H as [a [E _]]. subst e.
  unfold e_m. cbn [fst]. apply in_map. exact Hp. Qed.
Lemma tri_del_gone t m e : NoDup (map fst t) -> In e (flat (tri_del t m)) -> e_m e <> m.
Proof. induction t as [|p u IH]; cbn [tri_del map fst]; intros N H; [destruct H|]. inversion N; subst. destruct (fst p =? m) eqn:E.
  - apply Z.eqb_eq in E. intros K. apply H2. rewrite E, <- K. apply flat_key. exact H.
  - unfold flat in H. cbn [flat_map] in H. apply in_app_or in H. destruct H as [H|H]; [|apply IH; assumption].
    apply in_map_iff in H. destruct H as [a [Ea _]]. subst e. unfold e_m. cbn [fst]. apply Z.eqb_neq. exact E. Qed.

(* ---------------------------------------------------------------- ambiguous_assignments *)
Fixpoint amb_get (a:list (Z * (Z * list Z))) (r:Z) : option (Z * list Z) := match a with [] => None | p :: t => if fst p =? r then Some (snd p) else amb_get t r end.
Lemma amb_get_add a r g m r' :
  amb_get (amb_add a r g m) r' = if r =? r' then Some (match amb_get a r with Some v => (fst v, snd v ++ [m]) | None => (g, [m]) end) else amb_get a r'.
Proof. induction a as [|p t IH]; cbn [amb_add amb_get fst snd].
  - destruct (r =? r'); reflexivity.
  - destruct (fst p =? r) eqn:E; cbn [amb_get fst snd].
    + apply Z.eqb_eq in E. rewrite E. destruct (r =? r'); reflexivity.
    + rewrite IH. destruct (r =? r') eqn:E2; [|reflexivity]. apply Z.eqb_eq in E2. subst r'. rewrite E. reflexivity. Qed.
Lemma amb_keys_add a r g m : map fst (amb_add a r g m) = if memz r (map fst a) then map fst a else map fst a ++ [r].
Proof. induction a as [|p t IH]; cbn [amb_add map memz existsb app fst]; [reflexivity|]. fold (memz r (map fst t)).
  rewrite (Z.eqb_sym r (fst p)). destruct (fst p =? r) eqn:E; cbn [map fst orb]; [reflexivity|]. rewrite IH. destruct (memz r (map fst t)); reflexivity. Qed.
Definition amb_step (a:list (Z * (Z * list Z))) (e:entry) := amb_add a (e_r e) (e_g e) (e_m e).
Lemma amb_fold_keys (l:list entry) : forall a, NoDup (map fst a) ->
  NoDup (map fst (fold_left amb_step l a)) /\ (forall r, In r (map fst (fold_left amb_step l a)) <-> In r (map fst a) \/ exists e, In e l /\ e_r e = r).
Proof. induction l as [|e t IH]; intros a N; cbn [fold_left].
  - split; [exact N|]. intros r. split; [auto|intros [H|[e [[] _]]]; exact H].
  - assert (N' : NoDup (map fst (amb_step a e))).
    { unfold amb_step. rewrite amb_keys_add. destruct (memz (e_r e) (map fst a)) eqn:M; [exact N|].
      apply nodup_app; [exact N|constructor; [intros []|constructor]|]. intros x Hx [E|[]]. subst. apply memz_false in M. contradiction. }
    destruct (IH _ N') as [A B]. split; [exact A|]. intros r. rewrite B. unfold amb_step at 1. rewrite amb_keys_add.
    destruct (memz (e_r e) (map fst a)) eqn:M.
    + apply memz_In in M. split.
      * intros [H|[x [Hx E]]]; [left; exact H|right; exists x; split; [right; exact Hx|exact E]].
      * intros [H|[x [[Hx|Hx] E]]]; [left; exact H|left; subst; exact M|right; exists x; split; assumption].
    + rewrite in_app_iff. cbn [In]. split.
      * intros [[H|[H|[]]]|[x [Hx E]]]; [left; exact H|right; exists e; split; [left; reflexivity|exact H]|right; exists x; split; [right; exact Hx|exact E]].
      * intros [H|[x [[Hx|Hx] E]]]; [left; left; exact H|left; right; left; subst; reflexivity|right; exists x; split; assumption]. Qed.
Lemma amb_fold_get (l:list entry) r : forall a,
  amb_get (fold_left amb_step l a) r =
  match filter (fun e => e_r e =? r) l with
  | [] => amb_get a r
  | e :: t => Some (match amb_get a r with Some v => (fst v, snd v ++ map e_m (e :: t)) | None => (e_g e, map e_m (e :: t)) end)
  end.
Proof. induction l as [|e t IH]; intros a; cbn [fold_left filter]; [reflexivity|]. rewrite IH. unfold amb_step. rewrite !amb_get_add.
  destruct (e_r e =? r) eqn:E.
  - apply Z.eqb_eq in E. rewrite E. destruct (filter (fun e0 => e_r e0 =? r) t) as [|e1 t1]; cbn [map].
    + destruct (amb_get a r) as [v|]; cbn [fst snd]; reflexivity.
    + destruct (amb_get a r) as [v|]; cbn [fst snd app]; rewrite <- ?app_assoc; reflexivity.
  - reflexivity. Qed.
Lemma amb_get_In a p : NoDup (map fst a) -> In p a -> amb_get a (fst p) = Some (snd p).
Proof. induction a as [|q t IH]; cbn [map In amb_get fst]; [intros _ []|]. intros N H. inversion N; subst. destruct H as [H|H].
  - subst. rewrite Z.eqb_refl. reflexivity.
  - destruct (fst q =? fst p) eqn:E; [|apply IH; assumption]. apply Z.eqb_eq in E. exfalso. apply H2. rewrite E. apply in_map. exact H. Qed.

(* ---------------------------------------------------------------- forward_counts, first loop in closed form *)
Definition is1 (c:list (Z * Z)) (e:entry) : bool := rac_get c (e_r e) =? 1.
Lemma pass1_eq (fl:list entry) : forall c u a,
  fold_left pass1_step fl (c, u, a) =
  (fold_left (fun c e => rac_touch c (e_r e)) fl c, u ++ map raw1 (filter (is1 c) fl), fold_left amb_step (filter (fun e => negb (is1 c e)) fl) a).
Proof. induction fl as [|e t IH]; intros c u a; cbn [fold_left filter map]; [rewrite app_nil_r; reflexivity|].
  unfold pass1_step at 2. rewrite rac_get_touch. fold (is1 c e).
  assert (X: forall q:entry -> bool, filter (fun x => q x) t = filter q t) by (intros; reflexivity).
  assert (F1: filter (is1 (rac_touch c (e_r e))) t = filter (is1 c) t) by (apply filter_ext; intros x; unfold is1; rewrite rac_get_touch; reflexivity).
  assert (F2: filter (fun x => negb (is1 (rac_touch c (e_r e)) x)) t = filter (fun x => negb (is1 c x)) t)
    by (apply filter_ext; intros x; unfold is1; rewrite rac_get_touch; reflexivity).
  destruct (is1 c e); cbn [negb]; rewrite IH, F1, F2; cbn [map fold_left]; rewrite <- ?app_assoc; reflexivity. Qed.

Section Consistent.
Variable st : mstate.
Hypothesis C : consistent st.
Let fl := flat (m_tri st).
Let c := m_rac st.

Lemma entry_read_known e : In e fl -> In (e_r e) (reads st).
Proof. intros H. apply rac_get_key. destruct C as [_ K]. rewrite K.
  assert (I: In e (entries st (e_r e))) by (apply filter_In; split; [exact H|apply Z.eqb_refl]).
  destruct (entries st (e_r e)); [destruct I|cbn [length]; lia]. Qed.
Lemma fc_pass1_closed : fc_pass1 st = (c, map raw1 (filter (is1 c) fl), fold_left amb_step (filter (fun e => negb (is1 c e)) fl) []).
Proof. unfold fc_pass1. fold fl. fold c. rewrite pass1_eq. cbn [app]. rewrite touch_fold_id; [reflexivity|]. intros e H. apply entry_read_known, H. Qed.
Lemma fc_rac_closed : fc_rac st = c.
Proof. unfold fc_rac. rewrite fc_pass1_closed. reflexivity. Qed.

Let U := filter (is1 c) fl.
Let amb := fold_left amb_step (filter (fun e => negb (is1 c e)) fl) [].

Lemma is1_entries e : In e fl -> is1 c e = true -> entries st (e_r e) = [e].
Proof. intros H I. apply filter_single; [|exact H|apply Z.eqb_refl]. destruct C as [_ K]. unfold is1 in I. apply Z.eqb_eq in I.
  fold c in K. rewrite K in I. unfold entries in I |- *. lia. Qed.
Lemma raw1_evt e : In e U -> raw1 e = evt_of st (e_r e).
Proof. intros H. apply filter_In in H. destruct H as [H I]. unfold evt_of, ms_of, grp_of. rewrite (is1_entries e H I). reflexivity. Qed.
Lemma amb_keys : NoDup (map fst amb) /\ (forall r, In r (map fst amb) <-> exists e, In e fl /\ e_r e = r /\ is1 c e = false).
Proof. destruct (amb_fold_keys (filter (fun e => negb (is1 c e)) fl) [] (NoDup_nil _)) as [A B]. split; [exact A|]. intros r. fold amb in B. rewrite B.
  cbn [map In]. split.
  - intros [[]|[e [H E]]]. apply filter_In in H. destruct H as [H I]. exists e. repeat split; try assumption. destruct (is1 c e); [discriminate|reflexivity].
  - intros [e [H [E I]]]. right. exists e. split; [|exact E]. apply filter_In. split; [exact H|rewrite I; reflexivity]. Qed.
Lemma filter_read_not1 r : (rac_get c r =? 1) = false -> filter (fun e => e_r e =? r) (filter (fun e => negb (is1 c e)) fl) = entries st r.
Proof. intros H. unfold entries. fold fl. apply filter_filter_imp. intros x _ E. apply Z.eqb_eq in E. unfold is1. rewrite E, H. reflexivity. Qed.
Lemma raw_amb_evt p : In p amb -> raw_amb p = evt_of st (fst p).
Proof. intros H. destruct amb_keys as [N K].
  assert (G := amb_get_In amb p N H). unfold amb in G at 1. rewrite amb_fold_get in G. cbn [amb_get] in G.
  assert (I: In (fst p) (map fst amb)) by (apply in_map; exact H). apply K in I. destruct I as [e [He [E I]]].
  unfold is1 in I. rewrite E in I. rewrite (filter_read_not1 _ I) in G. unfold raw_amb, evt_of, ms_of, grp_of.
  destruct (entries st (fst p)) as [|e1 t1]; [discriminate|]. inversion G. reflexivity. Qed.
Lemma reads_perm : Permutation (map e_r U ++ map fst amb) (filter (has_entries st) (reads st)).
Proof. destruct amb_keys as [N K]. destruct C as [ND CK]. fold c in CK.
  assert (HE: forall r, has_entries st r = true <-> exists e, In e fl /\ e_r e = r).
  { intros r. unfold has_entries. split.
    - intros H. destruct (entries st r) as [|e t] eqn:E; [discriminate|]. assert (I: In e (entries st r)) by (rewrite E; left; reflexivity).
      apply filter_In in I. destruct I as [I1 I2]. exists e. split; [exact I1|apply Z.eqb_eq; exact I2].
    - intros [e [H E]]. assert (I: In e (entries st r)) by (apply filter_In; split; [exact H|apply Z.eqb_eq; exact E]).
      destruct (entries st r); [destruct I|reflexivity]. }
  apply NoDup_Permutation.
  - apply nodup_app; [|exact N|].
    + unfold U. apply nodup_map_filter. intros e He I. change (length (entries st (e_r e)) <= 1)%nat. rewrite (is1_entries e He I). cbn [length]. lia.
    + intros r H1 H2. apply in_map_iff in H1. destruct H1 as [e [E H1]]. apply filter_In in H1. destruct H1 as [_ I1].
      apply K in H2. destruct H2 as [e2 [_ [E2 I2]]]. unfold is1 in *. rewrite E in I1. rewrite E2 in I2. congruence.
  - apply NoDup_filter. exact ND.
  - intros r. rewrite in_app_iff, filter_In. split.
    + intros [H|H].
      * apply in_map_iff in H. destruct H as [e [E H]]. apply filter_In in H. destruct H as [H _]. subst r.
        split; [apply entry_read_known; exact H|apply HE; exists e; split; [exact H|reflexivity]].
      * apply K in H. destruct H as [e [H [E _]]]. subst r. split; [apply entry_read_known; exact H|apply HE; exists e; split; [exact H|reflexivity]].
    + intros [_ H]. apply HE in H. destruct H as [e [H E]]. destruct (is1 c e) eqn:I.
      * left. apply in_map_iff. exists e. split; [exact E|apply filter_In; split; assumption].
      * right. apply K. exists e. repeat split; assumption. Qed.

(* forward_counts issues, up to order, one add_read_info_raw per read that is stored for some model, with all its models *)
Theorem forward_counts_perm : Permutation (forward_counts st) (canon_events st).
Proof. unfold forward_counts, canon_events. rewrite fc_pass1_closed. fold U. fold amb. fold c. rewrite app_assoc. apply Permutation_app_tail.
  rewrite (map_ext_in raw1 (fun e => evt_of st (e_r e)) U raw1_evt), (map_ext_in raw_amb (fun p => evt_of st (fst p)) amb raw_amb_evt).
  rewrite <- (map_map e_r (evt_of st)), <- (map_map fst (evt_of st)), <- map_app. apply Permutation_map, reads_perm. Qed.
End Consistent.

(* ---------------------------------------------------------------- the specification does not depend on the order of the counter calls *)
Lemma spec_cell_perm s lv a b f gsel : Permutation a b -> (spec_cell s lv a f gsel == spec_cell s lv b f gsel)%Q.
Proof. intros P. unfold spec_cell. rewrite (existsb_perm _ a b P). destruct (existsb (spec_confirms lv f) b); [|lra].
  apply qsum'_perm, Permutation_map, P. Qed.
Lemma spec_ambiguous_perm lv a b : Permutation a b -> spec_ambiguous lv a = spec_ambiguous lv b.
Proof. intros P. unfold spec_ambiguous. f_equal. apply Permutation_length, perm_filter, P. Qed.
Lemma sumz_perm a b : Permutation a b -> sumz a = sumz b.
Proof. induction 1 as [|x a b H IH|x y l|a b c H1 IH1 H2 IH2]; rewrite ?sumz_cons; lia. Qed.
Lemma spec_no_feature_perm a b : Permutation a b -> spec_no_feature a = spec_no_feature b.
Proof. intros P. unfold spec_no_feature. apply sumz_perm, Permutation_map, P. Qed.
Lemma spec_not_aligned_perm a b : Permutation a b -> spec_not_aligned a = spec_not_aligned b.
Proof. intros P. unfold spec_not_aligned. apply sumz_perm, Permutation_map, P. Qed.

(* ---------------------------------------------------------------- the canonical call sequence against the declarative cell *)
Lemma evt_contrib s lv st f gsel r : spec_contrib s lv f gsel (evt_of st r) = model_contrib s st f gsel r.
Proof. reflexivity. Qed.
Lemma no_entries_contrib s st f gsel r : has_entries st r = false -> (model_contrib s st f gsel r == 0)%Q.
Proof. unfold has_entries, model_contrib, ms_of. destruct (entries st r); [|discriminate]. intros _. cbn [map]. unfold zcount. cbn [filter length Z.of_nat]. change (inject_Z 0) with 0%Q.
  destruct (gsel_ok gsel (grp_of st r)); lra. Qed.
Lemma existsb_raw lv f (evt:Z -> event) l : (forall r, exists fs g, evt r = ERaw true fs g) -> existsb (spec_confirms lv f) (map evt l) = false.
Proof. intros H. induction l as [|x t IH]; cbn [map existsb]; [reflexivity|]. destruct (H x) as [fs [g E]]. rewrite E, IH. reflexivity. Qed.
Lemma spec_cell_canon s lv st f gsel : (spec_cell s lv (canon_events st) f gsel == model_cell s st f gsel)%Q.
Proof. unfold spec_cell, canon_events, model_cell. rewrite existsb_app, (existsb_raw lv f (evt_of st)) by (intros r; eexists; eexists; reflexivity).
  cbn [existsb spec_confirms orb]. rewrite orb_false_r. destruct (memz f (m_models st)); [|lra].
  rewrite map_app, qsum'_app, map_map. cbn [map qsum' spec_contrib].
  rewrite (map_ext _ (model_contrib s st f gsel)) by (intros; apply evt_contrib).
  rewrite (qsum'_filter_zero (model_contrib s st f gsel) (has_entries st)) by (intros x _ H; apply no_entries_contrib, H). lra. Qed.

(* every cell the counter dumps after forward_counts: the weighted sum over the reads stored for the model when the model is reported, 0 otherwise *)
Theorem forward_counts_cell s lv st f gsel : consistent st -> (spec_cell s lv (forward_counts st) f gsel == model_cell s st f gsel)%Q.
Proof. intros C. rewrite (spec_cell_perm s lv _ _ f gsel (forward_counts_perm st C)). apply spec_cell_canon. Qed.

Lemma fc_events_raw st ev : In ev (forward_counts st) -> match ev with ERaw _ _ _ | EUnassigned _ | EConfirm _ => True | _ => False end.
Proof. unfold forward_counts. destruct (fc_pass1 st) as [[c u] a] eqn:E. unfold fc_pass1 in E. rewrite pass1_eq in E. inversion E; subst. cbn [app].
  rewrite !in_app_iff. intros [H|[H|[H|[H|[]]]]]; try (subst; exact Logic.I).
  - apply in_map_iff in H. destruct H as [x [X _]]. subst. exact Logic.I.
  - apply in_map_iff in H. destruct H as [x [X _]]. subst. exact Logic.I. Qed.
Lemma raw_events_wf cf st : ungrouped_cfg cf -> forallb (wf_event cf) (forward_counts st) = true.
Proof. intros [I G]. apply forallb_forall. intros ev H. apply fc_events_raw in H. destruct ev as [|r|h fs g|n|n|fs]; try reflexivity; try contradiction.
  cbn [wf_event]. rewrite (lookup_ungrouped cf g I G). reflexivity. Qed.

Theorem model_table_is_weighted_sum cf complete st st' : consistent st -> ungrouped_cfg cf ->
  run cf (init_state complete) (forward_counts st) = Some st' ->
  forall f cells, In (f, cells) (dump_ungrouped cf st') -> exists v, cells = [v] /\ (v == model_cell (c_strategy cf) st f None)%Q.
Proof. intros C U R f cells H. destruct (table_is_weighted_sum cf complete _ st' U R (raw_events_wf cf st U) f cells H) as [v [E V]].
  exists v. split; [exact E|]. rewrite V. apply forward_counts_cell, C. Qed.
(* a reported model is never zeroed: its cell is the plain weighted sum *)
Corollary reported_model_cell s st f gsel : In f (m_models st) -> model_cell s st f gsel = qsum' (map (model_contrib s st f gsel) (reads st)).
Proof. intros H. unfold model_cell. apply memz_In in H. rewrite H. reflexivity. Qed.

(* ---------------------------------------------------------------- statistics lines *)
Lemma amb2_len (ms:list Z) : match ms with _ :: _ :: _ => true | _ => false end = (1 <? length ms)%nat.
Proof. destruct ms as [|a [|b t]]; reflexivity. Qed.
Lemma spec_ambiguous_canon lv st X tail : spec_ambiguous lv (map (evt_of st) X ++ tail) =
  Z.of_nat (length (filter (fun r => (1 <? length (ms_of st r))%nat) X)) + spec_ambiguous lv tail.
Proof. induction X as [|r t IH]; cbn [map app filter]; [cbn [length]; lia|]. rewrite spec_ambiguous_cons, IH.
  unfold amb_ind, evt_of at 1. rewrite amb2_len. destruct (1 <? length (ms_of st r))%nat; cbn [length]; lia. Qed.
Lemma spec_no_feature_canon st X tail : (forall r, In r X -> has_entries st r = true) ->
  spec_no_feature (map (evt_of st) X ++ tail) = spec_no_feature tail.
Proof. induction X as [|r t IH]; intros H; cbn [map app]; [reflexivity|]. unfold spec_no_feature in *. cbn [map]. rewrite sumz_cons, IH by (intros x Hx; apply H; right; exact Hx).
  assert (E := H r (or_introl eq_refl)). unfold has_entries in E. unfold evt_of, ms_of. destruct (entries st r); [discriminate|]. cbn [map]. lia. Qed.
Lemma spec_not_aligned_canon st X tail : spec_not_aligned (map (evt_of st) X ++ tail) = spec_not_aligned tail.
Proof. induction X as [|r t IH]; cbn [map app]; [reflexivity|]. unfold spec_not_aligned in *. cbn [map]. rewrite sumz_cons, IH. unfold evt_of. lia. Qed.

Theorem model_stats_lines_count cf complete st st' : consistent st -> run cf (init_state complete) (forward_counts st) = Some st' ->
  n_amb st' = n_amb_spec st /\ n_noassign st' = n_nofeat_spec st /\ n_noalign st' = 0.
Proof. intros C R. destruct (stats_lines_count cf complete _ st' R) as [A [B N]]. pose proof (forward_counts_perm st C) as P.
  rewrite (spec_ambiguous_perm _ _ _ P) in A. rewrite (spec_no_feature_perm _ _ P) in B. rewrite (spec_not_aligned_perm _ _ P) in N.
  unfold canon_events in *. rewrite spec_ambiguous_canon in A. rewrite spec_not_aligned_canon in N.
  rewrite spec_no_feature_canon in B by (intros r H; apply filter_In in H; apply H).
  split; [|split].
  - rewrite A. unfold n_amb_spec. rewrite filter_filter_imp.
    + unfold spec_ambiguous. cbn [filter length]. lia.
    + intros r _ H. unfold has_entries, ms_of in *. destruct (entries st r); [discriminate|reflexivity].
  - rewrite B. unfold spec_no_feature, sumz. cbn [map fold_left]. destruct C as [ND K]. rewrite (zeros_keys _ ND). unfold n_nofeat_spec, reads.
    rewrite (filter_ext (fun r => rac_get (m_rac st) r =? 0) (fun r => negb (has_entries st r))); [lia|].
    intros r. rewrite K. unfold has_entries. destruct (entries st r); reflexivity.
  - rewrite N. reflexivity. Qed.

(* ---------------------------------------------------------------- transcript_model_reads.tsv determines the table *)
Lemma nodup_first_In l x : In x (nodup_first l) <-> In x l.
Proof. induction l as [|y t IH]; cbn [nodup_first In]; [tauto|]. rewrite filter_In, IH. split.
  - intros [H|[H _]]; auto.
  - intros [H|H]; [left; exact H|]. destruct (x =? y) eqn:E; [left; symmetry; apply Z.eqb_eq; exact E|right; split; [exact H|reflexivity]]. Qed.
Lemma nodup_first_NoDup l : NoDup (nodup_first l).
Proof. induction l as [|y t IH]; cbn [nodup_first]; constructor; [|apply NoDup_filter, IH].
  intros H. apply filter_In in H. destruct H as [_ H]. rewrite Z.eqb_refl in H. discriminate. Qed.
Lemma has_entries_iff st r : has_entries st r = true <-> exists e, In e (flat (m_tri st)) /\ e_r e = r.
Proof. unfold has_entries. split.
  - intros H. destruct (entries st r) as [|e t] eqn:E; [discriminate|]. assert (I: In e (entries st r)) by (rewrite E; left; reflexivity).
    apply filter_In in I. destruct I as [I1 I2]. exists e. split; [exact I1|apply Z.eqb_eq; exact I2].
  - intros [e [H E]]. assert (I: In e (entries st r)) by (apply filter_In; split; [exact H|apply Z.eqb_eq; exact E]).
    destruct (entries st r); [destruct I|reflexivity]. Qed.
Definition star_lines (c:list (Z * Z)) : list (Z * option Z) := flat_map (fun p => if snd p =? 0 then [(fst p, @None Z)] else []) c.
Definition model_lines (fl:list entry) : list (Z * option Z) := map (fun e => (e_r e, Some (e_m e))) fl.
Lemma line_reads_models fl : line_reads (model_lines fl) = map e_r fl.
Proof. induction fl as [|e t IH]; [reflexivity|]. unfold line_reads, model_lines in *. cbn [map flat_map snd fst app]. rewrite IH. reflexivity. Qed.
Lemma line_reads_stars c : line_reads (star_lines c) = [].
Proof. induction c as [|p t IH]; [reflexivity|]. unfold line_reads, star_lines in *. cbn [flat_map]. rewrite flat_map_app, IH, app_nil_r.
  destruct (snd p =? 0); reflexivity. Qed.
Lemma line_models_models fl r : line_models (model_lines fl) r = map e_m (filter (fun e => e_r e =? r) fl).
Proof. induction fl as [|e t IH]; [reflexivity|]. unfold line_models, model_lines in *. cbn [map flat_map snd fst filter]. rewrite IH.
  destruct (e_r e =? r); reflexivity. Qed.
Lemma line_models_stars c r : line_models (star_lines c) r = [].
Proof. induction c as [|p t IH]; [reflexivity|]. unfold line_models, star_lines in *. cbn [flat_map]. rewrite flat_map_app, IH, app_nil_r.
  destruct (snd p =? 0); [|reflexivity]. cbn [flat_map fst snd opt_list app]. destruct (fst p =? r); reflexivity. Qed.
Lemma stars_app a b : stars (a ++ b) = stars a + stars b.
Proof. unfold stars. rewrite filter_app, app_length. lia. Qed.
Lemma stars_models fl : stars (model_lines fl) = 0.
Proof. induction fl as [|e t IH]; [reflexivity|]. unfold stars, model_lines in *. cbn [map filter snd]. exact IH. Qed.
Lemma stars_stars c : stars (star_lines c) = zeros c.
Proof. induction c as [|p t IH]; [reflexivity|]. unfold star_lines in *. cbn [flat_map]. rewrite stars_app, IH. unfold zeros. cbn [filter].
  destruct (snd p =? 0); [|reflexivity]. unfold stars at 1. cbn [filter snd length]. lia. Qed.

(* the call sequence a reader of transcript_model_reads.tsv reconstructs (with the reads' groups) is, up to order, the one forward_counts issued *)
Theorem r2t_events_perm st : consistent st ->
  Permutation (events_from_r2t (r2t_lines st) (grp_of st) (m_models st)) (canon_events st).
Proof. intros C. unfold events_from_r2t, canon_events, r2t_lines. rewrite (fc_rac_closed st C).
  fold (model_lines (flat (m_tri st))). fold (star_lines (m_rac st)).
  rewrite stars_app, stars_models, stars_stars. cbn [Z.add].
  unfold line_reads at 1. rewrite flat_map_app. fold (line_reads (model_lines (flat (m_tri st)))). fold (line_reads (star_lines (m_rac st))).
  rewrite line_reads_models, line_reads_stars, app_nil_r. apply Permutation_app_tail.
  rewrite (map_ext _ (evt_of st)).
  - apply Permutation_map. apply NoDup_Permutation; [apply nodup_first_NoDup|apply NoDup_filter, C|].
    intros r. rewrite nodup_first_In, filter_In, in_map_iff, has_entries_iff. split.
    + intros [e [E H]]. split; [subst r; apply (entry_read_known st C e H)|exists e; split; assumption].
    + intros [_ [e [H E]]]. exists e. split; assumption.
  - intros r. unfold evt_of, ms_of, entries. f_equal. unfold line_models. rewrite flat_map_app.
    fold (line_models (model_lines (flat (m_tri st))) r). fold (line_models (star_lines (m_rac st)) r).
    rewrite line_models_models, line_models_stars, app_nil_r. reflexivity. Qed.
Theorem model_reads_table_matches_counts s lv st f gsel : consistent st ->
  (spec_cell s lv (events_from_r2t (r2t_lines st) (grp_of st) (m_models st)) f gsel == spec_cell s lv (forward_counts st) f gsel)%Q /\
  spec_ambiguous lv (events_from_r2t (r2t_lines st) (grp_of st) (m_models st)) = spec_ambiguous lv (forward_counts st) /\
  spec_no_feature (events_from_r2t (r2t_lines st) (grp_of st) (m_models st)) = spec_no_feature (forward_counts st).
Proof. intros C. assert (P: Permutation (events_from_r2t (r2t_lines st) (grp_of st) (m_models st)) (forward_counts st)).
  { eapply Permutation_trans; [apply r2t_events_perm, C|apply Permutation_sym, forward_counts_perm, C]. }
  split; [apply spec_cell_perm, P|split; [apply spec_ambiguous_perm, P|apply spec_no_feature_perm, P]]. Qed.

(* ---------------------------------------------------------------- one read: total over all models at most 1 *)
Lemma model_weight_bounds s ms : (0 <= model_weight s ms)%Q /\ (inject_Z (Z.of_nat (length ms)) * model_weight s ms <= 1)%Q.
Proof. unfold model_weight. destruct ms as [|a [|b t]].
  - destruct s; split; vm_compute; discriminate.
  - cbn [length]. change (inject_Z (Z.of_nat 1)) with 1%Q. split; lra.
  - set (k := length (a :: b :: t)). assert (K: (0 < k)%nat) by (unfold k; cbn [length]; lia).
    rewrite <- (weight_table s Ambiguous k K). split; [apply (weight_tk_range (flags_of s) Ambiguous k K)|].
    apply (contribution_tk_le_1 (flags_of s) Ambiguous k K). discriminate. Qed.
Lemma zcount_sum_le F : NoDup F -> forall ms, (qsum' (map (fun f => inject_Z (zcount f ms)) F) <= inject_Z (Z.of_nat (length ms)))%Q.
Proof. intros N. induction ms as [|x t IH].
  - rewrite qsum'_zero; [apply Qle_refl|]. intros f _. reflexivity.
  - rewrite (qsum'_ext _ (fun f => (if f =? x then 1 else 0) + inject_Z (zcount f t))%Q).
    + assert (S: forall l, (qsum' (map (fun f => (if f =? x then 1 else 0) + inject_Z (zcount f t)) l) ==
                          qsum' (map (fun f => if f =? x then 1 else 0) l) + qsum' (map (fun f => inject_Z (zcount f t)) l))%Q).
      { induction l as [|y u IHu]; cbn [map qsum']; [lra|]. rewrite IHu. lra. }
      rewrite S, (qsum_indicator 1%Q x F N). cbn [length]. rewrite Nat2Z.inj_succ. unfold Z.succ. rewrite inject_Z_plus.
      destruct (memz x F); change (inject_Z 1) with 1%Q; lra.
    + intros f _. rewrite zcount_cons, inject_Z_plus. destruct (f =? x); [change (inject_Z 1) with 1%Q|change (inject_Z 0) with 0%Q]; lra. Qed.
Theorem model_read_contribution_le_1 s st r F : NoDup F -> (qsum' (map (fun f => model_contrib s st f None r) F) <= 1)%Q.
Proof. intros N. unfold model_contrib. cbn [gsel_ok]. rewrite (qsum'_scale (fun f => inject_Z (zcount f (ms_of st r))) (model_weight s (ms_of st r)) F).
  destruct (model_weight_bounds s (ms_of st r)) as [W0 W1]. pose proof (zcount_sum_le F N (ms_of st r)) as Z.
  eapply Qle_trans; [apply Qmult_le_compat_r; [exact Z|exact W0]|exact W1]. Qed.

(* ---------------------------------------------------------------- grouped tables *)
Lemma amb_add_groups (P:Z -> Prop) a r g m : P g -> (forall q, In q a -> P (fst (snd q))) -> forall q, In q (amb_add a r g m) -> P (fst (snd q)).
Proof. intros Pg. induction a as [|p0 t0 IH]; intros H0 q Hq; cbn [amb_add] in Hq.
  - destruct Hq as [Hq|[]]. subst q. exact Pg.
  - destruct (fst p0 =? r).
    + destruct Hq as [Hq|Hq]; [subst q; cbn [snd fst]; apply (H0 p0); left; reflexivity|apply H0; right; exact Hq].
    + destruct Hq as [Hq|Hq]; [subst q; apply H0; left; reflexivity|]. apply IH; [|exact Hq]. intros q' Hq'. apply H0. right. exact Hq'. Qed.
Lemma amb_fold_groups (P:Z -> Prop) (l:list entry) : forall a, (forall e, In e l -> P (e_g e)) -> (forall q, In q a -> P (fst (snd q))) ->
  forall q, In q (fold_left amb_step l a) -> P (fst (snd q)).
Proof. induction l as [|e t IH]; intros a Hl H0 q Hq; cbn [fold_left] in Hq; [apply H0, Hq|].
  apply (IH (amb_step a e)); [intros x Hx; apply Hl; right; exact Hx| |exact Hq].
  unfold amb_step. apply amb_add_groups; [apply Hl; left; reflexivity|exact H0]. Qed.
Lemma fc_events_group st ev g : In ev (forward_counts st) -> ev_group ev = Some g -> exists e, In e (flat (m_tri st)) /\ e_g e = g.
Proof. unfold forward_counts. destruct (fc_pass1 st) as [[c u] a] eqn:E. unfold fc_pass1 in E. rewrite pass1_eq in E. inversion E; subst. clear E. cbn [app].
  rewrite !in_app_iff. intros [H|[H|[H|[H|[]]]]] G; try (subst; discriminate).
  - apply in_map_iff in H. destruct H as [x [X H]]. subst. apply filter_In in H. cbn [raw1 ev_group] in G. inversion G. exists x. split; [apply H|reflexivity].
  - apply in_map_iff in H. destruct H as [p [X H]]. subst. cbn [raw_amb ev_group] in G. inversion G. clear G.
    subst g. revert p H. apply (amb_fold_groups (fun g => exists e, In e (flat (m_tri st)) /\ e_g e = g)).
    + intros e He. apply filter_In in He. exists e. split; [apply He|reflexivity].
    + intros q []. Qed.
(* the per-group cells of a model add up to its ungrouped cell *)
Theorem model_groups_partition s st f gs : consistent st -> NoDup gs -> (forall e, In e (flat (m_tri st)) -> In (e_g e) gs) ->
  (qsum' (map (fun g => model_cell s st f (Some g)) gs) == model_cell s st f None)%Q.
Proof. intros C N G. rewrite <- (forward_counts_cell s TranscriptLevel st f None C).
  rewrite (qsum'_ext _ (fun g => spec_cell s TranscriptLevel (forward_counts st) f (Some g))) by (intros g _; symmetry; apply forward_counts_cell, C).
  apply groups_partition_ungrouped; [exact N|]. intros ev g H E. destruct (fc_events_group st ev g H E) as [e [He Eg]]. subst g. apply G, He. Qed.
(* every cell of the grouped matrix: the weighted sum over the reads of that group *)
Theorem model_matrix_is_weighted_sum cf complete st st' : consistent st -> enum_cfg cf ->
  run cf (init_state complete) (forward_counts st) = Some st' -> forallb (wf_event cf) (forward_counts st) = true ->
  forall f cells, In (f, cells) (dump_matrix cf st') -> Forall2 (fun g v => (v == model_cell (c_strategy cf) st f (Some g))%Q) (c_ordered cf) cells.
Proof. intros C E R W f cells H. pose proof (matrix_cell_is_weighted_sum cf complete _ st' E R W f cells H) as M.
  clear H. induction M as [|g v gs vs Hv M IH]; [constructor|constructor; [|exact IH]]. rewrite Hv. apply forward_counts_cell, C. Qed.

(* ---------------------------------------------------------------- the bookkeeping steps keep the invariant *)
Definition inv (st:mstate) : Prop :=
  consistent st /\ (forall e, In e (flat (m_tri st)) -> In (e_m e) (m_models st)) /\ NoDup (map fst (m_tri st)).
Lemma inv_empty : inv ms_empty.
Proof. split; [split; [constructor|intros r; reflexivity]|split; [intros e []|constructor]]. Qed.
Lemma len_filter_perm {A} (p:A -> bool) a b : Permutation a b -> length (filter p a) = length (filter p b).
Proof. intros P. apply Permutation_length, perm_filter, P. Qed.
Lemma save_inv st r g m : inv st -> In m (m_models st) -> inv (save st r g m).
Proof. intros [[ND K] [J N]] Hm. unfold inv, consistent, save, reads, entries. cbn [m_tri m_rac m_models]. repeat split.
  - apply rac_keys_NoDup, ND.
  - intros r'. rewrite rac_get_upd, (len_filter_perm _ _ _ (flat_tri_append (m_tri st) m (r, g))). cbn [filter fst snd]. unfold e_r at 1. cbn [fst snd].
    specialize (K r'). unfold entries in K. destruct (r =? r') eqn:E; [apply Z.eqb_eq in E; subst r'|]; cbn [length]; lia.
  - intros e He. apply (Permutation_in _ (flat_tri_append (m_tri st) m (r, g))) in He. destruct He as [He|He]; [subst e; exact Hm|apply J, He].
  - apply tri_keys_append_NoDup, N. Qed.
Lemma rac_fold_dec (l:list (Z * Z)) r' : forall c,
  rac_get (fold_left (fun c a => rac_upd c (fst a) (fun v => v - 1)) l c) r' = rac_get c r' - Z.of_nat (length (filter (fun a => fst a =? r') l)).
Proof. induction l as [|a t IH]; intros c; cbn [fold_left filter]; [cbn [length]; lia|]. rewrite IH, rac_get_upd.
  destruct (fst a =? r') eqn:E; [apply Z.eqb_eq in E; rewrite E|]; cbn [length]; lia. Qed.
Lemma rac_fold_NoDup {A} (k:A -> Z) (f:A -> Z -> Z) (l:list A) : forall c, NoDup (map fst c) -> NoDup (map fst (fold_left (fun c a => rac_upd c (k a) (f a)) l c)).
Proof. induction l as [|a t IH]; intros c N; cbn [fold_left]; [exact N|]. apply IH, rac_keys_NoDup, N. Qed.
Lemma len_filter_model_entries m (l:list (Z * Z)) r' :
  length (filter (fun e:entry => e_r e =? r') (map (fun a => (m, fst a, snd a)) l)) = length (filter (fun a => fst a =? r') l).
Proof. induction l as [|a t IH]; [reflexivity|]. cbn [map filter]. unfold e_r at 1. cbn [fst snd]. destruct (fst a =? r'); cbn [length]; rewrite IH; reflexivity. Qed.
Lemma delete_inv st m : inv st -> inv (delete st m).
Proof. intros [[ND K] [J N]]. unfold inv, consistent, delete, reads, entries. cbn [m_tri m_rac m_models]. repeat split.
  - apply (rac_fold_NoDup fst (fun _ v => v - 1)), ND.
  - intros r'. rewrite rac_fold_dec. specialize (K r'). unfold entries in K.
    rewrite (len_filter_perm _ _ _ (flat_tri_del (m_tri st) m)), filter_app, app_length, len_filter_model_entries in K. lia.
  - intros e He. apply filter_In. split.
    + apply J. apply (Permutation_in _ (Permutation_sym (flat_tri_del (m_tri st) m))). apply in_or_app. right. exact He.
    + apply negb_true_iff, Z.eqb_neq. apply (tri_del_gone (m_tri st) m e N He).
  - apply tri_del_NoDup, N. Qed.
Lemma touch_inv st r : inv st -> inv (mkms (m_tri st) (rac_touch (m_rac st) r) (m_models st)).
Proof. intros [[ND K] [J N]]. unfold inv, consistent, reads, entries. cbn [m_tri m_rac m_models]. repeat split; try assumption.
  - apply rac_keys_NoDup, ND.
  - intros r'. rewrite rac_get_touch. apply K. Qed.
Lemma save_fold_inv r g (ms:list Z) : forall st, inv st -> (forall m, In m ms -> In m (m_models st)) -> inv (fold_left (fun s m => save s r g m) ms st).
Proof. induction ms as [|m t IH]; intros st I H; cbn [fold_left]; [exact I|]. apply IH.
  - apply save_inv; [exact I|apply H; left; reflexivity].
  - intros x Hx. unfold save. cbn [m_models]. apply H. right. exact Hx. Qed.
Lemma save_fold_models r g (ms:list Z) : forall st, m_models (fold_left (fun s m => save s r g m) ms st) = m_models st.
Proof. induction ms as [|m t IH]; intros st; cbn [fold_left]; [reflexivity|]. rewrite IH. reflexivity. Qed.
Lemma assign_one_inv st x : inv st -> (forall ms, snd x = Some ms -> forall m, In m ms -> In m (m_models st)) ->
  inv (assign_one st x) /\ m_models (assign_one st x) = m_models st.
Proof. intros I L. destruct x as [[r g] o]. cbn [snd] in L. unfold assign_one. pose proof (touch_inv st r I) as T.
  destruct (0 <? rac_get (rac_touch (m_rac st) r) r) eqn:P; [split; [exact T|reflexivity]|]. destruct o as [ms|].
  - split; [apply save_fold_inv; [exact T|cbn [m_models]; apply (L ms eq_refl)]|rewrite save_fold_models; reflexivity].
  - split; [|reflexivity]. destruct T as [[ND K] [J N]]. unfold inv, consistent, reads, entries in *. cbn [m_tri m_rac m_models] in *. repeat split; try assumption.
    + apply rac_keys_NoDup, ND.
    + intros r'. rewrite rac_get_upd. destruct (r =? r') eqn:E; [|apply K]. apply Z.eqb_eq in E. subst r'. apply Z.ltb_ge in P. specialize (K r). lia. Qed.
Lemma assign_fold_inv (res:list (Z * Z * option (list Z))) : forall st, inv st ->
  (forall x ms, In x res -> snd x = Some ms -> forall m, In m ms -> In m (m_models st)) -> inv (fold_left assign_one res st).
Proof. induction res as [|x t IH]; intros st I L; cbn [fold_left]; [exact I|].
  destruct (assign_one_inv st x I (fun ms => L x ms (or_introl eq_refl))) as [I' M]. apply IH; [exact I'|].
  intros y ms Hy E m Hm. rewrite M. apply (L y ms (or_intror Hy) E m Hm). Qed.
Lemma rac_fold_zero_get (res:list (Z * Z * option (list Z))) r' : forall c,
  rac_get (fold_left (fun c x => rac_upd c (fst (fst x)) (fun _ => 0)) res c) r' = if existsb (fun x => fst (fst x) =? r') res then 0 else rac_get c r'.
Proof. induction res as [|x t IH]; intros c; cbn [fold_left existsb]; [reflexivity|]. rewrite IH, rac_get_upd.
  destruct (existsb (fun x0 => fst (fst x0) =? r') t); [rewrite orb_true_r; reflexivity|]. rewrite orb_false_r. reflexivity. Qed.
Lemma assign_inv st res : inv st -> legal_op st (OAssign res) -> inv (assign st res).
Proof. intros I L. unfold assign. destruct (m_models st) as [|m0 ms0] eqn:M.
  - destruct I as [[ND K] [J N]]. rewrite M in J.
    assert (F: flat (m_tri st) = []) by (destruct (flat (m_tri st)) as [|e t]; [reflexivity|destruct (J e (or_introl eq_refl))]).
    unfold inv, consistent, reads, entries in *. cbn [m_tri m_rac m_models]. rewrite F in *. repeat split; try assumption.
    + apply (rac_fold_NoDup (fun x => fst (fst x)) (fun _ _ => 0)), ND.
    + intros r'. rewrite rac_fold_zero_get. destruct (existsb _ res); [reflexivity|apply K].
  - apply assign_fold_inv; [exact I|]. intros [[r g] o] ms Hx E. cbn [snd] in E. subst o. apply (L r g ms Hx). Qed.
Lemma exec_inv st o : inv st -> legal_op st o -> inv (exec st o).
Proof. intros I L. destruct o as [m|r g m|m|res]; cbn [exec].
  - destruct I as [C [J N]]. split; [exact C|split; [|exact N]]. cbn [m_tri m_models]. intros e He. apply in_or_app. left. apply J, He.
  - apply save_inv; assumption.
  - apply delete_inv, I.
  - apply assign_inv; assumption. Qed.
Lemma run_inv ops : forall st, inv st -> legal st ops -> inv (fold_left exec ops st).
Proof. induction ops as [|o t IH]; intros st I L; cbn [fold_left]; [exact I|]. destruct L as [L1 L2]. apply IH; [apply exec_inv; assumption|exact L2]. Qed.
(* whatever sequence of model creations, saved reads, deletions and (re-)assignment rounds process() goes through, forward_counts starts from consistent bookkeeping *)
Theorem process_consistent ops : legal ms_empty ops -> consistent (process ops).
Proof. intros L. apply (run_inv ops ms_empty inv_empty L). Qed.

(* ---------------------------------------------------------------- one assignment round on fresh bookkeeping, in terms of its input *)
Lemma flat_save_fold r g (ms:list Z) : forall s, Permutation (flat (m_tri (fold_left (fun s m => save s r g m) ms s))) (map (fun m => (m, r, g)) ms ++ flat (m_tri s)).
Proof. induction ms as [|m t IH]; intros s; cbn [fold_left map app]; [apply Permutation_refl|].
  eapply Permutation_trans; [apply IH|]. unfold save at 1. cbn [m_tri].
  eapply Permutation_trans; [apply Permutation_app_head, (flat_tri_append (m_tri s) m (r, g))|]. cbn [fst snd]. apply Permutation_sym, Permutation_middle. Qed.
Lemma save_fold_keys r g (ms:list Z) : forall s, In r (map fst (m_rac s)) -> map fst (m_rac (fold_left (fun s m => save s r g m) ms s)) = map fst (m_rac s).
Proof. induction ms as [|m t IH]; intros s H; cbn [fold_left]; [reflexivity|].
  assert (K: map fst (m_rac (save s r g m)) = map fst (m_rac s)).
  { unfold save. cbn [m_rac]. rewrite rac_keys_upd. apply memz_In in H. rewrite H. reflexivity. }
  rewrite IH; [exact K|rewrite K; exact H]. Qed.
Lemma filter_model_entries_same r g (ms:list Z) : filter (fun e:entry => e_r e =? r) (map (fun m => (m, r, g)) ms) = map (fun m => (m, r, g)) ms.
Proof. induction ms as [|m t IH]; [reflexivity|]. cbn [map filter]. unfold e_r at 1. cbn [fst snd]. rewrite Z.eqb_refl, IH. reflexivity. Qed.
Lemma filter_model_entries_other r g r' (ms:list Z) : r <> r' -> filter (fun e:entry => e_r e =? r') (map (fun m => (m, r, g)) ms) = [].
Proof. intros N. induction ms as [|m t IH]; [reflexivity|]. cbn [map filter]. unfold e_r at 1. cbn [fst snd].
  destruct (r =? r') eqn:E; [apply Z.eqb_eq in E; contradiction|exact IH]. Qed.
(* after the reads `done` (pairwise different ids): keys in order, every processed read stored exactly for its models, nothing else stored *)
Definition round_ok (st:mstate) (done:list (Z * Z * option (list Z))) : Prop :=
  reads st = map rid done /\
  (forall x, In x done -> Permutation (entries st (rid x)) (map (fun m => (m, rid x, rgrp x)) (rms x))) /\
  (forall r, ~ In r (map rid done) -> entries st r = [] /\ rac_get (m_rac st) r = 0).
Lemma assign_one_round st done x : round_ok st done -> ~ In (rid x) (map rid done) ->
  round_ok (assign_one st x) (done ++ [x]) /\ m_models (assign_one st x) = m_models st.
Proof. intros [RD [B Cn]] NI. destruct x as [[r g] o]. unfold round_ok, rid, rgrp, rms in *. cbn [fst snd] in *. destruct (Cn r NI) as [E0 G0].
  unfold assign_one. rewrite rac_get_touch, G0. cbn [Z.ltb Z.compare].
  assert (KT: map fst (rac_touch (m_rac st) r) = map fst (m_rac st) ++ [r]).
  { unfold rac_touch. rewrite rac_keys_upd. unfold reads in RD. assert (M: memz r (map fst (m_rac st)) = false) by (apply memz_false; rewrite RD; exact NI). rewrite M. reflexivity. }
  assert (RDN: map fst (m_rac st) ++ [r] = map (fun x => fst (fst x)) (done ++ [(r, g, o)])) by (unfold reads in RD; rewrite RD, map_app; reflexivity).
  destruct o as [ms|].
  - set (s0 := mkms (m_tri st) (rac_touch (m_rac st) r) (m_models st)).
    assert (Rk: In r (map fst (m_rac s0))) by (unfold s0; cbn [m_rac]; rewrite KT; apply in_or_app; right; left; reflexivity).
    split; [|rewrite save_fold_models; reflexivity]. pose proof (flat_save_fold r g ms s0) as FP. unfold s0 in FP at 2. cbn [m_tri] in FP.
    assert (EN: forall r', Permutation (entries (fold_left (fun s m => save s r g m) ms s0) r')
                                       (filter (fun e => e_r e =? r') (map (fun m => (m, r, g)) ms) ++ entries st r')).
    { intros r'. unfold entries. rewrite <- filter_app. apply perm_filter, FP. }
    split; [|split].
    + unfold reads. rewrite (save_fold_keys r g ms s0 Rk). unfold s0. cbn [m_rac]. rewrite KT. exact RDN.
    + intros x Hx. apply in_app_or in Hx. destruct Hx as [Hx|[Hx|[]]].
      * assert (Ne: r <> fst (fst x)) by (intros Eq; apply NI; rewrite Eq; apply (in_map (fun x => fst (fst x))); exact Hx).
        eapply Permutation_trans; [apply EN|]. rewrite (filter_model_entries_other r g _ ms Ne). cbn [app]. apply B, Hx.
      * subst x. cbn [fst snd]. eapply Permutation_trans; [apply EN|]. rewrite filter_model_entries_same, E0, app_nil_r. apply Permutation_refl.
    + intros r' Hr'. rewrite map_app, in_app_iff in Hr'. cbn [map In fst] in Hr'.
      assert (Ne: r <> r') by (intros Eq; apply Hr'; right; left; exact Eq). assert (Nd: ~ In r' (map (fun x => fst (fst x)) done)) by (intros Hd; apply Hr'; left; exact Hd).
      destruct (Cn r' Nd) as [E1 G1]. split.
      * pose proof (EN r') as P. rewrite (filter_model_entries_other r g r' ms Ne), E1 in P. cbn [app] in P. apply Permutation_nil. apply Permutation_sym. exact P.
      * assert (A: forall l s, rac_get (m_rac (fold_left (fun s m => save s r g m) l s)) r' = rac_get (m_rac s) r').
        { induction l as [|m t IH]; intros s; cbn [fold_left]; [reflexivity|]. rewrite IH. unfold save. cbn [m_rac]. rewrite rac_get_upd.
          destruct (r =? r') eqn:Eq; [apply Z.eqb_eq in Eq; contradiction|reflexivity]. }
        rewrite A. unfold s0. cbn [m_rac]. rewrite rac_get_touch. exact G1.
  - split; [|reflexivity]. unfold round_ok, reads, entries. cbn [m_tri m_rac]. split; [|split].
    + rewrite rac_keys_upd. assert (M: memz r (map fst (rac_touch (m_rac st) r)) = true) by (apply memz_In; rewrite KT; apply in_or_app; right; left; reflexivity).
      rewrite M, KT. exact RDN.
    + intros x Hx. apply in_app_or in Hx. destruct Hx as [Hx|[Hx|[]]]; [apply B, Hx|]. subst x. cbn [fst snd map]. fold (entries st r). rewrite E0. constructor.
    + intros r' Hr'. rewrite map_app, in_app_iff in Hr'. cbn [map In fst] in Hr'.
      assert (Ne: r <> r') by (intros Eq; apply Hr'; right; left; exact Eq). assert (Nd: ~ In r' (map (fun x => fst (fst x)) done)) by (intros Hd; apply Hr'; left; exact Hd).
      destruct (Cn r' Nd) as [E1 G1]. split; [exact E1|]. rewrite rac_get_upd. destruct (r =? r') eqn:Eq; [apply Z.eqb_eq in Eq; contradiction|]. rewrite rac_get_touch. exact G1. Qed.
Lemma assign_fold_round (res:list (Z * Z * option (list Z))) : forall st done, round_ok st done -> NoDup (map rid (done ++ res)) ->
  round_ok (fold_left assign_one res st) (done ++ res) /\ m_models (fold_left assign_one res st) = m_models st.
Proof. induction res as [|x t IH]; intros st done R N; cbn [fold_left]; [rewrite app_nil_r; split; [exact R|reflexivity]|].
  assert (NI: ~ In (rid x) (map rid done)).
  { rewrite map_app in N. cbn [map] in N. apply NoDup_remove_2 in N. intros H. apply N. apply in_or_app. left. exact H. }
  destruct (assign_one_round st done x R NI) as [R' M]. replace (done ++ x :: t) with ((done ++ [x]) ++ t) in * by (rewrite <- app_assoc; reflexivity).
  destruct (IH _ _ R' N) as [R2 M2]. split; [exact R2|rewrite M2; exact M]. Qed.
Lemma zcount_perm f a b : Permutation a b -> zcount f a = zcount f b.
Proof. intros P. unfold zcount. f_equal. apply len_filter_perm, P. Qed.
Lemma model_weight_len s (a b:list Z) : length a = length b -> model_weight s a = model_weight s b.
Proof. intros L. unfold model_weight. destruct a as [|x [|y t]], b as [|x' [|y' t']]; cbn [length] in *; try lia; try reflexivity. rewrite L. reflexivity. Qed.
(* the table after one assignment round on fresh bookkeeping, read off the round's input: each read of the storage (ids pairwise different) contributes, to every
   model it was found consistent with, 1 when that is its only model and the ambiguous-read weight of the strategy for k models otherwise *)
Theorem assigned_cell s models res f gsel : NoDup (map rid res) -> (model_cell s (assigned models res) f gsel == input_cell s res models f gsel)%Q.
Proof. intros N. assert (R0: round_ok (mkms [] [] models) []) by (split; [reflexivity|split; [intros x []|intros r _; split; reflexivity]]).
  destruct (assign_fold_round res _ [] R0 N) as [[RD [B _]] M]. cbn [app] in *. fold (assigned models res) in *. cbn [m_models] in M.
  unfold model_cell, input_cell. rewrite M. destruct (memz f models); [|lra]. rewrite RD, map_map. apply qsum'_ext. intros x Hx.
  unfold model_contrib, input_contrib. specialize (B x Hx).
  assert (PM: Permutation (ms_of (assigned models res) (rid x)) (rms x)).
  { unfold ms_of. eapply Permutation_trans; [apply Permutation_map, B|]. rewrite map_map. unfold e_m. cbn [fst]. rewrite map_id. apply Permutation_refl. }
  rewrite (zcount_perm f _ _ PM), (model_weight_len s _ _ (Permutation_length PM)).
  destruct (rms x) as [|m0 t0] eqn:EM.
  - unfold zcount. cbn [filter length Z.of_nat]. change (inject_Z 0) with 0%Q. destruct (gsel_ok gsel (grp_of (assigned models res) (rid x))), (gsel_ok gsel (rgrp x)); lra.
  - assert (G: grp_of (assigned models res) (rid x) = rgrp x).
    { unfold grp_of. destruct (entries (assigned models res) (rid x)) as [|e te] eqn:EE; [apply Permutation_nil in B; discriminate|].
      assert (I: In e (map (fun m => (m, rid x, rgrp x)) (m0 :: t0))) by (apply (Permutation_in _ B); left; reflexivity).
      apply in_map_iff in I. destruct I as [m [Em _]]. subst e. reflexivity. }
    rewrite G. lra. Qed.
Lemma models_fold (l:list Z) : forall st, fold_left exec (map OModel l) st = mkms (m_tri st) (m_rac st) (m_models st ++ l).
Proof. induction l as [|m t IH]; intros st; cbn [map fold_left]; [rewrite app_nil_r; destruct st; reflexivity|]. rewrite IH. cbn [exec m_tri m_rac m_models]. rewrite <- app_assoc. reflexivity. Qed.
Lemma process_round models res : models <> [] -> process (map OModel models ++ [OAssign res]) = assigned models res.
Proof. intros H. unfold process. rewrite fold_left_app, models_fold. cbn [fold_left exec ms_empty m_tri m_rac m_models app]. unfold assign. cbn [m_models].
  destruct models; [contradiction|reflexivity]. Qed.

Lemma legal_opb_sound st o : legal_opb st o = true -> legal_op st o.
Proof. destruct o as [m|r g m|m|res]; cbn [legal_opb legal_op]; intros H; try exact Logic.I.
  - apply memz_In, H.
  - intros r g ms Hx m Hm. rewrite forallb_forall in H. specialize (H _ Hx). cbn [snd] in H. rewrite forallb_forall in H. apply memz_In, H, Hm. Qed.
Lemma legalb_sound ops : forall st, legalb st ops = true -> legal st ops.
Proof. induction ops as [|o t IH]; intros st H; cbn [legalb legal] in *; [exact Logic.I|]. apply andb_true_iff in H. destruct H as [H1 H2].
  split; [apply legal_opb_sound, H1|apply IH, H2]. Qed.
