(* C16: PolyA2.shift_polya is shift_polya of src/polya_verification.py as regenerated into gen/Loops.v (tools/translate_loops.py, on every check).
   The exon list is read with Python indices (negative = from the end): the equality holds for every exon count the code can be called
   with, 0 <= exon_count <= len(read_exons), and for those the exception-freedom condition py_shift_polya_pre holds. *)
From Coq Require Import ZArith List Bool Lia ZifyBool.
From IQ.gen Require Import Prims Loops.
From IQ Require Import Cigar PolyA PolyA2 LoopsSupport LoopsIndexSupport.
Import ListNotations. Open Scope Z_scope.

Lemma shift_polya_loop exons pos k0 : forall k a, (k <= length exons)%nat ->
  fold_left (py_shift_polya_step exons k0 pos) (seq 0 k) a = fold_left (dist_step_a pos) (firstn k (rev exons)) a.
Proof. intros k a H. rewrite <- (fold_seq_nth_firstn (dist_step_a pos) (0, 0) k (rev exons) a) by (rewrite rev_length; exact H).
  revert a. assert (E: forall i, In i (seq 0 k) -> forall s, py_shift_polya_step exons k0 pos s i = dist_step_a pos s (nth i (rev exons) (0, 0))).
  { intros i Hi s. apply in_seq in Hi. unfold py_shift_polya_step. cbv zeta.
    replace (Z.sub (Z.opp (Z.of_nat i)) 1) with (- Z.of_nat i - 1) by reflexivity. rewrite py_index_from_end by lia. reflexivity. }
  induction (seq 0 k) as [|i t IH]; intros a; [reflexivity|]. cbn [fold_left]. rewrite E by (left; reflexivity).
  apply IH. intros j Hj. apply E. right. exact Hj. Qed.
Theorem shift_polya_is_the_source exons k pos : 0 <= k <= Z.of_nat (length exons) ->
  PolyA2.shift_polya exons k pos = py_shift_polya exons k pos /\ py_shift_polya_pre exons k pos = true.
Proof. intros H. unfold PolyA2.shift_polya, py_shift_polya, py_shift_polya_pre.
  destruct ((k =? 0) || (k =? Z.of_nat (length exons)) || (pos =? -1)) eqn:G; [split; reflexivity|].
  assert (K: 0 < k < Z.of_nat (length exons)) by lia. cbv zeta. split.
  - rewrite shift_polya_loop by lia. rewrite firstn_rev_skipn by lia.
    replace (Z.sub (Z.opp k) 1) with (- Z.of_nat (Z.to_nat k) - 1) by lia. rewrite py_index_from_end by lia.
    rewrite <- nth_rev_index by lia.
    replace (length exons - Z.to_nat k - 1)%nat with (length exons - 1 - Z.to_nat k)%nat by lia. reflexivity.
  - cbn [orb]. apply andb_true_intro. split; [unfold py_index_ok; lia|]. apply forallb_forall. intros i Hi. apply in_seq in Hi. unfold py_index_ok. lia. Qed.

