(* C16: PolyA2.correct_read_info2 is PolyAFixer.correct_read_info of src/polya_verification.py as regenerated into gen/Loops.v
   (tools/translate_loops.py, while fragment: the decrement loop as a Fixpoint on fuel over (polya_exon_count, polyt_exon_count), the two
   counts by the regenerated count_polya_exons / count_polyt_exons).  For all inputs and every fuel above len(read_exons) + 1: the loop
   terminates within that fuel and no exception is possible. *)
From Coq Require Import ZArith NArith List Bool Lia ZifyBool.
From IQ.gen Require Import Prims Loops.
From IQ Require Import Cigar PolyA PolyA2 LoopsSupport LoopsIndexSupport LoopCountPolyABridge LoopCountPolyTBridge.
Import ListNotations. Open Scope Z_scope.

(* the loop runs at most a + t - n + 1 times *)
Lemma cri_loop_is_the_loop mf exons pa pt n : n = Z.of_nat (length exons) -> 1 <= n ->
  forall f1 f2 a t, 0 <= a -> 0 <= t -> (Z.to_nat (a + t - n + 1) < f1)%nat -> (Z.to_nat (a + t - n + 1) <= f2)%nat ->
  py_correct_read_info_loop1 mf exons pa pt f1 (a, t) = py_Done (cri_loop f2 n a t).
Proof. intros En Hn. induction f1 as [|f1 IH]; intros f2 a t Ha Ht H1 H2; [lia|]. cbn [py_correct_read_info_loop1]. rewrite <- En.
  destruct (t + a >=? n) eqn:C.
  - cbn [py_bind]. destruct f2 as [|f2]; [lia|]. cbn [cri_loop]. rewrite C. apply IH; lia.
  - destruct f2; cbn [cri_loop]; [reflexivity|]. rewrite C. reflexivity. Qed.

Theorem correct_read_info_is_the_source mf exons pa pt fuel : (length exons + 1 < fuel)%nat ->
  py_correct_read_info fuel mf exons pa pt = py_Done (PolyA2.correct_read_info2 mf exons pa pt).
Proof. intros H. unfold py_correct_read_info, correct_read_info2.
  destruct (count_polya_exons_is_the_source mf exons pa) as [Ea Pa]. destruct (count_polyt_exons_is_the_source mf exons pt) as [Et _].
  destruct exons as [|e1 [|e2 rest]]; [reflexivity|reflexivity|].
  set (ex := e1 :: e2 :: rest) in *. replace (Z.of_nat (length ex) <=? 1) with false by (unfold ex; cbn [length]; lia).
  rewrite Pa, <- Ea, <- Et. cbv zeta.
  pose proof (count_a_bounds mf ex pa) as Ba. pose proof (count_t_bounds mf ex pt) as Bt.
  rewrite (cri_loop_is_the_loop mf ex pa pt (Z.of_nat (length ex)) eq_refl ltac:(unfold ex; cbn [length]; lia) fuel (Datatypes.S (length ex))) by lia.
  cbn [py_bind]. destruct (cri_loop (Datatypes.S (length ex)) (Z.of_nat (length ex)) (count_polya_exons mf ex pa) (count_polyt_exons mf ex pt)). reflexivity. Qed.
