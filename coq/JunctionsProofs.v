(* C01: theorems about phase 1 of the junction comparator model (Junctions.v).
     chain_phase1                   a read whose junctions are, within delta, a run of consecutive isoform junctions: all marks 1 / 0
     chain_match_no_contradiction   ... and compare_junctions reports [MatchEvent(none)]
     unmatched_junction_marked      a read junction inside the isoform region with no delta-equal isoform junction is marked -1
   plus general lemmas on sweep (sweep_lengths, unfolding equations). *)
From Coq Require Import ZArith NArith QArith List Bool Lia ZifyBool.
From IQ Require Import CorrSupport Intervals Junctions.
From IQ.gen Require Import Tables Prims.
Import ListNotations. Open Scope Z_scope.

(* ---------------------------------------------------------------- unfolding equations *)
Lemma sweep_nil_l : forall delta rreg ireg fuel II rpos ipos rm im cur,
  sweep delta rreg ireg fuel [] II rpos ipos rm im cur = terminal rreg ireg [] II rpos ipos rm im cur.
Proof. destruct fuel; reflexivity. Qed.

Lemma sweep_nil_r : forall delta rreg ireg fuel R rpos ipos rm im cur,
  sweep delta rreg ireg fuel R [] rpos ipos rm im cur = terminal rreg ireg R [] rpos ipos rm im cur.
Proof. destruct fuel; destruct R; reflexivity. Qed.

Lemma sweep_cons : forall delta rreg ireg f r R' i I' rpos ipos rm im cur,
  sweep delta rreg ireg (Datatypes.S f) (r :: R') (i :: I') rpos ipos rm im cur =
  if py_equal_ranges i r delta then
    let '(rp, ip, ps) := sweep delta rreg ireg f R' I' (rpos + 1) (ipos + 1) 0 0 None in
    (1 :: rp, 1 :: ip, flush cur ++ ps)
  else if py_overlaps i r then
    let cur' := match cur with
                | None => ((rpos, rpos), (ipos, ipos))
                | Some c => ((fst (fst c), rpos), (fst (snd c), ipos)) end in
    if snd r <? snd i then
      let '(rp, ip, ps) := sweep delta rreg ireg f R' (i :: I') (rpos + 1) ipos 0 (-1) (Some cur') in (-1 :: rp, ip, ps)
    else
      let '(rp, ip, ps) := sweep delta rreg ireg f (r :: R') I' rpos (ipos + 1) (-1) 0 (Some cur') in (rp, -1 :: ip, ps)
  else if py_left_of i r then
    let flag := (0 <? rpos) || py_overlaps rreg i in
    let newp := if flag && negb (im =? -1) then [((absent, rpos), (ipos, ipos))] else [] in
    let '(rp, ip, ps) := sweep delta rreg ireg f (r :: R') I' rpos (ipos + 1) rm 0 None in
    (rp, (if flag then -1 else im) :: ip, flush cur ++ newp ++ ps)
  else
    let flag := (0 <? ipos) || py_overlaps ireg r in
    let newp := if flag && negb (rm =? -1) then [((rpos, rpos), (absent, ipos))] else [] in
    let '(rp, ip, ps) := sweep delta rreg ireg f R' (i :: I') (rpos + 1) ipos 0 im None in
    ((if flag then -1 else rm) :: rp, ip, flush cur ++ newp ++ ps).
Proof. reflexivity. Qed.

Lemma terminal_marks_read : forall rreg ireg R II rpos ipos rm im cur,
  fst (fst (terminal rreg ireg R II rpos ipos rm im cur)) = fst (term_read ireg R rpos ipos rm).
Proof. intros. unfold terminal. destruct (term_read ireg R rpos ipos rm), (term_iso rreg II rpos ipos im). reflexivity. Qed.

Lemma terminal_marks_iso : forall rreg ireg R II rpos ipos rm im cur,
  snd (fst (terminal rreg ireg R II rpos ipos rm im cur)) = fst (term_iso rreg II rpos ipos im).
Proof. intros. unfold terminal. destruct (term_read ireg R rpos ipos rm), (term_iso rreg II rpos ipos im). reflexivity. Qed.

(* ---------------------------------------------------------------- lengths of the mark lists *)
Lemma term_read_length : forall ireg R rpos ipos rm, length (fst (term_read ireg R rpos ipos rm)) = length R.
Proof.
  induction R as [|r R IH]; intros; cbn [term_read]; [reflexivity|].
  destruct (py_overlaps ireg r).
  - specialize (IH (rpos + 1) ipos 0). destruct (term_read ireg R (rpos + 1) ipos 0). cbn [fst length] in *. congruence.
  - cbn [fst length]. rewrite map_length. reflexivity.
Qed.

Lemma term_iso_length : forall rreg II rpos ipos im, length (fst (term_iso rreg II rpos ipos im)) = length II.
Proof.
  induction II as [|i II IH]; intros; cbn [term_iso]; [reflexivity|].
  destruct (py_overlaps rreg i).
  - specialize (IH rpos (ipos + 1) 0). destruct (term_iso rreg II rpos (ipos + 1) 0). cbn [fst length] in *. congruence.
  - cbn [fst length]. rewrite map_length. reflexivity.
Qed.

Lemma sweep_lengths : forall delta rreg ireg fuel R II rpos ipos rm im cur,
  (length R + length II <= fuel)%nat ->
  length (fst (fst (sweep delta rreg ireg fuel R II rpos ipos rm im cur))) = length R /\
  length (snd (fst (sweep delta rreg ireg fuel R II rpos ipos rm im cur))) = length II.
Proof.
  induction fuel as [|f IH]; intros R II rpos ipos rm im cur Hf.
  - destruct R; [|cbn [length] in Hf; lia]. rewrite sweep_nil_l, terminal_marks_read, terminal_marks_iso.
    rewrite term_read_length, term_iso_length. auto.
  - destruct R as [|r R'].
    { rewrite sweep_nil_l, terminal_marks_read, terminal_marks_iso, term_read_length, term_iso_length. auto. }
    destruct II as [|i I'].
    { rewrite sweep_nil_r, terminal_marks_read, terminal_marks_iso, term_read_length, term_iso_length. auto. }
    rewrite sweep_cons. cbn [length] in Hf.
    repeat match goal with |- context [if ?c then _ else _] =>
      lazymatch c with context [if _ then _ else _] => fail | _ => destruct c end end;
    cbv zeta;
    match goal with |- context [sweep ?d ?a ?b f ?R ?I ?x ?y ?z ?w ?c] =>
      let HH := fresh "HH" in
      assert (HH := IH R I x y z w c); destruct (sweep d a b f R I x y z w c) as [[rp ip] ps];
      cbn [fst snd length] in *; lia end.
Qed.

Corollary phase1_lengths : forall delta rreg ireg R II,
  length (fst (fst (phase1 delta rreg ireg R II))) = length R /\
  length (snd (fst (phase1 delta rreg ireg R II))) = length II.
Proof. intros. unfold phase1. apply sweep_lengths. lia. Qed.

(* ---------------------------------------------------------------- well-formed junction lists *)
Lemma junctions_wf_cons : forall a l,
  junctions_wf (a :: l) =
  (fst a <=? snd a) && match l with [] => true | b :: _ => snd a + 1 <? fst b end && junctions_wf l.
Proof.
  intros a [|b l]; unfold junctions_wf; cbn [forallb combine tl fst snd].
  - rewrite !andb_true_r. reflexivity.
  - destruct (fst a <=? snd a), (fst b <=? snd b), (forallb (fun j : Z * Z => fst j <=? snd j) l), (snd a + 1 <? fst b);
      cbn [andb]; reflexivity.
Qed.

Lemma junctions_wf_tail : forall a l, junctions_wf (a :: l) = true -> junctions_wf l = true.
Proof. intros a l H. rewrite junctions_wf_cons in H. apply andb_true_iff in H. tauto. Qed.

Lemma junctions_wf_ordered : forall l, junctions_wf l = true -> forallb (fun j => fst j <=? snd j) l = true.
Proof. intros l H. unfold junctions_wf in H. apply andb_true_iff in H. tauto. Qed.

(* every later junction starts at least two bases after the end of the head *)
Lemma junctions_wf_later : forall l a k r, junctions_wf (a :: l) = true -> nth_error l k = Some r ->
  snd a + 1 < fst r /\ fst r <= snd r.
Proof.
  induction l as [|b l IH]; intros a k r H Hk; [destruct k; discriminate|].
  rewrite junctions_wf_cons in H. apply andb_true_iff in H. destruct H as [H Hl]. apply andb_true_iff in H. destruct H as [Ha Hab].
  destruct k as [|k]; cbn [nth_error] in Hk.
  - injection Hk as <-. rewrite junctions_wf_cons in Hl. lia.
  - destruct (IH b k r Hl Hk) as [H1 H2]. rewrite junctions_wf_cons in Hl. lia.
Qed.

(* ---------------------------------------------------------------- 1. a delta-chain is swept without contradiction *)
Lemma term_iso_beyond : forall rreg II rpos ipos,
  forallb (fun i => snd rreg <? fst i) II = true ->
  term_iso rreg II rpos ipos 0 = (map (fun _ => 0) II, []).
Proof.
  intros rreg [|i II] rpos ipos H; cbn [term_iso]; [reflexivity|].
  cbn [forallb] in H. replace (py_overlaps rreg i) with false by (unfold py_overlaps; lia). reflexivity.
Qed.

(* Lemma B: the matched chain *)
Lemma sweep_chain : forall delta rreg ireg R II fuel rpos ipos,
  (length R <= fuel)%nat -> chain_eq delta R II = true ->
  forallb (fun i => snd rreg <? fst i) (skipn (length R) II) = true ->
  sweep delta rreg ireg fuel R II rpos ipos 0 0 None =
  (map (fun _ => 1) R, map (fun _ => 1) R ++ map (fun _ => 0) (skipn (length R) II), []).
Proof.
  induction R as [|r R IH]; intros II fuel rpos ipos Hf Hc Hp.
  - rewrite sweep_nil_l. unfold terminal. cbn [term_read length skipn] in *. rewrite term_iso_beyond by assumption. reflexivity.
  - destruct II as [|i II]; [discriminate|]. cbn [chain_eq] in Hc. apply andb_true_iff in Hc. destruct Hc as [He Hc].
    destruct fuel as [|f]; [cbn [length] in Hf; lia|]. cbn [length skipn] in *.
    rewrite sweep_cons, He. rewrite (IH II f (rpos + 1) (ipos + 1)) by (assumption || lia). reflexivity.
Qed.

(* Lemma A: an isoform junction left of the read region is skipped without a mark *)
Lemma sweep_skip_prefix : forall delta rreg ireg f r R' i I' ipos, 0 <= delta ->
  fst i <= snd i -> snd i < fst rreg -> fst rreg + delta <= fst r ->
  sweep delta rreg ireg (Datatypes.S f) (r :: R') (i :: I') 0 ipos 0 0 None =
  let '(rp, ip, ps) := sweep delta rreg ireg f (r :: R') I' 0 (ipos + 1) 0 0 None in (rp, 0 :: ip, ps).
Proof.
  intros. rewrite sweep_cons.
  replace (py_equal_ranges i r delta) with false by (unfold py_equal_ranges; lia).
  replace (py_overlaps i r) with false by (unfold py_overlaps; lia).
  replace (py_left_of i r) with true by (unfold py_left_of; lia).
  replace (py_overlaps rreg i) with false by (unfold py_overlaps; lia).
  cbn [Z.ltb Z.compare orb andb flush app]. reflexivity.
Qed.

Lemma sweep_chain_at : forall delta rreg ireg R, 0 <= delta -> R <> [] -> forall k II fuel ipos,
  (length R + length II <= fuel)%nat ->
  forallb (fun j => fst j <=? snd j) II = true -> chain_at delta rreg R II k = true ->
  sweep delta rreg ireg fuel R II 0 ipos 0 0 None =
  (map (fun _ => 1) R,
   map (fun _ => 0) (firstn k II) ++ map (fun _ => 1) R ++ map (fun _ => 0) (skipn (k + length R) II), []).
Proof.
  intros delta rreg ireg R Hd HR. induction k as [|k IH]; intros II fuel ipos Hf Hord Hc.
  - unfold chain_at in Hc. repeat (apply andb_true_iff in Hc; destruct Hc as [Hc ?]).
    cbn [skipn firstn map app plus] in *. apply sweep_chain; (assumption || lia).
  - destruct R as [|r R']; [congruence|].
    destruct II as [|i I'].
    { unfold chain_at in Hc. cbn [skipn chain_eq andb] in Hc. discriminate. }
    destruct fuel as [|f]; [cbn [length] in Hf; lia|].
    unfold chain_at in Hc. repeat (apply andb_true_iff in Hc; destruct Hc as [Hc ?]).
    cbn [skipn firstn forallb hd length plus] in *.
    repeat match goal with H : _ && _ = true |- _ => apply andb_true_iff in H; destruct H end.
    rewrite sweep_skip_prefix by lia.
    rewrite (IH I' f (ipos + 1)).
    + reflexivity.
    + cbn [length]. lia.
    + assumption.
    + unfold chain_at. cbn [hd length]. repeat (apply andb_true_iff; split); assumption.
Qed.

Theorem chain_phase1 : forall delta rreg ireg R II k, 0 <= delta -> R <> [] -> junctions_wf II = true -> chain_at delta rreg R II k = true ->
  phase1 delta rreg ireg R II =
  (map (fun _ => 1) R, map (fun _ => 0) (firstn k II) ++ map (fun _ => 1) R ++ map (fun _ => 0) (skipn (k + length R) II), []).
Proof.
  intros. unfold phase1. apply sweep_chain_at; auto using junctions_wf_ordered.
Qed.

(* ---------------------------------------------------------------- 2. ... and no event is reported *)
Lemma last_map_const : forall (A:Type) (l:list A) (c:Z), last (map (fun _ => c) l) c = c.
Proof. induction l as [|a l IH]; intros; [reflexivity|]. cbn [map]. destruct l; [reflexivity|]. cbn [map last] in *. apply IH. Qed.

Theorem chain_match_no_contradiction : forall P known rreg R ireg II, 0 <= p_delta P -> R <> [] -> junctions_wf II = true ->
  chain_match (p_delta P) rreg R II = true -> compare_junctions P known rreg R ireg II = [ev0 MES_none_].
Proof.
  intros P known rreg R ireg II Hd HR Hwf Hc.
  unfold chain_match in Hc. apply existsb_exists in Hc. destruct Hc as [k [_ Hk]].
  unfold compare_junctions. destruct R as [|r R']; [congruence|].
  rewrite (chain_phase1 _ _ ireg _ _ k Hd HR Hwf Hk).
  unfold events_of, detect. cbn [flat_map app].
  replace (hd 1 (map (fun _ => 1) (r :: R'))) with 1 by reflexivity.
  rewrite last_map_const. cbn [Z.eqb orb].
  destruct (has_m1 _ || has_m1 _); reflexivity.
Qed.

(* ---------------------------------------------------------------- 3. an unmatched read junction inside the isoform region is marked -1 *)
(* the terminating loop on the read side marks every junction overlapping the isoform region, provided no remaining read
   junction lies left of the region (the loop breaks at the first junction that does not overlap) *)
Lemma term_read_marks : forall ireg R rpos ipos rm k r,
  junctions_wf R = true -> fst ireg <= snd (hd (0,0) R) ->
  nth_error R k = Some r -> py_overlaps ireg r = true ->
  nth k (fst (term_read ireg R rpos ipos rm)) 0 = -1.
Proof.
  induction R as [|r0 R IH]; intros rpos ipos rm k r Hwf Hh Hk Hov; [destruct k; discriminate|].
  cbn [term_read hd] in *. destruct k as [|k]; cbn [nth_error] in Hk.
  - injection Hk as ->. rewrite Hov. destruct (term_read ireg R (rpos + 1) ipos 0). reflexivity.
  - destruct (junctions_wf_later _ _ _ _ Hwf Hk) as [H1 H2].
    destruct (py_overlaps ireg r0) eqn:E0.
    + assert (HH : nth k (fst (term_read ireg R (rpos + 1) ipos 0)) 0 = -1).
      { apply IH with (r := r); auto.
        - eapply junctions_wf_tail; eauto.
        - destruct R as [|r1 R]; [destruct k; discriminate|]. cbn [hd].
          destruct (junctions_wf_later _ _ 0%nat r1 Hwf eq_refl). lia. }
      destruct (term_read ireg R (rpos + 1) ipos 0). cbn [fst nth] in *. exact HH.
    + exfalso. rewrite junctions_wf_cons in Hwf. unfold py_overlaps in *. lia.
Qed.

Ltac sweep_ih IH k r :=
  match goal with |- context [sweep ?d ?a ?b ?f ?R ?I ?x ?y ?z ?w ?c] =>
    let HH := fresh "HH" in
    assert (HH : nth k (fst (fst (sweep d a b f R I x y z w c))) 0 = -1);
    [apply IH with (r := r); auto
    |destruct (sweep d a b f R I x y z w c) as [[?rp ?ip] ?ps]; cbn [fst nth] in *; exact HH] end.

Lemma sweep_marks_unmatched : forall delta rreg ireg, 0 <= delta -> forall fuel R II rpos ipos rm im cur k r,
  (length R + length II <= fuel)%nat ->
  junctions_wf R = true -> forallb (fun j => fst j <=? snd j) II = true -> inside_region ireg II = true ->
  forallb (fun i => delta <=? py_interval_len i) II = true ->
  (II <> [] \/ fst ireg <= snd (hd (0,0) R)) ->
  nth_error R k = Some r -> py_overlaps ireg r = true -> existsb (fun i => py_equal_ranges i r delta) II = false ->
  nth k (fst (fst (sweep delta rreg ireg fuel R II rpos ipos rm im cur))) 0 = -1.
Proof.
  intros delta rreg ireg Hd. induction fuel as [|f IH]; intros R II rpos ipos rm im cur k r Hf Hwf Hord Hin Hlen Hinv Hk Hov Hex;
    (destruct R as [|r0 R']; [destruct k; discriminate|]); (destruct II as [|i I']).
  1,3: rewrite sweep_nil_r, terminal_marks_read; apply term_read_marks with (r := r); auto; destruct Hinv; [congruence|assumption].
  { exfalso. clear - Hf. cbn [length] in Hf. lia. }
  rewrite sweep_cons. clear Hinv.
  assert (Hf1 : (length R' + length (i :: I') <= f)%nat) by (clear - Hf; cbn [length] in *; lia).
  assert (Hf2 : (length (r0 :: R') + length I' <= f)%nat) by (clear - Hf; cbn [length] in *; lia).
  assert (Hf3 : (length R' + length I' <= f)%nat) by (clear - Hf; cbn [length] in *; lia).
  assert (Hne : i :: I' <> [] \/ fst ireg <= snd (hd (0, 0) R')) by (left; discriminate).
  assert (Hord' : forallb (fun j => fst j <=? snd j) I' = true) by (cbn [forallb] in Hord; apply andb_true_iff in Hord; tauto).
  assert (Hin' : inside_region ireg I' = true) by (unfold inside_region in *; cbn [forallb] in Hin; apply andb_true_iff in Hin; tauto).
  assert (Hlen' : forallb (fun i => delta <=? py_interval_len i) I' = true) by (cbn [forallb] in Hlen; apply andb_true_iff in Hlen; tauto).
  assert (Hex' : existsb (fun i => py_equal_ranges i r delta) I' = false) by (cbn [existsb] in Hex; apply orb_false_iff in Hex; tauto).
  assert (Hie : py_equal_ranges i r delta = false) by (cbn [existsb] in Hex; apply orb_false_iff in Hex; tauto).
  assert (Zi : fst i <= snd i /\ fst ireg < fst i /\ snd i < snd ireg /\ delta <= snd i - fst i + 1).
  { clear - Hord Hin Hlen. unfold inside_region, py_interval_len in *. cbn [forallb] in *.
    apply andb_true_iff in Hord; destruct Hord as [Hord _]. apply andb_true_iff in Hin; destruct Hin as [Hin _].
    apply andb_true_iff in Hlen; destruct Hlen as [Hlen _]. lia. }
  assert (Hr0 : fst r0 <= snd r0).
  { clear - Hwf. rewrite junctions_wf_cons in Hwf. apply andb_true_iff in Hwf; destruct Hwf as [Hwf _].
    apply andb_true_iff in Hwf; destruct Hwf as [Hwf _]. lia. }
  assert (Hwf' := junctions_wf_tail _ _ Hwf).
  destruct (py_equal_ranges i r0 delta) eqn:E1.
  { destruct k as [|k]; cbn [nth_error] in Hk; [injection Hk as ->; congruence|].
    sweep_ih IH k r.
    right. destruct (junctions_wf_later _ _ _ _ Hwf Hk) as [H1 H2].
    destruct R' as [|r1 R'']; [destruct k; discriminate|]. cbn [hd].
    destruct (junctions_wf_later _ _ 0%nat r1 Hwf eq_refl) as [H3 H4].
    clear - Hd Zi E1 H3 H4. unfold py_equal_ranges in E1. lia. }
  destruct (py_overlaps i r0) eqn:E2.
  { cbv zeta. destruct (snd r0 <? snd i) eqn:E3.
    - destruct k as [|k]; cbn [nth_error] in Hk.
      + match goal with |- context [sweep ?d ?a ?b f ?R ?I ?x ?y ?z ?w ?c] => destruct (sweep d a b f R I x y z w c) as [[rp ip] ps] end.
        reflexivity.
      + sweep_ih IH k r.
    - sweep_ih IH k r. right. cbn [hd]. clear - Zi E3. lia. }
  destruct (py_left_of i r0) eqn:E4.
  { cbv zeta. sweep_ih IH k r. right. cbn [hd]. clear - Zi Hr0 E4. unfold py_left_of in E4. lia. }
  cbv zeta. destruct k as [|k]; cbn [nth_error] in Hk.
  - injection Hk as ->. rewrite Hov, orb_true_r.
    match goal with |- context [sweep ?d ?a ?b f ?R ?I ?x ?y ?z ?w ?c] => destruct (sweep d a b f R I x y z w c) as [[rp ip] ps] end.
    reflexivity.
  - sweep_ih IH k r.
Qed.

Theorem unmatched_junction_marked : forall delta rreg ireg R II k r, 0 <= delta ->
  junctions_wf R = true -> junctions_wf II = true -> inside_region ireg II = true ->
  forallb (fun i => delta <=? py_interval_len i) II = true ->
  (II <> [] \/ py_overlaps ireg (hd (0,0) R) = true) ->
  nth_error R k = Some r -> py_overlaps ireg r = true -> existsb (fun i => py_equal_ranges i r delta) II = false ->
  nth k (fst (fst (phase1 delta rreg ireg R II))) 0 = -1.
Proof.
  intros delta rreg ireg R II k r Hd HwR HwI Hin Hlen Hinv Hk Hov Hex. unfold phase1.
  apply sweep_marks_unmatched with (r := r); auto using junctions_wf_ordered.
  destruct Hinv as [H|H]; [left; exact H|right]. unfold py_overlaps in H. lia.
Qed.

Print Assumptions sweep_lengths.
Print Assumptions chain_phase1.
Print Assumptions chain_match_no_contradiction.
Print Assumptions unmatched_junction_marked.
