(* C07 — the repaired protocol resumes from every crash point, for EVERY chromosome list: the pipeline as an instance of
   ResumeInvariant.resume_sound.

   Units (with what they read): read-group split; stage 1 of each chromosome (reads its split table under --read_group file:);
   resolve (reads every save file); stage 2 of each chromosome (reads its multimapper file, the info file, its save file).
   Then the _processed locks are dropped (fixes/C07_drop_processed_locks_before_merge.diff), every final file is computed
   from the per-chromosome parts which are then removed (merge_files / merge_counts), and the clean-up removes the locks
   first and then the data files IN ANY ORDER (fixes/C07_cleanup_locks_first.diff; the order of `dl` below is arbitrary,
   as glob's is).  Units write their lock last (fixes/C07_close_before_lock.diff). *)
From Coq Require Import NArith List Bool Lia.
From IQ Require Import Resume ResumeInvariant ResumeProgram.
Import ListNotations. Open Scope N_scope.

Notation punit_ := (ResumeInvariant.punit fname).
Definition want (f:fname) : content := [T f].

Lemma tok_eqb_spec a b : tok_eqb a b = true <-> a = b.
Proof. destruct a, b; cbn; split; intros H; try discriminate; try reflexivity.
  - apply fname_eqb_spec in H. subst; reflexivity.
  - inversion H; subst. apply fname_eqb_refl. Qed.
Lemma toks_eqb_spec a : forall b, toks_eqb a b = true <-> a = b.
Proof. induction a as [|x s IH]; intros [|y t]; cbn; split; intros H; try discriminate; try reflexivity.
  - apply andb_true_iff in H. destruct H as [H1 H2]. apply tok_eqb_spec in H1. apply IH in H2. subst; reflexivity.
  - inversion H; subst. apply andb_true_iff. split; [apply tok_eqb_spec; reflexivity|apply IH; reflexivity]. Qed.

(* ------------------------------------------------------------------ the units, with their reads *)
Definition p_rg (cf:cfg) : punit_ := mkpunit fname [] (map RGPart (rg_parts cf)) RGLock.
Definition p_stage1 (cf:cfg) (c:N) : punit_ := mkpunit fname (if rg_file cf then [RGPart c] else []) [Save c; Groups c; Bamstat c] (Collected c).
Definition p_resolve (cf:cfg) : punit_ := mkpunit fname (map Save (chrs cf)) (map Multi (chrs cf) ++ [Info]) SaveLock.
Definition p_stage2 (cf:cfg) (c:N) : punit_ :=
  mkpunit fname [Multi c; Info; Save c]
          (map (fun k => Part k c) (part_kinds cf) ++ [ReadStat c] ++ (if has_models cf then [TrStat c] else [])) (Processed c).
Definition p_units (cf:cfg) : list punit_ := p_rg cf :: map (p_stage1 cf) (chrs cf) ++ p_resolve cf :: map (p_stage2 cf) (chrs cf).

(* the same units as at the unit level of ResumeProgram.v: same outputs (with content `want`), same lock *)
Lemma p_units_are_pipeline_units cf :
  map (fun u => (map (fun f => (f, want f)) (p_outs fname u), p_lock fname u)) (p_units cf) =
  map (fun u => (outs u, lock u)) (pipeline_units cf).
Proof. unfold p_units, pipeline_units. cbn [map]. f_equal.
  - cbn. rewrite !map_map. reflexivity.
  - rewrite !map_app. cbn [map]. rewrite !map_map. f_equal. f_equal.
    + cbn. rewrite !map_app, !map_map. reflexivity.
    + apply map_ext. intros c. cbn. rewrite !map_app, !map_map. destruct (has_models cf); reflexivity. Qed.

(* what each final file is computed from (and what is then removed) *)
Definition parts_of (cf:cfg) (k:N) : list fname := map (fun c => Part k c) (merge_order cf).
Definition entries_of_step (cf:cfg) (m:mstep) : list (fname * list fname) :=
  match m with
  | MPrinter k => [(Final k, parts_of cf k)]
  | MCounterU cn st tp => [(Final cn, parts_of cf cn ++ map (fun c => Part st c) (chrs cf)); (Final tp, [])]
  | MCounterG cn ln tp => [(Final cn, parts_of cf cn); (Final ln, parts_of cf ln); (Final tp, [])]
  end.
Definition entries_of (cf:cfg) : list (fname * list fname) := flat_map (entries_of_step cf) (merges cf).

Definition p_locks (cf:cfg) : list fname := [RGLock; SaveLock] ++ map Processed (chrs cf) ++ map Collected (chrs cf).
Definition repaired_prog (cf:cfg) (dl:list fname) : pprog fname :=
  mkpprog fname (p_units cf) (map (p_stage2 cf) (chrs cf)) (entries_of cf) (p_locks cf) dl.

(* ------------------------------------------------------------------ decidable side conditions on the layout *)
Fixpoint nodupb (l:list fname) : bool := match l with [] => true | a :: t => negb (existsb (fname_eqb a) t) && nodupb t end.
Lemma existsb_fname a l : existsb (fname_eqb a) l = true <-> In a l.
Proof. rewrite existsb_exists. split; [intros (x & I & E); apply fname_eqb_spec in E; subst; exact I|intros I; exists a; split; [exact I|apply fname_eqb_refl]]. Qed.
Lemma nodupb_spec l : nodupb l = true -> NoDup l.
Proof. induction l as [|a t IH]; intros H; [constructor|]. cbn in H. apply andb_true_iff in H. destruct H as [H1 H2].
  constructor; [|apply IH, H2]. intros I. apply existsb_fname in I. rewrite I in H1. discriminate. Qed.
Definition memN (x:N) (l:list N) : bool := existsb (N.eqb x) l.
Lemma memN_spec x l : memN x l = true <-> In x l.
Proof. unfold memN. rewrite existsb_exists. split; [intros (y & I & E); apply N.eqb_eq in E; subst; exact I|intros I; exists x; split; [exact I|apply N.eqb_refl]]. Qed.
(* every consumed file is a part that stage 2 writes for a chromosome of the run, and is consumed once *)
Definition layout_ok (cf:cfg) : bool :=
  forallb (fun f => match f with Part k c => memN k (part_kinds cf) && memN c (chrs cf) | _ => false end) (flat_map snd (entries_of cf)) &&
  nodupb (flat_map snd (entries_of cf)).
(* under --read_group file: every chromosome has its split table *)
Definition rg_ok (cf:cfg) : bool := negb (rg_file cf) || forallb (fun c => memN c (rg_parts cf)) (chrs cf).

(* ------------------------------------------------------------------ well-formedness, for every chromosome list *)
Definition ptagged (t:tag) (u:punit_) : Prop :=
  (forall g, In g (ufiles fname u) -> owner g = Some t) /\ is_lock (p_lock fname u) = true /\ (forall g, In g (p_outs fname u) -> is_lock g = false).

Lemma in_map_c g (f:N -> fname) l : In g (map f l) -> exists x, In x l /\ g = f x.
Proof. intros H. apply in_map_iff in H. destruct H as (x & E & I). exists x; split; [exact I|symmetry; exact E]. Qed.
Lemma p_rg_tagged cf : ptagged TRG (p_rg cf).
Proof. split; [|split; [reflexivity|]].
  - intros g [<-|H]; [reflexivity|]. apply in_map_c in H. destruct H as (x & _ & ->). reflexivity.
  - intros g H. apply in_map_c in H. destruct H as (x & _ & ->). reflexivity. Qed.
Lemma p_stage1_tagged cf c : ptagged (TS1 c) (p_stage1 cf c).
Proof. split; [|split; [reflexivity|]]; intros g H; cbn in H; repeat (destruct H as [<-|H]; [reflexivity|]); destruct H. Qed.
Lemma p_resolve_tagged cf : ptagged TRes (p_resolve cf).
Proof. split; [|split; [reflexivity|]].
  - intros g [<-|H]; [reflexivity|]. cbn in H. apply in_app_or in H. destruct H as [H|[<-|[]]]; [|reflexivity].
    apply in_map_c in H. destruct H as (x & _ & ->). reflexivity.
  - intros g H. cbn in H. apply in_app_or in H. destruct H as [H|[<-|[]]]; [|reflexivity].
    apply in_map_c in H. destruct H as (x & _ & ->). reflexivity. Qed.
Lemma p_stage2_outs cf c g : In g (p_outs fname (p_stage2 cf c)) -> (exists k, In k (part_kinds cf) /\ g = Part k c) \/ g = ReadStat c \/ g = TrStat c.
Proof. cbn. intros H. apply in_app_or in H. destruct H as [H|H].
  - apply (in_map_c g (fun k => Part k c)) in H. destruct H as (k & I & ->). left; exists k; split; [exact I|reflexivity].
  - destruct H as [<-|H]; [right; left; reflexivity|]. destruct (has_models cf); [destruct H as [<-|[]]; right; right; reflexivity|destruct H]. Qed.
Lemma p_stage2_tagged cf c : ptagged (TS2 c) (p_stage2 cf c).
Proof. split; [|split; [reflexivity|]].
  - intros g [<-|H]; [reflexivity|]. apply p_stage2_outs in H. destruct H as [(k & _ & ->)|[->| ->]]; reflexivity.
  - intros g H. apply p_stage2_outs in H. destruct H as [(k & _ & ->)|[->| ->]]; reflexivity. Qed.

Lemma p_units_tagged cf : Forall2 ptagged (pipeline_tags cf) (p_units cf).
Proof. unfold pipeline_tags, p_units. constructor; [apply p_rg_tagged|]. apply Forall2_app.
  - induction (chrs cf) as [|c l IH]; cbn; constructor; [apply p_stage1_tagged|exact IH].
  - constructor; [apply p_resolve_tagged|]. induction (chrs cf) as [|c l IH]; cbn; constructor; [apply p_stage2_tagged|exact IH]. Qed.

Lemma ptagged_wf : forall ts (us:list punit_), Forall2 ptagged ts us -> NoDup ts ->
  NoDup us /\ (forall u v g, In u us -> In v us -> u <> v -> In g (ufiles fname u) -> In g (ufiles fname v) -> False) /\
  (forall u, In u us -> ~ In (p_lock fname u) (p_outs fname u)) /\ (forall u, In u us -> exists t, In t ts /\ ptagged t u).
Proof. induction 1 as [|t u ts us Ht _ IH]; intros ND.
  - repeat split; [constructor|intros u v g []|intros u []|intros u []].
  - inversion ND as [|? ? Hnt NDt]; subst. destruct (IH NDt) as (I1 & I2 & I3 & I4).
    assert (Hfresh: forall v, In v us -> forall g, In g (ufiles fname u) -> In g (ufiles fname v) -> False).
    { intros v Hv g Gu Gv. destruct (I4 v Hv) as (t' & Ht' & Tv). pose proof (proj1 Ht g Gu) as E1. pose proof (proj1 Tv g Gv) as E2.
      rewrite E1 in E2. inversion E2; subst. contradiction. }
    repeat split.
    + constructor; [|exact I1]. intros Hu. apply (Hfresh u Hu (p_lock fname u)); left; reflexivity.
    + intros a b g [<-|Ha] [<-|Hb] Hab Ga Gb; [apply Hab; reflexivity|exact (Hfresh b Hb g Ga Gb)|exact (Hfresh a Ha g Gb Ga)|exact (I2 a b g Ha Hb Hab Ga Gb)].
    + intros v [<-|Hv]; [|apply I3, Hv]. intros H. destruct Ht as (_ & L1 & L2). rewrite (L2 _ H) in L1. discriminate.
    + intros v [<-|Hv]; [exists t; split; [left; reflexivity|exact Ht]|]. destruct (I4 v Hv) as (t' & Ht' & Tv). exists t'; split; [right; exact Ht'|exact Tv]. Qed.

(* reads only of what earlier units wrote *)
Lemma reads_chain_mono (us:list punit_) : forall seen seen', incl seen seen' -> reads_chain fname seen us -> reads_chain fname seen' us.
Proof. induction us as [|u t IH]; intros seen seen' I H; [exact Logic.I|]. destruct H as [H1 H2]. split.
  - intros f Hf. apply I, H1, Hf.
  - apply (IH (seen ++ p_outs fname u)); [|exact H2]. intros f Hf. apply in_app_or in Hf. apply in_or_app. destruct Hf as [Hf|Hf]; [left; apply I, Hf|right; exact Hf]. Qed.
Lemma reads_chain_indep (us:list punit_) : forall seen, (forall u, In u us -> incl (p_reads fname u) seen) -> reads_chain fname seen us.
Proof. induction us as [|u t IH]; intros seen H; [exact Logic.I|]. split; [apply H; left; reflexivity|].
  apply IH. intros v Hv f Hf. apply in_or_app. left. exact (H v (or_intror Hv) f Hf). Qed.
Lemma reads_chain_app (a:list punit_) : forall b seen, reads_chain fname seen a -> reads_chain fname (seen ++ flat_map (p_outs fname) a) b -> reads_chain fname seen (a ++ b).
Proof. induction a as [|u t IH]; intros b seen Ha Hb; [cbn in Hb; rewrite app_nil_r in Hb; exact Hb|]. destruct Ha as [H1 H2]. split; [exact H1|].
  apply IH; [exact H2|]. cbn [flat_map] in Hb. rewrite app_assoc in Hb. exact Hb. Qed.

Lemma p_units_reads cf : rg_ok cf = true -> reads_chain fname [] (p_units cf).
Proof. intros RG. unfold p_units. split; [intros f []|]. cbn [app p_rg p_outs].
  apply reads_chain_app.
  - apply reads_chain_indep. intros u Hu. apply in_map_iff in Hu. destruct Hu as (c & <- & Hc). cbn. unfold rg_ok in RG.
    destruct (rg_file cf); [|intros f []]. cbn in RG. rewrite forallb_forall in RG. intros f [<-|[]]. apply in_map, memN_spec, RG, Hc.
  - split.
    + cbn. intros f Hf. apply in_map_c in Hf. destruct Hf as (c & Hc & ->). apply in_or_app. right.
      apply in_flat_map. exists (p_stage1 cf c). split; [apply in_map, Hc|left; reflexivity].
    + apply reads_chain_indep. intros u Hu. apply in_map_iff in Hu. destruct Hu as (c & <- & Hc). cbn [p_stage2 p_reads].
      intros f [<-|[<-|[<-|[]]]].
      * apply in_or_app. right. cbn. apply in_or_app. left. apply in_map, Hc.
      * apply in_or_app. right. cbn. apply in_or_app. right. left; reflexivity.
      * apply in_or_app. left. apply in_or_app. right. apply in_flat_map. exists (p_stage1 cf c). split; [apply in_map, Hc|left; reflexivity]. Qed.

Lemma entries_final cf e : In e (entries_of cf) -> exists k, fst e = Final k.
Proof. unfold entries_of. intros H. apply in_flat_map in H. destruct H as (m & _ & H). destruct m; cbn in H;
  repeat (destruct H as [<-|H]; [eexists; reflexivity|]); destruct H. Qed.

Theorem repaired_prog_wf : forall cf dl, NoDup (chrs cf) -> rg_ok cf = true -> layout_ok cf = true ->
  (forall f, In f dl -> exists u, In u (p_units cf) /\ In f (p_outs fname u)) -> wf fname (repaired_prog cf dl).
Proof. intros cf dl ND RG LO DL. destruct (ptagged_wf _ _ (p_units_tagged cf) (pipeline_tags_nodup cf ND)) as (A & B & D & T).
  unfold layout_ok in LO. apply andb_true_iff in LO. destruct LO as [LK LN]. rewrite forallb_forall in LK.
  assert (S2: forall c, In c (chrs cf) -> In (p_stage2 cf c) (p_units cf)).
  { intros c Hc. unfold p_units. right. apply in_or_app. right. right. apply in_map, Hc. }
  constructor; cbn [units dropped entries cl_locks cl_data repaired_prog].
  - exact A.
  - exact B.
  - exact D.
  - exact (p_units_reads cf RG).
  - intros u Hu. apply in_map_iff in Hu. destruct Hu as (c & <- & Hc). apply S2, Hc.
  - intros e f He Hf. assert (I: In f (flat_map snd (entries_of cf))) by (apply in_flat_map; exists e; split; assumption).
    specialize (LK f I). destruct f; try discriminate. apply andb_true_iff in LK. destruct LK as [K1 K2]. apply memN_spec in K1, K2.
    exists (p_stage2 cf c). split; [apply in_map, K2|]. cbn. apply in_or_app. left. apply (in_map (fun k => Part k c)), K1.
  - apply nodupb_spec, LN.
  - intros e u He Hu I. destruct (entries_final cf e He) as (k & Ek). destruct (T u Hu) as (t & _ & Tu). pose proof (proj1 Tu _ I) as O. rewrite Ek in O. discriminate.
  - intros u Hu. unfold p_units in Hu. unfold p_locks. cbn [app]. destruct Hu as [<-|Hu]; [left; reflexivity|]. apply in_app_or in Hu. destruct Hu as [Hu|[<-|Hu]].
    + apply in_map_iff in Hu. destruct Hu as (c & <- & Hc). right. right. apply in_or_app. right. apply (in_map Collected), Hc.
    + right. left. reflexivity.
    + apply in_map_iff in Hu. destruct Hu as (c & <- & Hc). right. right. apply in_or_app. left. apply (in_map Processed), Hc.
  - intros f Hf. unfold p_locks in Hf. cbn [app] in Hf. destruct Hf as [<-|[<-|Hf]].
    + exists (p_rg cf). split; [left; reflexivity|reflexivity].
    + exists (p_resolve cf). split; [right; apply in_or_app; right; left; reflexivity|reflexivity].
    + apply in_app_or in Hf. destruct Hf as [Hf|Hf]; apply in_map_c in Hf; destruct Hf as (c & Hc & ->).
      * exists (p_stage2 cf c). split; [apply S2, Hc|reflexivity].
      * exists (p_stage1 cf c). split; [right; apply in_or_app; left; apply in_map, Hc|reflexivity].
  - exact DL. Qed.

(* ------------------------------------------------------------------ the theorem *)
Definition f_exec := ResumeInvariant.exec fname fname_eqb content toks_eqb want [].
Definition f_crash_state (cf:cfg) (dl:list fname) := crash_state fname fname_eqb content toks_eqb want [] (repaired_prog cf dl).

(* For every configuration and every chromosome list without repetitions, for every order `dl` in which the clean-up removes
   the data files, for every point at which the run is killed - inside a unit with its outputs in any condition, between
   two removals of the merge phase, between two removals of the clean-up, with all final files in any condition - the
   resumed run completes and its final state equals, file by file, that of the uninterrupted run. *)
Theorem resume_any_crash_point : forall cf dl (s0 c:ResumeInvariant.st fname content),
  NoDup (chrs cf) -> rg_ok cf = true -> layout_ok cf = true ->
  (forall f, In f dl -> exists u, In u (p_units cf) /\ In f (p_outs fname u)) ->
  (forall u, In u (p_units cf) -> s0 (p_lock fname u) = None) ->
  f_crash_state cf dl s0 c ->
  exists s' s'', f_exec c (steps fname (repaired_prog cf dl)) = Some s' /\ f_exec s0 (steps fname (repaired_prog cf dl)) = Some s'' /\
                 forall g, s' g = s'' g.
Proof. intros cf dl s0 c ND RG LO DL Fresh CS.
  exact (resume_sound fname fname_eqb fname_eqb_spec content toks_eqb toks_eqb_spec want [] (repaired_prog cf dl)
                      (repaired_prog_wf cf dl ND RG LO DL) s0 c Fresh CS). Qed.

(* the invariant is what the current code breaks: a _processed lock together with a removed part, a save_lock together with
   a removed save file, a _collected lock together with a cut-off save file are not Good *)
Definition f_Good (cf:cfg) (dl:list fname) := Good fname content want [] (repaired_prog cf dl).
Lemma lock_with_bad_output_not_good : forall cf dl (s:ResumeInvariant.st fname content) u f,
  In u (p_units cf) -> In f (p_outs fname u) -> s (p_lock fname u) <> None -> s f <> Some (want f) -> ~ f_Good cf dl s.
Proof. intros cf dl s u f Hu Hf HL Hbad G. destruct (G u Hu) as [L|[_ O]]; [contradiction|]. exact (Hbad (O f Hf)). Qed.
