(* C01: theorems about the executable model of JunctionComparator.compare_junctions (Junctions.v).
   phase 1 well-formedness of the contradictory pairs, coverage of the junctions marked -1,
   phase 2 typing: totality on present read regions, enumeration of the tolerance branches, regions of the events. *)
From Coq Require Import ZArith NArith QArith List Bool Lia ZifyBool.
From IQ Require Import CorrSupport Intervals Junctions.
From IQ.gen Require Import Tables Prims.
Require IQ.Corrector.
Import ListNotations. Open Scope Z_scope.

Definition mem (x:MES) (l:list MES) : bool := existsb (MES_eqb x) l.
Definition ev_major (x:MES) : bool := mem x MES_is_major_inconsistency.

Ltac bsplit := repeat match goal with H : _ && _ = true |- _ => apply andb_true_iff in H; destruct H end.
Ltac bconv := repeat match goal with
  | H : (_ =? _) = true |- _ => apply Z.eqb_eq in H
  | H : (_ <? _) = true |- _ => apply Z.ltb_lt in H
  | H : (_ <=? _) = true |- _ => apply Z.leb_le in H
  | H : (_ =? _) = false |- _ => apply Z.eqb_neq in H
  | H : (_ <? _) = false |- _ => apply Z.ltb_ge in H
  end.
Ltac split_ifs := repeat match goal with |- context[if ?c then _ else _] => destruct c eqn:? end.

(* ================================================================ 3. typing of a pair with a present read part *)
Theorem type_pair_present_some : forall P known rreg R ireg II c, fst (fst c) <> absent ->
  exists e, type_pair P known rreg R ireg II c = Some e /\ e_read e = fst c.
Proof.
  intros P known rreg R ireg II [[ra rb] [ia ib]] H. cbn [fst snd] in H.
  unfold type_pair.
  destruct (ra =? absent) eqn:E; [lia|].
  split_ifs; eexists; split; try reflexivity; reflexivity.
Qed.

Lemma single_alternation_cases : forall P rreg R ireg II rc ic similar rknown,
  ev_major (single_alternation P rreg R ireg II rc ic similar rknown) = true \/
  (single_alternation P rreg R ireg II rc ic similar rknown = MES_intron_shift /\ similar = true /\
   Z.abs (fst (J II ic) - fst (J R rc)) <= p_max_intron_shift P).
Proof.
  intros. unfold single_alternation.
  destruct similar.
  - destruct (Z.abs (fst (J II ic) - fst (J R rc)) <=? p_max_intron_shift P) eqn:E.
    + right. repeat split. lia.
    + left. destruct rknown; reflexivity.
  - left. destruct rknown; split_ifs; reflexivity.
Qed.

Lemma skipped_exons_cases : forall P II ia ib similar rknown sb t,
  skipped_exons P II ia ib similar rknown sb = Some t ->
  ev_major t = true \/
  (t = MES_exon_misalignment /\ similar = true /\
   zsum (map (fun k => fst (J II (k + 1)) - snd (J II k) + 1) (zrange ia ib)) <= p_max_missed_exon_len P).
Proof.
  intros until t. unfold skipped_exons. cbv zeta.
  destruct similar.
  - intro H; injection H as <-.
    match goal with |- context[if ?c then _ else _] => destruct c eqn:E end.
    + right. repeat split. lia.
    + left. destruct rknown; reflexivity.
  - destruct sb; [|discriminate]. intro H; injection H as <-. left. destruct rknown; reflexivity.
Qed.

Definition similar_of (P:params) (R II:list iv) (ra rb ia ib:Z) : bool :=
  similar_len P (Z.abs (total (seg R ra rb) - total (seg II ia ib))) (total (seg R ra rb)) (total (seg II ia ib)).
Definition surrounded_of (rreg:iv) (R:list iv) (ireg:iv) (II:list iv) (ra rb ia ib:Z) : bool :=
  py_overlaps (exon rreg R ra) (exon ireg II ia) && py_overlaps (exon rreg R (rb + 1)) (exon ireg II (ib + 1)).

Lemma both_present_cases : forall P known rreg R ireg II ra rb ia ib,
  ev_major (both_present P known rreg R ireg II ra rb ia ib) = true \/
  (both_present P known rreg R ireg II ra rb ia ib = MES_intron_shift /\ rb = ra /\ ib = ia /\
   Z.abs (fst (J II ia) - fst (J R ra)) <= p_max_intron_shift P /\
   similar_of P R II ra rb ia ib = true /\ surrounded_of rreg R ireg II ra rb ia ib = true) \/
  (both_present P known rreg R ireg II ra rb ia ib = MES_exon_misalignment /\ rb = ra /\ ia < ib /\
   similar_of P R II ra rb ia ib = true /\ surrounded_of rreg R ireg II ra rb ia ib = true /\
   zsum (map (fun k => fst (J II (k + 1)) - snd (J II k) + 1) (zrange ia ib)) <= p_max_missed_exon_len P /\
   py_contains_approx (fst (J II ia), snd (J II ib)) (fst (J R ra), snd (J R rb)) (p_delta P) = true) \/
  (both_present P known rreg R ireg II ra rb ia ib = MES_terminal_exon_misalignment_left /\ rb = ra /\ ib = ia /\ ra = 0 /\ ia = 0 /\
   1 < lenz R /\ Z.abs (snd (J R rb) - snd (J II ib)) <= 2 * p_delta P /\
   Z.abs (py_interval_len (exon rreg R 0) - py_interval_len (exon ireg II 0)) < 2 * p_delta P) \/
  (both_present P known rreg R ireg II ra rb ia ib = MES_terminal_exon_misalignment_right /\ rb = ra /\ ib = ia /\
   ra = lenz R - 1 /\ ia = lenz II - 1 /\
   1 < lenz R /\ Z.abs (fst (J R ra) - fst (J II ia)) <= 2 * p_delta P /\
   Z.abs (py_interval_len (exon rreg R (lenz R)) - py_interval_len (exon ireg II (lenz II))) < 2 * p_delta P).
Proof.
  intros. unfold both_present, similar_of, surrounded_of. cbv zeta.
  set (rknown := known (seg R ra rb)).
  set (similar := similar_len P _ _ _).
  set (surr := py_overlaps (exon rreg R ra) (exon ireg II ia) && py_overlaps _ _).
  match goal with |- context[if ?c then Some (single_alternation _ _ _ _ _ _ _ _ _) else _] => destruct c eqn:G1 end.
  { cbv iota.
    destruct (single_alternation_cases P rreg R ireg II ra ia similar rknown) as [H|[H1 [H2 H3]]].
    - left; exact H.
    - right; left. rewrite H1. bsplit. bconv. repeat split; assumption. }
  clear G1.
  match goal with |- context[match (if ?c then _ else _) with Some _ => _ | None => _ end] => destruct c eqn:G2 end.
  { destruct ((ra =? 0) && (ia =? 0)) eqn:G2a; cbv beta iota;
    match goal with |- context[if (?c <? ?d) then _ else _] => destruct (c <? d) eqn:G2b end.
    - bsplit. bconv. subst ra ia. cbn [Z.eqb]. right; right; right; left.
      match goal with H : _ || _ = true |- _ => apply orb_true_iff in H; destruct H as [H|H]; bsplit; bconv end;
        repeat split; first [assumption | lia].
    - left. destruct rknown; reflexivity.
    - bsplit. bconv.
      match goal with H : _ || _ = true |- _ => apply orb_true_iff in H; destruct H as [H|H]; bsplit; bconv end.
      + discriminate.
      + destruct (ra =? 0) eqn:G2c; [bconv; lia|]. right; right; right; right.
        repeat split; first [assumption | lia].
    - left. destruct rknown; reflexivity. }
  clear G2.
  match goal with |- context[match (if ?c then _ else _) with Some _ => _ | None => _ end] => destruct c eqn:G3 end.
  { left. cbv iota. destruct rknown; reflexivity. }
  clear G3.
  match goal with |- context[match (if ?c then _ else _) with Some _ => _ | None => _ end] => destruct c eqn:G4 end.
  { match goal with |- context[skipped_exons ?a ?b ?c ?d ?e ?f ?g] =>
      pose proof (skipped_exons_cases a b c d e f g) as HS; destruct (skipped_exons a b c d e f g) as [t|] end.
    - destruct (HS t eq_refl) as [H|[H1 [H2 H3]]]; [left; exact H|].
      right; right; left. subst t. bsplit. bconv. repeat split; assumption.
    - left. destruct rknown; [reflexivity|]. split_ifs; reflexivity. }
  clear G4.
  match goal with |- context[match (if ?c then _ else _) with Some _ => _ | None => _ end] => destruct c eqn:G5 end.
  { left. cbv iota. destruct rknown; [reflexivity|]. split_ifs; reflexivity. }
  match goal with |- context[match (if ?c then _ else _) with Some _ => _ | None => _ end] => destruct c eqn:G6 end.
  { left. cbv iota. destruct rknown; reflexivity. }
  left. destruct rknown; [reflexivity|]. split_ifs; reflexivity.
Qed.

(* the enumeration with the guards of the code on branches 4-7 *)
Theorem type_pair_tolerances_strong : forall P known rreg R ireg II ra rb ia ib e, ra <> absent ->
  type_pair P known rreg R ireg II ((ra, rb), (ia, ib)) = Some e ->
  ev_major (e_type e) = true \/
  (e_type e = MES_none_ /\ ia = absent /\ suspicious P rreg R ra rb = true /\ known (seg R ra rb) = false) \/
  (e_type e = MES_fake_terminal_exon_left /\ ia = absent /\ ra = 0 /\ py_interval_len (exon rreg R 0) <= p_max_fake_terminal_exon_len P /\
   known (seg R ra rb) = false) \/
  (e_type e = MES_fake_terminal_exon_right /\ ia = absent /\ rb = lenz R - 1 /\ py_interval_len (exon rreg R (lenz R)) <= p_max_fake_terminal_exon_len P /\
   known (seg R ra rb) = false) \/
  (e_type e = MES_intron_shift /\ rb = ra /\ ib = ia /\ Z.abs (fst (J II ia) - fst (J R ra)) <= p_max_intron_shift P /\
   similar_of P R II ra rb ia ib = true /\ surrounded_of rreg R ireg II ra rb ia ib = true) \/
  (e_type e = MES_exon_misalignment /\ rb = ra /\ ia < ib /\
   similar_of P R II ra rb ia ib = true /\ surrounded_of rreg R ireg II ra rb ia ib = true /\
   zsum (map (fun k => fst (J II (k + 1)) - snd (J II k) + 1) (zrange ia ib)) <= p_max_missed_exon_len P /\
   py_contains_approx (fst (J II ia), snd (J II ib)) (fst (J R ra), snd (J R rb)) (p_delta P) = true) \/
  (e_type e = MES_terminal_exon_misalignment_left /\ rb = ra /\ ib = ia /\ ra = 0 /\ ia = 0 /\
   1 < lenz R /\ Z.abs (snd (J R rb) - snd (J II ib)) <= 2 * p_delta P /\
   Z.abs (py_interval_len (exon rreg R 0) - py_interval_len (exon ireg II 0)) < 2 * p_delta P) \/
  (e_type e = MES_terminal_exon_misalignment_right /\ rb = ra /\ ib = ia /\ ra = lenz R - 1 /\ ia = lenz II - 1 /\
   1 < lenz R /\ Z.abs (fst (J R ra) - fst (J II ia)) <= 2 * p_delta P /\
   Z.abs (py_interval_len (exon rreg R (lenz R)) - py_interval_len (exon ireg II (lenz II))) < 2 * p_delta P).
Proof.
  intros P known rreg R ireg II ra rb ia ib e Hra. unfold type_pair.
  destruct (ra =? absent) eqn:E; [lia|].
  destruct (ia =? absent) eqn:Ei.
  - destruct (known (seg R ra rb)); [intro H; injection H as <-; left; reflexivity|].
    destruct (suspicious P rreg R ra rb) eqn:Es.
    { intro H; injection H as <-. right; left. repeat split; lia. }
    match goal with |- context[if ?c then _ else _] => destruct c eqn:G1 end.
    { intro H; injection H as <-. right; right; left. cbn [e_type]. repeat split; lia. }
    match goal with |- context[if ?c then _ else _] => destruct c eqn:G2 end.
    { intro H; injection H as <-. right; right; right; left. cbn [e_type]. repeat split; lia. }
    intro H; injection H as <-; left; reflexivity.
  - intro H; injection H as <-. cbn [e_type].
    destruct (both_present_cases P known rreg R ireg II ra rb ia ib) as [H|[H|[H|[H|H]]]]; tauto.
Qed.

Theorem type_pair_tolerances : forall P known rreg R ireg II ra rb ia ib e, ra <> absent ->
  type_pair P known rreg R ireg II ((ra, rb), (ia, ib)) = Some e ->
  ev_major (e_type e) = true \/
  (* 1 suspicious short intron, treated as a deletion *)
  (e_type e = MES_none_ /\ ia = absent /\ suspicious P rreg R ra rb = true) \/
  (* 2,3 extra intron next to a short terminal exon *)
  (e_type e = MES_fake_terminal_exon_left /\ ia = absent /\ ra = 0 /\ py_interval_len (exon rreg R 0) <= p_max_fake_terminal_exon_len P) \/
  (e_type e = MES_fake_terminal_exon_right /\ ia = absent /\ rb = lenz R - 1 /\ py_interval_len (exon rreg R (lenz R)) <= p_max_fake_terminal_exon_len P) \/
  (* 4 intron shift: one read intron against one isoform intron of similar length, start moved by at most max_intron_shift *)
  (e_type e = MES_intron_shift /\ rb = ra /\ ib = ia /\ Z.abs (fst (J II ia) - fst (J R ra)) <= p_max_intron_shift P) \/
  (* 5 exon misalignment: one read intron spanning several isoform introns, skipped exons short *)
  (e_type e = MES_exon_misalignment /\ rb = ra /\ ia < ib) \/
  (* 6,7 terminal exon misalignment *)
  (e_type e = MES_terminal_exon_misalignment_left /\ rb = ra /\ ib = ia /\ ra = 0 /\ ia = 0) \/
  (e_type e = MES_terminal_exon_misalignment_right /\ rb = ra /\ ib = ia /\ ra = lenz R - 1 /\ ia = lenz II - 1).
Proof.
  intros P known rreg R ireg II ra rb ia ib e Hra H.
  destruct (type_pair_tolerances_strong P known rreg R ireg II ra rb ia ib e Hra H) as [H0|[H0|[H0|[H0|[H0|[H0|[H0|H0]]]]]]]; tauto.
Qed.

(* ================================================================ 1. positions in the pairs of phase 1 are in range *)
Definition rpair_ok (nR nI:Z) (c:cpair) : bool :=
  let '((ra, rb), (ia, ib)) := c in
  (if ra =? absent then (0 <=? rb) && (rb <=? nR) else (0 <=? ra) && (ra <=? rb) && (rb <? nR)) &&
  (if ia =? absent then (0 <=? ib) && (ib <=? nI) else (0 <=? ia) && (ia <=? ib) && (ib <? nI)) &&
  negb ((ra =? absent) && (ia =? absent)).

Lemma lenz_cons : forall A (x:A) l, lenz (x :: l) = 1 + lenz l.
Proof. intros. unfold lenz. cbn [length]. lia. Qed.
Lemma lenz_nonneg : forall A (l:list A), 0 <= lenz l.
Proof. intros. unfold lenz. lia. Qed.

Lemma rpair_ok_read : forall nR nI p q, nR < absent -> 0 <= p < nR -> 0 <= q <= nI ->
  rpair_ok nR nI ((p, p), (absent, q)) = true.
Proof.
  intros. unfold rpair_ok. rewrite (Z.eqb_refl absent).
  destruct (p =? absent) eqn:E; lia.
Qed.
Lemma rpair_ok_iso : forall nR nI p q, nI < absent -> 0 <= p <= nR -> 0 <= q < nI ->
  rpair_ok nR nI ((absent, p), (q, q)) = true.
Proof.
  intros. unfold rpair_ok. rewrite (Z.eqb_refl absent).
  destruct (q =? absent) eqn:E; lia.
Qed.
Lemma rpair_ok_both : forall nR nI a b c d, nR < absent -> nI < absent -> 0 <= a <= b -> b < nR -> 0 <= c <= d -> d < nI ->
  rpair_ok nR nI ((a, b), (c, d)) = true.
Proof.
  intros. unfold rpair_ok.
  destruct (a =? absent) eqn:E; destruct (c =? absent) eqn:E'; lia.
Qed.

Definition cur_ok (nR nI rpos ipos:Z) (cur:option cpair) : Prop :=
  match cur with
  | None => True
  | Some c => 0 <= fst (fst c) <= snd (fst c) /\ snd (fst c) <= rpos /\ snd (fst c) < nR /\
              0 <= fst (snd c) <= snd (snd c) /\ snd (snd c) <= ipos /\ snd (snd c) < nI
  end.

Lemma flush_wf : forall nR nI rpos ipos cur, nR < absent -> nI < absent -> cur_ok nR nI rpos ipos cur ->
  forallb (rpair_ok nR nI) (flush cur) = true.
Proof.
  intros nR nI rpos ipos [[[a b] [c d]]|] HR HI H; [|reflexivity].
  cbn [cur_ok fst snd] in H. cbn [flush forallb]. rewrite rpair_ok_both by lia. reflexivity.
Qed.

Lemma term_read_wf : forall ireg nR nI R rpos ipos rm, nR < absent -> 0 <= rpos -> rpos + lenz R = nR -> 0 <= ipos <= nI ->
  forallb (rpair_ok nR nI) (snd (term_read ireg R rpos ipos rm)) = true.
Proof.
  intros ireg nR nI R. induction R as [|r R' IH]; intros rpos ipos rm HR H0 HL Hi; [reflexivity|].
  rewrite lenz_cons in HL. pose proof (lenz_nonneg _ R').
  cbn [term_read]. destruct (py_overlaps ireg r); [|reflexivity].
  specialize (IH (rpos + 1) ipos 0 HR ltac:(lia) ltac:(lia) Hi).
  destruct (term_read ireg R' (rpos + 1) ipos 0) as [rp ps]. cbn [snd] in *.
  rewrite forallb_app, IH. destruct (rm =? -1); [reflexivity|].
  cbn [forallb]. rewrite rpair_ok_read by lia. reflexivity.
Qed.
Lemma term_iso_wf : forall rreg nR nI Is rpos ipos im, nI < absent -> 0 <= ipos -> ipos + lenz Is = nI -> 0 <= rpos <= nR ->
  forallb (rpair_ok nR nI) (snd (term_iso rreg Is rpos ipos im)) = true.
Proof.
  intros rreg nR nI Is. induction Is as [|i I' IH]; intros rpos ipos im HI H0 HL Hr; [reflexivity|].
  rewrite lenz_cons in HL. pose proof (lenz_nonneg _ I').
  cbn [term_iso]. destruct (py_overlaps rreg i); [|reflexivity].
  specialize (IH rpos (ipos + 1) 0 HI ltac:(lia) ltac:(lia) Hr).
  destruct (term_iso rreg I' rpos (ipos + 1) 0) as [ip ps]. cbn [snd] in *.
  rewrite forallb_app, IH. destruct (im =? -1); [reflexivity|].
  cbn [forallb]. rewrite rpair_ok_iso by lia. reflexivity.
Qed.
Lemma terminal_wf : forall rreg ireg nR nI R Is rpos ipos rm im cur, nR < absent -> nI < absent ->
  0 <= rpos -> 0 <= ipos -> rpos + lenz R = nR -> ipos + lenz Is = nI -> cur_ok nR nI rpos ipos cur ->
  forallb (rpair_ok nR nI) (snd (terminal rreg ireg R Is rpos ipos rm im cur)) = true.
Proof.
  intros. unfold terminal.
  pose proof (lenz_nonneg _ R). pose proof (lenz_nonneg _ Is).
  pose proof (term_read_wf ireg nR nI R rpos ipos rm ltac:(lia) ltac:(lia) ltac:(lia) ltac:(lia)) as H1r.
  pose proof (term_iso_wf rreg nR nI Is rpos ipos im ltac:(lia) ltac:(lia) ltac:(lia) ltac:(lia)) as H1i.
  destruct (term_read ireg R rpos ipos rm) as [rp ps1]. destruct (term_iso rreg Is rpos ipos im) as [ip ps2].
  cbn [snd] in *. rewrite !forallb_app, H1r, H1i, (flush_wf nR nI rpos ipos) by assumption. reflexivity.
Qed.

Theorem sweep_pairs_wf : forall delta rreg ireg nR nI fuel R Is rpos ipos rm im cur, nR < absent -> nI < absent ->
  0 <= rpos -> 0 <= ipos -> rpos + lenz R = nR -> ipos + lenz Is = nI -> cur_ok nR nI rpos ipos cur ->
  forallb (rpair_ok nR nI) (snd (sweep delta rreg ireg fuel R Is rpos ipos rm im cur)) = true.
Proof.
  intros delta rreg ireg nR nI fuel. induction fuel as [|f IH]; intros R Is rpos ipos rm im cur HR HI H0r H0i HLr HLi Hc.
  - destruct R as [|r R']; [|destruct Is as [|i I']]; cbn [sweep]; try reflexivity; apply terminal_wf; assumption.
  - destruct R as [|r R']; [|destruct Is as [|i I']]; cbn [sweep]; try (apply terminal_wf; assumption).
    pose proof (lenz_nonneg _ R'). pose proof (lenz_nonneg _ I').
    pose proof HLr as HLr'. pose proof HLi as HLi'. rewrite lenz_cons in HLr', HLi'.
    pose proof (flush_wf nR nI rpos ipos cur HR HI Hc) as Hf.
    destruct (py_equal_ranges i r delta).
    { specialize (IH R' I' (rpos + 1) (ipos + 1) 0 0 None HR HI ltac:(lia) ltac:(lia) ltac:(lia) ltac:(lia) I).
      destruct (sweep delta rreg ireg f R' I' (rpos + 1) (ipos + 1) 0 0 None) as [[rp ip] ps]. cbn [snd] in *.
      rewrite forallb_app, Hf, IH. reflexivity. }
    destruct (py_overlaps i r).
    { assert (Hc' : forall rpos' ipos', rpos <= rpos' -> ipos <= ipos' ->
               cur_ok nR nI rpos' ipos' (Some match cur with
                    | None => ((rpos, rpos), (ipos, ipos))
                    | Some c => ((fst (fst c), rpos), (fst (snd c), ipos)) end)).
      { intros. destruct cur as [[[a b] [c d]]|]; cbn [cur_ok fst snd] in *; lia. }
      destruct (snd r <? snd i).
      - specialize (IH R' (i :: I') (rpos + 1) ipos 0 (-1) _ HR HI ltac:(lia) ltac:(lia) ltac:(lia) ltac:(lia)
                       (Hc' (rpos + 1) ipos ltac:(lia) ltac:(lia))).
        match goal with |- context[sweep ?a ?b ?c ?d ?e ?g ?h ?k ?l ?m ?n] => destruct (sweep a b c d e g h k l m n) as [[rp ip] ps] end.
        exact IH.
      - specialize (IH (r :: R') I' rpos (ipos + 1) (-1) 0 _ HR HI ltac:(lia) ltac:(lia) ltac:(lia) ltac:(lia)
                       (Hc' rpos (ipos + 1) ltac:(lia) ltac:(lia))).
        match goal with |- context[sweep ?a ?b ?c ?d ?e ?g ?h ?k ?l ?m ?n] => destruct (sweep a b c d e g h k l m n) as [[rp ip] ps] end.
        exact IH. }
    destruct (py_left_of i r).
    { specialize (IH (r :: R') I' rpos (ipos + 1) rm 0 None HR HI ltac:(lia) ltac:(lia) ltac:(lia) ltac:(lia) I).
      cbv zeta.
      destruct (sweep delta rreg ireg f (r :: R') I' rpos (ipos + 1) rm 0 None) as [[rp ip] ps]. cbn [snd] in *.
      rewrite !forallb_app, Hf, IH.
      destruct (((0 <? rpos) || py_overlaps rreg i) && negb (im =? -1)); [|reflexivity].
      cbn [forallb]. rewrite rpair_ok_iso by lia. reflexivity. }
    specialize (IH R' (i :: I') (rpos + 1) ipos 0 im None HR HI ltac:(lia) ltac:(lia) ltac:(lia) ltac:(lia) I).
    cbv zeta.
    destruct (sweep delta rreg ireg f R' (i :: I') (rpos + 1) ipos 0 im None) as [[rp ip] ps]. cbn [snd] in *.
    rewrite !forallb_app, Hf, IH.
    destruct (((0 <? ipos) || py_overlaps ireg r) && negb (rm =? -1)); [|reflexivity].
    cbn [forallb]. rewrite rpair_ok_read by lia. reflexivity.
Qed.

Theorem phase1_pairs_wf : forall delta rreg ireg R II, (lenz R < absent) -> (lenz II < absent) ->
  forallb (rpair_ok (lenz R) (lenz II)) (snd (phase1 delta rreg ireg R II)) = true.
Proof.
  intros. unfold phase1. apply sweep_pairs_wf; try assumption; try lia. exact I.
Qed.

(* ================================================================ lengths of the mark lists *)
Lemma term_read_length : forall ireg R rpos ipos rm, length (fst (term_read ireg R rpos ipos rm)) = length R.
Proof.
  intros ireg R. induction R as [|r R' IH]; intros; [reflexivity|].
  cbn [term_read]. destruct (py_overlaps ireg r).
  - specialize (IH (rpos + 1) ipos 0). destruct (term_read ireg R' (rpos + 1) ipos 0) as [rp ps].
    cbn [fst length] in *. congruence.
  - cbn [fst length]. rewrite map_length. reflexivity.
Qed.

Lemma terminal_rp : forall rreg ireg R Is rpos ipos rm im cur,
  fst (fst (terminal rreg ireg R Is rpos ipos rm im cur)) = fst (term_read ireg R rpos ipos rm).
Proof.
  intros. unfold terminal. destruct (term_read ireg R rpos ipos rm). destruct (term_iso rreg Is rpos ipos im). reflexivity.
Qed.

Lemma sweep_length_rp : forall delta rreg ireg fuel R Is rpos ipos rm im cur, (length R + length Is <= fuel)%nat ->
  length (fst (fst (sweep delta rreg ireg fuel R Is rpos ipos rm im cur))) = length R.
Proof.
  intros delta rreg ireg fuel. induction fuel as [|f IH]; intros R Is rpos ipos rm im cur Hf.
  - destruct R as [|r R']; [|destruct Is as [|i I']]; cbn [sweep]; try (rewrite terminal_rp; apply term_read_length).
    cbn [length] in Hf. lia.
  - destruct R as [|r R']; [|destruct Is as [|i I']]; cbn [sweep]; try (rewrite terminal_rp; apply term_read_length).
    cbn [length] in Hf. cbv zeta.
    destruct (py_equal_ranges i r delta); [|destruct (py_overlaps i r); [destruct (snd r <? snd i)|destruct (py_left_of i r)]];
    match goal with |- context[sweep ?a ?b ?c ?d ?e ?g ?h ?k ?l ?m ?n] =>
      pose proof (IH e g h k l m n) as IH'; destruct (sweep a b c d e g h k l m n) as [[rp ip] ps] end;
    cbn [fst length] in *; rewrite ?IH' by lia; try reflexivity; apply IH'; lia.
Qed.

Lemma phase1_length_rp : forall delta rreg ireg R II, length (fst (fst (phase1 delta rreg ireg R II))) = length R.
Proof. intros. unfold phase1. apply sweep_length_rp. lia. Qed.

(* ================================================================ 4. regions of the events *)
Definition ev_ok (nR nI:Z) (e:event) : bool := read_region_ok nR (e_read e) && iso_region_ok nI (e_iso e).
Lemma regions_ok_forallb : forall nR nI evs, regions_ok nR nI evs = forallb (ev_ok nR nI) evs.
Proof. reflexivity. Qed.

Lemma iso_ok_left : forall n, iso_region_ok n extra_left_region = true.
Proof. reflexivity. Qed.
Lemma iso_ok_right : forall n, iso_region_ok n extra_right_region = true.
Proof. reflexivity. Qed.
Lemma ev0_ok : forall nR nI t, ev_ok nR nI (ev0 t) = true.
Proof. reflexivity. Qed.

Lemma pair_regions_ok : forall nR nI ra rb ia ib, rpair_ok nR nI ((ra, rb), (ia, ib)) = true ->
  read_region_ok nR (ra, rb) = true /\ iso_region_ok nI (ia, ib) = true.
Proof.
  intros nR nI ra rb ia ib. unfold rpair_ok, read_region_ok, iso_region_ok. cbn [fst snd].
  intro H. apply andb_true_iff in H. destruct H as [H _]. apply andb_true_iff in H. destruct H as [H1 H2].
  rewrite H1, H2, !orb_true_r. split; reflexivity.
Qed.

Lemma read_ok_pos : forall nR p, nR < absent -> 0 <= p < nR -> read_region_ok nR (p, p) = true.
Proof.
  intros. unfold read_region_ok. cbn [fst snd]. destruct (p =? absent) eqn:E; [lia|].
  apply orb_true_iff; right. lia.
Qed.

Lemma type_pair_regions : forall P known rreg R ireg II nR nI c e, rpair_ok nR nI c = true ->
  type_pair P known rreg R ireg II c = Some e -> ev_ok nR nI e = true.
Proof.
  intros P known rreg R ireg II nR nI [[ra rb] [ia ib]] e H. apply pair_regions_ok in H. destruct H as [Hr Hi].
  unfold type_pair. split_ifs; intro HH; try discriminate; injection HH as <-; unfold ev_ok; cbn [Corrector.e_read Corrector.e_iso];
  rewrite ?Hr, ?Hi, ?iso_ok_left, ?iso_ok_right; reflexivity.
Qed.

Lemma detect_ok : forall P known rreg R ireg II nR nI ps, forallb (rpair_ok nR nI) ps = true ->
  regions_ok nR nI (detect P known rreg R ireg II ps) = true.
Proof.
  intros P known rreg R ireg II nR nI ps. rewrite regions_ok_forallb. unfold detect.
  induction ps as [|c ps IH]; [reflexivity|]. cbn [forallb flat_map]. intro H. apply andb_true_iff in H. destruct H as [Hc Hps].
  rewrite forallb_app, (IH Hps), andb_true_r.
  destruct (type_pair P known rreg R ireg II c) as [e|] eqn:E; [|reflexivity].
  cbn [forallb]. rewrite (type_pair_regions _ _ _ _ _ _ _ _ _ _ Hc E). reflexivity.
Qed.

Lemma flank_left_ok : forall nR nI rp pos, nR < absent -> 0 <= pos -> pos + lenz rp <= nR ->
  forallb (ev_ok nR nI) (flank_left pos rp) = true.
Proof.
  intros nR nI rp. induction rp as [|v t IH]; intros pos HR H0 HL; [reflexivity|].
  rewrite lenz_cons in HL. pose proof (lenz_nonneg _ t).
  cbn [flank_left]. destruct (v =? 0); [|reflexivity].
  cbn [forallb]. rewrite IH by lia. unfold ev_ok. cbn [Corrector.e_read Corrector.e_iso].
  rewrite read_ok_pos, iso_ok_left by lia. reflexivity.
Qed.
Lemma flank_right_ok : forall nR nI rrp pos, nR < absent -> pos < nR -> 0 <= pos - lenz rrp + 1 ->
  forallb (ev_ok nR nI) (flank_right pos rrp) = true.
Proof.
  intros nR nI rrp. induction rrp as [|v t IH]; intros pos HR H0 HL; [reflexivity|].
  rewrite lenz_cons in HL. pose proof (lenz_nonneg _ t).
  cbn [flank_right]. destruct (v =? 0); [|reflexivity].
  cbn [forallb]. rewrite IH by lia. unfold ev_ok. cbn [Corrector.e_read Corrector.e_iso].
  rewrite read_ok_pos, iso_ok_right by lia. reflexivity.
Qed.

Lemma lenz_tl : forall A (l:list A), lenz (tl l) = Z.max 0 (lenz l - 1).
Proof. intros A [|x l]; [reflexivity|]. cbn [tl]. rewrite lenz_cons. pose proof (lenz_nonneg _ l). lia. Qed.
Lemma lenz_rev : forall A (l:list A), lenz (rev l) = lenz l.
Proof. intros. unfold lenz. rewrite rev_length. reflexivity. Qed.

Lemma extra_out_ok : forall P rreg R ireg nI rp, lenz R < absent -> 0 < lenz R -> lenz rp = lenz R ->
  forallb (ev_ok (lenz R) nI) (extra_out P rreg R ireg rp) = true.
Proof.
  intros P rreg R ireg nI rp HR Hpos HL. unfold extra_out. cbv zeta.
  rewrite forallb_app. apply andb_true_iff. split.
  - split_ifs; try reflexivity.
    + cbn [forallb]. rewrite flank_left_ok; try lia.
      * unfold ev_ok. cbn [Corrector.e_read Corrector.e_iso]. rewrite read_ok_pos, iso_ok_left by lia. reflexivity.
      * rewrite lenz_tl. lia.
    + apply flank_left_ok; lia.
  - split_ifs; try reflexivity.
    + cbn [forallb]. rewrite flank_right_ok; try lia.
      * unfold ev_ok. cbn [Corrector.e_read Corrector.e_iso]. rewrite read_ok_pos, iso_ok_right by lia. reflexivity.
      * rewrite lenz_tl, lenz_rev. lia.
    + apply flank_right_ok; try lia. rewrite lenz_rev. lia.
Qed.

Lemma mono_events_ok : forall P rreg nI l k, nI < absent -> 0 <= k -> k + lenz l = nI ->
  forallb (ev_ok 0 nI) (mono_events P rreg k l) = true.
Proof.
  intros P rreg nI l. induction l as [|i t IH]; intros k HI H0 HL; [reflexivity|].
  rewrite lenz_cons in HL. pose proof (lenz_nonneg _ t).
  cbn [mono_events]. rewrite forallb_app, IH by lia. rewrite andb_true_r.
  assert (Hk : ev_ok 0 nI (mkev MES_none_ (k, k) (absent, 0)) = true).
  { unfold ev_ok, read_region_ok, iso_region_ok. cbn [Corrector.e_read Corrector.e_iso fst snd].
    rewrite (Z.eqb_refl absent). destruct (k =? absent) eqn:E; [lia|].
    apply andb_true_iff; split; apply orb_true_iff; right; lia. }
  unfold ev_ok in *. cbn [Corrector.e_read Corrector.e_iso] in *.
  split_ifs; cbn [forallb Corrector.e_read Corrector.e_iso]; rewrite ?Hk; reflexivity.
Qed.

Lemma events_of_ok : forall P known rreg R ireg II ph, lenz R < absent -> 0 < lenz R ->
  lenz (fst (fst ph)) = lenz R -> forallb (rpair_ok (lenz R) (lenz II)) (snd ph) = true ->
  regions_ok (lenz R) (lenz II) (events_of P known rreg R ireg II ph) = true.
Proof.
  intros P known rreg R ireg II [[rp ip] ps] HR Hpos HL Hps. cbn [fst snd] in *.
  rewrite regions_ok_forallb. unfold events_of. cbv zeta.
  set (ev1 := if has_m1 rp || has_m1 ip then detect P known rreg R ireg II ps else []).
  assert (H1 : forallb (ev_ok (lenz R) (lenz II)) ev1 = true).
  { subst ev1. destruct (has_m1 rp || has_m1 ip); [|reflexivity].
    rewrite <- regions_ok_forallb. apply detect_ok. exact Hps. }
  set (ev2 := if (hd 1 rp =? 0) || (last rp 1 =? 0) then ev1 ++ extra_out P rreg R ireg rp else ev1).
  assert (H2 : forallb (ev_ok (lenz R) (lenz II)) ev2 = true).
  { subst ev2. destruct ((hd 1 rp =? 0) || (last rp 1 =? 0)); [|exact H1].
    rewrite forallb_app, H1, extra_out_ok by assumption. reflexivity. }
  destruct ev2; [reflexivity|exact H2].
Qed.

Lemma read_ok_ordered : forall n r, read_region_ok n r = true ->
  (if fst r =? Corrector.absent_position then 0 <=? snd r else (0 <=? fst r) && (fst r <=? snd r)) = true.
Proof.
  intros n [a b]. unfold read_region_ok, iv_eqb, undefined_region, absent, SMC_undefined_position, SMC_absent_position,
    Corrector.absent_position. cbn [fst snd].
  destruct (a =? 2147483647) eqn:E; lia.
Qed.

Lemma regions_ok_ordered : forall nR nI evs, regions_ok nR nI evs = true -> Corrector.regions_ordered evs = true.
Proof.
  intros nR nI evs. unfold regions_ok, Corrector.regions_ordered. rewrite !forallb_forall.
  intros H e He. specialize (H e He). apply andb_true_iff in H. destruct H as [H _].
  apply (read_ok_ordered nR). exact H.
Qed.

Theorem typed_event_wf : forall P known rreg R ireg II, lenz R < absent -> lenz II < absent ->
  regions_ok (lenz R) (lenz II) (compare_junctions P known rreg R ireg II) = true /\
  Corrector.regions_ordered (compare_junctions P known rreg R ireg II) = true.
Proof.
  intros P known rreg R ireg II HR HI.
  assert (H : regions_ok (lenz R) (lenz II) (compare_junctions P known rreg R ireg II) = true).
  { unfold compare_junctions. destruct R as [|r R'].
    - unfold mono_exon_subtype. destruct II as [|i I']; [reflexivity|].
      pose proof (mono_events_ok P rreg (lenz (i :: I')) (i :: I') 0 HI ltac:(lia) ltac:(lia)) as Hm.
      destruct (mono_events P rreg 0 (i :: I')); [reflexivity|exact Hm].
    - apply events_of_ok; try assumption.
      + rewrite lenz_cons. pose proof (lenz_nonneg _ R'). lia.
      + unfold lenz. rewrite phase1_length_rp. reflexivity.
      + apply phase1_pairs_wf; assumption. }
  split; [exact H|]. eapply regions_ok_ordered; exact H.
Qed.
Definition events_regions_ok := typed_event_wf.

(* ================================================================ 2. every junction marked -1 lies in the read region of a pair *)
Definition cov (ps:list cpair) (p:Z) : Prop :=
  exists c, In c ps /\ fst (fst c) <> absent /\ fst (fst c) <= p <= snd (fst c).
Lemma cov_app_l : forall ps qs p, cov ps p -> cov (ps ++ qs) p.
Proof. intros ps qs p (c & H & H'). exists c. split; [apply in_or_app; left; exact H|exact H']. Qed.
Lemma cov_app_r : forall ps qs p, cov qs p -> cov (ps ++ qs) p.
Proof. intros ps qs p (c & H & H'). exists c. split; [apply in_or_app; right; exact H|exact H']. Qed.
Lemma cov_single : forall a b x p, a <> absent -> a <= p <= b -> cov [((a, b), x)] p.
Proof. intros. exists ((a, b), x). split; [left; reflexivity|]. cbn [fst snd]. split; assumption. Qed.

(* what is known about the current contradictory region: a real start, extended up to the current read position at most,
   and exactly up to it when the head already carries the mark -1 *)
Definition cur_pre (rpos rm:Z) (cur:option cpair) : Prop :=
  forall c, cur = Some c -> fst (fst c) <> absent /\ fst (fst c) <= snd (fst c) <= rpos /\ (rm = -1 -> snd (fst c) = rpos).
(* the current region is emitted later, possibly extended to the right *)
Definition emitted (cur:option cpair) (ps:list cpair) : Prop :=
  forall c, cur = Some c -> exists c', In c' ps /\ fst (fst c') = fst (fst c) /\ snd (fst c) <= snd (fst c').

Lemma flush_head : forall rpos rm cur rest, cur_pre rpos rm cur -> rm = -1 -> cov (flush cur ++ rest) rpos \/ cur = None.
Proof.
  intros rpos rm cur rest H E. destruct cur as [c|]; [left|right; reflexivity].
  destruct (H c eq_refl) as (H1 & H2 & H3). specialize (H3 E).
  exists c. split; [left; reflexivity|]. split; [assumption|lia].
Qed.
Lemma emitted_flush : forall cur rest, emitted cur (flush cur ++ rest).
Proof. intros cur rest c ->. exists c. split; [left; reflexivity|]. split; [reflexivity|lia]. Qed.

Lemma nth_map_const0 : forall A (l:list A) k, nth k (map (fun _ => 0) l) 0 = 0.
Proof. intros A l. induction l as [|x l IH]; intros [|k]; cbn [map nth]; auto. Qed.

Lemma term_read_cov : forall ireg R rpos ipos rm k, rpos + lenz R < absent ->
  nth k (fst (term_read ireg R rpos ipos rm)) 0 = -1 ->
  cov (snd (term_read ireg R rpos ipos rm)) (rpos + Z.of_nat k) \/ (k = 0%nat /\ rm = -1).
Proof.
  intros ireg R. induction R as [|r R' IH]; intros rpos ipos rm k Hb.
  - cbn [term_read fst]. destruct k; cbn [nth]; discriminate.
  - rewrite lenz_cons in Hb. pose proof (lenz_nonneg _ R').
    cbn [term_read]. destruct (py_overlaps ireg r).
    + specialize (IH (rpos + 1) ipos 0). destruct (term_read ireg R' (rpos + 1) ipos 0) as [rp ps]. cbn [fst snd] in *.
      destruct k as [|k]; cbn [nth]; intro Hk.
      * destruct (rm =? -1) eqn:M; [right; split; [reflexivity|lia]|].
        left. apply cov_app_l. apply cov_single; lia.
      * destruct (IH k ltac:(lia) Hk) as [C|[_ C]]; [|discriminate].
        left. apply cov_app_r. replace (rpos + Z.of_nat (S k)) with (rpos + 1 + Z.of_nat k) by lia. exact C.
    + cbn [fst snd]. destruct k as [|k]; cbn [nth]; intro Hk.
      * right. split; [reflexivity|exact Hk].
      * rewrite nth_map_const0 in Hk. discriminate.
Qed.

Lemma terminal_cov : forall rreg ireg R Is rpos ipos rm im cur, rpos + lenz R < absent -> cur_pre rpos rm cur ->
  (forall k, nth k (fst (fst (terminal rreg ireg R Is rpos ipos rm im cur))) 0 = -1 ->
     cov (snd (terminal rreg ireg R Is rpos ipos rm im cur)) (rpos + Z.of_nat k) \/ (k = 0%nat /\ rm = -1 /\ cur = None)) /\
  emitted cur (snd (terminal rreg ireg R Is rpos ipos rm im cur)).
Proof.
  intros rreg ireg R Is rpos ipos rm im cur Hb Hp. unfold terminal.
  pose proof (fun k => term_read_cov ireg R rpos ipos rm k Hb) as H.
  destruct (term_read ireg R rpos ipos rm) as [rp ps1]. destruct (term_iso rreg Is rpos ipos im) as [ip ps2].
  cbn [fst snd] in *. split; [|apply emitted_flush].
  intros k Hk. destruct (H k Hk) as [C|[K M]].
  - left. apply cov_app_r, cov_app_l. exact C.
  - subst k. replace (rpos + Z.of_nat 0) with rpos by lia.
    destruct (flush_head rpos rm cur (ps1 ++ ps2) Hp M) as [C|C]; [left; exact C|right; auto].
Qed.

Lemma sweep_cov : forall delta rreg ireg fuel R Is rpos ipos rm im cur,
  (length R + length Is <= fuel)%nat -> rpos + lenz R < absent -> cur_pre rpos rm cur ->
  (forall k, nth k (fst (fst (sweep delta rreg ireg fuel R Is rpos ipos rm im cur))) 0 = -1 ->
     cov (snd (sweep delta rreg ireg fuel R Is rpos ipos rm im cur)) (rpos + Z.of_nat k) \/ (k = 0%nat /\ rm = -1 /\ cur = None)) /\
  emitted cur (snd (sweep delta rreg ireg fuel R Is rpos ipos rm im cur)).
Proof.
  intros delta rreg ireg fuel. induction fuel as [|f IH]; intros R Is rpos ipos rm im cur Hf Hb Hp.
  { destruct R as [|r R']; [|destruct Is as [|i I']]; cbn [sweep]; try (apply terminal_cov; assumption).
    cbn [length] in Hf. lia. }
  destruct R as [|r R']; [|destruct Is as [|i I']]; cbn [sweep]; try (apply terminal_cov; assumption).
  cbn [length] in Hf. pose proof Hb as Hb'. rewrite lenz_cons in Hb'. pose proof (lenz_nonneg _ R').
  destruct (py_equal_ranges i r delta).
  { pose proof (IH R' I' (rpos + 1) (ipos + 1) 0 0 None ltac:(lia) ltac:(lia) ltac:(intros c Hc; discriminate)) as [IA IB].
    destruct (sweep delta rreg ireg f R' I' (rpos + 1) (ipos + 1) 0 0 None) as [[rp ip] ps]. cbn [fst snd] in *.
    split; [|apply emitted_flush].
    intros [|k] Hk; cbn [nth] in Hk; [discriminate|].
    destruct (IA k Hk) as [C|(_ & M & _)]; [|discriminate].
    left. apply cov_app_r. replace (rpos + Z.of_nat (S k)) with (rpos + 1 + Z.of_nat k) by lia. exact C. }
  destruct (py_overlaps i r).
  { set (c1 := match cur with
               | None => ((rpos, rpos), (ipos, ipos))
               | Some c => ((fst (fst c), rpos), (fst (snd c), ipos)) end).
    assert (Hc1 : fst (fst c1) <> absent /\ fst (fst c1) <= rpos /\ snd (fst c1) = rpos /\
                  (forall c, cur = Some c -> fst (fst c1) = fst (fst c) /\ snd (fst c) <= rpos)).
    { subst c1. destruct cur as [c|].
      - destruct (Hp c eq_refl) as (H1 & H2 & H3). cbn [fst snd]. repeat split; try lia.
        + injection H0 as <-. reflexivity.
        + injection H0 as <-. lia.
      - cbn [fst snd]. repeat split; try lia; discriminate. }
    destruct Hc1 as (Ha & Hb1 & Hb2 & Hcur).
    assert (HB : forall ps, emitted (Some c1) ps -> emitted cur ps).
    { intros ps IB c Hc. destruct (IB c1 eq_refl) as (c' & Hin & E1 & E2). destruct (Hcur c Hc) as [E3 E4].
      exists c'. split; [exact Hin|]. split; lia. }
    destruct (snd r <? snd i).
    - pose proof (IH R' (i :: I') (rpos + 1) ipos 0 (-1) (Some c1) ltac:(cbn [length]; lia) ltac:(lia)) as IH'.
      destruct IH' as [IA IB]. { intros c Hc. injection Hc as <-. repeat split; lia. }
      destruct (sweep delta rreg ireg f R' (i :: I') (rpos + 1) ipos 0 (-1) (Some c1)) as [[rp ip] ps]. cbn [fst snd] in *.
      split; [|apply HB; exact IB].
      intros [|k] Hk; cbn [nth] in Hk.
      + left. destruct (IB c1 eq_refl) as (c' & Hin & E1 & E2). exists c'. split; [exact Hin|]. split; lia.
      + destruct (IA k Hk) as [C|(_ & M & _)]; [|discriminate].
        left. replace (rpos + Z.of_nat (S k)) with (rpos + 1 + Z.of_nat k) by lia. exact C.
    - pose proof (IH (r :: R') I' rpos (ipos + 1) (-1) 0 (Some c1) ltac:(cbn [length]; lia) Hb) as IH'.
      destruct IH' as [IA IB]. { intros c Hc. injection Hc as <-. repeat split; lia. }
      destruct (sweep delta rreg ireg f (r :: R') I' rpos (ipos + 1) (-1) 0 (Some c1)) as [[rp ip] ps]. cbn [fst snd] in *.
      split; [|apply HB; exact IB].
      intros k Hk. destruct (IA k Hk) as [C|(_ & _ & D)]; [left; exact C|discriminate]. }
  destruct (py_left_of i r).
  { cbv zeta.
    pose proof (IH (r :: R') I' rpos (ipos + 1) rm 0 None ltac:(cbn [length]; lia) Hb ltac:(intros c Hc; discriminate)) as [IA IB].
    destruct (sweep delta rreg ireg f (r :: R') I' rpos (ipos + 1) rm 0 None) as [[rp ip] ps]. cbn [fst snd] in *.
    split; [|apply emitted_flush].
    intros k Hk. destruct (IA k Hk) as [C|(K & M & _)].
    - left. apply cov_app_r, cov_app_r. exact C.
    - subst k. replace (rpos + Z.of_nat 0) with rpos by lia.
      match goal with |- cov (flush cur ++ ?rest) _ \/ _ => destruct (flush_head rpos rm cur rest Hp M) as [C|C] end;
        [left; exact C|right; auto]. }
  cbv zeta. set (flag := (0 <? ipos) || py_overlaps ireg r).
  pose proof (IH R' (i :: I') (rpos + 1) ipos 0 im None ltac:(cbn [length]; lia) ltac:(lia) ltac:(intros c Hc; discriminate)) as [IA IB].
  destruct (sweep delta rreg ireg f R' (i :: I') (rpos + 1) ipos 0 im None) as [[rp ip] ps]. cbn [fst snd] in *.
  split; [|apply emitted_flush].
  intros [|k] Hk; cbn [nth] in Hk.
  - replace (rpos + Z.of_nat 0) with rpos by lia.
    destruct (rm =? -1) eqn:M.
    + match goal with |- cov (flush cur ++ ?rest) _ \/ _ => destruct (flush_head rpos rm cur rest Hp ltac:(lia)) as [C|C] end;
        [left; exact C|right; repeat split; [lia|exact C]].
    + destruct flag; [|lia]. cbn [andb negb]. left. apply cov_app_r, cov_app_l. apply cov_single; lia.
  - destruct (IA k Hk) as [C|(_ & M & _)]; [|discriminate].
    left. apply cov_app_r, cov_app_r. replace (rpos + Z.of_nat (S k)) with (rpos + 1 + Z.of_nat k) by lia. exact C.
Qed.

Theorem marked_junction_covered : forall delta rreg ireg R II k, lenz R < absent ->
  nth k (fst (fst (phase1 delta rreg ireg R II))) 0 = -1 ->
  exists c, In c (snd (phase1 delta rreg ireg R II)) /\ fst (fst c) <> absent /\ fst (fst c) <= Z.of_nat k <= snd (fst c).
Proof.
  intros delta rreg ireg R II k HR Hk. unfold phase1 in *.
  destruct (sweep_cov delta rreg ireg (length R + length II) R II 0 0 0 0 None (le_n _) ltac:(lia)
              ltac:(intros c Hc; discriminate)) as [IA _].
  destruct (IA k Hk) as [C|(_ & M & _)]; [|discriminate]. exact C.
Qed.

(* ================================================================ 5. a junction marked -1 is covered by an event of the comparator *)
Theorem marked_junction_flagged : forall P known rreg R ireg II k, R <> [] -> lenz R < absent ->
  nth k (fst (fst (phase1 (p_delta P) rreg ireg R II))) 0 = -1 ->
  covered (compare_junctions P known rreg R ireg II) (Z.of_nat k) = true.
Proof.
  intros P known rreg R ireg II k HR Hb Hk.
  destruct (marked_junction_covered _ _ _ _ _ _ Hb Hk) as (c & Hin & Hc1 & Hc2).
  pose proof (phase1_length_rp (p_delta P) rreg ireg R II) as HL.
  unfold compare_junctions. destruct R as [|r R']; [contradiction|].
  destruct (phase1 (p_delta P) rreg ireg (r :: R') II) as [[rp ip] ps]. cbn [fst snd] in *.
  assert (Hlt : (k < length rp)%nat).
  { destruct (Nat.lt_ge_cases k (length rp)) as [L|L]; [exact L|]. rewrite nth_overflow in Hk by exact L. discriminate. }
  assert (Hm : has_m1 rp = true).
  { unfold has_m1. apply existsb_exists. exists (-1). split; [|reflexivity]. rewrite <- Hk. apply nth_In. exact Hlt. }
  destruct (type_pair_present_some P known rreg (r :: R') ireg II c Hc1) as (e & He & Hr).
  unfold events_of. cbv zeta. rewrite Hm. cbn [orb].
  set (ev1 := detect P known rreg (r :: R') ireg II ps).
  assert (H1 : In e ev1).
  { subst ev1. unfold detect. apply in_flat_map. exists c. split; [exact Hin|]. rewrite He. left; reflexivity. }
  set (ev2 := if (hd 1 rp =? 0) || (last rp 1 =? 0) then ev1 ++ extra_out P rreg (r :: R') ireg rp else ev1).
  assert (H2 : In e ev2).
  { subst ev2. destruct ((hd 1 rp =? 0) || (last rp 1 =? 0)); [apply in_or_app; left|]; exact H1. }
  destruct ev2 as [|e0 ev2']; [contradiction|].
  unfold covered. apply existsb_exists. exists e. split; [exact H2|].
  rewrite Hr. destruct c as [[ra rb] x]. cbn [fst snd] in *.
  unfold iv_eqb, undefined_region, SMC_undefined_position. cbn [fst snd].
  unfold lenz in Hb. rewrite <- HL in Hb. unfold absent, SMC_absent_position in *. lia.
Qed.

Print Assumptions type_pair_present_some.
Print Assumptions type_pair_tolerances_strong.
Print Assumptions type_pair_tolerances.
Print Assumptions sweep_pairs_wf.
Print Assumptions phase1_pairs_wf.
Print Assumptions marked_junction_covered.
Print Assumptions typed_event_wf.
Print Assumptions marked_junction_flagged.

(* ================================================================ 6. the two halves combined (uses JunctionsProofs) *)
From IQ Require Import JunctionsProofs.

(* the event types a contradictory area with a present read part can get without being a major inconsistency: the tolerance branches *)
Definition tolerance_types : list MES :=
  [MES_none_; MES_fake_terminal_exon_left; MES_fake_terminal_exon_right; MES_intron_shift; MES_exon_misalignment;
   MES_terminal_exon_misalignment_left; MES_terminal_exon_misalignment_right].

(* a junction marked -1 is covered by an event that is a major inconsistency or comes from one of the seven tolerance branches *)
Theorem marked_junction_event : forall P known rreg R ireg II k, R <> [] -> lenz R < absent ->
  nth k (fst (fst (phase1 (p_delta P) rreg ireg R II))) 0 = -1 ->
  exists e, In e (compare_junctions P known rreg R ireg II) /\
            fst (e_read e) <> absent /\ fst (e_read e) <= Z.of_nat k <= snd (e_read e) /\
            (ev_major (e_type e) = true \/ mem (e_type e) tolerance_types = true).
Proof.
  intros P known rreg R ireg II k HR Hb Hk.
  destruct (marked_junction_covered _ _ _ _ _ _ Hb Hk) as (c & Hin & Hc1 & Hc2).
  pose proof (phase1_length_rp (p_delta P) rreg ireg R II) as HL.
  unfold compare_junctions. destruct R as [|r R']; [contradiction|].
  destruct (phase1 (p_delta P) rreg ireg (r :: R') II) as [[rp ip] ps]. cbn [fst snd] in *.
  assert (Hlt : (k < length rp)%nat).
  { destruct (Nat.lt_ge_cases k (length rp)) as [L|L]; [exact L|]. rewrite nth_overflow in Hk by exact L. discriminate. }
  assert (Hm : has_m1 rp = true).
  { unfold has_m1. apply existsb_exists. exists (-1). split; [|reflexivity]. rewrite <- Hk. apply nth_In. exact Hlt. }
  destruct (type_pair_present_some P known rreg (r :: R') ireg II c Hc1) as (e & He & Hr).
  unfold events_of. cbv zeta. rewrite Hm. cbn [orb].
  set (ev1 := detect P known rreg (r :: R') ireg II ps).
  assert (H1 : In e ev1).
  { subst ev1. unfold detect. apply in_flat_map. exists c. split; [exact Hin|]. rewrite He. left; reflexivity. }
  set (ev2 := if (hd 1 rp =? 0) || (last rp 1 =? 0) then ev1 ++ extra_out P rreg (r :: R') ireg rp else ev1).
  assert (H2 : In e ev2).
  { subst ev2. destruct ((hd 1 rp =? 0) || (last rp 1 =? 0)); [apply in_or_app; left|]; exact H1. }
  destruct ev2 as [|e0 ev2']; [contradiction|].
  exists e. split; [exact H2|]. rewrite Hr. split; [exact Hc1|]. split; [exact Hc2|].
  destruct c as [[ra rb] [ia ib]]. cbn [fst snd] in Hc1.
  destruct (type_pair_tolerances P known rreg (r :: R') ireg II ra rb ia ib e Hc1 He) as [H|[H|[H|[H|[H|[H|[H|H]]]]]]];
    [left; exact H | right; destruct H as (-> & _); reflexivity ..].
Qed.

(* unmatched_junction_flagged: a read junction that overlaps the isoform span and has no delta-equal partner among the isoform's
   junctions is marked contradictory by phase 1 and covered by an event of the comparator; that event is a major inconsistency
   unless one of the seven tolerance branches (type_pair_tolerances_strong lists their guards) applies *)
Theorem unmatched_junction_flagged : forall P known rreg R ireg II k r, 0 <= p_delta P -> lenz R < absent ->
  junctions_wf R = true -> junctions_wf II = true -> inside_region ireg II = true ->
  forallb (fun i => p_delta P <=? py_interval_len i) II = true ->
  (II <> [] \/ py_overlaps ireg (hd (0,0) R) = true) ->
  nth_error R k = Some r -> py_overlaps ireg r = true -> existsb (fun i => py_equal_ranges i r (p_delta P)) II = false ->
  nth k (fst (fst (phase1 (p_delta P) rreg ireg R II))) 0 = -1 /\
  covered (compare_junctions P known rreg R ireg II) (Z.of_nat k) = true /\
  exists e, In e (compare_junctions P known rreg R ireg II) /\
            fst (e_read e) <> absent /\ fst (e_read e) <= Z.of_nat k <= snd (e_read e) /\
            (ev_major (e_type e) = true \/ mem (e_type e) tolerance_types = true).
Proof.
  intros P known rreg R ireg II k r Hd Hb HR HI Hin Hlen Hcorner Hk Hov Hne.
  assert (HRne : R <> []) by (intro E; subst R; destruct k; discriminate).
  pose proof (unmatched_junction_marked (p_delta P) rreg ireg R II k r Hd HR HI Hin Hlen Hcorner Hk Hov Hne) as M.
  split; [exact M|]. split.
  - apply marked_junction_flagged; assumption.
  - apply marked_junction_event; assumption.
Qed.
(* every tolerance type is a consistent or minor-error type, never a major one (table fact on the regenerated classes) *)
Lemma tolerance_types_not_major : forallb (fun t => negb (ev_major t)) tolerance_types = true. Proof. vm_compute. reflexivity. Qed.
Print Assumptions marked_junction_event.
Print Assumptions unmatched_junction_flagged.
