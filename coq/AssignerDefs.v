(* C01: definitions shared by the models, the correspondences and the proofs: event-class membership, classify_assignment,
   the preset predicates, and the implementation-independent output specification (compatible / follows / far / judge /
   assignment_ok, DESIGN Appendix E).  No lemma about class sets, costs or presets lives here (only the two facts about the enum itself at the end): a change of a
   table or preset in the source breaks Assigner.v (the proofs) but never this file, so that the correspondences still run and can produce a concrete failing input. *)
From Coq Require Import ZArith NArith QArith List Bool Lia ZifyBool.
From IQ Require Import CorrSupport Intervals Junctions.
From IQ.gen Require Import Tables Prims.
Import ListNotations. Open Scope Z_scope.

Definition mem (x:MES) (l:list MES) : bool := existsb (MES_eqb x) l.
Definition rmem (x:RAT) (l:list RAT) : bool := existsb (RAT_eqb x) l.
Definition ev_consistent x := mem x MES_is_consistent.
Definition ev_major x := mem x MES_is_major_inconsistency.
Definition ev_intronic x := mem x MES_is_intronic_inconsistency.
Definition ev_minor x := mem x MES_is_minor_error.
Definition type_consistent (t:RAT) : bool := rmem t RAT_is_consistent.

(* ---------------------------------------------------------------- classify_assignment *)
(* on the event types of the selected isoforms; `ambiguous` = more than one selected isoform *)
Definition classify (ambiguous:bool) (ev:list MES) : RAT :=
  if forallb ev_consistent ev then (if ambiguous then RAT_ambiguous else RAT_unique)
  else if existsb ev_major ev then
         (if ambiguous then RAT_inconsistent_ambiguous
          else if existsb ev_intronic ev then RAT_inconsistent else RAT_inconsistent_non_intronic)
  else if existsb ev_minor ev then (if ambiguous then RAT_ambiguous else RAT_unique_minor_difference)
  else RAT_noninformative.

(* the event types outside the three classes: classify_assignment answers `noninformative` (with a warning) if only these occur *)
Definition unclassified : list MES := filter (fun x => negb (ev_consistent x || ev_minor x || ev_major x)) MES_all.
(* docs/formats.md: consistent events, alignment artifacts (+ minor exon elongation) - as sets *)
Definition same_set (a b:list MES) : bool := forallb (fun x => mem x b) a && forallb (fun x => mem x a) b.
(* costs: defined for every type that can be scored, in [0,1]; consistent events are free; every major event costs at least 1/2,
   every minor error at most 1/5 - a major event always outweighs two minor errors *)
Definition cost_ok (f:MES -> Q -> bool) : bool := forallb (fun x => match MES_cost x with Some q => f x q | None => true end) MES_all.
(* a single selected isoform: `inconsistent` iff a major event touches the intron chain, `inconsistent_non_intronic` iff all major
   events are of the non-intronic kind (ends, polyA) *)
(* ---------------------------------------------------------------- presets *)
Definition msp_le (a b:MSP) : bool :=
  (ms_delta a <=? ms_delta b) && (ms_max_intron_shift a <=? ms_max_intron_shift b) && (ms_max_missed_exon_len a <=? ms_max_missed_exon_len b) &&
  (ms_max_fake_terminal_exon_len a <=? ms_max_fake_terminal_exon_len b) && (ms_max_suspicious_intron_abs_len a <=? ms_max_suspicious_intron_abs_len b) &&
  Qle_bool (ms_max_suspicious_intron_rel_len a) (ms_max_suspicious_intron_rel_len b) && (ARM_value (ms_resolve_ambiguous a) <=? ARM_value (ms_resolve_ambiguous b)) &&
  implb (ms_correct_minor_errors a) (ms_correct_minor_errors b).
(* docs/cmd.md: exact - delta 0, all minor errors are inconsistencies; precise - delta 4; default - delta 6, short novel introns are
   treated as deletions; loose - delta 12, ambiguity resolved by nucleotide similarity; docs/formats.md: tss/tes match within 50 *)
Definition presets_documented : bool :=
  (ms_delta MS_exact =? 0) && (ms_delta MS_precise =? 4) && (ms_delta MS_default =? 6) && (ms_delta MS_loose =? 12) &&
  (ms_max_intron_shift MS_exact =? 0) && (ms_max_missed_exon_len MS_exact =? 0) && (ms_max_fake_terminal_exon_len MS_exact =? 0) &&
  (ms_max_suspicious_intron_abs_len MS_exact =? 0) && negb (ms_correct_minor_errors MS_exact) &&
  (ms_max_suspicious_intron_abs_len MS_precise =? 0) && (0 <? ms_max_suspicious_intron_abs_len MS_default) && (0 <? ms_max_suspicious_intron_abs_len MS_loose) &&
  match ms_resolve_ambiguous MS_loose with ARM_all_ => true | _ => false end &&
  (MO_minor_exon_extension =? 50) && (MO_apa_delta =? MO_minor_exon_extension).
Definition preset_sane (s:MSP) : bool :=
  let P := params_of s in
  (0 <=? p_delta P) && (p_delta P <=? p_max_intron_shift P) && (p_delta P <=? p_max_fake_terminal_exon_len P) &&
  (p_max_fake_terminal_exon_len P <=? p_max_missed_exon_len P) && (2 * p_delta P <=? p_minor_ext P) && (p_minor_ext P <? p_major_ext P) &&
  (p_max_intron_abs_diff P <=? 30) && (p_max_intron_abs_diff P <=? p_max_intron_shift P) && (p_micro_intron_length P <=? p_minor_ext P) &&
  (Qeq_bool (p_susp_rel P) 0 || Qeq_bool (p_susp_rel P) 1) && Qeq_bool (p_max_intron_rel_diff P) (1 # 5) && Qeq_bool (p_min_rel_exon_overlap P) (1 # 5) &&
  (0 <? p_minimal_exon_overlap P) && (p_minimal_exon_overlap P <=? p_min_abs_exon_overlap P).
(* ================================================================ the output specification (implementation independent) *)
(* the specification has its own delta-equality (the translated py_equal_ranges belongs to the implementation) *)
Definition eqd (d:Z) (a b:iv) : bool := (Z.abs (fst a - fst b) <=? d) && (Z.abs (snd a - snd b) <=? d).
Fixpoint chain_eqd (d:Z) (R TI:list iv) : bool :=
  match R, TI with
  | [], _ => true
  | r :: R', t :: TI' => eqd d t r && chain_eqd d R' TI'
  | _ :: _, [] => false
  end.
Definition introns_of (ex:list iv) : list iv := map (fun p => (snd (fst p) + 1, fst (snd p) - 1)) (combine ex (tl ex)).
Definition hull (ex:list iv) : iv := (fst (hd (0,0) ex), snd (last ex (0,0))).
Definition nthx (l:list iv) (k:nat) : iv := nth k l (0,0).

(* `compatible d ext read T`: the read's intron chain is a contiguous d-sub-chain of T's and the read ends lie in the flanking exons,
   up to `ext` bases beyond them; a mono-exonic read lies inside one exon of T up to `ext` *)
Definition compatible_at (d ext:Z) (rex tex:list iv) (k:nat) : bool :=
  let RI := introns_of rex in let TI := introns_of tex in
  chain_eqd d RI (skipn k TI) &&
  (fst (nthx tex k) - ext <=? fst (hull rex)) && (snd (hull rex) <=? snd (nthx tex (k + length RI)) + ext).
Definition compatible (d ext:Z) (rex tex:list iv) : bool :=
  match introns_of rex with
  | [] => let r := hull rex in existsb (fun e => (fst e - ext <=? fst r) && (snd r <=? snd e + ext)) tex
  | _ => existsb (compatible_at d ext rex tex) (seq 0 (length tex))
  end.
(* full-length: the read spans all introns of T; for a mono-exonic T (where that is vacuous) the mono-exonic read covers T's exon up to
   the documented terminal tolerance `ext` at both ends (tss/tes match) - a fragment of a mono-exonic transcript is not full-length *)
Definition full_length (d ext:Z) (rex tex:list iv) : bool :=
  (length rex =? length tex)%nat && compatible_at d 0 rex tex 0 &&
  ((1 <? length tex)%nat || ((Z.abs (fst (hull rex) - fst (hull tex)) <=? ext) && (Z.abs (snd (hull rex) - snd (hull tex)) <=? ext))).

(* no other annotated intron is strictly closer to a read junction than T's own partner: otherwise the read is as well explained by
   the other isoform and the property does not say which one must be reported *)
Definition match_delta (a b:iv) : Z := Z.abs (fst a - fst b) + Z.abs (snd a - snd b).
Definition closest_at (d:Z) (all_introns:list iv) (rex tex:list iv) (k:nat) : bool :=
  forallb (fun p => let '(r, t) := p in
     forallb (fun x => negb (eqd d x r) || (match_delta r t <=? match_delta r x)) all_introns)
    (combine (introns_of rex) (skipn k (introns_of tex))).

(* ---- far: the read differs from T' by structural changes beyond every tolerance of the strategy doubled *)
Record tol2 := mkT2 { t_d : Z; t_dc : Z; t_ext : Z; t_micro : Z; t_missed : Z; t_fake : Z; t_susp : Z }.
Definition doubled (P:params) : tol2 :=
  mkT2 (2 * Z.max (p_delta P) (p_max_intron_shift P)) (2 * p_delta P) (2 * p_minor_ext P) (2 * p_micro_intron_length P) (2 * p_max_missed_exon_len P + 2)
       (2 * p_max_fake_terminal_exon_len P) (2 * Z.max (Z.max (p_susp_abs P) (p_micro_intron_length P)) (p_max_intron_abs_diff P)).
Definition ovl (a b:iv) : bool := (fst a <=? snd b) && (fst b <=? snd a).
Definition no_exon_overlap (rex tex:list iv) : bool := forallb (fun r => forallb (fun e => negb (ovl r e)) tex) rex.
(* a long intron of T' lies inside a read exon *)
Definition retained_intron (T:tol2) (rex tex:list iv) : bool :=
  existsb (fun t => (t_micro T <? ilen t) && existsb (fun e => (fst e <=? fst t) && (snd t <=? snd e)) rex) (introns_of tex).
(* the exon of T' the read's left / right end belongs to, extended over the short introns of T' next to it (a read exon may retain
   them: fake_micro_intron_retention) *)
Fixpoint flank_left (T:tol2) (tex:list iv) (k:nat) : Z :=
  match k with
  | O => fst (nthx tex 0)
  | Datatypes.S k' => if fst (nthx tex k) - snd (nthx tex k') - 1 <=? t_micro T then flank_left T tex k' else fst (nthx tex k)
  end.
Fixpoint flank_right (T:tol2) (tex:list iv) (k:nat) (fuel:nat) : Z :=
  match fuel with
  | O => snd (nthx tex k)
  | Datatypes.S f => if (Datatypes.S k <? length tex)%nat && (fst (nthx tex (Datatypes.S k)) - snd (nthx tex k) - 1 <=? t_micro T)
                     then flank_right T tex (Datatypes.S k) f else snd (nthx tex k)
  end.
(* the chain matches (within twice delta) but an end lies far outside the flanking exon *)
Definition distant_end (T:tol2) (rex tex:list iv) : bool :=
  match introns_of rex with
  | [] => let r := hull rex in
          existsb (ovl r) tex && forallb (fun e => negb (ovl r e) || (fst r <? fst e - t_ext T) || (snd e + t_ext T <? snd r)) tex &&
          forallb (fun t => negb ((fst r <=? fst t) && (snd t <=? snd r))) (introns_of tex)
  | RI => existsb (fun k => chain_eqd (t_dc T) RI (skipn k (introns_of tex)) &&
                           ((fst (hull rex) <? flank_left T tex k - t_ext T) || (flank_right T tex (k + length RI) (length tex) + t_ext T <? snd (hull rex))))
                  (seq 0 (length tex))
  end.
(* total length of the exons of T' between its introns number a and b *)
Definition exons_between (TI:list iv) (a b:nat) : Z :=
  fold_left Z.add (map (fun k => fst (nthx TI (Datatypes.S k)) - snd (nthx TI k) - 1) (seq a (b - a))) 0.
(* a long read intron that no tolerance branch can explain against T' *)
Definition unexplained_intron (T:tol2) (rex tex:list iv) : bool :=
  let RI := introns_of rex in let TI := introns_of tex in let n := length RI in
  existsb (fun j => let r := nthx RI j in
    (t_susp T <? ilen r) &&
    forallb (fun t => negb (eqd (t_d T) t r)) TI &&
    forallb (fun a => forallb (fun b => negb ((a <? b)%nat && (Z.abs (fst (nthx TI a) - fst r) <=? t_d T) && (Z.abs (snd (nthx TI b) - snd r) <=? t_d T) &&
                                            (exons_between TI a b <=? t_missed T))) (seq 0 (length TI))) (seq 0 (length TI)) &&
    negb ((j =? 0)%nat && ((ilen (nthx rex 0) <=? t_fake T) || (Z.abs (snd (nthx TI 0) - snd r) <=? t_d T))) &&
    negb ((j =? n - 1)%nat && ((ilen (nthx rex n) <=? t_fake T) || (Z.abs (fst (last TI (0,0)) - fst r) <=? t_d T))))
    (seq 0 n).
Definition far_from (T:tol2) (rex tex:list iv) : bool :=
  no_exon_overlap rex tex || retained_intron T rex tex || distant_end T rex tex || unexplained_intron T rex tex.

(* ---- one generated read with its ground truth and what read_assignments.tsv reports for it *)
Notation isoform := (Z * list iv)%type.                      (* (interned id, exons) *)
Record rcase := mkRC {
  rc_exons : list iv;          (* exons of the read as aligned *)
  rc_source : option Z;        (* the annotated isoform the read was derived from, if any *)
  rc_type : RAT;               (* assignment_type *)
  rc_reported : list Z }.      (* isoform_id of every line of the read *)

Definition exons_of (ann:list isoform) (id:Z) : list iv :=
  match find (fun i => fst i =? id) ann with Some i => snd i | None => [] end.
Definition all_introns (ann:list isoform) : list iv := flat_map (fun i => introns_of (snd i)) ann.

Inductive verdict := Positive_ok | Negative_ok | Not_judged | Bad (clause:Z).
(* the read follows its source isoform: strictly inside the tolerances (ends inside the flanking exons) *)
Definition follows (P:params) (ann:list isoform) (c:rcase) : bool :=
  match rc_source c with
  | Some s => compatible (p_delta P) 0 (rc_exons c) (exons_of ann s) &&
              forallb (fun e => 2 * p_minimal_exon_overlap P <=? ilen e) (rc_exons c)     (* no exon shorter than twice minimal_exon_overlap: a shorter one can
                 straddle a split-exon boundary with fewer than minimal_exon_overlap bases on either side and then hits no block (noninformative) *)
  | None => false end.
Definition is_far (P:params) (ann:list isoform) (c:rcase) : bool :=
  forallb (fun i => far_from (doubled P) (rc_exons c) (snd i)) ann.
Definition source_closest (P:params) (ann:list isoform) (c:rcase) : bool :=
  match rc_source c with
  | Some s => let tex := exons_of ann s in
              existsb (fun k => compatible_at (p_delta P) 0 (rc_exons c) tex k && closest_at (p_delta P) (all_introns ann) (rc_exons c) tex k) (seq 0 (length tex))
              || match introns_of (rc_exons c) with [] => true | _ => false end
  | None => false end.

(* the clauses for a read that follows its source isoform s *)
Definition positive_verdict (P:params) (ann:list isoform) (c:rcase) (s:Z) : verdict :=
  let d := p_delta P in let ext := p_minor_ext P in
  if negb (type_consistent (rc_type c)) then Bad 1                                                    (* consistent type *)
  else if negb (forallb (fun id => compatible d ext (rc_exons c) (exons_of ann id)) (rc_reported c)) then Bad 2   (* reported are compatible *)
  else if source_closest P ann c && full_length d ext (rc_exons c) (exons_of ann s) && negb (existsb (Z.eqb s) (rc_reported c)) then Bad 3   (* T reported when full-length *)
  else if source_closest P ann c && forallb (fun i => (fst i =? s) || negb (compatible d ext (rc_exons c) (snd i))) ann &&
          negb (rmem (rc_type c) RAT_is_unique && list_eqb Z.eqb (rc_reported c) [s]) then Bad 4           (* unique to T when T is the only compatible one *)
  else Positive_ok.
Definition negative_verdict (c:rcase) : verdict := if type_consistent (rc_type c) then Bad 5 else Negative_ok.

Definition judge (P:params) (ann:list isoform) (c:rcase) : verdict :=
  if follows P ann c then match rc_source c with None => Not_judged | Some s => positive_verdict P ann c s end
  else if is_far P ann c then negative_verdict c
  else Not_judged.

(* ---- reads with a polyA / polyT tail.  po_a: genomic position where the polyA tail starts (right end of the alignment), po_t: where the
   polyT head ends (left end), -1 = no tail.  strands: isoform id -> 1 ('+') / -1 ('-').  A tail is "at T's 3' end" when it lies within
   apa_delta of the end of T on T's strand; it makes the read FAR from an isoform T' of that strand when it lies inside the last exon of
   T' more than twice apa_delta before its end (nothing of T' lies beyond the tail, so no missed terminal exon can explain it) *)
Record pobs := mkPO { po_a : Z; po_t : Z }.
Definition strand_of (strands:list (Z * Z)) (id:Z) : Z := match find (fun p => fst p =? id) strands with Some p => snd p | None => 0 end.
Definition no_tail (po:pobs) : bool := (po_a po =? -1) && (po_t po =? -1).
Definition tail_at_end (P:params) (st:Z) (tex:list iv) (po:pobs) : bool :=
  ((po_a po =? -1) || ((st =? 1) && (Z.abs (po_a po - snd (hull tex)) <=? p_apa_delta P))) &&
  ((po_t po =? -1) || ((st =? -1) && (Z.abs (po_t po - fst (hull tex)) <=? p_apa_delta P))).
Definition apa_far (P:params) (st:Z) (tex:list iv) (po:pobs) : bool :=
  ((st =? 1) && negb (po_a po =? -1) && (fst (last tex (0,0)) <? po_a po) && (po_a po + 2 * p_apa_delta P + 2 <? snd (hull tex))) ||
  ((st =? -1) && negb (po_t po =? -1) && (po_t po <? snd (hd (0,0) tex)) && (fst (hull tex) + 2 * p_apa_delta P + 2 <? po_t po)).
Definition judge_pa (P:params) (ann:list isoform) (strands:list (Z * Z)) (c:rcase) (po:pobs) : verdict :=
  if no_tail po then judge P ann c
  else if follows P ann c && match rc_source c with Some s => tail_at_end P (strand_of strands s) (exons_of ann s) po | None => false end
  then match rc_source c with None => Not_judged | Some s => positive_verdict P ann c s end
  else if forallb (fun i => far_from (doubled P) (rc_exons c) (snd i) || apa_far P (strand_of strands (fst i)) (snd i) po) ann then negative_verdict c
  else Not_judged.
Definition assignment_ok (P:params) (ann:list isoform) (c:rcase) : bool := match judge P ann c with Bad _ => false | _ => true end.

(* the enum itself: every member is listed, equality of values is equality of members *)
Lemma all_listed : forall x, In x MES_all. Proof. destruct x; vm_compute; tauto. Qed.
Lemma MES_eqb_eq a b : MES_eqb a b = true <-> a = b.
Proof. split; [|intros ->; unfold MES_eqb; apply N.eqb_refl]. destruct a; destruct b; vm_compute; intros H; try reflexivity; discriminate H. Qed.
