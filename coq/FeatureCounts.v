(* C13: exon / intron inclusion-exclusion counting.
   Faithful models of
     - src/long_read_counter.py  ProfileFeatureCounter (add_read_info_from_profile, dump), ExonCounter / IntronCounter (add_read_info, is_valid)
     - src/gene_info.py          GeneInfo.set_feature_properties, FeatureInfo (id, to_str)
     - src/long_read_profiles.py construct_exon_profile / construct_intron_profile (wrappers around the C19 model
                                 Intervals.overlapping_profile, which is reused, not duplicated)
   and the decidable specification feature_counts_ok evaluated on whole pipeline runs.
   Strings (chromosome, gene ids, group names, strand and flag characters) are integer codes; group names are interned
   order-preservingly by the harness, so Python's sorted() on names is zsort on codes.  A Python exception is None.
   The theorems about the counters are in this file; the link with the profile characterisation is in FeatureCountsProofs.v. *)
From Coq Require Import ZArith NArith List Bool Lia ZifyBool FinFun.
From IQ.gen Require Import Prims.
From IQ Require Import CorrSupport Intervals IntervalsSpec.
Import ListNotations. Open Scope Z_scope.

(* ------------------------------------------------------------------ IncrementalDict(int) / defaultdict of them *)
Definition adict := list (Z * Z).
Fixpoint ainc (k:Z) (d:adict) : adict :=
  match d with [] => [(k, 1)] | (k', v) :: t => if k =? k' then (k', v + 1) :: t else (k', v) :: ainc k t end.
Fixpoint aget (k:Z) (d:adict) : Z :=
  match d with [] => 0 | (k', v) :: t => if k =? k' then v else aget k t end.
Definition ndict := list (Z * adict).      (* feature_id -> (group_id -> count) *)
Fixpoint ninc (f g:Z) (d:ndict) : ndict :=
  match d with [] => [(f, [(g, 1)])] | (f', a) :: t => if f =? f' then (f', ainc g a) :: t else (f', a) :: ninc f g t end.
Fixpoint nget (f g:Z) (d:ndict) : Z :=
  match d with [] => 0 | (f', a) :: t => if f =? f' then aget g a else nget f g t end.

Lemma aget_ainc k k' d : aget k (ainc k' d) = aget k d + (if k =? k' then 1 else 0).
Proof. induction d as [|[k0 v] t IH]; cbn [ainc aget].
  - destruct (k =? k') eqn:E; lia.
  - destruct (k' =? k0) eqn:E1; cbn [aget]; destruct (k =? k0) eqn:E2; destruct (k =? k') eqn:E3; try lia; rewrite IH, E3; lia. Qed.
Lemma nget_ninc f g f' g' d : nget f g (ninc f' g' d) = nget f g d + (if (f =? f') && (g =? g') then 1 else 0).
Proof. induction d as [|[f0 a] t IH]; cbn [ninc nget].
  - destruct (f =? f') eqn:E; cbn [aget andb]; [destruct (g =? g'); lia|lia].
  - destruct (f' =? f0) eqn:E1; cbn [nget]; destruct (f =? f0) eqn:E2.
    + rewrite aget_ainc. replace (f =? f') with true by lia. reflexivity.
    + replace (f =? f') with false by lia. cbn [andb]. lia.
    + replace (f =? f') with false by lia. cbn [andb]. lia.
    + rewrite IH. reflexivity. Qed.

(* ------------------------------------------------------------------ FeatureInfo *)
Record finfo := mkfi { fi_id : Z; fi_chr : Z; fi_start : Z; fi_end : Z; fi_strand : list Z; fi_flags : list Z; fi_genes : list Z }.
(* FeatureInfo.to_str(): chr, start, end, strand string, flags string, gene list *)
Definition frow := (Z * Z * Z * list Z * list Z * list Z)%type.
Definition row_of (f:finfo) : frow := (fi_chr f, fi_start f, fi_end f, fi_strand f, fi_flags f, fi_genes f).

(* ------------------------------------------------------------------ ProfileFeatureCounter *)
Record cstate := mkcs { cs_groups : list (Z * Z);      (* group_numeric_ids, insertion order: (group name, numeric id) *)
                        cs_next : Z;                   (* current_group_id *)
                        cs_incl : ndict; cs_excl : ndict;
                        cs_names : list (Z * frow) }.  (* feature_name_dict (OrderedDict): feature id -> to_str() at first sight *)
Definition init_state (ignore_read_groups:bool) (na:Z) : cstate :=
  mkcs (if ignore_read_groups then [(na, 0)] else []) 1 [] [] [].

Fixpoint gfind (g:Z) (l:list (Z * Z)) : option Z :=
  match l with [] => None | (g', id) :: t => if g =? g' then Some id else gfind g t end.
Definition reg_group (st:cstate) (g:Z) : cstate * Z :=
  match gfind g (cs_groups st) with
  | Some id => (st, id)
  | None => (mkcs (cs_groups st ++ [(g, cs_next st)]) (cs_next st + 1) (cs_incl st) (cs_excl st) (cs_names st), cs_next st)
  end.
Definition note_name (names:list (Z * frow)) (f:finfo) : list (Z * frow) :=
  if existsb (fun p => fst p =? fi_id f) names then names else names ++ [(fi_id f, row_of f)].
Definition step (st:cstate) (v:Z) (f:finfo) (gid:Z) : cstate :=
  if v =? 1 then mkcs (cs_groups st) (cs_next st) (ninc (fi_id f) gid (cs_incl st)) (cs_excl st) (note_name (cs_names st) f)
  else if v =? -1 then mkcs (cs_groups st) (cs_next st) (cs_incl st) (ninc (fi_id f) gid (cs_excl st)) (note_name (cs_names st) f)
  else st.
(* for i in range(len(profile)): feature_property_map[i] is only read at a +1 / -1 position (IndexError = None) *)
Fixpoint add_loop (st:cstate) (prof:list Z) (pm:list finfo) (gid:Z) : option cstate :=
  match prof with
  | [] => Some st
  | v :: prof' =>
    match pm with
    | f :: pm' => add_loop (step st v f gid) prof' pm' gid
    | [] => if (v =? 1) || (v =? -1) then None else add_loop st prof' [] gid
    end
  end.
Definition add_from_profile (st:cstate) (prof:list Z) (pm:list finfo) (group:Z) : option cstate :=
  let '(st1, gid) := reg_group st group in add_loop st1 prof pm gid.

(* the read assignment as the counters see it *)
Record assignment := mka { a_exon_prof : option (list Z); a_intron_prof : option (list Z);
                           a_gene_info : option (list finfo * list finfo);      (* exon_property_map, intron_property_map *)
                           a_group : Z }.
Inductive kind := Exon | Intron.
(* ProfileFeatureCounter.is_valid + the argument selection of ExonCounter/IntronCounter.add_read_info *)
Definition effective (kd:kind) (ignore:bool) (na:Z) (a:option assignment) : option (list Z * list finfo * Z) :=
  match a with
  | None => None
  | Some a =>
    match a_exon_prof a, a_intron_prof a, a_gene_info a with
    | Some ep, Some ip, Some (em, im) =>
      let g := if ignore then na else a_group a in
      Some (match kd with Exon => (ep, em, g) | Intron => (ip, im, g) end)
    | _, _, _ => None
    end
  end.
Definition add_read_info (kd:kind) (ignore:bool) (na:Z) (st:cstate) (a:option assignment) : option cstate :=
  match effective kd ignore na a with
  | None => Some st
  | Some (prof, pm, g) => add_from_profile st prof pm g
  end.
Fixpoint run_from (kd:kind) (ignore:bool) (na:Z) (st:cstate) (l:list (option assignment)) : option cstate :=
  match l with [] => Some st | a :: t => match add_read_info kd ignore na st a with Some st' => run_from kd ignore na st' t | None => None end end.
Definition run_counter kd ignore na l := run_from kd ignore na (init_state ignore na) l.

(* dump(): one line per (feature in first-seen order, group in sorted order) with a non-zero count *)
Definition gid_of (st:cstate) (g:Z) : Z := match gfind g (cs_groups st) with Some id => id | None => -1 end.
Definition dump_ids (st:cstate) : list (Z * frow * Z * Z * Z) :=
  flat_map (fun p =>
    flat_map (fun g => let gid := gid_of st g in
                       let i := nget (fst p) gid (cs_incl st) in let e := nget (fst p) gid (cs_excl st) in
                       if (0 <? i) || (0 <? e) then [(fst p, snd p, g, i, e)] else [])
             (zsort (map fst (cs_groups st)))) (cs_names st).
Definition dump (st:cstate) : list (frow * Z * Z * Z) := map (fun r => let '(_, row, g, i, e) := r in (row, g, i, e)) (dump_ids st).

(* ------------------------------------------------------------------ tallies *)
Definition call := (list Z * list finfo * Z)%type.
(* number of positions of one profile carrying value v on feature id fid *)
Fixpoint hits (v fid:Z) (prof:list Z) (pm:list finfo) : Z :=
  match prof, pm with
  | x :: p', f :: m' => (if (x =? v) && (fi_id f =? fid) then 1 else 0) + hits v fid p' m'
  | _, _ => 0
  end.
Fixpoint tally (v:Z) (calls:list call) (fid g:Z) : Z :=
  match calls with
  | [] => 0
  | (prof, pm, g') :: t => (if g' =? g then hits v fid prof pm else 0) + tally v t fid g
  end.
Fixpoint run_calls (st:cstate) (calls:list call) : option cstate :=
  match calls with [] => Some st | (prof, pm, g) :: t => match add_from_profile st prof pm g with Some st' => run_calls st' t | None => None end end.
Fixpoint effective_calls (kd:kind) (ignore:bool) (na:Z) (l:list (option assignment)) : list call :=
  match l with [] => [] | a :: t => match effective kd ignore na a with Some c => c :: effective_calls kd ignore na t | None => effective_calls kd ignore na t end end.
Lemma run_from_calls kd ignore na : forall l st, run_from kd ignore na st l = run_calls st (effective_calls kd ignore na l).
Proof. induction l as [|a t IH]; intros st; [reflexivity|]. cbn [run_from effective_calls]. unfold add_read_info.
  destruct (effective kd ignore na a) as [[[prof pm] g]|]; [cbn [run_calls]; destruct (add_from_profile st prof pm g); [apply IH|reflexivity]|apply IH]. Qed.

(* invariant of the group table: names and numeric ids are unique, ids below the next free one, nothing counted under an unused id *)
Definition ginv (st:cstate) : Prop :=
  NoDup (map fst (cs_groups st)) /\ NoDup (map snd (cs_groups st)) /\
  (forall g id, In (g, id) (cs_groups st) -> id < cs_next st) /\
  (forall f id, cs_next st <= id -> nget f id (cs_incl st) = 0 /\ nget f id (cs_excl st) = 0).

Lemma NoDup_snoc {A} (l:list A) x : NoDup l -> ~ In x l -> NoDup (l ++ [x]).
Proof. induction l as [|a t IH]; intros ND H; [constructor; [intros []|constructor]|]. inversion ND; subst. cbn [app]. constructor.
  - intros Hin. apply in_app_or in Hin. destruct Hin as [Hin|[Hin|[]]]; [auto|subst; apply H; left; reflexivity].
  - apply IH; [assumption|intros Hin; apply H; right; exact Hin]. Qed.
Lemma NoDup_app_intro {A} (l l':list A) : NoDup l -> NoDup l' -> (forall x, In x l -> In x l' -> False) -> NoDup (l ++ l').
Proof. induction l as [|a t IH]; intros N1 N2 H; [exact N2|]. inversion N1; subst. cbn [app]. constructor.
  - intros Hin. apply in_app_or in Hin. destruct Hin as [Hin|Hin]; [auto|apply (H a); [left; reflexivity|exact Hin]].
  - apply IH; [assumption|assumption|intros x H1 H2'; apply (H x); [right; exact H1|exact H2']]. Qed.
Lemma gfind_In g l id : gfind g l = Some id -> In (g, id) l.
Proof. induction l as [|[g' i] t IH]; cbn [gfind]; [discriminate|]. destruct (g =? g') eqn:E; [intros H; inversion H; left; f_equal; lia|intros H; right; auto]. Qed.
Lemma gfind_None g l : gfind g l = None -> ~ In g (map fst l).
Proof. induction l as [|[g' i] t IH]; cbn [gfind map fst]; [tauto|]. destruct (g =? g') eqn:E; [discriminate|]. intros H [H1|H1]; [simpl in H1; lia|apply IH; auto]. Qed.
Lemma In_gfind g id l : NoDup (map fst l) -> In (g, id) l -> gfind g l = Some id.
Proof. induction l as [|[g' i] t IH]; [intros _ []|]. cbn [map fst gfind]. intros ND [H|H].
  - inversion H; subst. rewrite Z.eqb_refl. reflexivity.
  - inversion ND; subst. destruct (g =? g') eqn:E; [exfalso; apply H2; replace g' with g by lia; change g with (fst (g, id)); apply in_map; exact H|apply IH; auto]. Qed.
Lemma gfind_app g l l' : gfind g (l ++ l') = match gfind g l with Some id => Some id | None => gfind g l' end.
Proof. induction l as [|[g' i] t IH]; [reflexivity|]. cbn [app gfind]. destruct (g =? g'); [reflexivity|exact IH]. Qed.

Lemma step_groups st v f gid : cs_groups (step st v f gid) = cs_groups st /\ cs_next (step st v f gid) = cs_next st.
Proof. unfold step. destruct (v =? 1); [split; reflexivity|]. destruct (v =? -1); split; reflexivity. Qed.
Lemma step_incl st v f gid x y : nget x y (cs_incl (step st v f gid)) = nget x y (cs_incl st) + (if (v =? 1) && (x =? fi_id f) && (y =? gid) then 1 else 0).
Proof. unfold step. destruct (v =? 1) eqn:E1; cbn [cs_incl andb]; [rewrite nget_ninc; reflexivity|]. destruct (v =? -1); cbn [cs_incl]; lia. Qed.
Lemma step_excl st v f gid x y : nget x y (cs_excl (step st v f gid)) = nget x y (cs_excl st) + (if (v =? -1) && (x =? fi_id f) && (y =? gid) then 1 else 0).
Proof. unfold step. destruct (v =? 1) eqn:E1; cbn [cs_excl andb]; [replace (v =? -1) with false by lia; cbn [andb]; lia|].
  destruct (v =? -1) eqn:E2; cbn [cs_excl andb]; [rewrite nget_ninc; reflexivity|lia]. Qed.

Lemma add_loop_spec : forall prof pm st gid st', add_loop st prof pm gid = Some st' ->
  cs_groups st' = cs_groups st /\ cs_next st' = cs_next st /\
  forall x y, nget x y (cs_incl st') = nget x y (cs_incl st) + (if y =? gid then hits 1 x prof pm else 0) /\
              nget x y (cs_excl st') = nget x y (cs_excl st) + (if y =? gid then hits (-1) x prof pm else 0).
Proof.
  induction prof as [|v prof IH]; intros pm st gid st' H.
  - cbn [add_loop] in H. inversion H; subst. split; [reflexivity|split; [reflexivity|intros x y; cbn [hits]; destruct (y =? gid); lia]].
  - cbn [add_loop] in H. destruct pm as [|f pm'].
    + destruct ((v =? 1) || (v =? -1)) eqn:E; [discriminate|]. destruct (IH [] st gid st' H) as (G & N & C). split; [exact G|split; [exact N|]].
      intros x y. destruct (C x y) as (C1 & C2). assert (Hh: forall w p, hits w x p [] = 0) by (intros w p; destruct p; reflexivity).
      rewrite !Hh in *. split; assumption.
    + destruct (IH pm' _ gid st' H) as (G & N & C). destruct (step_groups st v f gid) as (G1 & N1).
      split; [congruence|]. split; [congruence|]. intros x y. destruct (C x y) as (C1 & C2). rewrite C1, C2, step_incl, step_excl. cbn [hits].
      destruct (y =? gid) eqn:Ey; destruct (v =? 1) eqn:E1; destruct (v =? -1) eqn:E2; destruct (fi_id f =? x) eqn:E3;
        try replace (x =? fi_id f) with true by lia; try replace (x =? fi_id f) with false by lia; cbn [andb]; lia.
Qed.

Lemma reg_group_spec st g st1 gid : ginv st -> reg_group st g = (st1, gid) ->
  ginv st1 /\ gfind g (cs_groups st1) = Some gid /\ cs_incl st1 = cs_incl st /\ cs_excl st1 = cs_excl st /\ cs_names st1 = cs_names st /\
  (forall g' id, gfind g' (cs_groups st) = Some id -> gfind g' (cs_groups st1) = Some id) /\
  (forall g' id, gfind g' (cs_groups st1) = Some id -> gfind g' (cs_groups st) = Some id \/ (g' = g /\ cs_next st <= id)).
Proof.
  intros (I1 & I2 & I3 & I4) H. unfold reg_group in H. destruct (gfind g (cs_groups st)) as [id|] eqn:E.
  - inversion H; subst. split; [unfold ginv; auto|]. split; [exact E|]. repeat (split; [reflexivity|]). split; [auto|]. intros g' id' Hf. left. exact Hf.
  - inversion H; subst; clear H. unfold ginv. cbn [cs_groups cs_next cs_incl cs_excl cs_names].
    split; [|split; [|split; [reflexivity|split; [reflexivity|split; [reflexivity|split]]]]].
    + repeat split.
      * rewrite map_app. cbn [map fst]. apply NoDup_snoc; [exact I1|apply gfind_None; exact E].
      * rewrite map_app. cbn [map snd]. apply NoDup_snoc; [exact I2|]. intros Hin. apply in_map_iff in Hin. destruct Hin as ([g' i] & Hi & Hin). simpl in Hi. subst. specialize (I3 _ _ Hin). lia.
      * intros g' id Hin. apply in_app_or in Hin. destruct Hin as [Hin|[Hin|[]]]; [specialize (I3 _ _ Hin); lia|inversion Hin; lia].
      * apply I4; lia.
      * apply I4; lia.
    + rewrite gfind_app, E. cbn [gfind]. rewrite Z.eqb_refl. reflexivity.
    + intros g' id Hf. rewrite gfind_app, Hf. reflexivity.
    + intros g' id Hf. rewrite gfind_app in Hf. destruct (gfind g' (cs_groups st)); [left; exact Hf|]. cbn [gfind] in Hf. destruct (g' =? g) eqn:Eg; [|discriminate]. inversion Hf. right. split; lia.
Qed.

Lemma snd_inj_of_nodup (l:list (Z*Z)) g1 g2 i : NoDup (map snd l) -> In (g1, i) l -> In (g2, i) l -> g1 = g2.
Proof. induction l as [|[g0 i0] t IH]; [intros _ []|]. cbn [map snd]. intros ND H1 H2. inversion ND; subst.
  destruct H1 as [H1|H1]; destruct H2 as [H2|H2].
  - congruence.
  - inversion H1; subst. exfalso. apply H3. change i with (snd (g2, i)). apply in_map. exact H2.
  - inversion H2; subst. exfalso. apply H3. change i with (snd (g1, i)). apply in_map. exact H1.
  - apply IH; assumption. Qed.

Lemma add_from_profile_spec st prof pm g st' : ginv st -> add_from_profile st prof pm g = Some st' ->
  ginv st' /\ cs_next st <= cs_next st' /\
  (forall g' id, gfind g' (cs_groups st) = Some id -> gfind g' (cs_groups st') = Some id) /\
  (forall g' id, gfind g' (cs_groups st') = Some id -> gfind g' (cs_groups st) = Some id \/ (g' = g /\ cs_next st <= id)) /\
  (exists gid, gfind g (cs_groups st') = Some gid) /\
  forall x g' id, gfind g' (cs_groups st') = Some id ->
    nget x id (cs_incl st') = nget x id (cs_incl st) + (if g' =? g then hits 1 x prof pm else 0) /\
    nget x id (cs_excl st') = nget x id (cs_excl st) + (if g' =? g then hits (-1) x prof pm else 0).
Proof.
  intros I H. unfold add_from_profile in H. destruct (reg_group st g) as [st1 gid] eqn:ER.
  destruct (reg_group_spec st g st1 gid I ER) as (I1 & Fg & Ei & Ee & En & Pres & Back).
  destruct (add_loop_spec prof pm st1 gid st' H) as (G & N & C).
  destruct I1 as (J1 & J2 & J3 & J4).
  assert (Hgid: gid < cs_next st1) by (apply (J3 g); apply gfind_In; exact Fg).
  assert (Hnext: cs_next st <= cs_next st1).
  { unfold reg_group in ER. destruct (gfind g (cs_groups st)); inversion ER; subst; cbn [cs_next]; lia. }
  split; [|split; [lia|split; [|split; [|split]]]].
  - unfold ginv. rewrite G, N. repeat split; auto.
    + destruct (C f id) as (C1 & _). rewrite C1. destruct (J4 f id H0) as (Z1 & _). replace (id =? gid) with false by lia. lia.
    + destruct (C f id) as (_ & C2). rewrite C2. destruct (J4 f id H0) as (_ & Z2). replace (id =? gid) with false by lia. lia.
  - rewrite G. exact Pres.
  - rewrite G. exact Back.
  - exists gid. rewrite G. exact Fg.
  - intros x g' id Hf. rewrite G in Hf. destruct (C x id) as (C1 & C2). rewrite C1, C2, Ei, Ee.
    assert (Hiff: (id =? gid) = (g' =? g)).
    { destruct (g' =? g) eqn:Eg.
      - assert (g' = g) by lia. subst. rewrite Fg in Hf. inversion Hf. lia.
      - destruct (id =? gid) eqn:Ei'; [|reflexivity]. assert (id = gid) by lia. subst.
        pose proof (snd_inj_of_nodup _ g' g gid J2 (gfind_In _ _ _ Hf) (gfind_In _ _ _ Fg)). lia. }
    rewrite Hiff. split; reflexivity.
Qed.

(* ------------------------------------------------------------------ T1: counts are profile tallies *)
Theorem run_calls_tally : forall calls st st', ginv st -> run_calls st calls = Some st' ->
  ginv st' /\ cs_next st <= cs_next st' /\
  (forall g id, gfind g (cs_groups st) = Some id -> gfind g (cs_groups st') = Some id) /\
  (forall g id, gfind g (cs_groups st') = Some id -> gfind g (cs_groups st) = Some id \/ cs_next st <= id) /\
  (forall c, In c calls -> exists gid, gfind (snd c) (cs_groups st') = Some gid) /\
  forall x g id, gfind g (cs_groups st') = Some id ->
    nget x id (cs_incl st') = nget x id (cs_incl st) + tally 1 calls x g /\
    nget x id (cs_excl st') = nget x id (cs_excl st) + tally (-1) calls x g.
Proof.
  induction calls as [|[[prof pm] gc] t IH]; intros st st' I H.
  - cbn [run_calls] in H. inversion H; subst. split; [exact I|]. split; [lia|]. split; [auto|]. split; [auto|]. split; [intros c []|]. intros; cbn [tally]; lia.
  - cbn [run_calls] in H. destruct (add_from_profile st prof pm gc) as [st1|] eqn:E1; [|discriminate].
    destruct (add_from_profile_spec st prof pm gc st1 I E1) as (I1 & N1 & P1 & B1 & (gid & Fg) & C1).
    destruct (IH st1 st' I1 H) as (I' & N' & P' & B' & R' & C').
    split; [exact I'|]. split; [lia|]. split; [intros g id Hf; apply P', P1, Hf|]. split; [|split].
    + intros g id Hf. destruct (B' g id Hf) as [Hb|Hb]; [destruct (B1 g id Hb) as [Hc|[_ Hc]]; [left; exact Hc|right; exact Hc]|right; lia].
    + intros c [Hc|Hc]; [subst c; exists gid; apply P'; exact Fg|apply R'; exact Hc].
    + intros x g id Hf. destruct (C' x g id Hf) as (A1 & A2). rewrite A1, A2. cbn [tally].
      destruct (gfind g (cs_groups st1)) as [id1|] eqn:E2.
      * pose proof (P' g id1 E2) as Hp. rewrite Hf in Hp. inversion Hp; subst id1. destruct (C1 x g id E2) as (D1 & D2). rewrite D1, D2.
        replace (gc =? g) with (g =? gc) by (destruct (g =? gc) eqn:Q; lia). lia.
      * destruct (B' g id Hf) as [Hb|Hb]; [congruence|].
        assert (g <> gc) by (intros ->; congruence). replace (gc =? g) with false by lia.
        destruct I1 as (_ & _ & _ & J4). destruct I as (_ & _ & _ & K4).
        destruct (J4 x id Hb) as (Z1 & Z2). destruct (K4 x id ltac:(lia)) as (Z3 & Z4). lia.
Qed.

Lemma ginv_init ignore na : ginv (init_state ignore na).
Proof. unfold ginv, init_state. destruct ignore; cbn [cs_groups cs_next cs_incl cs_excl map fst snd nget].
  - repeat split; try (constructor; [intros []|constructor]). intros g id [H|[]]. inversion H. lia.
  - repeat split; try constructor. intros g id []. Qed.

(* after ANY sequence of read assignments, the include / exclude counters of a feature id under a group are exactly the numbers of
   (read, profile position) pairs with +1 / -1 on that feature id in that group *)
Theorem counts_are_profile_tallies kd ignore na l st : run_counter kd ignore na l = Some st ->
  forall x g id, gfind g (cs_groups st) = Some id ->
    nget x id (cs_incl st) = tally 1 (effective_calls kd ignore na l) x g /\
    nget x id (cs_excl st) = tally (-1) (effective_calls kd ignore na l) x g.
Proof.
  unfold run_counter. rewrite run_from_calls. intros H x g id Hf.
  destruct (run_calls_tally _ _ _ (ginv_init ignore na) H) as (_ & _ & _ & _ & _ & C). destruct (C x g id Hf) as (C1 & C2).
  rewrite C1, C2. unfold init_state. cbn [cs_incl cs_excl nget]. lia.
Qed.

(* when feature ids are unique inside a property map, a profile hits a feature id at most once, at the position of that feature *)
Lemma hits_absent v fid : forall prof pm, (forall f, In f pm -> fi_id f <> fid) -> hits v fid prof pm = 0.
Proof. induction prof as [|x p IH]; intros pm H; [reflexivity|]. destruct pm as [|f m]; [reflexivity|]. cbn [hits].
  rewrite IH by (intros f' Hf; apply H; right; exact Hf). pose proof (H f (or_introl eq_refl)). replace (fi_id f =? fid) with false by lia. rewrite andb_false_r. reflexivity. Qed.
Lemma hits_position v : forall prof pm i f, NoDup (map fi_id pm) -> nth_error pm i = Some f ->
  hits v (fi_id f) prof pm = match nth_error prof i with Some x => if x =? v then 1 else 0 | None => 0 end.
Proof. induction prof as [|x p IH]; intros pm i f ND Hn.
  - destruct i; reflexivity.
  - destruct pm as [|f0 m]; [destruct i; discriminate|]. cbn [map] in ND. inversion ND; subst. cbn [hits]. destruct i as [|i].
    + cbn [nth_error] in Hn. inversion Hn; subst. rewrite Z.eqb_refl, andb_true_r.
      rewrite hits_absent; [cbn [nth_error]; lia|]. intros f' Hf' Heq. apply H1. rewrite <- Heq. apply in_map. exact Hf'.
    + cbn [nth_error] in Hn |- *. rewrite (IH m i f H2 Hn).
      assert (fi_id f0 <> fi_id f). { intros Heq. apply H1. rewrite Heq. apply in_map. eapply nth_error_In. exact Hn. }
      replace (fi_id f0 =? fi_id f) with false by lia. rewrite andb_false_r. lia. Qed.

(* number of reads of group g, among those processed with property map pm0 (selected by `same`), whose profile has v at position i *)
Fixpoint reads_with (v:Z) (i:nat) (g:Z) (same:call -> bool) (calls:list call) : Z :=
  match calls with
  | [] => 0
  | c :: t => (if same c && (snd c =? g) then match nth_error (fst (fst c)) i with Some x => if x =? v then 1 else 0 | None => 0 end else 0) + reads_with v i g same t
  end.
Theorem tally_is_number_of_reads v i g (pm0:list finfo) f0 (same:call -> bool) : forall calls,
  nth_error pm0 i = Some f0 -> NoDup (map fi_id pm0) ->
  (forall c, In c calls -> if same c then snd (fst c) = pm0 else forall f, In f (snd (fst c)) -> fi_id f <> fi_id f0) ->
  tally v calls (fi_id f0) g = reads_with v i g same calls.
Proof.
  intros calls Hn ND. induction calls as [|[[prof pm] gc] t IH]; intros H; [reflexivity|]. cbn [tally reads_with fst snd].
  rewrite IH by (intros c Hc; apply H; right; exact Hc). pose proof (H _ (or_introl eq_refl)) as Hc. cbn [fst snd] in Hc.
  destruct (same (prof, pm, gc)); cbn [andb].
  - subst pm. destruct (gc =? g); [rewrite (hits_position v prof pm0 i f0 ND Hn)|]; reflexivity.
  - rewrite hits_absent by exact Hc. destruct (gc =? g); reflexivity.
Qed.

(* ------------------------------------------------------------------ T2: the dumped rows *)
Lemma zinsert_In x y l : In y (zinsert x l) <-> y = x \/ In y l.
Proof. induction l as [|a t IH]; cbn [zinsert]; [simpl; intuition|]. destruct (x <=? a); [simpl; intuition|]. simpl. rewrite IH. intuition. Qed.
Lemma zsort_In y l : In y (zsort l) <-> In y l.
Proof. induction l as [|a t IH]; [reflexivity|]. cbn [zsort]. rewrite zinsert_In, IH. simpl. intuition. Qed.
Lemma zinsert_NoDup x l : NoDup l -> ~ In x l -> NoDup (zinsert x l).
Proof. induction l as [|a t IH]; intros ND H; cbn [zinsert]; [constructor; [intros []|constructor]|]. destruct (x <=? a); [constructor; assumption|].
  inversion ND; subst. constructor; [rewrite zinsert_In; intros [->|Hin]; [apply H; left; reflexivity|auto]|apply IH; [assumption|intros Hin; apply H; right; exact Hin]]. Qed.
Lemma zsort_NoDup l : NoDup l -> NoDup (zsort l).
Proof. induction 1; [constructor|]. cbn [zsort]. apply zinsert_NoDup; [assumption|rewrite zsort_In; assumption]. Qed.

Definition ninv (st:cstate) : Prop :=
  NoDup (map fst (cs_names st)) /\
  forall x id, nget x id (cs_incl st) <> 0 \/ nget x id (cs_excl st) <> 0 -> In x (map fst (cs_names st)).

Lemma note_name_spec names f : NoDup (map fst names) ->
  NoDup (map fst (note_name names f)) /\ In (fi_id f) (map fst (note_name names f)) /\
  (forall p, In p names -> In p (note_name names f)) /\
  (forall p, In p (note_name names f) -> In p names \/ p = (fi_id f, row_of f)).
Proof. intros ND. unfold note_name. destruct (existsb (fun p => fst p =? fi_id f) names) eqn:E.
  - split; [exact ND|]. split; [|split; auto]. apply existsb_exists in E. destruct E as (p & Hp & Hq). replace (fi_id f) with (fst p) by lia. apply in_map. exact Hp.
  - split; [|split; [|split]].
    + rewrite map_app. cbn [map fst]. apply NoDup_snoc; [exact ND|]. intros Hin. apply in_map_iff in Hin. destruct Hin as (p & Hp & Hin).
      assert (existsb (fun p => fst p =? fi_id f) names = true) by (apply existsb_exists; exists p; split; [exact Hin|lia]). congruence.
    + rewrite map_app. apply in_or_app. right. left. reflexivity.
    + intros p Hp. apply in_or_app. left. exact Hp.
    + intros p Hp. apply in_app_or in Hp. destruct Hp as [Hp|[Hp|[]]]; [left; exact Hp|right; symmetry; exact Hp]. Qed.

Lemma step_names st v f gid : ninv st ->
  ninv (step st v f gid) /\ (forall p, In p (cs_names st) -> In p (cs_names (step st v f gid))) /\
  (forall p, In p (cs_names (step st v f gid)) -> In p (cs_names st) \/ p = (fi_id f, row_of f)).
Proof.
  intros (N1 & N2). destruct (note_name_spec (cs_names st) f N1) as (A1 & A2 & A3 & A4).
  assert (Sub: forall x, In x (map fst (cs_names st)) -> In x (map fst (note_name (cs_names st) f))).
  { intros x Hx. apply in_map_iff in Hx. destruct Hx as (p & Hp & Hin). subst. apply in_map. apply A3. exact Hin. }
  pose proof (step_incl st v f gid) as SI. pose proof (step_excl st v f gid) as SE.
  assert (Key: forall x id, nget x id (cs_incl (step st v f gid)) <> 0 \/ nget x id (cs_excl (step st v f gid)) <> 0 ->
                 (x = fi_id f /\ ((v =? 1) || (v =? -1)) = true) \/ nget x id (cs_incl st) <> 0 \/ nget x id (cs_excl st) <> 0).
  { intros x id H. rewrite SI, SE in H. destruct (v =? 1) eqn:E1; destruct (v =? -1) eqn:E2; destruct (x =? fi_id f) eqn:E3; cbn [andb orb] in *;
      try (left; split; [lia|reflexivity]); right; destruct (id =? gid); lia. }
  unfold step in *. destruct (v =? 1) eqn:E1; [|destruct (v =? -1) eqn:E2].
  - split; [|split; [exact A3|exact A4]]. split; [exact A1|]. cbn [cs_names]. intros x id H.
    destruct (Key x id H) as [(-> & _)|Hk]; [exact A2|]. apply Sub, (N2 x id). exact Hk.
  - split; [|split; [exact A3|exact A4]]. split; [exact A1|]. cbn [cs_names]. intros x id H.
    destruct (Key x id H) as [(-> & _)|Hk]; [exact A2|]. apply Sub, (N2 x id). exact Hk.
  - split; [split; assumption|]. split; auto.
Qed.

Lemma add_loop_names : forall prof pm st gid st', ninv st -> add_loop st prof pm gid = Some st' ->
  ninv st' /\ (forall p, In p (cs_names st) -> In p (cs_names st')) /\
  (forall p, In p (cs_names st') -> In p (cs_names st) \/ exists f, In f pm /\ p = (fi_id f, row_of f)).
Proof.
  induction prof as [|v prof IH]; intros pm st gid st' I H; cbn [add_loop] in H.
  - inversion H; subst. split; [exact I|]. split; auto.
  - destruct pm as [|f pm'].
    + destruct ((v =? 1) || (v =? -1)); [discriminate|]. apply (IH [] st gid st' I H).
    + destruct (step_names st v f gid I) as (I1 & S1 & S2). destruct (IH pm' _ gid st' I1 H) as (I' & T1 & T2).
      split; [exact I'|]. split; [intros p Hp; apply T1, S1, Hp|]. intros p Hp. destruct (T2 p Hp) as [Hq|(f' & Hf' & Hq)].
      * destruct (S2 p Hq) as [Hr|Hr]; [left; exact Hr|right; exists f; split; [left; reflexivity|exact Hr]].
      * right. exists f'. split; [right; exact Hf'|exact Hq].
Qed.

Lemma run_calls_names : forall calls st st', ninv st -> run_calls st calls = Some st' ->
  ninv st' /\ (forall p, In p (cs_names st) -> In p (cs_names st')) /\
  (forall p, In p (cs_names st') -> In p (cs_names st) \/ exists c f, In c calls /\ In f (snd (fst c)) /\ p = (fi_id f, row_of f)).
Proof.
  induction calls as [|[[prof pm] gc] t IH]; intros st st' I H; cbn [run_calls] in H.
  - inversion H; subst. split; [exact I|]. split; auto.
  - destruct (add_from_profile st prof pm gc) as [st1|] eqn:E1; [|discriminate]. unfold add_from_profile in E1.
    destruct (reg_group st gc) as [st0 gid] eqn:ER.
    assert (I0: ninv st0 /\ cs_names st0 = cs_names st).
    { unfold reg_group in ER. destruct (gfind gc (cs_groups st)); inversion ER; subst; [split; [exact I|reflexivity]|]. split; [exact I|reflexivity]. }
    destruct I0 as (I0 & En). destruct (add_loop_names prof pm st0 gid st1 I0 E1) as (I1 & S1 & S2). destruct (IH st1 st' I1 H) as (I' & T1 & T2).
    split; [exact I'|]. split; [intros p Hp; apply T1, S1; rewrite En; exact Hp|]. intros p Hp. destruct (T2 p Hp) as [Hq|(c & f & Hc & Hf & Hq)].
    + destruct (S2 p Hq) as [Hr|(f & Hf & Hr)]; [left; rewrite <- En; exact Hr|]. right. exists (prof, pm, gc), f. split; [left; reflexivity|split; [exact Hf|exact Hr]].
    + right. exists c, f. split; [right; exact Hc|split; [exact Hf|exact Hq]].
Qed.

Lemma ninv_init ignore na : ninv (init_state ignore na).
Proof. unfold ninv, init_state; cbn [cs_names cs_incl cs_excl map nget]. split; [constructor|intros x id [H|H]; congruence]. Qed.

Lemma dump_ids_In st fid row g i e : In (fid, row, g, i, e) (dump_ids st) <->
  In (fid, row) (cs_names st) /\ In g (map fst (cs_groups st)) /\
  i = nget fid (gid_of st g) (cs_incl st) /\ e = nget fid (gid_of st g) (cs_excl st) /\ (0 < i \/ 0 < e).
Proof.
  unfold dump_ids. rewrite in_flat_map. split.
  - intros ([fid' row'] & Hp & Hin). rewrite in_flat_map in Hin. destruct Hin as (g' & Hg & Hin). cbn [fst snd] in Hin. rewrite zsort_In in Hg.
    destruct ((0 <? nget fid' (gid_of st g') (cs_incl st)) || (0 <? nget fid' (gid_of st g') (cs_excl st))) eqn:Q; [|destruct Hin].
    destruct Hin as [Hin|[]]. inversion Hin; subst. repeat split; auto; lia.
  - intros (Hp & Hg & -> & -> & Hpos). exists (fid, row). split; [exact Hp|]. rewrite in_flat_map. exists g. rewrite zsort_In. split; [exact Hg|]. cbn [fst snd].
    replace ((0 <? nget fid (gid_of st g) (cs_incl st)) || (0 <? nget fid (gid_of st g) (cs_excl st))) with true by lia. left. reflexivity.
Qed.

(* every dumped line carries the tallies of its feature id and group, and the to_str() of a feature with that id from some processed read's
   property map; every (feature id, group) with a non-zero tally has exactly such a line *)
Theorem dump_is_tallies kd ignore na l st : run_counter kd ignore na l = Some st ->
  let calls := effective_calls kd ignore na l in
  (forall fid row g i e, In (fid, row, g, i, e) (dump_ids st) ->
     i = tally 1 calls fid g /\ e = tally (-1) calls fid g /\ (0 < i \/ 0 < e) /\
     exists c f, In c calls /\ In f (snd (fst c)) /\ fi_id f = fid /\ row_of f = row) /\
  (forall fid g, In g (map fst (cs_groups st)) -> 0 < tally 1 calls fid g \/ 0 < tally (-1) calls fid g ->
     exists row, In (fid, row, g, tally 1 calls fid g, tally (-1) calls fid g) (dump_ids st)) /\
  NoDup (map (fun r => let '(fid, _, g, _, _) := r in (fid, g)) (dump_ids st)).
Proof.
  intros H calls. pose proof H as H0. unfold run_counter in H0. rewrite run_from_calls in H0. fold calls in H0.
  destruct (run_calls_tally _ _ _ (ginv_init ignore na) H0) as (GI & _ & _ & _ & _ & _).
  destruct (run_calls_names _ _ _ (ninv_init ignore na) H0) as ((N1 & N2) & _ & Prov).
  pose proof (counts_are_profile_tallies kd ignore na l st H) as CT. fold calls in CT.
  assert (Gid: forall g, In g (map fst (cs_groups st)) -> gfind g (cs_groups st) = Some (gid_of st g)).
  { intros g Hg. unfold gid_of. destruct (gfind g (cs_groups st)) eqn:E; [reflexivity|]. exfalso. apply (gfind_None _ _ E). exact Hg. }
  split; [|split].
  - intros fid row g i e Hin. apply dump_ids_In in Hin. destruct Hin as (Hp & Hg & -> & -> & Hpos). destruct (CT fid g _ (Gid g Hg)) as (C1 & C2).
    split; [exact C1|]. split; [exact C2|]. split; [exact Hpos|]. destruct (Prov _ Hp) as [[]|(c & f & Hc & Hf & Heq)]. inversion Heq. exists c, f. auto.
  - intros fid g Hg Hpos. destruct (CT fid g _ (Gid g Hg)) as (C1 & C2).
    assert (Hn: In fid (map fst (cs_names st))) by (apply (N2 fid (gid_of st g)); lia).
    apply in_map_iff in Hn. destruct Hn as ([fid' row] & Hf & Hn). cbn [fst] in Hf. subst fid'. exists row. apply dump_ids_In. rewrite C1, C2. auto.
  - unfold dump_ids. destruct GI as (G1 & _). revert N1. generalize (cs_names st). induction l0 as [|[fid row] t IHt]; intros ND; [constructor|].
    cbn [flat_map map fst] in *. inversion ND; subst. rewrite map_app. apply NoDup_app_intro.
    + pose proof (zsort_NoDup _ G1) as ZN. revert ZN. generalize (zsort (map fst (cs_groups st))). induction l0 as [|g gs IHg]; intros ZN; [constructor|].
      cbn [flat_map]. inversion ZN; subst. destruct ((0 <? nget fid (gid_of st g) (cs_incl st)) || (0 <? nget fid (gid_of st g) (cs_excl st))); cbn [app map]; [|apply IHg; assumption].
      constructor; [|apply IHg; assumption]. intros Hin. apply in_map_iff in Hin. destruct Hin as ([[[[a b] c] d] e'] & Heq & Hin). inversion Heq; subst.
      rewrite in_flat_map in Hin. destruct Hin as (g' & Hg' & Hin). destruct ((0 <? nget fid (gid_of st g') (cs_incl st)) || (0 <? nget fid (gid_of st g') (cs_excl st))); [|destruct Hin].
      destruct Hin as [Hin|[]]. inversion Hin; subst. auto.
    + apply IHt. assumption.
    + intros [a b] Hin1 Hin2. apply in_map_iff in Hin1. destruct Hin1 as ([[[[a1 b1] c1] d1] e1] & Heq1 & Hin1). inversion Heq1; subst.
      rewrite in_flat_map in Hin1. destruct Hin1 as (g' & _ & Hin1). destruct ((0 <? nget fid (gid_of st g') (cs_incl st)) || (0 <? nget fid (gid_of st g') (cs_excl st))); [|destruct Hin1].
      destruct Hin1 as [Hin1|[]]. inversion Hin1; subst.
      apply in_map_iff in Hin2. destruct Hin2 as ([[[[a2 b2] c2] d2] e2] & Heq2 & Hin2). inversion Heq2; subst.
      rewrite in_flat_map in Hin2. destruct Hin2 as ([fid2 row2] & Hp2 & Hin2). rewrite in_flat_map in Hin2. destruct Hin2 as (g2 & _ & Hin2). cbn [fst snd] in Hin2.
      destruct ((0 <? nget fid2 (gid_of st g2) (cs_incl st)) || (0 <? nget fid2 (gid_of st g2) (cs_excl st))); [|destruct Hin2].
      destruct Hin2 as [Hin2|[]]. inversion Hin2; subst.
      match goal with Hn : ~ In _ (map fst t) |- _ => apply Hn end. apply (in_map fst) in Hp2. exact Hp2.
Qed.

(* ------------------------------------------------------------------ T4: grouped counts partition the ungrouped ones *)
Fixpoint total_hits (v:Z) (calls:list call) (fid:Z) : Z :=
  match calls with [] => 0 | (prof, pm, _) :: t => hits v fid prof pm + total_hits v t fid end.
Definition zsum (l:list Z) : Z := fold_right Z.add 0 l.
Lemma hits_nonneg v fid : forall prof pm, 0 <= hits v fid prof pm.
Proof. induction prof as [|x p IH]; intros pm; [cbn; lia|]. destruct pm as [|f m]; [cbn; lia|]. cbn [hits]. specialize (IH m). destruct ((x =? v) && (fi_id f =? fid)); lia. Qed.
Lemma tally_nonneg v fid g : forall calls, 0 <= tally v calls fid g.
Proof. induction calls as [|[[prof pm] gc] t IH]; cbn [tally]; [lia|]. pose proof (hits_nonneg v fid prof pm). destruct (gc =? g); lia. Qed.
Lemma sum_indicator (h gc:Z) : forall G, NoDup G -> zsum (map (fun g => if gc =? g then h else 0) G) = if existsb (Z.eqb gc) G then h else 0.
Proof. induction G as [|a t IH]; intros ND; [reflexivity|]. inversion ND; subst. cbn [map zsum fold_right existsb]. fold (zsum (map (fun g => if gc =? g then h else 0) t)). rewrite IH by assumption.
  destruct (gc =? a) eqn:E; cbn [orb]; [|lia]. assert (existsb (Z.eqb gc) t = false).
  { destruct (existsb (Z.eqb gc) t) eqn:Q; [|reflexivity]. apply existsb_exists in Q. destruct Q as (x & Hx & Hq). exfalso. apply H1. replace a with x by lia. exact Hx. }
  rewrite H. lia. Qed.
Lemma zsum_add {A} (f g:A -> Z) l : zsum (map (fun x => f x + g x) l) = zsum (map f l) + zsum (map g l).
Proof. induction l as [|a t IH]; [reflexivity|]. cbn [map zsum fold_right]. fold (zsum (map (fun x => f x + g x) t)) (zsum (map f t)) (zsum (map g t)). lia. Qed.
Lemma zsum_zero {A} (l:list A) : zsum (map (fun _ => 0) l) = 0.
Proof. induction l as [|a t IH]; [reflexivity|]. cbn [map zsum fold_right]. fold (zsum (map (fun _ : A => 0) t)). lia. Qed.
Lemma tally_partition v fid G : NoDup G -> forall calls, (forall c, In c calls -> In (snd c) G) ->
  zsum (map (fun g => tally v calls fid g) G) = total_hits v calls fid.
Proof. intros ND. induction calls as [|[[prof pm] gc] t IH]; intros H.
  - cbn [tally total_hits]. apply zsum_zero.
  - cbn [tally total_hits]. rewrite (zsum_add (fun g => if gc =? g then hits v fid prof pm else 0) (fun g => tally v t fid g)).
    rewrite IH by (intros c Hc; apply H; right; exact Hc). rewrite sum_indicator by exact ND.
    replace (existsb (Z.eqb gc) G) with true; [reflexivity|]. symmetry. apply existsb_exists. exists gc. split; [apply (H (prof, pm, gc)); left; reflexivity|lia]. Qed.
Lemma tally_single v fid na : forall calls, tally v (map (fun c => (fst c, na)) calls) fid na = total_hits v calls fid.
Proof. induction calls as [|[[prof pm] gc] t IH]; [reflexivity|]. cbn [map tally total_hits fst]. rewrite Z.eqb_refl, IH. reflexivity. Qed.
Lemma effective_calls_ignore kd na : forall l, effective_calls kd true na l = map (fun c => (fst c, na)) (effective_calls kd false na l).
Proof. induction l as [|a t IH]; [reflexivity|]. cbn [effective_calls]. unfold effective. destruct a as [a|]; [|exact IH].
  destruct (a_exon_prof a), (a_intron_prof a), (a_gene_info a) as [[em im]|]; try exact IH. destruct kd; cbn [map fst]; rewrite IH; reflexivity. Qed.

(* the name table does not depend on the groups *)
Fixpoint names_loop (names:list (Z * frow)) (prof:list Z) (pm:list finfo) : list (Z * frow) :=
  match prof, pm with v :: p', f :: m' => names_loop (if (v =? 1) || (v =? -1) then note_name names f else names) p' m' | _, _ => names end.
Fixpoint names_calls (names:list (Z * frow)) (calls:list call) : list (Z * frow) :=
  match calls with [] => names | (prof, pm, _) :: t => names_calls (names_loop names prof pm) t end.
Lemma add_loop_names_eq : forall prof pm st gid st', add_loop st prof pm gid = Some st' -> cs_names st' = names_loop (cs_names st) prof pm.
Proof. induction prof as [|v p IH]; intros pm st gid st' H; cbn [add_loop] in H; [inversion H; reflexivity|]. destruct pm as [|f m].
  - destruct ((v =? 1) || (v =? -1)); [discriminate|]. rewrite (IH [] st gid st' H). destruct p; reflexivity.
  - rewrite (IH m _ gid st' H). cbn [names_loop]. unfold step. destruct (v =? 1); [reflexivity|]. destruct (v =? -1); reflexivity. Qed.
Lemma run_calls_names_eq : forall calls st st', run_calls st calls = Some st' -> cs_names st' = names_calls (cs_names st) calls.
Proof. induction calls as [|[[prof pm] gc] t IH]; intros st st' H; cbn [run_calls] in H; [inversion H; reflexivity|].
  destruct (add_from_profile st prof pm gc) as [st1|] eqn:E; [|discriminate]. rewrite (IH st1 st' H). cbn [names_calls]. f_equal.
  unfold add_from_profile in E. destruct (reg_group st gc) as [st0 gid] eqn:ER. rewrite (add_loop_names_eq _ _ _ _ _ E). f_equal.
  unfold reg_group in ER. destruct (gfind gc (cs_groups st)); inversion ER; reflexivity. Qed.
Lemma names_calls_regroup na : forall calls names, names_calls names (map (fun c => (fst c, na)) calls) = names_calls names calls.
Proof. induction calls as [|[[prof pm] gc] t IH]; intros names; [reflexivity|]. cbn [map names_calls fst]. apply IH. Qed.

Theorem grouped_partition_ungrouped kd na l stu stg :
  run_counter kd true na l = Some stu -> run_counter kd false na l = Some stg ->
  cs_names stu = cs_names stg /\
  forall fid,
    nget fid 0 (cs_incl stu) = zsum (map (fun g => nget fid (gid_of stg g) (cs_incl stg)) (zsort (map fst (cs_groups stg)))) /\
    nget fid 0 (cs_excl stu) = zsum (map (fun g => nget fid (gid_of stg g) (cs_excl stg)) (zsort (map fst (cs_groups stg)))).
Proof.
  intros Hu Hg. pose proof (counts_are_profile_tallies _ _ _ _ _ Hu) as CU. pose proof (counts_are_profile_tallies _ _ _ _ _ Hg) as CG.
  unfold run_counter in Hu, Hg. rewrite run_from_calls in Hu, Hg. rewrite effective_calls_ignore in Hu, CU. set (calls := effective_calls kd false na l) in *.
  split.
  - rewrite (run_calls_names_eq _ _ _ Hu), (run_calls_names_eq _ _ _ Hg). apply names_calls_regroup.
  - destruct (run_calls_tally _ _ _ (ginv_init true na) Hu) as (_ & _ & PU & _ & _ & _).
    destruct (run_calls_tally _ _ _ (ginv_init false na) Hg) as ((G1 & _) & _ & _ & _ & RG & _).
    assert (Fna: gfind na (cs_groups stu) = Some 0). { apply PU. cbn. rewrite Z.eqb_refl. reflexivity. }
    assert (ZN: NoDup (zsort (map fst (cs_groups stg)))) by (apply zsort_NoDup; exact G1).
    assert (Cov: forall c, In c calls -> In (snd c) (zsort (map fst (cs_groups stg)))).
    { intros c Hc. destruct (RG c Hc) as (gid & Hf). rewrite zsort_In. apply gfind_In in Hf. apply (in_map fst) in Hf. exact Hf. }
    assert (Ext: forall v (d:cstate -> ndict), (forall x g id, gfind g (cs_groups stg) = Some id -> nget x id (d stg) = tally v calls x g) ->
                 forall fid, zsum (map (fun g => nget fid (gid_of stg g) (d stg)) (zsort (map fst (cs_groups stg)))) = total_hits v calls fid).
    { intros v d Hd fid. rewrite <- (tally_partition v fid _ ZN calls Cov). f_equal. apply map_ext_in. intros g Hg'. rewrite zsort_In in Hg'.
      apply Hd. unfold gid_of. destruct (gfind g (cs_groups stg)) eqn:E; [reflexivity|]. exfalso. apply (gfind_None _ _ E). exact Hg'. }
    intros fid. destruct (CU fid na 0 Fna) as (U1 & U2). rewrite U1, U2, !tally_single.
    rewrite (Ext 1 cs_incl (fun x g id H => proj1 (CG x g id H))), (Ext (-1) cs_excl (fun x g id H => proj2 (CG x g id H))). split; reflexivity.
Qed.

(* ------------------------------------------------------------------ GeneInfo.set_feature_properties *)
Definition iv_leb (a b:iv) : bool := (fst a <? fst b) || ((fst a =? fst b) && (snd a <=? snd b)).     (* tuple order *)
Fixpoint ivinsert (x:iv) (l:list iv) : list iv := match l with [] => [x] | y :: t => if iv_leb x y then x :: l else y :: ivinsert x t end.
Fixpoint ivsort (l:list iv) : list iv := match l with [] => [] | x :: t => ivinsert x (ivsort t) end.
Fixpoint ivdedup (l:list iv) : list iv := match l with [] => [] | x :: t => if existsb (iv_eqb x) t then ivdedup t else x :: ivdedup t end.
Fixpoint zdedup (l:list Z) : list Z := match l with [] => [] | x :: t => if existsb (Z.eqb x) t then zdedup t else x :: zdedup t end.
Definition zset (l:list Z) : list Z := zsort (zdedup l).            (* a Python set of strings, listed in sorted order *)

(* an isoform as set_feature_properties sees it: gene_id_map[t], isoform_strands[t], isoforms_to_feature_map[t] (dict order) *)
Definition isoform := (Z * Z * list iv)%type.
(* the entries (t, 'T' | '') appended to feature_to_isoform[f] by one isoform; true = 'T' *)
Definition entries_of (f:iv) (iso:isoform) : list (Z * Z * bool) :=
  let '(g, s, feats) := iso in
  match feats with
  | [] => []
  | [x] => if iv_eqb x f then [(g, s, true)] else []
  | x :: rest => (if iv_eqb x f then [(g, s, true)] else []) ++ (if iv_eqb (last rest x) f then [(g, s, true)] else []) ++
                 flat_map (fun e => if iv_eqb e f then [(g, s, false)] else []) (removelast rest)
  end.
Definition ch_X := 88. Definition ch_T := 84. Definition ch_I := 73. Definition ch_S := 83. Definition ch_C := 67. Definition ch_U := 85. Definition ch_M := 77.
Definition feature_info (delta chr:Z) (isos:list isoform) (K:list iv) (id:Z) (f:iv) : finfo :=
  let es := flat_map (entries_of f) isos in
  let genes := zset (map (fun e => fst (fst e)) es) in
  let strands := zset (map (fun e => snd (fst e)) es) in
  let base := if forallb (fun e => snd e) es then ch_X else if existsb (fun e => snd e) es then ch_T else ch_I in
  let sim := existsb (fun f2 => negb (iv_eqb f f2) && (py_equal_ranges f f2 delta || py_equal_ranges f2 f delta)) K in
  let con := existsb (fun f2 => negb (iv_eqb f f2) && py_contains f2 f) K in
  let um := if (length es =? 1)%nat then [ch_U] else if (1 <? length genes)%nat then [ch_M] else [] in
  mkfi id chr (fst f) (snd f) strands ([base] ++ (if sim then [ch_S] else []) ++ (if con then [ch_C] else []) ++ um) genes.
Fixpoint props_from (delta chr:Z) (isos:list isoform) (Kall:list iv) (id:Z) (K:list iv) : list finfo :=
  match K with [] => [] | f :: t => feature_info delta chr isos Kall (id + 1) f :: props_from delta chr isos Kall (id + 1) t end.
(* id0 = value of FeatureInfo.feature_id_counter before the call *)
Definition feature_properties (delta chr:Z) (isos:list isoform) (id0:Z) (K:list iv) : list finfo := props_from delta chr isos K id0 K.

(* GeneInfo.set_introns_and_exons: the feature lists *)
Definition exon_features (isos:list isoform) : list iv := ivsort (ivdedup (flat_map (fun i => snd i) isos)).
Definition intron_isoforms (isos:list isoform) : list isoform := map (fun i => (fst i, jfb (snd i))) isos.
Definition intron_features (isos:list isoform) : list iv := exon_features (intron_isoforms isos).

(* ------------------------------------------------------------------ T3: position i of the property map describes feature i *)
Lemma props_from_nth delta chr isos Kall : forall K id i f, nth_error K i = Some f ->
  nth_error (props_from delta chr isos Kall id K) i = Some (feature_info delta chr isos Kall (id + Z.of_nat i + 1) f).
Proof. induction K as [|k t IH]; intros id i f H; [destruct i; discriminate|]. destruct i as [|i]; cbn [nth_error props_from] in *.
  - inversion H; subst. do 2 f_equal. lia.
  - rewrite (IH (id + 1) i f H). do 2 f_equal. lia. Qed.
Lemma props_from_length delta chr isos Kall : forall K id, length (props_from delta chr isos Kall id K) = length K.
Proof. induction K as [|k t IH]; intros id; [reflexivity|]. cbn [props_from length]. rewrite IH. reflexivity. Qed.
Lemma props_from_ids delta chr isos Kall : forall K id, map fi_id (props_from delta chr isos Kall id K) = map (fun i => id + Z.of_nat i + 1) (seq 0 (length K)).
Proof. induction K as [|k t IH]; intros id; [reflexivity|]. cbn [props_from map length seq fi_id feature_info]. f_equal; [lia|]. rewrite IH, <- seq_shift, map_map. apply map_ext. intros; lia. Qed.

Theorem profile_position_is_feature delta chr isos id0 K :
  length (feature_properties delta chr isos id0 K) = length K /\
  NoDup (map fi_id (feature_properties delta chr isos id0 K)) /\
  forall i f, nth_error K i = Some f -> exists p, nth_error (feature_properties delta chr isos id0 K) i = Some p /\
    fi_chr p = chr /\ (fi_start p, fi_end p) = f /\ fi_id p = id0 + Z.of_nat i + 1.
Proof.
  unfold feature_properties. split; [apply props_from_length|]. split.
  - rewrite props_from_ids. apply Injective_map_NoDup; [intros a b H; lia|apply seq_NoDup].
  - intros i f H. eexists. split; [apply props_from_nth; exact H|]. cbn [feature_info fi_chr fi_start fi_end fi_id]. destruct f; auto.
Qed.

(* ------------------------------------------------------------------ the two profile constructors used for counting
   (OverlappingFeaturesProfileConstructor.construct_exon_profile / construct_intron_profile as configured by CombinedProfileConstructor);
   the sweep itself is Intervals.overlapping_profile (C19) *)
Definition eqd (d:Z) : iv -> iv -> bool := fun r k => py_equal_ranges r k d.
Definition kind_absent (kd:kind) (absd:Z) : iv -> iv -> bool :=
  match kd with Exon => fun reg f => py_contains reg f | Intron => fun reg f => py_overlaps_at_least reg f absd end.
Definition rec_features (kd:kind) (blocks:list iv) : list iv := match kd with Exon => blocks | Intron => jfb blocks end.
Definition rec_mapped (kd:kind) (d:Z) (blocks:list iv) : iv :=
  match blocks with
  | [] => (0, 0)
  | b0 :: _ => match kd with Exon => (snd b0 + d, fst (last blocks b0) - d) | Intron => (fst b0, snd (last blocks b0)) end
  end.
(* None = IndexError (sorted_blocks[0] of an empty list) *)
Definition gene_profile (kd:kind) (d absd:Z) (K:list iv) (gene_region:iv) (blocks:list iv) (polya polyt:Z) : option (list Z) :=
  match blocks with
  | [] => None
  | _ => match overlapping_profile (eqd d) (kind_absent kd absd) d K gene_region (rec_features kd blocks) (rec_mapped kd d blocks) polya polyt with
         | Some (g, _, _) => Some g | None => None end
  end.

(* ------------------------------------------------------------------ declarative value of ONE known feature against a read
   (C19 characterisation: Profile.value, completed with tie elimination and polyA/polyT masking) *)
Section Decl.
Variable delta : Z.
Variable absent : iv -> iv -> bool.
Variable mapped : iv.
Definition ini (k:iv) : Z := if absent mapped k then -1 else 0.
(* the first read feature whose end reaches the start of k, with its index *)
Fixpoint reach (k:iv) (R:list iv) (i:Z) : option (Z * iv) :=
  match R with [] => None | r :: R' => if snd r <? fst k then reach k R' (i + 1) else Some (i, r) end.
Definition pre_value (k:iv) (R:list iv) : Z :=
  match reach k R 0 with
  | None => ini k
  | Some (i, r) => if snd k <? fst r then (if 0 <? i then -1 else ini k) else if eqd delta r k then 1 else ini k
  end.
Definition match_idx (k:iv) (R:list iv) : option Z :=
  match reach k R 0 with Some (i, r) => if negb (snd k <? fst r) && eqd delta r k then Some i else None | None => None end.
(* k was matched to read feature i, and another known feature matched to the same read feature is strictly closer *)
Definition demoted (K R:list iv) (k:iv) : bool :=
  match match_idx k R with
  | None => false
  | Some i => let r := nthz R i (0, 0) in
              existsb (fun k' => match match_idx k' R with Some i' => (i' =? i) && (match_delta r k' <? match_delta r k) | None => false end) K
  end.
Definition masked (polya polyt:Z) (k:iv) : bool :=
  (negb (polya =? -1) && (fst k >? polya + delta)) || (negb (polyt =? -1) && (snd k <? polyt - delta)).
Definition feat_value (K R:list iv) (polya polyt:Z) (k:iv) : Z :=
  if masked polya polyt k then -2 else if demoted K R k then -1 else pre_value k R.
End Decl.

Definition rec_value (kd:kind) (d absd:Z) (K:list iv) (blocks:list iv) (polya polyt:Z) (k:iv) : Z :=
  feat_value d (kind_absent kd absd) (rec_mapped kd d blocks) K (rec_features kd blocks) polya polyt k.

(* ------------------------------------------------------------------ feature_counts_ok (DESIGN Appendix E): whole-run specification.
   ann: per chromosome the isoforms (gene, strand, exons) of the annotation; recs: the processed records (chromosome, group, exons after
   polyA trimming, external polyA / polyT positions); rows: the lines of an exon / intron count file.
   Rows of one feature (same chromosome, coordinates, strand string, group) are summed before comparison; gene lists are compared as sets. *)
Definition record := (Z * Z * list iv * Z * Z)%type.
Definition r_chr (r:record) := let '(c, _, _, _, _) := r in c.
Definition r_grp (r:record) := let '(_, g, _, _, _) := r in g.
Definition key_eqb (a b:frow) : bool :=
  let '(c1, s1, e1, st1, _, _) := a in let '(c2, s2, e2, st2, _, _) := b in (c1 =? c2) && (s1 =? s2) && (e1 =? e2) && zs_eqb st1 st2.
Definition frow_eqb (a b:frow) : bool :=
  let '(_, _, _, _, f1, g1) := a in let '(_, _, _, _, f2, g2) := b in key_eqb a b && zs_eqb f1 f2 && zs_eqb (zset g1) (zset g2).
Definition obs_sum (rows:list (frow * Z * Z * Z)) (row:frow) (g:Z) : Z * Z :=
  fold_left (fun acc r => let '(fr, g', i, e) := r in if key_eqb fr row && (g' =? g) then (fst acc + i, snd acc + e) else acc) rows (0, 0).
Definition count_value (vals:list (Z * Z)) (g v:Z) : Z := Z.of_nat (length (filter (fun x => (fst x =? g) && (snd x =? v)) vals)).
Definition kind_isoforms (kd:kind) (isos:list isoform) : list isoform := match kd with Exon => isos | Intron => intron_isoforms isos end.
Definition tables (kd:kind) (d:Z) (ann:list (Z * list isoform)) : list (Z * list iv * list finfo) :=
  map (fun ci => let isos := kind_isoforms kd (snd ci) in let K := exon_features isos in (fst ci, K, feature_properties d (fst ci) isos 0 K)) ann.
Definition feature_counts_ok (kd:kind) (d absd:Z) (ann:list (Z * list isoform)) (recs:list record) (rows:list (frow * Z * Z * Z)) : bool :=
  let groups := zset (map r_grp recs) in
  let tb := tables kd d ann in
  forallb (fun t => let '(c, K, props) := t in
     let recs_c := filter (fun r => r_chr r =? c) recs in
     forallb (fun p => let k := (fi_start p, fi_end p) in
        (* per record of the chromosome: its group and the value of this feature in its profile *)
        let vals := map (fun r => let '(_, g', blocks, pa, pt) := r in (g', rec_value kd d absd K blocks pa pt k)) recs_c in
        forallb (fun g => pair_eqb Z.eqb Z.eqb (obs_sum rows (row_of p) g) (count_value vals g 1, count_value vals g (-1))) groups) props) tb &&
  forallb (fun r => let '(fr, g, i, e) := r in
     ((0 <? i) || (0 <? e)) && existsb (Z.eqb g) groups &&
     existsb (fun t => let '(_, _, props) := t in existsb (fun p => frow_eqb (row_of p) fr) props) tb) rows.
(* one line per (feature, group): no two rows with the same chromosome, coordinates, strand and group *)
Fixpoint rows_nodup (rows:list (frow * Z * Z * Z)) : bool :=
  match rows with
  | [] => true
  | r :: t => let '(fr, g, _, _) := r in negb (existsb (fun r' => let '(fr', g', _, _) := r' in key_eqb fr fr' && (g =? g')) t) && rows_nodup t
  end.

(* ------------------------------------------------------------------ the clean statement of the property, decidable form:
   include iff some read feature equals the known feature within delta and the known feature is a closest candidate of it (IntervalsSpec.matched);
   exclude iff not included and the read spans the feature: the absence condition of the constructor holds (an exon inside (end of first exon + delta,
   start of last exon - delta); an intron overlapping the read span by the absence overlap), or the feature lies strictly inside a gap between two
   consecutive read features, or a read feature equals it within delta (but is matched to a closer annotated feature) *)
Fixpoint in_gap (R:list iv) (k:iv) : bool :=
  match R with a :: ((b :: _) as t) => ((snd a <? fst k) && (snd k <? fst b)) || in_gap t k | _ => false end.
Definition near (d:Z) (R:list iv) (k:iv) : bool := existsb (fun r => eqd d r k) R.
Definition clean_value (kd:kind) (d absd:Z) (K:list iv) (blocks:list iv) (polya polyt:Z) (k:iv) : Z :=
  let R := rec_features kd blocks in
  if masked d polya polyt k then -2
  else if matched (eqd d) K R k then 1
  else if kind_absent kd absd (rec_mapped kd d blocks) k || in_gap R k || near d R k then -1 else 0.
Definition clean_profile_ok (kd:kind) (d absd:Z) (K:list iv) (blocks:list iv) (polya polyt:Z) (prof:list Z) : bool :=
  (length prof =? length K)%nat &&
  forallb (fun kv => let c := clean_value kd d absd K blocks polya polyt (fst kv) in
                     Bool.eqb (snd kv =? 1) (c =? 1) && Bool.eqb (snd kv =? -1) (c =? -1)) (combine K prof).

(* ------------------------------------------------------------------ region-aware recount (matcher of the finding C13:split-region-gene-info, not the property):
   a record whose alignment was processed in several sub-regions of a split cluster carries the gene lists of the GeneInfo objects it was profiled
   with (alts); only one copy survives, so for a feature whose gene is missing from some of these lists the record may or may not contribute.
   Records with fewer than two alternatives are counted exactly as in feature_counts_ok. *)
Definition has_feature (isos:list isoform) (A:list Z) (k:iv) : bool :=
  existsb (fun i => let '(g, _, feats) := i in existsb (Z.eqb g) A && existsb (iv_eqb k) feats) isos.
Definition rows_attr_ok (kd:kind) (d:Z) (ann:list (Z * list isoform)) (groups:list Z) (rows:list (frow * Z * Z * Z)) : bool :=
  let tb := tables kd d ann in
  forallb (fun r => let '(fr, g, i, e) := r in
     ((0 <? i) || (0 <? e)) && existsb (Z.eqb g) groups &&
     existsb (fun t => let '(_, _, props) := t in existsb (fun p => frow_eqb (row_of p) fr) props) tb) rows.
Definition count_all (vals:list (Z * list Z)) (g v:Z) : Z := Z.of_nat (length (filter (fun x => (fst x =? g) && forallb (Z.eqb v) (snd x)) vals)).
Definition count_any (vals:list (Z * list Z)) (g v:Z) : Z := Z.of_nat (length (filter (fun x => (fst x =? g) && existsb (Z.eqb v) (snd x)) vals)).
Definition feature_counts_region_ok (kd:kind) (d absd:Z) (ann:list (Z * list isoform)) (recs:list (record * list (list Z))) (rows:list (frow * Z * Z * Z)) : bool :=
  let groups := zset (map (fun r => r_grp (fst r)) recs) in
  forallb (fun ci => let c := fst ci in let isos := kind_isoforms kd (snd ci) in let K := exon_features isos in let props := feature_properties d c isos 0 K in
     let recs_c := filter (fun r => r_chr (fst r) =? c) recs in
     forallb (fun p => let k := (fi_start p, fi_end p) in
        let vals := map (fun ra => let '(_, g', blocks, pa, pt) := fst ra in let v := rec_value kd d absd K blocks pa pt k in
                                   (g', match snd ra with _ :: _ :: _ => map (fun A => if has_feature isos A k then v else 0) (snd ra) | _ => [v] end)) recs_c in
        forallb (fun g => let o := obs_sum rows (row_of p) g in
           (count_all vals g 1 <=? fst o) && (fst o <=? count_any vals g 1) && (count_all vals g (-1) <=? snd o) && (snd o <=? count_any vals g (-1))) groups) props) ann &&
  rows_attr_ok kd d ann groups rows.
