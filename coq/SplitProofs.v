(* C19: GeneInfo.split_exons (model Intervals.split_exons / se_loop, the REPAIRED code) — the partition theorem for ALL exon
   lists.  The sweep over sorted starts / sorted ends is specified backwards: from any loop state the blocks still to be
   emitted are exactly the maximal runs, right of `last`, of positions with positive depth
   depth(p) = state + #{remaining starts <= p} - #{remaining ends < p}, cut at every remaining start / end. *)
From Coq Require Import ZArith NArith List Bool Lia ZifyBool ZifyN.
From IQ.gen Require Import Prims.
From IQ Require Import CorrSupport Intervals IntervalsSpec IntervalsProofs IntervalsProofs2.
Import ListNotations. Open Scope Z_scope.

(* ---------- counting in sorted coordinate lists ---------- *)
Fixpoint cle (p:Z) (l:list Z) : Z := match l with [] => 0 | x :: t => (if x <=? p then 1 else 0) + cle p t end.
Definition hdge (lo:Z) (l:list Z) : Prop := match l with y :: _ => lo <= y | [] => True end.
Fixpoint zsorted (l:list Z) : Prop := match l with [] => True | x :: t => hdge x t /\ zsorted t end.

Lemma cle_nonneg p l : 0 <= cle p l.
Proof. induction l as [|x t IH]; cbn [cle]; [lia|]. destruct (x <=? p); lia. Qed.
Lemma hdge_le lo lo' l : lo' <= lo -> hdge lo l -> hdge lo' l.
Proof. destruct l; simpl; intros; lia. Qed.
Lemma cle_zero p l : zsorted l -> hdge (p + 1) l -> cle p l = 0.
Proof. induction l as [|x t IH]; intros Hs Hh; [reflexivity|]. cbn [cle]. cbn [hdge] in Hh. destruct Hs as (Hx & Hs).
  rewrite IH; [destruct (x <=? p) eqn:E; lia|exact Hs|eapply hdge_le; [|exact Hx]; lia]. Qed.
Lemma zsorted_In x t y : zsorted (x :: t) -> In y t -> x <= y.
Proof. revert x. induction t as [|z t IH]; intros x (Hx & Hs) Hy; [destruct Hy|]. cbn [hdge] in Hx.
  destruct Hy as [->|Hy]; [exact Hx|]. pose proof (IH z Hs Hy). lia. Qed.
Lemma hdge_In lo l y : zsorted l -> hdge lo l -> In y l -> lo <= y.
Proof. destruct l as [|x t]; intros Hs Hh Hy; [destruct Hy|]. cbn [hdge] in Hh. destruct Hy as [->|Hy]; [exact Hh|].
  pose proof (zsorted_In x t y Hs Hy). lia. Qed.

(* ---------- invariant of the sweep ---------- *)
Definition optP (o:option Z) (P:Z -> Prop) : Prop := match o with Some v => P v | None => True end.
Definition seInv (St E:list Z) (ps pe:option Z) (state last:Z) : Prop :=
  zsorted St /\ zsorted E /\
  hdge last St /\ hdge (last - 1) E /\
  optP ps (fun s0 => s0 <= last /\ hdge s0 St) /\
  optP pe (fun e0 => e0 < last /\ hdge e0 E) /\
  (forall p, 0 <= state + cle p St - cle p E) /\
  state + Z.of_nat (length St) = Z.of_nat (length E) /\
  (0 < state -> 0 <= last) /\
  Forall (fun s => 0 <= s) St /\
  (hdge last E \/ pe = Some (last - 1)).

Definition depth (state:Z) (St E:list Z) (p:Z) : Z := state + cle p St - cle (p - 1) E.
Definition sePost (St E:list Z) (state last:Z) (R:list iv) : Prop :=
  sd R /\ (forall b, In b R -> last <= fst b) /\
  (forall p, cover R p = (last <=? p) && (0 <? depth state St E p)) /\
  (forall b, In b R -> (forall s, In s St -> ~ (fst b < s <= snd b)) /\ (forall e, In e E -> ~ (fst b <= e < snd b))).

Lemma sd_cons_lo b R lo : fst b <= snd b -> snd b < lo -> sd R -> (forall x, In x R -> lo <= fst x) -> sd (b :: R).
Proof. intros Hb Hlo HR Hall. apply sd_cons_hd; [exact Hb| |exact HR]. destruct R as [|x R']; [exact Logic.I|].
  cbn [hd_gt]. pose proof (Hall x (or_introl eq_refl)). lia. Qed.

(* ----- start events ----- *)
Lemma start_new St' E s e ps pe state last : seInv (s :: St') (e :: E) ps pe state last -> s <= e -> newer ps s = true ->
  seInv St' (e :: E) (Some s) pe (state + 1) s.
Proof. intros (Hs & He & Hl & Hl2 & Hps & Hpe & HB & Hlen & Hpos & Hnn & Hor) Hse Hnew.
  destruct Hs as (Hhs & Hs'). cbn [hdge] in Hl, Hl2.
  split; [exact Hs'|]. split; [exact He|]. split; [exact Hhs|]. split; [cbn [hdge]; lia|].
  split; [cbn [optP]; split; [lia|exact Hhs]|].
  split; [destruct pe as [e0|]; [|exact Logic.I]; cbn [optP hdge] in *; lia|].
  split; [intros p; specialize (HB p); cbn [cle] in HB |- *; destruct (s <=? p), (e <=? p); lia|].
  split; [cbn [length] in Hlen |- *; lia|]. inversion Hnn; subst.
  split; [intros _; assumption|]. split; [assumption|]. left. cbn [hdge]. exact Hse. Qed.

Lemma start_dup St' E s e ps pe state last : seInv (s :: St') (e :: E) ps pe state last -> s <= e -> newer ps s = false ->
  seInv St' (e :: E) (Some s) pe (state + 1) last /\ s <= last.
Proof. intros (Hs & He & Hl & Hl2 & Hps & Hpe & HB & Hlen & Hpos & Hnn & Hor) Hse Hnew.
  destruct Hs as (Hhs & Hs'). cbn [hdge] in Hl, Hl2.
  destruct ps as [s0|]; [|discriminate]. cbn [newer] in Hnew. cbn [optP hdge] in Hps.
  assert (Hsl: s <= last) by lia. split; [|exact Hsl].
  split; [exact Hs'|]. split; [exact He|]. split; [eapply hdge_le; [|exact Hhs]; lia|]. split; [cbn [hdge]; lia|].
  split; [cbn [optP]; split; [lia|exact Hhs]|].
  split; [exact Hpe|].
  split; [intros p; specialize (HB p); cbn [cle] in HB |- *; destruct (s <=? p), (e <=? p); lia|].
  split; [cbn [length] in Hlen |- *; lia|]. inversion Hnn; subst.
  split; [intros _; lia|]. split; [assumption|]. exact Hor. Qed.

(* ----- end events (head of St, if any, is beyond e) ----- *)
Lemma end_state_pos St E' e ps pe state last : seInv St (e :: E') ps pe state last -> hdge (e + 1) St -> 1 <= state.
Proof. intros (Hs & He & Hl & Hl2 & Hps & Hpe & HB & Hlen & Hpos & Hnn & Hor) Hgt.
  specialize (HB e). rewrite (cle_zero e St Hs Hgt) in HB. cbn [cle] in HB. pose proof (cle_nonneg e E').
  replace (e <=? e) with true in HB by lia. lia. Qed.

Lemma end_new St E' e ps pe state last : seInv St (e :: E') ps pe state last -> hdge (e + 1) St -> newer pe e = true ->
  seInv St E' ps (Some e) (state - 1) (e + 1) /\ last <= e.
Proof. intros HI Hgt Hnew. pose proof (end_state_pos _ _ _ _ _ _ _ HI Hgt) as Hst.
  destruct HI as (Hs & He & Hl & Hl2 & Hps & Hpe & HB & Hlen & Hpos & Hnn & Hor).
  destruct He as (Hhe & He'). cbn [hdge] in Hl2.
  assert (Hle: last <= e).
  { destruct Hor as [Hor|Hor]; [exact Hor|]. subst pe. cbn [newer] in Hnew. lia. }
  split; [|exact Hle].
  split; [exact Hs|]. split; [exact He'|]. split; [exact Hgt|]. split; [eapply hdge_le; [|exact Hhe]; lia|].
  split; [destruct ps as [s0|]; [|exact Logic.I]; cbn [optP] in *; split; [lia|apply Hps]|].
  split; [cbn [optP]; split; [lia|exact Hhe]|].
  split; [intros p; specialize (HB p); cbn [cle] in HB; destruct (e <=? p) eqn:Ep; [lia|];
          rewrite (cle_zero p E' He') by (eapply hdge_le; [|exact Hhe]; lia); pose proof (cle_nonneg p St); lia|].
  split; [cbn [length] in Hlen |- *; lia|].
  split; [intros _; specialize (Hpos ltac:(lia)); lia|]. split; [exact Hnn|]. right. f_equal. lia. Qed.

Lemma end_dup St E' e ps pe state last : seInv St (e :: E') ps pe state last -> hdge (e + 1) St -> newer pe e = false ->
  seInv St E' ps (Some e) (state - 1) last /\ last = e + 1.
Proof. intros HI Hgt Hnew. pose proof (end_state_pos _ _ _ _ _ _ _ HI Hgt) as Hst.
  destruct HI as (Hs & He & Hl & Hl2 & Hps & Hpe & HB & Hlen & Hpos & Hnn & Hor).
  destruct He as (Hhe & He'). cbn [hdge] in Hl2.
  destruct pe as [e0|]; [|discriminate]. cbn [newer] in Hnew. cbn [optP hdge] in Hpe.
  assert (He0: e0 = e) by lia. subst e0.
  assert (Hle: last = e + 1).
  { destruct Hor as [Hor|Hor]; [cbn [hdge] in Hor; lia|]. inversion Hor. lia. }
  split; [|exact Hle].
  split; [exact Hs|]. split; [exact He'|]. split; [exact Hl|]. split; [eapply hdge_le; [|exact Hhe]; lia|].
  split; [exact Hps|].
  split; [cbn [optP]; split; [lia|exact Hhe]|].
  split; [intros p; specialize (HB p); cbn [cle] in HB; destruct (e <=? p) eqn:Ep; [lia|];
          rewrite (cle_zero p E' He') by (eapply hdge_le; [|exact Hhe]; lia); pose proof (cle_nonneg p St); lia|].
  split; [cbn [length] in Hlen |- *; lia|].
  split; [intros _; apply Hpos; lia|]. split; [exact Hnn|]. right. f_equal. lia. Qed.

(* ----- how the specification of the remaining output is re-established ----- *)
Lemma post_start_emit St' E s e ps pe state last R : seInv (s :: St') (e :: E) ps pe state last -> s <= e ->
  0 < state -> last < s -> sePost St' (e :: E) (state + 1) s R -> sePost (s :: St') (e :: E) state last ((last, s - 1) :: R).
Proof. intros (Hs & He & Hl & Hl2 & Hps & Hpe & HB & Hlen & Hpos & Hnn & Hor) Hse Hst Hlt (P1 & P2 & P3 & P4).
  destruct Hs as (Hhs & Hs').
  split; [apply (sd_cons_lo _ _ s); cbn [fst snd]; try lia; assumption|].
  split; [intros b [<-|Hb]; [cbn [fst]; lia|specialize (P2 b Hb); lia]|].
  split.
  { intros p. rewrite cover_cons, P3. unfold inb, depth. cbn [fst snd].
    change (cle p (s :: St')) with ((if s <=? p then 1 else 0) + cle p St').
    destruct (s <=? p) eqn:Ep; [lia|].
    rewrite (cle_zero p St' Hs') by (eapply hdge_le; [|exact Hhs]; lia).
    rewrite (cle_zero (p - 1) (e :: E) He) by (cbn [hdge]; lia). lia. }
  intros b [<-|Hb]; cbn [fst snd].
  - split; [intros s' [<-|Hs'']; [lia|pose proof (zsorted_In s St' s' (conj Hhs Hs') Hs''); lia]|].
    intros e' He''. pose proof (hdge_In e (e :: E) e' He ltac:(cbn [hdge]; lia) He''). lia.
  - destruct (P4 b Hb) as (Q1 & Q2). split; [|exact Q2]. intros s' [<-|Hs'']; [specialize (P2 b Hb); lia|apply Q1, Hs'']. Qed.

Lemma post_start_skip St' E s e ps pe state last R : seInv (s :: St') (e :: E) ps pe state last -> s <= e ->
  (state <= 0 \/ s <= last) -> sePost St' (e :: E) (state + 1) s R -> sePost (s :: St') (e :: E) state last R.
Proof. intros (Hs & He & Hl & Hl2 & Hps & Hpe & HB & Hlen & Hpos & Hnn & Hor) Hse Hcase (P1 & P2 & P3 & P4).
  destruct Hs as (Hhs & Hs'). cbn [hdge] in Hl.
  split; [exact P1|].
  split; [intros b Hb; specialize (P2 b Hb); lia|].
  split.
  { intros p. rewrite P3. unfold depth.
    change (cle p (s :: St')) with ((if s <=? p then 1 else 0) + cle p St').
    destruct (s <=? p) eqn:Ep; [lia|].
    rewrite (cle_zero p St' Hs') by (eapply hdge_le; [|exact Hhs]; lia).
    rewrite (cle_zero (p - 1) (e :: E) He) by (cbn [hdge]; lia). lia. }
  intros b Hb. destruct (P4 b Hb) as (Q1 & Q2). split; [|exact Q2].
  intros s' [<-|Hs'']; [specialize (P2 b Hb); lia|apply Q1, Hs'']. Qed.

Lemma post_start_dup St' E s e ps pe state last R : seInv (s :: St') (e :: E) ps pe state last ->
  s <= last -> sePost St' (e :: E) (state + 1) last R -> sePost (s :: St') (e :: E) state last R.
Proof. intros (Hs & He & Hl & Hl2 & Hps & Hpe & HB & Hlen & Hpos & Hnn & Hor) Hsl (P1 & P2 & P3 & P4).
  split; [exact P1|]. split; [exact P2|].
  split.
  { intros p. rewrite P3. unfold depth. cbn [cle]. destruct (s <=? p) eqn:Ep; lia. }
  intros b Hb. destruct (P4 b Hb) as (Q1 & Q2). split; [|exact Q2].
  intros s' [<-|Hs'']; [specialize (P2 b Hb); lia|apply Q1, Hs'']. Qed.

Lemma post_end_emit St E' e ps pe state last R : seInv St (e :: E') ps pe state last -> hdge (e + 1) St ->
  last <= e -> sePost St E' (state - 1) (e + 1) R -> sePost St (e :: E') state last ((last, e) :: R).
Proof. intros HI Hgt Hle (P1 & P2 & P3 & P4). pose proof (end_state_pos _ _ _ _ _ _ _ HI Hgt) as Hst.
  destruct HI as (Hs & He & Hl & Hl2 & Hps & Hpe & HB & Hlen & Hpos & Hnn & Hor).
  destruct He as (Hhe & He').
  split; [apply (sd_cons_lo _ _ (e + 1)); cbn [fst snd]; try lia; assumption|].
  split; [intros b [<-|Hb]; [cbn [fst]; lia|specialize (P2 b Hb); lia]|].
  split.
  { intros p. rewrite cover_cons, P3. unfold inb, depth. cbn [fst snd].
    change (cle (p - 1) (e :: E')) with ((if e <=? p - 1 then 1 else 0) + cle (p - 1) E').
    destruct (e <=? p - 1) eqn:Ep; [lia|].
    rewrite (cle_zero p St Hs) by (eapply hdge_le; [|exact Hgt]; lia).
    rewrite (cle_zero (p - 1) E' He') by (eapply hdge_le; [|exact Hhe]; lia). lia. }
  intros b [<-|Hb]; cbn [fst snd].
  - split; [intros s' Hs''; pose proof (hdge_In (e + 1) St s' Hs Hgt Hs''); lia|].
    intros e' [<-|He'']; [lia|]. pose proof (zsorted_In e E' e' (conj Hhe He') He''). lia.
  - destruct (P4 b Hb) as (Q1 & Q2). split; [exact Q1|]. intros e' [<-|He'']; [specialize (P2 b Hb); lia|apply Q2, He'']. Qed.

Lemma post_end_dup St E' e ps pe state last R : seInv St (e :: E') ps pe state last ->
  last = e + 1 -> sePost St E' (state - 1) last R -> sePost St (e :: E') state last R.
Proof. intros (Hs & He & Hl & Hl2 & Hps & Hpe & HB & Hlen & Hpos & Hnn & Hor) Hle (P1 & P2 & P3 & P4).
  split; [exact P1|]. split; [exact P2|].
  split.
  { intros p. rewrite P3. unfold depth. cbn [cle]. destruct (e <=? p - 1) eqn:Ep; lia. }
  intros b Hb. destruct (P4 b Hb) as (Q1 & Q2). split; [exact Q1|].
  intros e' [<-|He'']; [specialize (P2 b Hb); lia|apply Q2, He'']. Qed.

(* ----- the trailing loop over the remaining ends ----- *)
Lemma se_drain_spec : forall E ps pe state last acc, seInv [] E ps pe state last ->
  exists R, se_drain E pe last acc = acc ++ R /\ sePost [] E state last R.
Proof. induction E as [|e E' IH]; intros ps pe state last acc HI.
  - exists []. split; [cbn [se_drain]; rewrite app_nil_r; reflexivity|].
    destruct HI as (Hs & He & Hl & Hl2 & Hps & Hpe & HB & Hlen & Hpos & Hnn & Hor). cbn [length] in Hlen.
    split; [exact Logic.I|]. split; [intros b []|]. split; [|intros b []].
    intros p. rewrite cover_nil. unfold depth. cbn [cle]. lia.
  - cbn [se_drain]. destruct (newer pe e) eqn:Hnew.
    + destruct (end_new _ _ _ _ _ _ _ HI Logic.I Hnew) as (HI' & Hle).
      destruct (IH ps (Some e) (state - 1) (e + 1) (acc ++ [(last, e)]) HI') as (R & HR & HP).
      exists ((last, e) :: R). split; [rewrite HR, <- app_assoc; reflexivity|].
      eapply post_end_emit; eauto. exact Logic.I.
    + destruct (end_dup _ _ _ _ _ _ _ HI Logic.I Hnew) as (HI' & Hle).
      destruct (IH ps (Some e) (state - 1) last acc HI') as (R & HR & HP).
      exists R. split; [exact HR|]. eapply post_end_dup; eauto. Qed.

(* ----- the main loop ----- *)
Lemma se_loop_spec : forall fuel St E ps pe state last acc, (length St + length E < fuel)%nat -> seInv St E ps pe state last ->
  exists R, se_loop fuel St E ps pe state last acc = Some (acc ++ R) /\ sePost St E state last R.
Proof. induction fuel as [|f IH]; intros St E ps pe state last acc Hf HI; [lia|].
  destruct St as [|s St'].
  { cbn [se_loop]. destruct (se_drain_spec E ps pe state last acc HI) as (R & HR & HP). exists R. rewrite HR. split; [reflexivity|exact HP]. }
  destruct E as [|e E'].
  { exfalso. destruct HI as (Hs & He & Hl & Hl2 & Hps & Hpe & HB & Hlen & Hpos & Hnn & Hor).
    specialize (HB (s - 1)). rewrite (cle_zero (s - 1) (s :: St') Hs) in HB by (cbn [hdge]; lia). cbn [cle length] in HB, Hlen. lia. }
  cbn [se_loop]. cbn [length] in Hf.
  destruct (s <=? e) eqn:Hse.
  - assert (Hse': s <= e) by lia.
    destruct (newer ps s) eqn:Hnew.
    + pose proof (start_new _ _ _ _ _ _ _ _ HI Hse' Hnew) as HI'.
      assert (Hm1: 0 < state -> (last =? -1) = false).
      { intros H. destruct HI as (_ & _ & _ & _ & _ & _ & _ & _ & Hpos & _). specialize (Hpos H). lia. }
      cbn [andb].
      destruct (negb (last =? -1) && (0 <? state) && (last <? s)) eqn:Hemit.
      * destruct (IH St' (e :: E') (Some s) pe (state + 1) s (acc ++ [(last, s - 1)]) ltac:(cbn [length]; lia) HI') as (R & HR & HP).
        exists ((last, s - 1) :: R). split; [rewrite HR, <- app_assoc; reflexivity|].
        eapply post_start_emit; eauto; lia.
      * destruct (IH St' (e :: E') (Some s) pe (state + 1) s acc ltac:(cbn [length]; lia) HI') as (R & HR & HP).
        exists R. split; [exact HR|]. eapply post_start_skip; eauto.
        destruct (Z_lt_le_dec 0 state) as [Hp|Hp]; [|left; exact Hp]. specialize (Hm1 Hp). right. lia.
    + destruct (start_dup _ _ _ _ _ _ _ _ HI Hse' Hnew) as (HI' & Hsl).
      cbn [andb].
      destruct (IH St' (e :: E') (Some s) pe (state + 1) last acc ltac:(cbn [length]; lia) HI') as (R & HR & HP).
      exists R. split; [exact HR|]. eapply post_start_dup; eauto.
  - assert (Hgt: hdge (e + 1) (s :: St')) by (cbn [hdge]; lia).
    destruct (newer pe e) eqn:Hnew.
    + destruct (end_new _ _ _ _ _ _ _ HI Hgt Hnew) as (HI' & Hle).
      destruct (IH (s :: St') E' ps (Some e) (state - 1) (e + 1) (acc ++ [(last, e)]) ltac:(cbn [length]; lia) HI') as (R & HR & HP).
      exists ((last, e) :: R). split; [rewrite HR, <- app_assoc; reflexivity|].
      eapply post_end_emit; eauto.
    + destruct (end_dup _ _ _ _ _ _ _ HI Hgt Hnew) as (HI' & Hle).
      destruct (IH (s :: St') E' ps (Some e) (state - 1) last acc ltac:(cbn [length]; lia) HI') as (R & HR & HP).
      exists R. split; [exact HR|]. eapply post_end_dup; eauto. Qed.

(* ---------- the two sorted coordinate lists ---------- *)
Lemma zinsert_sorted x l : zsorted l -> zsorted (zinsert x l).
Proof. induction l as [|y t IH]; intros Hs; [split; exact Logic.I|]. cbn [zinsert]. destruct (x <=? y) eqn:E.
  - split; [cbn [hdge]; lia|exact Hs].
  - destruct Hs as (Hy & Hs). split; [|apply IH, Hs]. destruct t as [|z t']; cbn [zinsert hdge]; [lia|].
    cbn [hdge] in Hy. destruct (x <=? z); cbn [hdge]; lia. Qed.
Lemma zsort_sorted l : zsorted (zsort l).
Proof. induction l as [|x t IH]; [exact Logic.I|]. cbn [zsort]. apply zinsert_sorted, IH. Qed.
Lemma cle_zinsert p x l : cle p (zinsert x l) = (if x <=? p then 1 else 0) + cle p l.
Proof. induction l as [|y t IH]; [reflexivity|]. cbn [zinsert]. destruct (x <=? y); [reflexivity|]. cbn [cle]. rewrite IH. lia. Qed.
Lemma cle_zsort p l : cle p (zsort l) = cle p l.
Proof. induction l as [|x t IH]; [reflexivity|]. cbn [zsort cle]. rewrite cle_zinsert, IH. reflexivity. Qed.
Lemma len_zinsert x l : length (zinsert x l) = Datatypes.S (length l).
Proof. induction l as [|y t IH]; [reflexivity|]. cbn [zinsert]. destruct (x <=? y); [reflexivity|]. cbn [length]. rewrite IH. reflexivity. Qed.
Lemma len_zsort l : length (zsort l) = length l.
Proof. induction l as [|x t IH]; [reflexivity|]. cbn [zsort length]. rewrite len_zinsert, IH. reflexivity. Qed.
Lemma In_zinsert y x l : In y (zinsert x l) <-> y = x \/ In y l.
Proof. induction l as [|z t IH]; [cbn; intuition|]. cbn [zinsert]. destruct (x <=? z); cbn [In]; [intuition|]. rewrite IH. intuition. Qed.
Lemma In_zsort y l : In y (zsort l) <-> In y l.
Proof. induction l as [|x t IH]; [reflexivity|]. cbn [zsort In]. rewrite In_zinsert, IH. intuition. Qed.
Lemma hdge_of_all lo l : (forall y, In y l -> lo <= y) -> hdge lo l.
Proof. destruct l as [|x t]; intros H; [exact Logic.I|]. apply H. left. reflexivity. Qed.

(* depth of a position in an exon list, from the two coordinate lists *)
Definition wfx (exons:list iv) : Prop := Forall (fun x => 0 <= fst x <= snd x) exons.
Lemma cover_depth exons p : wfx exons ->
  0 <= cle p (map fst exons) - cle (p - 1) (map snd exons) /\
  cover exons p = (0 <? cle p (map fst exons) - cle (p - 1) (map snd exons)).
Proof. induction 1 as [|x t Hx Ht IH]; [split; [cbn; lia|reflexivity]|]. destruct IH as (IH1 & IH2).
  cbn [map cle]. rewrite cover_cons, IH2. unfold inb.
  destruct (fst x <=? p) eqn:E1, (snd x <=? p - 1) eqn:E2; split; lia. Qed.
Lemma ends_le_starts exons p : wfx exons -> cle p (map snd exons) <= cle p (map fst exons).
Proof. induction 1 as [|x t Hx Ht IH]; [cbn; lia|]. cbn [map cle]. destruct (fst x <=? p) eqn:E1, (snd x <=? p) eqn:E2; lia. Qed.

Lemma seInv_init exons : wfx exons -> seInv (zsort (map fst exons)) (zsort (map snd exons)) None None 0 (-1).
Proof. intros Hw. unfold wfx in Hw. rewrite Forall_forall in Hw.
  assert (HS: forall y, In y (zsort (map fst exons)) -> 0 <= y).
  { intros y Hy. apply In_zsort, in_map_iff in Hy. destruct Hy as (x & <- & Hx). specialize (Hw x Hx). lia. }
  assert (HE: forall y, In y (zsort (map snd exons)) -> 0 <= y).
  { intros y Hy. apply In_zsort, in_map_iff in Hy. destruct Hy as (x & <- & Hx). specialize (Hw x Hx). lia. }
  split; [apply zsort_sorted|]. split; [apply zsort_sorted|].
  split; [apply hdge_of_all; intros y Hy; specialize (HS y Hy); lia|].
  split; [apply hdge_of_all; intros y Hy; specialize (HE y Hy); lia|].
  split; [exact Logic.I|]. split; [exact Logic.I|].
  split; [intros p; rewrite !cle_zsort; pose proof (ends_le_starts exons p ltac:(apply Forall_forall; exact Hw)); lia|].
  split; [rewrite !len_zsort, !map_length; lia|].
  split; [lia|]. split; [apply Forall_forall; exact HS|].
  left. apply hdge_of_all; intros y Hy; specialize (HE y Hy); lia. Qed.

(* ---------- split_exons_partition ---------- *)
Theorem split_exons_partition exons : wfx exons ->
  exists blocks, split_exons exons = Some blocks /\ sd blocks /\ (forall p, cover blocks p = cover exons p) /\
    (forall b x, In b blocks -> In x exons -> py_contains x b = true \/ py_overlaps x b = false).
Proof. intros Hw. unfold split_exons.
  destruct (se_loop_spec (2 * length exons + 1) (zsort (map fst exons)) (zsort (map snd exons)) None None 0 (-1) [])
    as (R & HR & P1 & P2 & P3 & P4); [rewrite !len_zsort, !map_length; lia|apply seInv_init, Hw|].
  exists R. split; [exact HR|]. split; [exact P1|]. split.
  - intros p. rewrite P3. unfold depth. rewrite !cle_zsort. destruct (cover_depth exons p Hw) as (D1 & D2). rewrite D2.
    destruct (-1 <=? p) eqn:Ep; [reflexivity|]. cbn [andb]. symmetry.
    destruct (0 <? cle p (map fst exons) - cle (p - 1) (map snd exons)) eqn:Ed; [|reflexivity].
    apply cover_true_iff in D2. destruct D2 as (a & Ha & Hp).
    unfold wfx in Hw. rewrite Forall_forall in Hw. specialize (Hw a Ha). lia.
  - intros b x Hb Hx. destruct (P4 b Hb) as (Q1 & Q2).
    specialize (Q1 (fst x) ltac:(apply In_zsort, in_map, Hx)). specialize (Q2 (snd x) ltac:(apply In_zsort, in_map, Hx)).
    unfold wfx in Hw. rewrite Forall_forall in Hw. specialize (Hw x Hx).
    unfold py_contains, py_overlaps.
    destruct (Z_le_gt_dec (fst x) (fst b)); destruct (Z_le_gt_dec (snd b) (snd x)); lia. Qed.

(* the hypotheses are needed: the code uses -1 as "no border yet", and an inverted exon makes the loop run out of ends *)
Example split_exons_partition_example : split_exons [(1,5);(3,8);(10,12);(6,8)] = Some [(1,2);(3,5);(6,8);(10,12)].
Proof. vm_compute. reflexivity. Qed.
Example split_exons_abutting_example : split_exons [(1,1);(1,2);(2,2)] = Some [(1,1);(2,2)].
Proof. vm_compute. reflexivity. Qed.
Example split_exons_negative_refuted : split_exons [(-1,5);(2,5)] = Some [(2,5)] /\ cover [(-1,5);(2,5)] 0 = true /\ cover [(2,5)] 0 = false.
Proof. vm_compute. repeat split. Qed.
Example split_exons_inverted_refuted : split_exons [(3,1)] = None.
Proof. vm_compute. reflexivity. Qed.
Print Assumptions split_exons_partition.
