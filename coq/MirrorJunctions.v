(* C11: JunctionComparator (model of C01, Junctions.v): mirror image of an event, and the self-mirror of add_extra_out_exon_events
   (fake terminal exons / flanking extra introns on either side) whenever some read intron is matched. *)
From Coq Require Import ZArith NArith QArith List Bool Lia ZifyBool.
From IQ.gen Require Import Prims Tables.
From IQ Require Import CorrSupport Mirror MirrorProofs Intervals Junctions.
Import ListNotations. Open Scope Z_scope.

(* subtype left <-> right; a junction range (a, b) of n junctions -> (n-1-b, n-1-a); the exon number of an (absent, j) read region -> n - j;
   extra_left_region <-> extra_right_region; undefined_region stays *)
Definition mreg (n:Z) (r:iv) : iv :=
  if iv_eqb r undefined_region then r else if iv_eqb r extra_left_region then extra_right_region else if iv_eqb r extra_right_region then extra_left_region
  else if fst r =? absent then (absent, n - snd r) else (n - 1 - snd r, n - 1 - fst r).
Definition mevent (nR nI:Z) (e:event) : event := mkev (swap_mes (e_type e)) (mreg nI (e_iso e)) (mreg nR (e_read e)).

Definition small (p:Z) : Prop := p < SMC_extra_left_mod_position.
Lemma mreg_small n p : small p -> mreg n (p, p) = (n - 1 - p, n - 1 - p).
Proof. unfold small, mreg, iv_eqb, undefined_region, extra_left_region, extra_right_region, absent. cbn [fst snd]. intros H.
  assert (SMC_extra_left_mod_position < SMC_extra_right_mod_position < SMC_absent_position /\ SMC_absent_position < SMC_undefined_position) by (vm_compute; repeat split; reflexivity).
  replace (p =? SMC_undefined_position) with false by lia. replace (p =? SMC_extra_left_mod_position) with false by lia.
  replace (p =? SMC_extra_right_mod_position) with false by lia. replace (p =? SMC_absent_position) with false by lia. reflexivity. Qed.

Lemma exon_mirror L reg l k : 0 <= k <= lenz l -> exon (rf L reg) (rfl L l) (lenz l - k) = rf L (exon reg l k).
Proof. intros H. unfold exon, lenz in *. rewrite rfl_length. unfold J.
  destruct (Z.eqb_spec k (Z.of_nat (length l))) as [E1|E1]; destruct (Z.eqb_spec k 0) as [E0|E0].
  - destruct l; [|cbn [length] in *; lia]. subst k. reflexivity.
  - replace (Z.of_nat (length l) - k =? 0) with true by lia. replace (Z.of_nat (length l) - k =? Z.of_nat (length l)) with false by lia.
    rewrite IntervalsMirror.nthz_rfl by lia. replace (Z.of_nat (length l) - 1 - (Z.of_nat (length l) - k)) with (k - 1) by lia.
    unfold rf. cbn [fst snd]. f_equal; lia.
  - subst k. replace (Z.of_nat (length l) - 0 =? 0) with false by lia. replace (Z.of_nat (length l) - 0 =? Z.of_nat (length l)) with true by lia.
    rewrite IntervalsMirror.nthz_rfl by lia. replace (Z.of_nat (length l) - 1 - (Z.of_nat (length l) - 0 - 1)) with 0 by lia.
    unfold rf. cbn [fst snd]. f_equal; lia.
  - replace (Z.of_nat (length l) - k =? 0) with false by lia. replace (Z.of_nat (length l) - k =? Z.of_nat (length l)) with false by lia.
    rewrite !IntervalsMirror.nthz_rfl by lia.
    replace (Z.of_nat (length l) - 1 - (Z.of_nat (length l) - k - 1)) with k by lia. replace (Z.of_nat (length l) - 1 - (Z.of_nat (length l) - k)) with (k - 1) by lia.
    unfold rf. cbn [fst snd]. f_equal; lia. Qed.

Lemma flank_right_mirror nR nI : forall rrp p, small p -> map (mevent nR nI) (flank_right p rrp) = flank_left (nR - 1 - p) rrp.
Proof. induction rrp as [|v t IH]; intros p Hp; [reflexivity|]. cbn [flank_right flank_left]. destruct (v =? 0); [|reflexivity]. cbn [map].
  unfold mevent at 1. cbn [e_type e_iso e_read swap_mes]. rewrite (mreg_small nR p Hp). f_equal. replace (nR - 1 - p + 1) with (nR - 1 - (p - 1)) by lia. apply IH. unfold small in *. lia. Qed.
Lemma flank_left_mirror nR nI : forall rp p, 0 <= p -> p + Z.of_nat (length rp) < SMC_extra_left_mod_position ->
  map (mevent nR nI) (flank_left p rp) = flank_right (nR - 1 - p) rp.
Proof. induction rp as [|v t IH]; intros p Hp Hb; [reflexivity|]. cbn [flank_right flank_left]. destruct (v =? 0); [|reflexivity]. cbn [map].
  unfold mevent at 1. cbn [e_type e_iso e_read swap_mes]. rewrite (mreg_small nR p) by (unfold small; cbn [length] in Hb; lia). f_equal.
  replace (nR - 1 - p - 1) with (nR - 1 - (p + 1)) by lia. apply IH; [lia|cbn [length] in Hb; lia]. Qed.

(* add_extra_out_exon_events: the left-side events of the mirrored read are the mirror images of the right-side events of the read and vice versa
   (at least one read intron matched; when none is matched the code decides the side by `read_introns[0][0] < isoform_start`) *)
Theorem extra_out_mirror L P rreg R ireg rp nI : length rp = length R -> (1 <= length R)%nat -> 2 * lenz R < SMC_extra_left_mod_position ->
  forallb (Z.eqb 0) rp = false ->
  exists left right, extra_out P rreg R ireg rp = left ++ right /\
    extra_out P (rf L rreg) (rfl L R) (rf L ireg) (rev rp) = map (mevent (lenz R) nI) right ++ map (mevent (lenz R) nI) left.
Proof. intros Hl Hn Hb Ha. unfold extra_out. cbv zeta.
  assert (Ha': forallb (Z.eqb 0) (rev rp) = false).
  { destruct (forallb (Z.eqb 0) (rev rp)) eqn:E; [|reflexivity]. rewrite forallb_forall in E. assert (forallb (Z.eqb 0) rp = true); [|congruence].
    apply forallb_forall. intros x Hx. apply E. rewrite <- in_rev. exact Hx. }
  rewrite Ha, Ha'. cbn [negb orb]. rewrite !andb_true_r.
  rewrite (hd_rev_last rp 1). rewrite (last_rev_hd rp 1).
  assert (Hlen: lenz (rfl L R) = lenz R) by (unfold lenz; rewrite rfl_length; reflexivity).
  rewrite Hlen. set (n := lenz R) in *.
  assert (E0: exon (rf L rreg) (rfl L R) 0 = rf L (exon rreg R n)) by (replace 0 with (lenz R - n) by (unfold n; lia); apply exon_mirror; unfold n, lenz; lia).
  assert (En: exon (rf L rreg) (rfl L R) n = rf L (exon rreg R 0)) by (replace n with (lenz R - 0) at 1 by (unfold n; lia); apply exon_mirror; unfold lenz; lia).
  rewrite E0, En, !py_interval_len_mirror, rev_involutive.
  eexists. eexists. split; [reflexivity|]. f_equal.
  - destruct (last rp 1 =? 0); [|reflexivity].
    destruct (py_interval_len (exon rreg R n) <=? p_max_fake_terminal_exon_len P).
    + cbn [map]. unfold mevent at 1. cbn [e_type e_iso e_read swap_mes]. rewrite (mreg_small n (n - 1)) by (unfold small, n, lenz in *; lia).
      rewrite (flank_right_mirror n nI) by (unfold small, n, lenz in *; lia). replace (n - 1 - (n - 1)) with 0 by lia. replace (n - 1 - (n - 2)) with 1 by lia. reflexivity.
    + rewrite (flank_right_mirror n nI) by (unfold small, n, lenz in *; lia). replace (n - 1 - (n - 1)) with 0 by lia. reflexivity.
  - destruct (hd 1 rp =? 0); [|reflexivity].
    assert (Hrp: Z.of_nat (length rp) = n) by (unfold n, lenz; rewrite Hl; reflexivity).
    destruct (py_interval_len (exon rreg R 0) <=? p_max_fake_terminal_exon_len P).
    + cbn [map]. unfold mevent at 1. cbn [e_type e_iso e_read swap_mes]. rewrite (mreg_small n 0) by (unfold small; vm_compute; reflexivity).
      rewrite (flank_left_mirror n nI) by (try lia; destruct rp; cbn [tl length] in *; lia). replace (n - 1 - 0) with (n - 1) by lia. replace (n - 1 - 1) with (n - 2) by lia. reflexivity.
    + rewrite (flank_left_mirror n nI) by lia. replace (n - 1 - 0) with (n - 1) by lia. reflexivity. Qed.
