(* C16: count_polya_exons / count_polyt_exons of the hand-written models PolyA.v / PolyA2.v are the loops of PolyAFixer
   (src/polya_verification.py): gen/Extra.v carries the sentinel, the scan direction, the break test and the exon test of each, regenerated
   from the source on every check (tools/translate_extra.py); py_scan / py_count (CigarBridgeDefs.v) are the loop whose shape the
   translator checks. *)
From Coq Require Import ZArith List Bool Lia.
From IQ Require Import Cigar PolyA PolyA2 CigarBridgeDefs.
From IQ.gen Require Import Extra.
Import ListNotations. Open Scope Z_scope.

Lemma polya_exon_test_is_the_source mf pos e : is_polya_exon mf pos e = py_count_polya_test mf pos e. Proof. reflexivity. Qed.
Lemma polyt_exon_test_is_the_source mf pos e : is_polyt_exon mf pos e = py_count_polyt_test mf pos e. Proof. reflexivity. Qed.
Lemma cpa_rev_is_the_source mf pos l : cpa_rev mf pos l = py_scan (py_count_polya_break pos) (py_count_polya_test mf pos) l.
Proof. induction l as [|e t IH]; [reflexivity|]. cbn [cpa_rev py_scan]. rewrite IH. reflexivity. Qed.
Lemma cpt_is_the_source mf pos l : cpt mf pos l = py_scan (py_count_polyt_break pos) (py_count_polyt_test mf pos) l.
Proof. induction l as [|e t IH]; [reflexivity|]. cbn [cpt py_scan]. rewrite IH. reflexivity. Qed.

Theorem polya_exon_counts_are_the_sources mf exons pos :
  count_polya_exons mf exons pos = py_count py_count_polya_sentinel py_count_polya_from_last_exon py_count_polya_break (py_count_polya_test mf) exons pos /\
  count_polyt_exons mf exons pos = py_count py_count_polyt_sentinel py_count_polyt_from_last_exon py_count_polyt_break (py_count_polyt_test mf) exons pos.
Proof. unfold count_polya_exons, count_polyt_exons, py_count. rewrite cpa_rev_is_the_source, cpt_is_the_source. split; reflexivity. Qed.
