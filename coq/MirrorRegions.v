(* C11: split_coverage_regions (model of C05, Regions.v) commutes with shifts by whole coverage bins only. *)
From Coq Require Import ZArith NArith List Bool Lia ZifyBool.
From IQ.gen Require Import Prims Tables.
From IQ Require Import CorrSupport Mirror.
From IQ Require Regions.
Import ListNotations. Open Scope Z_scope.

(* ================================================================ shift: split_coverage_regions, for shifts by whole coverage bins only *)
Module RegionsShift.
Import Regions.
Section R.
Variables BIN MAXLEN MINREADS ABSV RN RD : Z.
Variable m : Z.                                   (* the shift is m bins = m * BIN bases *)
Definition shcov (cov:Z -> Z) : Z -> Z := fun p => cov (p - m).
Definition shbin (b:iv) : iv := (fst b + m, snd b + m).

Lemma inner_shift cov last : forall fuel cs pos maxc,
  inner BIN MAXLEN ABSV RN RD (shcov cov) (last + m) fuel (cs + m) (pos + m) maxc =
  option_map (fun pm => (fst pm + m, snd pm)) (inner BIN MAXLEN ABSV RN RD cov last fuel cs pos maxc).
Proof. induction fuel as [|f IH]; intros cs pos maxc; [reflexivity|]. cbn [inner]. unfold not_valley, shcov.
  replace (pos + m - m) with pos by lia. replace (pos + m <=? last + m) with (pos <=? last) by lia. replace (pos + m - (cs + m)) with (pos - cs) by lia.
  destruct (((pos <=? last) && (pos - cs <? min_bins BIN MAXLEN)) || ((ABSV <? cov pos) && (maxc * RN <? RD * cov pos))); [|reflexivity].
  replace (pos + m + 1) with (pos + 1 + m) by lia. apply IH. Qed.

Lemma outer_fix_shift cov last : forall fuel cs pos maxc acc,
  outer_fix BIN MAXLEN ABSV RN RD (shcov cov) (last + m) fuel (cs + m) (pos + m) maxc (map shbin acc) =
  option_map (map shbin) (outer_fix BIN MAXLEN ABSV RN RD cov last fuel cs pos maxc acc).
Proof. induction fuel as [|f IH]; intros cs pos maxc acc; [reflexivity|]. cbn [outer_fix]. replace (cs + m <=? last + m) with (cs <=? last) by lia.
  destruct (cs <=? last); [|reflexivity]. rewrite inner_shift.
  destruct (inner BIN MAXLEN ABSV RN RD cov last (S f) cs pos maxc) as [[p mx]|]; [|reflexivity]. cbn [option_map fst snd].
  replace (Z.min (p + m + 1) (last + m + 1)) with (Z.min (p + 1) (last + 1) + m) by lia.
  replace (shcov cov (p + m)) with (cov p) by (unfold shcov; f_equal; lia).
  replace (map shbin acc ++ [(cs + m, p + m)]) with (map shbin (acc ++ [(cs, p)])) by (rewrite map_app; reflexivity). apply IH. Qed.

Lemma region_of_shift r b : region_of BIN (sh (m * BIN) r) (shbin b) = sh (m * BIN) (region_of BIN r b).
Proof. unfold region_of, sh, shbin. cbn [fst snd]. f_equal; lia. Qed.

Lemma region_of_first_shift r b : region_of_first BIN (sh (m * BIN) r) (shbin b) = sh (m * BIN) (region_of_first BIN r b).
Proof. unfold region_of_first, sh, shbin. cbn [fst snd]. f_equal; lia. Qed.
Lemma nonempty_shift k x : nonempty_iv (sh k x) = nonempty_iv x.
Proof. unfold nonempty_iv, sh. cbn [fst snd]. lia. Qed.
Lemma emit_regions_shift r : forall bs started, emit_regions BIN (sh (m * BIN) r) started (map shbin bs) = shl (m * BIN) (emit_regions BIN r started bs).
Proof. induction bs as [|b t IH]; intros started; [reflexivity|]. cbn [map emit_regions]. rewrite region_of_shift, region_of_first_shift.
  replace (if started then sh (m * BIN) (region_of BIN r b) else sh (m * BIN) (region_of_first BIN r b))
     with (sh (m * BIN) (if started then region_of BIN r b else region_of_first BIN r b)) by (destruct started; reflexivity).
  rewrite nonempty_shift. destruct (nonempty_iv (if started then region_of BIN r b else region_of_first BIN r b)); rewrite IH; reflexivity. Qed.
Lemma split_bins_shift cov first last :
  split_bins BIN MAXLEN ABSV RN RD (shcov cov) (first + m) (last + m) = option_map (map shbin) (split_bins BIN MAXLEN ABSV RN RD cov first last).
Proof. unfold split_bins. replace (split_fuel (first + m) (last + m)) with (split_fuel first last) by (unfold split_fuel; do 3 f_equal; lia).
  replace (first + m + 1) with (first + 1 + m) by lia. replace (shcov cov (first + m)) with (cov first) by (unfold shcov; f_equal; lia).
  change (@nil iv) with (map shbin []) at 1. apply outer_fix_shift. Qed.

(* split_coverage_regions: region, coverage dictionary and its key range moved by m bins => the sub-regions move by m * BIN bases
   (the code with fixes/C05_first_subregion_start.diff, and the code before it) *)
Theorem split_regions_shift r count cov first last :
  split_regions BIN MAXLEN MINREADS ABSV RN RD (sh (m * BIN) r) count (shcov cov) (first + m) (last + m) =
  option_map (shl (m * BIN)) (split_regions BIN MAXLEN MINREADS ABSV RN RD r count cov first last).
Proof. unfold split_regions. rewrite py_interval_len_shift. destruct ((py_interval_len r <? MAXLEN) && (count <? MINREADS)); [reflexivity|].
  rewrite split_bins_shift. destruct (split_bins BIN MAXLEN ABSV RN RD cov first last) as [bs|]; [|reflexivity].
  cbn [option_map]. f_equal. apply emit_regions_shift. Qed.
Theorem split_regions_prev_shift r count cov first last :
  split_regions_prev BIN MAXLEN MINREADS ABSV RN RD (sh (m * BIN) r) count (shcov cov) (first + m) (last + m) =
  option_map (shl (m * BIN)) (split_regions_prev BIN MAXLEN MINREADS ABSV RN RD r count cov first last).
Proof. unfold split_regions_prev. rewrite py_interval_len_shift. destruct ((py_interval_len r <? MAXLEN) && (count <? MINREADS)); [reflexivity|].
  rewrite split_bins_shift. destruct (split_bins BIN MAXLEN ABSV RN RD cov first last) as [bs|]; [|reflexivity].
  cbn [option_map]. f_equal. induction bs as [|b t IH]; [reflexivity|]. cbn [map filter]. rewrite region_of_shift, nonempty_shift.
  destruct (nonempty_iv (region_of BIN r b)); cbn [shl map]; rewrite IH; reflexivity. Qed.

(* the decision NOT to split depends on the length of the region and the number of reads only: it is shift invariant for EVERY k
   (not only whole bins), whatever the coverage dictionary and its key range look like after the shift *)
Theorem unsplit_decision_shift_invariant k r count cov cov' first first' last last' :
  py_interval_len r < MAXLEN -> count < MINREADS ->
  split_regions BIN MAXLEN MINREADS ABSV RN RD r count cov first last = Some [r] /\
  split_regions BIN MAXLEN MINREADS ABSV RN RD (sh k r) count cov' first' last' = Some [sh k r] /\
  split_regions_prev BIN MAXLEN MINREADS ABSV RN RD r count cov first last = Some [r] /\
  split_regions_prev BIN MAXLEN MINREADS ABSV RN RD (sh k r) count cov' first' last' = Some [sh k r].
Proof. intros Hl Hc. unfold split_regions, split_regions_prev. rewrite py_interval_len_shift.
  replace ((py_interval_len r <? MAXLEN) && (count <? MINREADS)) with true by lia. repeat split; reflexivity. Qed.
(* conversely a region that is long enough, or holds enough reads, always goes through the bin loop *)
Theorem split_decision_shift_invariant k r count cov first last :
  split_regions BIN MAXLEN MINREADS ABSV RN RD (sh k r) count cov first last =
  if (py_interval_len r <? MAXLEN) && (count <? MINREADS) then Some [sh k r]
  else option_map (emit_regions BIN (sh k r) false) (split_bins BIN MAXLEN ABSV RN RD cov first last).
Proof. unfold split_regions. rewrite py_interval_len_shift. reflexivity. Qed.

(* the coverage dictionary of the shifted alignments is the shifted dictionary *)
Hypothesis BIN_pos : 0 < BIN.
Definition shaln (a:aln) : aln := (rs a + m * BIN, re a + m * BIN, snd a).
Lemma sbin_shift a : sbin BIN (shaln a) = sbin BIN a + m.
Proof. unfold sbin, shaln, rs. cbn [fst snd]. rewrite Z.div_add by lia. reflexivity. Qed.
Lemma ebin_shift a : ebin BIN (shaln a) = ebin BIN a + m.
Proof. unfold ebin, shaln, re. cbn [fst snd]. replace (snd (fst a) + m * BIN - 1) with (snd (fst a) - 1 + m * BIN) by lia. rewrite Z.div_add by lia. reflexivity. Qed.
Theorem cov_of_shift l p : cov_of BIN (map shaln l) p = shcov (cov_of BIN l) p.
Proof. unfold shcov. rewrite !cov_of_eq. f_equal. induction l as [|a t IH]; [reflexivity|]. cbn [map filter]. rewrite sbin_shift, ebin_shift.
  replace ((sbin BIN a + m <=? p) && (p <=? ebin BIN a + m)) with ((sbin BIN a <=? p - m) && (p - m <=? ebin BIN a)) by lia.
  destruct ((sbin BIN a <=? p - m) && (p - m <=? ebin BIN a)); cbn [length]; rewrite IH; reflexivity. Qed.
Lemma fold_min_shift l : forall x, fold_left (fun mn b => Z.min mn (sbin BIN b)) (map shaln l) (x + m) = fold_left (fun mn b => Z.min mn (sbin BIN b)) l x + m.
Proof. induction l as [|a t IH]; intros x; [reflexivity|]. cbn [map fold_left]. rewrite sbin_shift. replace (Z.min (x + m) (sbin BIN a + m)) with (Z.min x (sbin BIN a) + m) by lia. apply IH. Qed.
Lemma fold_max_shift l : forall x, fold_left (fun mx b => Z.max mx (ebin BIN b)) (map shaln l) (x + m) = fold_left (fun mx b => Z.max mx (ebin BIN b)) l x + m.
Proof. induction l as [|a t IH]; intros x; [reflexivity|]. cbn [map fold_left]. rewrite ebin_shift. replace (Z.max (x + m) (ebin BIN a + m)) with (Z.max x (ebin BIN a) + m) by lia. apply IH. Qed.
Theorem first_last_bin_shift l : l <> [] -> first_bin BIN (map shaln l) = first_bin BIN l + m /\ last_bin BIN (map shaln l) = last_bin BIN l + m.
Proof. destruct l as [|a t]; [congruence|]. intros _. unfold first_bin, last_bin. cbn [map]. rewrite sbin_shift, ebin_shift, fold_min_shift, fold_max_shift. split; reflexivity. Qed.
End R.

(* for a shift that is NOT a multiple of the bin size the cut points (bin boundaries) stay where they are: with the constants of the
   repository, two 34-kb alignments joined by a thin bridge are cut at 34048 | 34049, and after moving everything by ONE base (or 37) the
   cut is still at 34048 | 34049 instead of 34049 | 34050; a whole bin (256) moves the cut with the data *)
Definition split_with (sp:iv -> Z -> (Z -> Z) -> Z -> Z -> option (list iv)) (l:list aln) : option (list iv) :=
  match hull_of l with
  | Some whole => sp whole (Z.of_nat (length l)) (cov_of AP_COVERAGE_BIN l) (first_bin AP_COVERAGE_BIN l) (last_bin AP_COVERAGE_BIN l)
  | None => None end.
Definition sh1 (k:Z) (a:aln) : aln := (rs a + k, re a + k, snd a).
Definition w_shift : list aln := [(0, 34000, 1); (0, 34000, 2); (33000, 36000, 3); (35000, 70000, 4); (35000, 70000, 5)].
Definition cut_of (o:option (list iv)) : option Z := match o with Some (a :: _ :: _) => Some (snd a) | _ => None end.
Example split_regions_shift_refuted :
  cut_of (split_with iq_split_regions w_shift) = Some 34048 /\ cut_of (split_with iq_split_regions_prev w_shift) = Some 34048 /\
  cut_of (split_with iq_split_regions (map (sh1 1) w_shift)) = Some 34048 /\ cut_of (split_with iq_split_regions_prev (map (sh1 1) w_shift)) = Some 34048 /\
  cut_of (split_with iq_split_regions (map (sh1 37) w_shift)) = Some 34048 /\
  cut_of (split_with iq_split_regions (map (sh1 256) w_shift)) = Some (34048 + 256) /\
  split_with iq_split_regions (map (sh1 256) w_shift) = option_map (shl 256) (split_with iq_split_regions w_shift).
Proof. vm_compute. repeat split; reflexivity. Qed.
End RegionsShift.

