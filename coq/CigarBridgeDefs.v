(* C16: name correspondences between the hand-written models Cigar.v / Cigar2.v / PolyA.v and what gen/Extra.v regenerates from the
   source (CigarEvent of src/common.py; the pieces of PolyAFixer.count_polya_exons / count_polyt_exons).  Definitions only: this
   file compiles as long as the member NAMES of CigarEvent are unchanged; the statements are in CigarBridge.v. *)
From Coq Require Import ZArith List Bool.
From IQ Require Import Cigar.
From IQ.gen Require Import Extra.
Import ListNotations. Open Scope Z_scope.

(* ------------------------------------------------------------------ CigarEvent *)
(* name correspondence: member of CigarEvent -> constructor of Cigar.op *)
Definition op_of_event (e:CE) : op :=
  match e with CE_match_ => M | CE_insertion => Cigar.I | CE_deletion => D | CE_skipped => Cigar.N | CE_soft_clipping => Cigar.S
             | CE_hard_clipping => H | CE_padding => P | CE_seq_match => EQ | CE_seq_mismatch => X end.
(* the table harness/props/c16.py (OPN) and the other correspondences print pysam operation codes with: code -> constructor *)
Definition cigar_of_code (c:Z) : option op :=
  if c <? 0 then None else nth_error [M; Cigar.I; D; Cigar.N; Cigar.S; H; P; EQ; X] (Z.to_nat c).
(* the value table of the enum, read as code -> constructor *)
Definition code_table : list (Z * op) := map (fun e => (CE_value e, op_of_event e)) CE_all.
Fixpoint lookup_code (c:Z) (t:list (Z * op)) : option op :=
  match t with [] => None | (k, o) :: r => if c =? k then Some o else lookup_code c r end.


(* ------------------------------------------------------------------ PolyAFixer.count_polya_exons / count_polyt_exons *)
(* the loop the translator checked the shape of: stop at the first exon that passes the break test, count the exons that pass the test *)
Fixpoint py_scan (brk test : iv -> bool) (l:list iv) : nat :=
  match l with [] => O | e :: t => if brk e then O else ((if test e then 1 else 0) + py_scan brk test t)%nat end.
Definition py_count (sentinel:Z) (from_last:bool) (brk test : Z -> iv -> bool) (exons:list iv) (pos:Z) : Z :=
  if pos =? sentinel then 0 else Z.of_nat (py_scan (brk pos) (test pos) (if from_last then rev exons else exons)).

