(* Executable comparisons used by harness/props/c10.py and c06.py: model output = implementation output (check) and the decidable
   specifications evaluated on implementation output (prop). *)
From Coq Require Import ZArith List Bool Lia.
From IQ Require Import CorrSupport GroupedGroupers Orchestration OrchestrationInput.
Import ListNotations.
Open Scope Z_scope.

(* ---------------------------------------------------------------- experiments: one switch per repair, so that a partly repaired tree
   is described too; all off = process_sample_cur, all on = process_sample_fix (lemmas below) *)
Definition process_sample_v (vf vu vd : bool) (dmi dme : bool) (st : polya_strategy) (rgfn : bool) (pool : bool) (e : experiment) (g : gstate) : eout * gstate :=
  let requires := set_strategy (e_polya_high e) st in
  let mi := set_strategy ((if vf then dmi else g_mono_intronic g) || requires) st in
  let me := set_strategy ((if vf then dme else g_mono_exonic g) || requires) st in
  let un := (if vu then 0 else g_unaligned g) + e_unmapped e in
  let '(known, d) := if vd then (map (fun c => fst (chr_known_fix c (g_detected g))) (e_chroms e), g_detected g)
                     else if pool then (map (fun c => fst (chr_known c (g_detected g))) (e_chroms e), g_detected g)
                     else known_seq (e_chroms e) (g_detected g) in
  (mko requires mi me (not_aligned_line un (e_stat_not_aligned e)) known (replicas_flag rgfn e), mkg mi me un d (replicas_flag rgfn e)).
Lemma process_sample_v_cur dmi dme st rgfn pool e g : process_sample_v false false false dmi dme st rgfn pool e g = process_sample_cur st rgfn pool e g.
Proof. reflexivity. Qed.
Lemma process_sample_v_fix dmi dme st rgfn pool e g : process_sample_v true true true dmi dme st rgfn pool e g = process_sample_fix dmi dme st rgfn pool e g.
Proof. unfold process_sample_v, process_sample_fix. cbn [Z.add]. reflexivity. Qed.

Definition b3_eqb (a b : bool * bool * bool) : bool :=
  Bool.eqb (fst (fst a)) (fst (fst b)) && Bool.eqb (snd (fst a)) (snd (fst b)) && Bool.eqb (snd a) (snd b).
Definition flags_of (o : eout) : bool * bool * bool := (o_requires o, o_mono_intronic o, o_mono_exonic o).
Definition st_of (k : Z) : polya_strategy := if k =? 0 then PAuto else if k =? 1 then PNever else PAlways.
(* unit probe of DatasetProcessor.process_sample: (dmi, dme, strategy, read_group == "file_name", per experiment (polyA high, number of files),
   observed (requires, mono-intronic, mono-exonic, use_technical_replicas) as process_assigned_reads sees them) *)
Definition b4_eqb (a b : bool * bool * bool * bool) : bool := b3_eqb (fst a) (fst b) && Bool.eqb (snd a) (snd b).
Definition flags4_of (o : eout) : bool * bool * bool * bool := (flags_of o, o_replicas o).
Definition flagcase := (bool * bool * Z * bool * list (bool * Z) * list (bool * bool * bool * bool))%type.
Definition fc_exps (l : list (bool * Z)) : list experiment := map (fun h => mke (fst h) 0 0 [] (snd h)) l.
Definition check_flags (vf : bool) (c : flagcase) : bool :=
  let '(dmi, dme, k, rgfn, exps, obs) := c in
  list_eqb b4_eqb (map flags4_of (run_samples (process_sample_v vf true true dmi dme (st_of k) rgfn false) (fc_exps exps) (init_state dmi dme rgfn))) obs.
(* the property itself on the implementation's answers: every experiment gets the flags of a stand-alone run *)
Definition prop_flags (c : flagcase) : bool :=
  let '(dmi, dme, k, rgfn, exps, obs) := c in
  list_eqb b4_eqb (map (fun e => flags4_of (fst (process_sample_cur (st_of k) rgfn false e (init_state dmi dme rgfn)))) (fc_exps exps)) obs.

(* whole runs: per experiment what a stand-alone run shows (polyA high, unmapped reads, known isoforms reported per chromosome) and what
   the multi-experiment run shows (flags, __not_aligned, known isoforms per chromosome; id lists sorted) *)
Definition zss_eqb := list_eqb zs_eqb.
Record obs_exp := mkobs { ob_flags : bool * bool * bool; ob_not_aligned : Z; ob_known : list (list Z) }.
Definition runcase := (bool * bool * Z * bool * bool * list experiment * list obs_exp)%type.     (* dmi, dme, strategy, read_group = file_name, pool, experiments, observed *)
Definition norm_known (k : list (list (list Z))) : list (list Z) := map (fun c => isort Z.leb (concat c)) k.
Definition obs_eqb (o : eout) (b : obs_exp) : bool :=
  b3_eqb (flags_of o) (ob_flags b) && (o_not_aligned o =? ob_not_aligned b) && zss_eqb (norm_known (o_known o)) (ob_known b).
Definition check_run (vf vu vd : bool) (c : runcase) : bool :=
  let '(dmi, dme, k, rgfn, pool, es, obs) := c in
  (fix go (os : list eout) (bs : list obs_exp) := match os, bs with [] , [] => true | o :: s, b :: t => obs_eqb o b && go s t | _, _ => false end)
    (run_samples (process_sample_v vf vu vd dmi dme (st_of k) rgfn pool) es (init_state dmi dme rgfn)) obs.
Definition prop_run (c : runcase) : bool :=
  let '(dmi, dme, k, rgfn, pool, es, obs) := c in
  (fix go (os : list eout) (bs : list obs_exp) := match os, bs with [] , [] => true | o :: s, b :: t => obs_eqb o b && go s t | _, _ => false end)
    (map (fun e => fst (process_sample_cur (st_of k) rgfn true e (init_state dmi dme rgfn))) es) obs.

(* ---------------------------------------------------------------- combined tables *)
Definition row_eqb (a b : Z * list (option Z)) : bool := (fst a =? fst b) && ozs_eqb (snd a) (snd b).
Definition combcase := (bool * list Z * list Z * list (list (Z * Z)) * list (Z * list (option Z)))%type.   (* full, header, labels, tables, combined *)
Definition check_comb (c : combcase) : bool :=
  let '(full, header, labels, tables, comb) := c in zs_eqb header labels && list_eqb row_eqb (combine_tables full tables) comb.
Definition prop_comb (c : combcase) : bool :=
  let '(full, header, labels, tables, comb) := c in combined_ok full header labels tables comb.

(* ---------------------------------------------------------------- input descriptions *)
Definition listcase := (str * list (list str) * outcome (list sample) * list (outcome (list sample)))%type.   (* prefix, blocks of lines, whole, every block alone *)
Definition check_list (strict : bool) (c : listcase) : bool :=
  let '(prefix, blocks, whole, alone) := c in
  samples_eqb (parse_list strict prefix (concat blocks)) whole && forall2b (fun b a => samples_eqb (parse_list strict prefix b) a) blocks alone.
Definition prop_list (c : listcase) : bool := let '(prefix, blocks, whole, alone) := c in blocks_independent whole alone.
Definition yamlcase := (str * str * option Z * list yentry * outcome (list sample) * list (outcome (list sample)))%type.
Definition check_yaml (strict : bool) (c : yamlcase) : bool :=
  let '(prefix, dir, fmt, es, whole, alone) := c in
  samples_eqb (parse_yaml strict prefix dir fmt es) whole && forall2b (fun e a => samples_eqb (parse_yaml strict prefix dir fmt [e]) a) es alone.
Definition prop_yaml (c : yamlcase) : bool := let '(prefix, dir, fmt, es, whole, alone) := c in blocks_independent whole alone.

(* ---------------------------------------------------------------- a run started with a pre-seeded class-level set: per chromosome the known isoforms a clean
   stand-alone run reports, the seeded ids, what the seeded run reports (id lists sorted) *)
Definition seedcase := (list (list Z) * list Z * list (list Z))%type.
Definition check_seed (vd : bool) (c : seedcase) : bool :=
  let '(chroms, D, obs) := c in
  zss_eqb (map (fun ids => isort Z.leb (concat (fst ((if vd then chr_known_fix else chr_known) [ids] D)))) chroms) obs.
Definition prop_seed (c : seedcase) : bool := let '(chroms, D, obs) := c in zss_eqb (map (isort Z.leb) chroms) obs.

(* ---------------------------------------------------------------- C06: merge_files on real part files, in two listing orders of the same chromosomes *)
Definition lines_eqb := list_eqb str_eqb.
Definition same_key (a b : str) : bool := match key_cmp a b with Eq => true | _ => false end.
Fixpoint keys_distinct (names : list str) : bool :=
  match names with [] => true | x :: t => negb (existsb (same_key x) t) && keys_distinct t end.
Definition mergecase := (bool * list (str * option (list str)) * (list str * bool) * list (str * option (list str)) * (list str * bool))%type.
Definition merge_obs (copy : bool) (parts : list (str * option (list str))) : list str * bool :=
  let '(out, _, raised) := merge_files copy parts in (out, raised).
(* texts are compared as character sequences: a part whose last line has no terminator runs into the next part *)
Definition obs2_eqb (a b : list str * bool) : bool := str_eqb (concat (fst a)) (concat (fst b)) && Bool.eqb (snd a) (snd b).
Definition check_merge (c : mergecase) : bool :=
  let '(copy, parts1, o1, parts2, o2) := c in obs2_eqb (merge_obs copy parts1) o1 && obs2_eqb (merge_obs copy parts2) o2.
(* the merged text does not depend on the order in which the chromosomes are listed, unless two part names have the same sort key *)
Definition prop_merge (c : mergecase) : bool :=
  let '(copy, parts1, o1, parts2, o2) := c in if keys_distinct (map fst parts1) then obs2_eqb o1 o2 else true.

(* merge_file_list against the name SampleData(prefix = label_chr) gives the part *)
Definition partcase := (str * str * str * str * str)%type.                       (* final file, label, chromosome, merge_file_list's answer, written name *)
Definition check_part (vf : bool) (c : partcase) : bool :=
  let '(fname, label, chr_id, impl, written) := c in str_eqb ((if vf then part_name_fix else part_name) fname label chr_id) impl.
Definition prop_part (c : partcase) : bool := let '(fname, label, chr_id, impl, written) := c in str_eqb impl written.

(* ProfileFeatureCounter with the class-level FeatureInfo counter started at two different values *)
Definition row4_eqb (a b : Z * Z * Z * Z) : bool :=
  let '(a1, a2, a3, a4) := a in let '(b1, b2, b3, b4) := b in (a1 =? b1) && (a2 =? b2) && (a3 =? b3) && (a4 =? b4).
Definition featcase := (list Z * list fevent * list (Z * Z * Z * Z) * list (Z * Z * Z * Z))%type.
Definition check_feat (c : featcase) : bool := let '(groups, evs, rows, rows') := c in list_eqb row4_eqb (fdump groups evs) rows.
Definition prop_feat (c : featcase) : bool := let '(groups, evs, rows, rows') := c in list_eqb row4_eqb rows rows'.
