(* C01: composition theorem for the "inconsistent path" of LongReadAssigner (src/long_read_assigner.py).

   detect_inconsistensies builds, for every candidate isoform,
       matching_events  = intron_comparator.compare_junctions(read introns, read region, isoform introns, isoform region)
       matching_events += categorize_exon_elongation_subtype(read_split_exon_profile, isoform_id)
       matching_events  = polya_verifier.verify_read_ends(combined_read_profile, isoform_id, matching_events)
   select_best_among_inconsistent keeps the isoforms whose penalty (sum of event cost x event count) is minimal and
   classify_assignment types the read from the events of the kept isoforms.

   Here the three models (Junctions.compare_junctions, the elongation events of AssignerEnds, AssignerEnds.verify_read_ends) are
   composed and it is proved that for a read that FOLLOWS isoform T (its intron chain is a delta-sub-chain of T's, its ends give
   only consistent elongation events, its polyA/polyT position - if any - is at T's end) the list built for T contains consistent
   events only; hence T's penalty is 0, which is minimal for every choice of non-negative counts, and the classification is a
   consistent assignment type.  Conversely a major event in any selected list forbids a consistent type.

   The polyA record of AssignerEnds.v is `polya` (constructor mkPA, fields pa_ext_a pa_ext_t pa_int_a pa_int_t).
   On the polyA hypothesis: verify_read_ends looks ONLY at the positions of the isoform's strand (polyA for '+', polyT for '-'),
   so in the situations "polyA at the isoform end, strand +" / "polyT at the isoform start, strand -" the positions of the other
   kind are left arbitrary (see plus_strand_ignores_polyt). *)
From Coq Require Import ZArith NArith QArith List Bool Lia ZifyBool.
From IQ Require Import CorrSupport Intervals Junctions JunctionsProofs Assigner AssignerEnds.
From IQ.gen Require Import Tables Prims.
Import ListNotations. Open Scope Z_scope.

(* ---------------------------------------------------------------- definitions *)
(* MatchEvent of the comparator lifted to the record with event_info (the comparator leaves event_info = 0) *)
Definition lift (e:event) : xev := mkx (e_type e) (e_iso e) (e_read e) 0.
Lemma lift_of_event e : lift e = of_event e. Proof. reflexivity. Qed.

(* detect_inconsistensies for one isoform: comparator events, then elongation events, then polyA verification *)
Definition detect_events (P:params) (known:list iv -> bool) (rreg:iv) (R:list iv) (ireg:iv) (II:list iv)
                         (elong:list xev) (strand:Z) (iso rex:list iv) (pa:polya) : outcome (list xev) :=
  verify_read_ends P true strand iso rex pa (map lift (compare_junctions P known rreg R ireg II) ++ elong).

(* exact rational cost of an event type (antisense has no cost entry: 0) *)
Definition cost_q (t:MES) : Q := match MES_cost t with Some q => q | None => 0%Q end.
(* penalty of an event list for an arbitrary event count w *)
Definition penalty_w (w:xev -> Z) (evs:list xev) : Q :=
  fold_right (fun e a => (cost_q (x_type e) * inject_Z (w e) + a)%Q) 0%Q evs.

(* the three documented situations of a read that follows the isoform:
   (a) no polyA / polyT position at all
   (b) strand '+': no internal polyA, an external polyA within apa_delta of the end of the isoform's last exon
   (c) strand '-': no internal polyT, an external polyT within apa_delta of the start of the isoform's first exon
   In (b) the polyT positions and in (c) the polyA positions are arbitrary: verify_read_ends never reads them on that strand. *)
Definition polya_ok (P:params) (strand:Z) (iso:list iv) (pa:polya) : Prop :=
  pa = mkPA (-1) (-1) (-1) (-1) \/
  (strand = 1 /\ iso <> [] /\ pa_int_a pa = -1 /\ pa_ext_a pa <> -1 /\ Z.abs (snd (last iso (0,0)) - pa_ext_a pa) <= p_apa_delta P) \/
  (strand = -1 /\ iso <> [] /\ pa_int_t pa = -1 /\ pa_ext_t pa <> -1 /\ Z.abs (fst (hd (0,0) iso) - pa_ext_t pa) <= p_apa_delta P).

Definition all_consistent (evs:list xev) : Prop := forall e, In e evs -> ev_consistent (x_type e) = true.

(* ---------------------------------------------------------------- 1. the events built for the followed isoform *)
Lemma none_consistent : ev_consistent MES_none_ = true. Proof. vm_compute. reflexivity. Qed.
Lemma correct_polya_consistent :
  ev_consistent MES_correct_polya_site_right = true /\ ev_consistent MES_correct_polya_site_left = true.
Proof. vm_compute. split; reflexivity. Qed.

(* the comparator part of the list, for a read that follows the isoform's intron chain *)
Lemma follows_comparator_events : forall P known rreg R ireg II,
  0 <= p_delta P -> R <> [] -> junctions_wf II = true -> chain_match (p_delta P) rreg R II = true ->
  map lift (compare_junctions P known rreg R ireg II) = [xe MES_none_ 0].
Proof. intros P known rreg R ireg II H0 H1 H2 H3. rewrite (chain_match_no_contradiction P known rreg R ireg II H0 H1 H2 H3). reflexivity. Qed.

(* remove_last only removes *)
Lemma remove_last_consistent f l : all_consistent l -> all_consistent (remove_last f l).
Proof. intros H e He. apply H. exact (remove_last_sub f l e He). Qed.

Lemma app_one_consistent l t x : all_consistent l -> ev_consistent t = true -> all_consistent (l ++ [xe t x]).
Proof. intros H Ht e He. apply in_app_or in He. destruct He as [He|[<-|[]]]; [exact (H e He)|exact Ht]. Qed.

(* the polyA verification keeps an all-consistent, non-empty list all-consistent in the three situations *)
Lemma verify_keeps_consistent : forall P strand iso rex pa evs out,
  evs <> [] -> all_consistent evs -> polya_ok P strand iso pa ->
  verify_read_ends P true strand iso rex pa evs = Ok out -> all_consistent out.
Proof. intros P strand iso rex pa evs out Hne Hc Hpa H. destruct Hpa as [->|[[-> [Hi [Hint [Hext Hd]]]]|[-> [Hi [Hint [Hext Hd]]]]]].
  - rewrite verify_no_polya_identity in H. injection H as <-. destruct evs; [contradiction|exact Hc].
  - rewrite (polya_at_isoform_end_consistent P iso rex pa evs Hi Hint Hext Hd) in H. injection H as <-.
    apply app_one_consistent; [apply remove_last_consistent; exact Hc|apply correct_polya_consistent].
  - rewrite (polyt_at_isoform_start_consistent P iso rex pa evs Hi Hint Hext Hd) in H. injection H as <-.
    apply app_one_consistent; [apply remove_last_consistent; exact Hc|apply correct_polya_consistent]. Qed.

Theorem follows_events_consistent : forall P known rreg R ireg II elong strand iso rex pa out,
  0 <= p_delta P -> R <> [] -> junctions_wf II = true -> chain_match (p_delta P) rreg R II = true ->
  (forall e, In e elong -> ev_consistent (x_type e) = true) ->
  polya_ok P strand iso pa ->
  detect_events P known rreg R ireg II elong strand iso rex pa = Ok out ->
  forall e, In e out -> ev_consistent (x_type e) = true.
Proof. intros P known rreg R ireg II elong strand iso rex pa out H0 H1 H2 H3 He Hpa H.
  unfold detect_events in H. rewrite (follows_comparator_events P known rreg R ireg II H0 H1 H2 H3) in H.
  apply (verify_keeps_consistent P strand iso rex pa ([xe MES_none_ 0] ++ elong) out); [discriminate| |exact Hpa|exact H].
  intros e Hin. destruct Hin as [<-|Hin]; [exact none_consistent|exact (He e Hin)]. Qed.

(* in the three situations the verification cannot raise either: the list for the followed isoform is always produced *)
Theorem follows_events_defined : forall P known rreg R ireg II elong strand iso rex pa,
  0 <= p_delta P -> R <> [] -> junctions_wf II = true -> chain_match (p_delta P) rreg R II = true ->
  polya_ok P strand iso pa ->
  exists out, detect_events P known rreg R ireg II elong strand iso rex pa = Ok out.
Proof. intros P known rreg R ireg II elong strand iso rex pa H0 H1 H2 H3 Hpa. unfold detect_events.
  destruct Hpa as [->|[[-> [Hi [Hint [Hext Hd]]]]|[-> [Hi [Hint [Hext Hd]]]]]].
  - rewrite verify_no_polya_identity. eexists. reflexivity.
  - rewrite (polya_at_isoform_end_consistent P iso rex pa _ Hi Hint Hext Hd). eexists. reflexivity.
  - rewrite (polyt_at_isoform_start_consistent P iso rex pa _ Hi Hint Hext Hd). eexists. reflexivity. Qed.

(* ---------------------------------------------------------------- 2. penalties *)
Lemma cost_q_consistent t : ev_consistent t = true -> (cost_q t == 0)%Q.
Proof. intros H. pose proof consistent_cost_zero as C. unfold cost_ok in C. rewrite forallb_forall in C. specialize (C t (all_listed t)).
  unfold cost_q. destruct (MES_cost t) as [q|]; [|reflexivity]. rewrite H in C. cbn [negb orb] in C. apply Qeq_bool_iff. exact C. Qed.
Lemma cost_q_nonneg t : (0 <= cost_q t)%Q.
Proof. pose proof costs_in_unit_interval as C. unfold cost_ok in C. rewrite forallb_forall in C. specialize (C t (all_listed t)).
  unfold cost_q. destruct (MES_cost t) as [q|]; [|apply Qle_refl]. apply andb_prop in C. destruct C as [C _]. apply Qle_bool_iff. exact C. Qed.
Lemma cost_q_le_one t : (cost_q t <= 1)%Q.
Proof. pose proof costs_in_unit_interval as C. unfold cost_ok in C. rewrite forallb_forall in C. specialize (C t (all_listed t)).
  unfold cost_q. destruct (MES_cost t) as [q|]; [|discriminate]. apply andb_prop in C. destruct C as [_ C]. apply Qle_bool_iff. exact C. Qed.

Theorem consistent_events_cost_zero : forall evs, (forall e, In e evs -> ev_consistent (x_type e) = true) ->
  forall e, In e evs -> Qeq (cost_q (x_type e)) 0.
Proof. intros evs H e He. apply cost_q_consistent. exact (H e He). Qed.

Theorem consistent_penalty_zero : forall w evs, (forall e, In e evs -> ev_consistent (x_type e) = true) -> (penalty_w w evs == 0)%Q.
Proof. intros w evs. induction evs as [|a t IH]; intros H; cbn [penalty_w fold_right]; [reflexivity|].
  fold (penalty_w w t). rewrite IH by (intros e He; apply H; right; exact He).
  rewrite (cost_q_consistent (x_type a)) by (apply H; left; reflexivity). ring. Qed.

Theorem penalty_nonneg : forall w evs, (forall e, 0 <= w e) -> (0 <= penalty_w w evs)%Q.
Proof. intros w evs Hw. induction evs as [|a t IH]; cbn [penalty_w fold_right]; [apply Qle_refl|]. fold (penalty_w w t).
  setoid_replace 0%Q with (0 + 0)%Q at 1 by ring. apply Qplus_le_compat; [|exact IH].
  apply Qmult_le_0_compat; [apply cost_q_nonneg|]. change 0%Q with (inject_Z 0). rewrite <- Zle_Qle. apply Hw. Qed.

(* an all-consistent isoform has the minimal exact penalty, whatever the (non-negative) event counts are *)
Theorem follows_penalty_minimal : forall w evsT evsO, (forall e, 0 <= w e) ->
  (forall e, In e evsT -> ev_consistent (x_type e) = true) -> Qle (penalty_w w evsT) (penalty_w w evsO).
Proof. intros w evsT evsO Hw HT. rewrite (consistent_penalty_zero w evsT HT). apply penalty_nonneg. exact Hw. Qed.

(* ---------------------------------------------------------------- 3. classification *)
Lemma classify_all_consistent amb (tys:list MES) : (forall t, In t tys -> ev_consistent t = true) -> type_consistent (classify amb tys) = true.
Proof. intros H. apply classify_consistent_iff. left. apply forallb_forall. exact H. Qed.

Theorem follows_classified_consistent : forall P known rreg R ireg II elong strand iso rex pa out,
  0 <= p_delta P -> R <> [] -> junctions_wf II = true -> chain_match (p_delta P) rreg R II = true ->
  (forall e, In e elong -> ev_consistent (x_type e) = true) ->
  polya_ok P strand iso pa ->
  detect_events P known rreg R ireg II elong strand iso rex pa = Ok out ->
  type_consistent (classify false (map x_type out)) = true.
Proof. intros P known rreg R ireg II elong strand iso rex pa out H0 H1 H2 H3 He Hpa H.
  apply classify_all_consistent. intros t Ht. apply in_map_iff in Ht. destruct Ht as [e [<- Hin]].
  exact (follows_events_consistent P known rreg R ireg II elong strand iso rex pa out H0 H1 H2 H3 He Hpa H e Hin). Qed.
(* ... and the type is `unique` *)
Theorem follows_classified_unique : forall P known rreg R ireg II elong strand iso rex pa out,
  0 <= p_delta P -> R <> [] -> junctions_wf II = true -> chain_match (p_delta P) rreg R II = true ->
  (forall e, In e elong -> ev_consistent (x_type e) = true) ->
  polya_ok P strand iso pa ->
  detect_events P known rreg R ireg II elong strand iso rex pa = Ok out ->
  classify false (map x_type out) = RAT_unique.
Proof. intros P known rreg R ireg II elong strand iso rex pa out H0 H1 H2 H3 He Hpa H. unfold classify.
  replace (forallb ev_consistent (map x_type out)) with true; [reflexivity|]. symmetry. apply forallb_forall.
  intros t Ht. apply in_map_iff in Ht. destruct Ht as [e [<- Hin]].
  exact (follows_events_consistent P known rreg R ireg II elong strand iso rex pa out H0 H1 H2 H3 He Hpa H e Hin). Qed.

(* several selected isoforms, all with consistent events only *)
Theorem follows_classified_consistent_multi : forall outs amb,
  (forall o, In o outs -> forall e, In e o -> ev_consistent (x_type e) = true) ->
  type_consistent (classify amb (concat (map (map x_type) outs))) = true.
Proof. intros outs amb H. apply classify_all_consistent. intros t Ht. apply in_concat in Ht. destruct Ht as [l [Hl Ht]].
  apply in_map_iff in Hl. destruct Hl as [o [<- Ho]]. apply in_map_iff in Ht. destruct Ht as [e [<- He]]. exact (H o Ho e He). Qed.

(* ---------------------------------------------------------------- 4. converse direction at the decision layer *)
Theorem major_event_blocks_consistent : forall amb outs o e, In o outs -> In e o -> ev_major (x_type e) = true ->
  type_consistent (classify amb (concat (map (map x_type) outs))) = false.
Proof. intros amb outs o e Ho He Hm. apply major_event_never_consistent. apply existsb_exists. exists (x_type e). split; [|exact Hm].
  apply in_concat. exists (map x_type o). split; [apply in_map; exact Ho|apply in_map; exact He]. Qed.

(* ---------------------------------------------------------------- examples: the hypotheses are satisfiable *)
(* one gene with isoform exons (100,200) (300,400) (500,900); the read (150,200) (300,400) (500,900) on strand '+' with an external
   polyA at 900.  The elongation events are computed by the model of categorize_exon_elongation_subtype. *)
Example follows_plus_strand_polya_example :
  let P := params_of MS_default in
  let iso := [(100, 200); (300, 400); (500, 900)] in let II := [(201, 299); (401, 499)] in
  let rex := [(150, 200); (300, 400); (500, 900)] in let R := [(201, 299); (401, 499)] in
  let pa := mkPA 900 (-1) (-1) (-1) in
  exists elong,
    elongation_subtype P iso [1; 1; 1] (0, 3) [1; 1; 1] (0, 3) rex = Ok elong /\
    0 <= p_delta P /\ R <> [] /\ junctions_wf II = true /\ chain_match (p_delta P) (150, 900) R II = true /\
    forallb (fun e => ev_consistent (x_type e)) elong = true /\ polya_ok P 1 iso pa /\
    detect_events P (fun _ => true) (150, 900) R (100, 900) II elong 1 iso rex pa
    = Ok [xe MES_none_ 0; xe MES_terminal_site_match_left (-50); xe MES_terminal_site_match_right_precise 0; xe MES_correct_polya_site_right 900].
Proof. cbv zeta. eexists. split; [vm_compute; reflexivity|]. repeat split; try (vm_compute; reflexivity); try discriminate.
  right; left. repeat split; try discriminate; vm_compute; discriminate. Qed.

(* the same read without any polyA / polyT position *)
Example follows_no_polya_example :
  let P := params_of MS_default in
  let iso := [(100, 200); (300, 400); (500, 900)] in let II := [(201, 299); (401, 499)] in
  let rex := [(150, 200); (300, 400); (500, 880)] in let R := [(201, 299); (401, 499)] in
  let pa := mkPA (-1) (-1) (-1) (-1) in
  exists elong,
    elongation_subtype P iso [1; 1; 1] (0, 3) [1; 1; 1] (0, 3) rex = Ok elong /\
    0 <= p_delta P /\ R <> [] /\ junctions_wf II = true /\ chain_match (p_delta P) (150, 880) R II = true /\
    forallb (fun e => ev_consistent (x_type e)) elong = true /\ polya_ok P 1 iso pa /\
    detect_events P (fun _ => true) (150, 880) R (100, 900) II elong 1 iso rex pa
    = Ok [xe MES_none_ 0; xe MES_terminal_site_match_left (-50); xe MES_terminal_site_match_right (-20)].
Proof. cbv zeta. eexists. split; [vm_compute; reflexivity|]. repeat split; try (vm_compute; reflexivity); try discriminate.
  left. reflexivity. Qed.

(* strand '+': the polyT positions are never read, so situation (b) puts no condition on them *)
Example plus_strand_ignores_polyt :
  let P := params_of MS_default in
  let iso := [(100, 200); (300, 400); (500, 900)] in let II := [(201, 299); (401, 499)] in
  let rex := [(150, 200); (300, 400); (500, 900)] in let R := [(201, 299); (401, 499)] in
  let pa := mkPA 900 150 (-1) 320 in
  polya_ok P 1 iso pa /\
  detect_events P (fun _ => true) (150, 900) R (100, 900) II [] 1 iso rex pa = Ok [xe MES_none_ 0; xe MES_correct_polya_site_right 900].
Proof. cbv zeta. split; [|vm_compute; reflexivity]. right; left. repeat split; try discriminate; vm_compute; discriminate. Qed.

(* the hypothesis on the polyA position is needed: a polyA far from the isoform end gives a major event for the followed isoform *)
Example polya_far_from_end_not_consistent :
  let P := params_of MS_default in
  let iso := [(100, 200); (300, 400); (500, 900)] in let II := [(201, 299); (401, 499)] in
  let rex := [(150, 200); (300, 400); (500, 600)] in let R := [(201, 299); (401, 499)] in
  detect_events P (fun _ => true) (150, 600) R (100, 900) II [] 1 iso rex (mkPA 600 (-1) (-1) (-1))
  = Ok [xe MES_none_ 0; xe MES_alternative_polya_site_right 600] /\ ev_major MES_alternative_polya_site_right = true.
Proof. vm_compute. split; reflexivity. Qed.

Print Assumptions follows_events_consistent.
Print Assumptions follows_events_defined.
Print Assumptions consistent_events_cost_zero.
Print Assumptions consistent_penalty_zero.
Print Assumptions penalty_nonneg.
Print Assumptions follows_penalty_minimal.
Print Assumptions follows_classified_consistent.
Print Assumptions follows_classified_unique.
Print Assumptions follows_classified_consistent_multi.
Print Assumptions major_event_blocks_consistent.
Print Assumptions follows_plus_strand_polya_example.
Print Assumptions follows_no_polya_example.
