(* C13 — exon/intron inclusion and exclusion counts equal a recount from the alignments.  Property theorems only.
   Models: FeatureCounts.v (ProfileFeatureCounter / ExonCounter / IntronCounter, set_feature_properties, the counting constructors on top of the
   C19 sweep model Intervals.overlapping_profile); proofs: FeatureCounts.v, FeatureCountsProofs.v. *)
From Coq Require Import ZArith List Bool.
From IQ.gen Require Import Prims.
From IQ Require Import Intervals IntervalsSpec Profile FeatureCounts FeatureCountsProofs.
Import ListNotations. Open Scope Z_scope.

(* after ANY sequence of read assignments (None, invalid and valid ones, any groups), the include / exclude counter of feature id x under group g
   is exactly the number of (read, profile position) pairs of that group with +1 / -1 on a feature carrying id x *)
Theorem C13_counts_are_profile_tallies : forall kd ignore na l st, run_counter kd ignore na l = Some st ->
  forall x g id, gfind g (cs_groups st) = Some id ->
    nget x id (cs_incl st) = tally 1 (effective_calls kd ignore na l) x g /\
    nget x id (cs_excl st) = tally (-1) (effective_calls kd ignore na l) x g.
Proof. exact counts_are_profile_tallies. Qed.
Print Assumptions C13_counts_are_profile_tallies.

(* ... which, feature ids being unique inside a property map and not shared between different maps, is the number of reads processed with that
   map whose profile has +1 / -1 at the position of the feature *)
Theorem C13_tally_is_number_of_reads : forall v i g (pm0:list finfo) f0 (same:call -> bool) calls,
  nth_error pm0 i = Some f0 -> NoDup (map fi_id pm0) ->
  (forall c, In c calls -> if same c then snd (fst c) = pm0 else forall f, In f (snd (fst c)) -> fi_id f <> fi_id f0) ->
  tally v calls (fi_id f0) g = reads_with v i g same calls.
Proof. exact tally_is_number_of_reads. Qed.
Print Assumptions C13_tally_is_number_of_reads.

(* the dumped file: every line carries the tallies of its (feature id, group) and the to_str() of a feature with that id; every (feature id, group) with a
   non-zero tally has its line; never two lines for one (feature id, group) *)
Theorem C13_dump_is_tallies : forall kd ignore na l st, run_counter kd ignore na l = Some st ->
  let calls := effective_calls kd ignore na l in
  (forall fid row g i e, In (fid, row, g, i, e) (dump_ids st) ->
     i = tally 1 calls fid g /\ e = tally (-1) calls fid g /\ (0 < i \/ 0 < e) /\
     exists c f, In c calls /\ In f (snd (fst c)) /\ fi_id f = fid /\ row_of f = row) /\
  (forall fid g, In g (map fst (cs_groups st)) -> 0 < tally 1 calls fid g \/ 0 < tally (-1) calls fid g ->
     exists row, In (fid, row, g, tally 1 calls fid g, tally (-1) calls fid g) (dump_ids st)) /\
  NoDup (map (fun r => let '(fid, _, g, _, _) := r in (fid, g)) (dump_ids st)).
Proof. exact dump_is_tallies. Qed.
Print Assumptions C13_dump_is_tallies.

(* row i of the property map describes feature i (the 3.5.2 class of bug): same length, coordinates and chromosome of K[i], pairwise distinct ids *)
Theorem C13_profile_position_is_feature : forall delta chr isos id0 K,
  length (feature_properties delta chr isos id0 K) = length K /\
  NoDup (map fi_id (feature_properties delta chr isos id0 K)) /\
  forall i f, nth_error K i = Some f -> exists p, nth_error (feature_properties delta chr isos id0 K) i = Some p /\
    fi_chr p = chr /\ (fi_start p, fi_end p) = f /\ fi_id p = id0 + Z.of_nat i + 1.
Proof. exact profile_position_is_feature. Qed.
Print Assumptions C13_profile_position_is_feature.

(* the grouped counter partitions the ungrouped one: same features in the same order, and per feature the counts over all groups add up *)
Theorem C13_grouped_partition_ungrouped : forall kd na l stu stg,
  run_counter kd true na l = Some stu -> run_counter kd false na l = Some stg ->
  cs_names stu = cs_names stg /\
  forall fid,
    nget fid 0 (cs_incl stu) = zsum (map (fun g => nget fid (gid_of stg g) (cs_incl stg)) (zsort (map fst (cs_groups stg)))) /\
    nget fid 0 (cs_excl stu) = zsum (map (fun g => nget fid (gid_of stg g) (cs_excl stg)) (zsort (map fst (cs_groups stg)))).
Proof. exact grouped_partition_ungrouped. Qed.
Print Assumptions C13_grouped_partition_ungrouped.

(* the counting constructors (sweep model of C19) return, for every start-sorted feature list and every read, the declarative per-feature values *)
Theorem C13_gene_profile_char : forall kd d absd K gr blocks polya polyt, starts_sorted K -> blocks <> [] ->
  gene_profile kd d absd K gr blocks polya polyt = Some (map (rec_value kd d absd K blocks polya polyt) K).
Proof. exact gene_profile_char. Qed.
Print Assumptions C13_gene_profile_char.
Theorem C13_feature_lists_are_sorted : forall isos, starts_sorted (exon_features isos).
Proof. exact exon_features_sorted. Qed.
Print Assumptions C13_feature_lists_are_sorted.

(* include iff the read contains the feature within delta (closest candidate); H1 = features longer than delta, H2 = read features more than delta apart *)
Theorem C13_include_iff_contains_within_delta : forall kd d absd K blocks polya polyt k, 0 <= d -> Hreads kd d blocks -> H1 d K = true -> In k K ->
  (rec_value kd d absd K blocks polya polyt k = 1 <->
   masked d polya polyt k = false /\ matched (eqd d) K (rec_features kd blocks) k = true).
Proof. exact include_iff_contains_within_delta. Qed.
Print Assumptions C13_include_iff_contains_within_delta.
(* exclude iff not included and the read spans the feature: absence condition (exon between the first and last exon / intron overlapped by the span),
   or strictly inside a gap of the read, or equal within delta to a read feature that has a closer annotated candidate *)
Theorem C13_exclude_iff_spans_without : forall kd d absd K blocks polya polyt k, 0 <= d -> Hreads kd d blocks -> H1 d K = true -> In k K ->
  (rec_value kd d absd K blocks polya polyt k = -1 <->
   masked d polya polyt k = false /\ matched (eqd d) K (rec_features kd blocks) k = false /\
   (kind_absent kd absd (rec_mapped kd d blocks) k = true \/ in_gap (rec_features kd blocks) k = true \/ near d (rec_features kd blocks) k = true)).
Proof. exact exclude_iff_spans_without. Qed.
Print Assumptions C13_exclude_iff_spans_without.
(* strict reading of `spans without containing` (no third clause): holds when no other annotated feature lies within 2 delta of k (H3) *)
Theorem C13_exclude_iff_spans_without_partial : forall kd d absd K blocks polya polyt k, 0 <= d -> Hreads kd d blocks -> H1 d K = true -> In k K -> H3 d K k = true ->
  (rec_value kd d absd K blocks polya polyt k = -1 <->
   masked d polya polyt k = false /\ matched (eqd d) K (rec_features kd blocks) k = false /\
   (kind_absent kd absd (rec_mapped kd d blocks) k = true \/ in_gap (rec_features kd blocks) k = true)).
Proof. exact exclude_iff_spans_without_partial. Qed.
Print Assumptions C13_exclude_iff_spans_without_partial.

(* constructors + property map + counter: the include / exclude count of feature K[i] under group g is the number of reads of that group whose
   per-feature value is +1 / -1 *)
Theorem C13_counts_of_gene_cluster : forall kd d absd chr isos id0 K gr reads ignore na st,
  starts_sorted K -> (forall r, In r reads -> snd (fst (fst r)) <> []) ->
  run_calls (init_state ignore na) (map (read_call kd d absd K gr (feature_properties d chr isos id0 K) ignore na) reads) = Some st ->
  forall i k g gid, nth_error K i = Some k -> gfind g (cs_groups st) = Some gid ->
    nget (id0 + Z.of_nat i + 1) gid (cs_incl st) = count_reads (read_has kd d absd K ignore na g k 1) reads /\
    nget (id0 + Z.of_nat i + 1) gid (cs_excl st) = count_reads (read_has kd d absd K ignore na g k (-1)) reads.
Proof. exact counts_of_gene_cluster. Qed.
Print Assumptions C13_counts_of_gene_cluster.

(* ---- the hypotheses are satisfiable, and a complete small run *)
Definition ex_isos : list isoform := [((1, 43), [(100,200);(300,400);(500,600)]); ((1, 43), [(100,200);(500,600)])].
Definition ex_reads : list rd := [(1, [(100,200);(302,400);(500,600)], -1, -1); (2, [(100,200);(500,600)], -1, -1); (1, [(150,200);(300,398)], -1, -1)].
Definition ex_asg (r:rd) : option assignment := let '(g, b, pa, pt) := r in
  Some (mka (gene_profile Exon 4 20 (exon_features ex_isos) (100,600) b pa pt) (gene_profile Intron 4 20 (intron_features ex_isos) (100,600) b pa pt)
            (Some (feature_properties 4 7 ex_isos 0 (exon_features ex_isos), feature_properties 4 7 (intron_isoforms ex_isos) 3 (intron_features ex_isos))) g).
Example C13_hypotheses_satisfiable :
  H1 4 (exon_features ex_isos) = true /\ forallb (fun r => H2 4 (snd (fst (fst r)))) ex_reads = true /\
  (match run_counter Exon false 9 (map ex_asg ex_reads) with Some st => Some (dump st) | None => None end) =
  Some [(7, 100, 200, [43], [88], [1], 1, 1, 0); (7, 100, 200, [43], [88], [1], 2, 1, 0);
        (7, 300, 400, [43], [73; 85], [1], 1, 2, 0); (7, 300, 400, [43], [73; 85], [1], 2, 0, 1);
        (7, 500, 600, [43], [88], [1], 1, 1, 0); (7, 500, 600, [43], [88], [1], 2, 1, 0)] /\
  (match run_counter Exon true 9 (map ex_asg ex_reads) with Some st => Some (dump st) | None => None end) =
  Some [(7, 100, 200, [43], [88], [1], 9, 2, 0); (7, 300, 400, [43], [73; 85], [1], 9, 2, 1); (7, 500, 600, [43], [88], [1], 9, 2, 0)].
Proof. vm_compute. repeat split. Qed.

(* ---- where the faithful model violates the clean statement *)
(* without H2 (read exons (1,3) and (5,9) are 1 < delta apart): the read contains (3,9) within delta 2 but the feature is not marked present *)
Example C13_include_without_H2_refuted :
  H2 2 [(1,3);(5,9)] = false /\ matched (eqd 2) [(3,9)] [(1,3);(5,9)] (3,9) = true /\ gene_profile Exon 2 20 [(3,9)] (3,9) [(1,3);(5,9)] (-1) (-1) = Some [0].
Proof. vm_compute. repeat split. Qed.
(* without H1 (feature of length 4 <= delta 6): a delta-match that does not overlap is missed *)
Example C13_include_without_H1_refuted :
  H1 6 [(100,103)] = false /\ matched (eqd 6) [(100,103)] [(95,98)] (100,103) = true /\ gene_profile Exon 6 20 [(100,103)] (100,103) [(95,98)] (-1) (-1) = Some [0].
Proof. vm_compute. repeat split. Qed.
(* strict `exclude iff spanned`: (10,20) is excluded by a mono-exonic read (11,20) that spans nothing, because (11,20) is the closer candidate (H1, H2 hold, H3 fails) *)
Example C13_exclude_strict_refuted :
  H1 2 [(10,20);(11,20)] = true /\ H2 2 [(11,20)] = true /\ H3 2 [(10,20);(11,20)] (10,20) = false /\
  gene_profile Exon 2 20 [(10,20);(11,20)] (10,20) [(11,20)] (-1) (-1) = Some [-1; 1] /\
  kind_absent Exon 20 (rec_mapped Exon 2 [(11,20)]) (10,20) = false /\ in_gap [(11,20)] (10,20) = false.
Proof. vm_compute. repeat split. Qed.
(* one line per annotated feature: refuted as soon as the feature is seen from two gene_infos (two processing regions), which give it two ids *)
Example C13_one_line_per_feature_refuted :
  let f1 := mkfi 1 7 100 200 [43] [88; 85] [1] in let f2 := mkfi 2 7 100 200 [43] [88; 85] [1] in
  (match run_counter Exon true 9 [Some (mka (Some [1]) (Some []) (Some ([f1], [])) 9); Some (mka (Some [-1]) (Some []) (Some ([f2], [])) 9)] with
   | Some st => Some (dump st) | None => None end) =
  Some [(7, 100, 200, [43], [88; 85], [1], 9, 1, 0); (7, 100, 200, [43], [88; 85], [1], 9, 0, 1)].
Proof. vm_compute. reflexivity. Qed.
