(* C04 - novel transcripts are evidence-backed, correctly labelled and non-redundant.
   Property theorems only; the model (abstract transition system of IntronCollector / IntronGraph, path threading, the decision
   sequence of construct_fl_isoforms, the model store) is in Graph.v, the proofs in GraphProofs.v. *)
From Coq Require Import ZArith List Bool Lia Sorting.Permutation.
From IQ Require Import Exons Graph GraphProofs GraphCluster GraphPasses GraphPaths.
Import ListNotations. Open Scope Z_scope.

(* --- the graph: for ALL operation sequences (any interleaving of clustering, edge insertion, collapsing, discarding, simplification)
   that the abstract system accepts: every vertex is a corrected intron of a collected (non-multimapped) read; every substitute is
   such an intron and is a vertex, or was one and has been collapsed / discarded since *)
Theorem C04_vertices_are_read_introns : forall reads ops s, run (init reads) ops = Some s ->
  (forall v, In v (vert s) -> exists r, In r (collected reads) /\ In v r) /\
  (forall k v, In (k, v) (smap s) -> (exists r, In r (collected reads) /\ In v r) /\ (In v (vert s) \/ In v (keys (smap s)) \/ In v (disc s))).
Proof. exact vertices_are_read_introns. Qed.
Print Assumptions C04_vertices_are_read_introns.

(* ... and so are both ends of every edge, including the stale edges to removed vertices through which `clustered_introns[i]`
   (a defaultdict) re-creates zero-coverage keys while terminal positions are attached *)
Theorem C04_edge_endpoints_are_read_introns : forall reads ops s, run (init reads) ops = Some s ->
  forall v, In v (endpoints (edges s)) -> exists r, In r (collected reads) /\ In v r.
Proof. exact edge_endpoints_are_read_introns. Qed.
Print Assumptions C04_edge_endpoints_are_read_introns.

Theorem C04_classified_are_read_introns : forall reads ops s, run (init reads) ops = Some s ->
  forall v, In v (vert s ++ keys (smap s) ++ disc s) -> exists r, In r (collected reads) /\ In v r.
Proof. exact classified_are_read_introns. Qed.
Print Assumptions C04_classified_are_read_introns.

(* after simplify_correction_map every substitute is a current vertex *)
Theorem C04_substitutes_are_vertices : forall reads ops s, run (init reads) (ops ++ [SimplifyMap]) = Some s ->
  forall k v, In (k, v) (smap s) -> In v (vert s).
Proof. exact substitutes_are_vertices. Qed.
Print Assumptions C04_substitutes_are_vertices.

(* the chronological pass used by the model of simplify_correction_map is the implementation's loop
   `while subs in map: subs = map[subs]` (fuel = size of the map) *)
Theorem C04_resolve_is_python_loop : forall m, chron m -> forall x, chase (length m) m x = resolve m x.
Proof. exact resolve_is_python_loop. Qed.
Print Assumptions C04_resolve_is_python_loop.

(* thread_introns of a collected read, in a finished graph (clustering has seen every intron, the map is simplified), yields vertices only *)
Theorem C04_threaded_path_in_vertices : forall reads ops s r p, run (init reads) ops = Some s -> pend s = [] -> simplifiedb s = true ->
  In r (collected reads) -> thread s r = Some p -> forall v, In v p -> In v (vert s).
Proof. exact threaded_path_in_vertices. Qed.
Print Assumptions C04_threaded_path_in_vertices.

(* --- collect_introns / cluster_introns as an executable function of the multiset of collected introns (GraphCluster.v) *)
(* by construction: for EVERY set of collected introns with counts, annotated set, delta and min_count, the operations that cluster_introns
   performs are accepted by the abstract system (so all 13 clauses of the invariant hold afterwards) and classify every collected intron *)
Theorem C04_cluster_is_run : forall known delta mnc all reads, NoDup (map fst all) -> (forall x, In x (read_introns reads) <-> In x (map fst all)) ->
  exists s, run (init reads) (snd (cluster known delta mnc all)) = Some s /\ pend s = [] /\
            vert s = rev (map fst (cs_vert (fst (cluster known delta mnc all)))) /\ smap s = cs_map (fst (cluster known delta mnc all)) /\
            disc s = rev (cs_disc (fst (cluster known delta mnc all))).
Proof. exact cluster_is_run. Qed.
Print Assumptions C04_cluster_is_run.
Theorem C04_cluster_of_reads_is_run : forall known delta mnc reads,
  exists s, run (init reads) (snd (cluster known delta mnc (collect_counts reads))) = Some s /\ pend s = [].
Proof. exact cluster_of_reads_is_run. Qed.
Print Assumptions C04_cluster_of_reads_is_run.
(* the substitute of an intron is a collected intron within delta at both ends, with at least the count of the intron it replaces, and a vertex
   of the result; annotated introns are never substituted (cluster_introns has no ratio threshold: the count order is the only condition) *)
Theorem C04_cluster_substitute_spec : forall known delta mnc all i s,
  In (i, s) (cs_map (fst (cluster known delta mnc all))) ->
  similar delta i s = true /\ ~ In i known /\ In s (map fst (cs_vert (fst (cluster known delta mnc all)))) /\
  exists ci cs, In (i, ci) all /\ In (s, cs) all /\ ci <= cs.
Proof. exact cluster_substitute_spec. Qed.
Print Assumptions C04_cluster_substitute_spec.
Theorem C04_cluster_discard_spec : forall known delta mnc all i, In i (cs_disc (fst (cluster known delta mnc all))) ->
  exists c, In (i, c) all /\ c < mnc /\ has_similar delta all i = false /\ ~ In i known.
Proof. exact cluster_discard_spec. Qed.
Print Assumptions C04_cluster_discard_spec.
(* substitution chains are already resolved after clustering: a substitute is never a key, [resolve] is the identity on substitutes *)
Theorem C04_cluster_map_fixpoint : forall known delta mnc all i s, NoDup (map fst all) ->
  In (i, s) (cs_map (fst (cluster known delta mnc all))) ->
  ~ In s (keys (cs_map (fst (cluster known delta mnc all)))) /\ resolve (cs_map (fst (cluster known delta mnc all))) s = s.
Proof. exact cluster_map_fixpoint. Qed.
Print Assumptions C04_cluster_map_fixpoint.
(* neither dict insertion order nor the order of the reads matters (a C06-relevant fact: cluster_introns sorts before it decides) *)
Theorem C04_cluster_perm_invariant : forall known delta mnc all all', Permutation all all' -> cluster known delta mnc all = cluster known delta mnc all'.
Proof. exact cluster_perm_invariant. Qed.
Print Assumptions C04_cluster_perm_invariant.
Theorem C04_cluster_read_order_irrelevant : forall known delta mnc reads reads', Permutation reads reads' ->
  cluster known delta mnc (collect_counts reads) = cluster known delta mnc (collect_counts reads').
Proof. exact cluster_read_order_irrelevant. Qed.
Print Assumptions C04_cluster_read_order_irrelevant.
(* "clustering is idempotent" is FALSE of the faithful model (accumulated counts reorder the processing): witness, confirmed on the real collector
   by the `cluster` correspondence, which contains both inputs *)
Theorem C04_cluster_idempotent_refuted : ~ (forall known delta mnc all, cs_map (fst (cluster known delta mnc (cs_vert (fst (cluster known delta mnc all))))) = []).
Proof. intros H. specialize (H [(11, 30)] 1 1 idem_all). vm_compute in H. discriminate. Qed.
Print Assumptions C04_cluster_idempotent_refuted.
(* a non-trivial instance: a tie on the count is broken towards the larger intron, the substitute is the LARGEST similar vertex, the count-1 intron (103,201) is kept
   as a substitution because it has a similar intron while (300,400) x2 is below min_count 3 and alone: discarded *)
Example ex_cluster : cluster [] 2 3 [((100, 200), 4); ((101, 200), 4); ((103, 201), 1); ((300, 400), 2); ((102, 202), 4)] =
  (mkCS [((102, 202), 13)] [((101, 200), (102, 202)); ((100, 200), (102, 202)); ((103, 201), (102, 202))] [(300, 400)],
   [AddVertex (102, 202); ClusterSubst (101, 200) (102, 202); ClusterSubst (100, 200) (102, 202); ClusterDiscard (300, 400); ClusterSubst (103, 201) (102, 202)]).
Proof. vm_compute. reflexivity. Qed.

(* --- construct and the simplification decisions as executable functions (GraphPasses.v) *)
(* construct: after clustering every add_edge call is accepted; clustering followed by construct is a run for EVERY read set *)
Theorem C04_construct_is_run : forall reads s, Inv (read_introns reads) s -> pend s = [] -> simplifiedb s = true ->
  exists s', run s (construct_ops (disc s) reads) = Some s' /\ vert s' = vert s /\ smap s' = smap s /\ disc s' = disc s /\ pend s' = [].
Proof. exact construct_is_run. Qed.
Print Assumptions C04_construct_is_run.
Theorem C04_cluster_then_construct_is_run : forall known delta mnc reads,
  exists s0 s, run (init reads) (snd (cluster known delta mnc (collect_counts reads))) = Some s0 /\
               run s0 (construct_ops (disc s0) reads) = Some s /\ pend s = [] /\ vert s = vert s0.
Proof. exact cluster_then_construct_is_run. Qed.
Print Assumptions C04_cluster_then_construct_is_run.
(* collapse_vertex_set: a collapsed vertex and its target are members of the set, the target is kept (chains of length one), both ends are closer
   than graph_clustering_distance and count(v) < count(s) * graph_clustering_ratio *)
Theorem C04_collapse_vertex_set_spec : forall P C vs v s, NoDup vs -> In (v, s) (collapse_vertex_set P C vs) ->
  In v vs /\ In s vs /\ v <> s /\ close_enough P C (cnt_lookup C v) v s = true /\
  ~ In s (map fst (collapse_vertex_set P C vs)) /\ NoDup (map fst (collapse_vertex_set P C vs)).
Proof. exact collapse_vertex_set_spec. Qed.
Print Assumptions C04_collapse_vertex_set_spec.
(* by construction: for EVERY vertex set, count table and to_remove set, the collapse_vertex calls the decision leads to are accepted by the
   abstract system (hence preserve its 13-clause invariant, never add a vertex, and the loop is a structural recursion) *)
Theorem C04_collapse_decision_is_run : forall P C vs removed s, NoDup vs -> (forall v, In v vs -> In v (vert s)) ->
  let todo := filter (fun p => negb (mem (fst p) removed)) (sort_keys (collapse_vertex_set P C vs)) in
  exists s', run s (map (fun p => Collapse (fst p) (snd p)) todo) = Some s' /\
             (forall v, In v (vert s') <-> In v (vert s) /\ ~ In v (map fst todo)) /\ pend s' = pend s /\ disc s' = disc s.
Proof. exact collapse_decision_is_run. Qed.
Print Assumptions C04_collapse_decision_is_run.
(* remove_isolates (collapse among the isolated vertices, then the low-coverage discards) is accepted for every isolated set *)
Theorem C04_isolates_is_run : forall P C iso s, NoDup iso -> (forall v, In v iso -> In v (vert s)) -> (forall v, In v (map fst C) <-> In v (vert s)) ->
  let todo := sort_keys (collapse_vertex_set P C iso) in
  let C' := fold_left (fun C p => cnt_substitute C (fst p) (snd p)) todo C in
  exists s', run s (map (fun p => Collapse (fst p) (snd p)) todo ++ map Discard (isolate_discards P C' iso)) = Some s'.
Proof. exact isolates_is_run. Qed.
Print Assumptions C04_isolates_is_run.
(* the replay of a logged event sequence with predicted decisions projects to a run of the abstract system *)
Theorem C04_xrun_projects : forall P evs x x', xrun P x evs = Some x' -> run (x_g x) (xops evs) = Some (x_g x').
Proof. exact xrun_projects. Qed.
Print Assumptions C04_xrun_projects.
(* a bulge: the rare variant (1 read) of a junction next to the frequent one (6 reads) is collapsed into it; a third, distant vertex is kept *)
Example ex_collapse_vertex_set :
  collapse_vertex_set (mkGP 10 1 2 2 []) [((100, 200), 6); ((107, 200), 1); ((140, 200), 1)] [(107, 200); (140, 200); (100, 200)] = [((107, 200), (100, 200))].
Proof. vm_compute. reflexivity. Qed.
Example ex_construct_ops : construct_ops [(50, 60)] [(false, [(10, 20); (30, 40); (70, 80)]); (false, [(10, 20); (50, 60)]); (true, [(10, 20); (30, 40)])] =
  [AddEdge (10, 20) (30, 40); AddEdge (30, 40) (70, 80)].
Proof. vm_compute. reflexivity. Qed.

(* --- how full-length paths come about (GraphPaths.v) *)
Theorem C04_thread_ends_attached : forall G P intron e trusted v, thread_ends G P intron e trusted = Some v ->
  In (intron, v) (f_tout G) /\ (fst v = VERTEX_polya \/ fst v = VERTEX_read_end).
Proof. exact thread_ends_attached. Qed.
Print Assumptions C04_thread_ends_attached.
Theorem C04_thread_starts_attached : forall G P intron st trusted v, thread_starts G P intron st trusted = Some v ->
  In (intron, v) (f_tin G) /\ (fst v = VERTEX_polyt \/ fst v = VERTEX_read_start).
Proof. exact thread_starts_attached. Qed.
Print Assumptions C04_thread_starts_attached.
(* every full-length path: starting vertex attached to its first intron, the threaded image of a non-multimapped read's introns - vertices only -,
   terminal vertex attached to its last intron *)
Theorem C04_fl_path_spec : forall reads0 ops s G P (reads : list xread) c,
  run (init reads0) ops = Some s -> pend s = [] -> simplifiedb s = true ->
  (forall r, In r reads -> xr_mm r = false -> In (xr_introns r) (collected reads0) \/ xr_introns r = []) ->
  In c (fl_paths s G P reads) ->
  exists r sv p tv, In r reads /\ xr_mm r = false /\ c = sv :: p ++ [tv] /\ p <> [] /\ thread s (xr_introns r) = Some p /\
                    (forall v, In v p -> In v (vert s)) /\
                    In (hd sv p, sv) (f_tin G) /\ In (last p tv, tv) (f_tout G).
Proof. exact fl_path_spec. Qed.
Print Assumptions C04_fl_path_spec.
(* "consecutive introns of a path are joined by an edge of the simplified graph" is false of the faithful system (remove_singleton_dead_ends cuts
   edges, the introns stay): observed on the real class too (graph_system reports the number of such path steps) *)
Theorem C04_path_edges_refuted : ~ (forall reads ops s r p, run (init reads) ops = Some s -> pend s = [] -> simplifiedb s = true ->
  In r (collected reads) -> thread s r = Some p -> forall e, In e (adjacent p) -> In e (edges s)).
Proof. exact path_edges_refuted. Qed.
Print Assumptions C04_path_edges_refuted.
(* a polyA read ending 4 bases from a polyA vertex takes it; an untrusted read ending inside the next exon gets no terminal vertex *)
Example ex_thread_ends :
  let G := mkF [((10, 20), (30, 40))] [((30, 40), (10, 20))] [((10, 20), (VERTEX_polya, 100)); ((10, 20), (VERTEX_read_end, 90))] [] in
  thread_ends G (mkPP 6 10 true) (10, 20) 104 true = Some (VERTEX_polya, 100) /\ thread_ends G (mkPP 6 10 true) (10, 20) 33 false = None /\
  thread_ends G (mkPP 6 10 true) (10, 20) 95 false = Some (VERTEX_polya, 100).
Proof. vm_compute. repeat split. Qed.

(* --- construct_fl_isoforms *)
(* known-chain suppression: a model emitted as novel from the threaded path of a read never has the intron chain of a reference
   transcript (refs = all_isoforms_introns; known_isoforms_in_graph = their threaded images) *)
Theorem C04_novel_chain_not_known : forall reads ops s refs P c p r st g nic,
  run (init reads) ops = Some s -> pend s = [] -> simplifiedb s = true ->
  In r (collected reads) -> thread s r = Some (p_introns p) -> p_introns p <> [] ->
  g_known_paths c = known_paths s refs ->
  decide P c p = Novel st g nic -> ~ In (p_introns p) refs.
Proof. exact novel_chain_not_known. Qed.
Print Assumptions C04_novel_chain_not_known.

(* the printed chain of the model is its intron path (exons = get_exons(range, path)) when every exon is non-empty *)
Theorem C04_model_chain_is_path : forall r p, wfp (fst r - 1, fst r - 1) p (snd r + 1, snd r + 1) -> jfb (get_exons r p) = p.
Proof. exact model_chain_is_path. Qed.
Print Assumptions C04_model_chain_is_path.

Theorem C04_suffix_iff_all_known : forall P c p st g nic, decide P c p = Novel st g nic ->
  (nic = true <-> forall i, In i (p_introns p) -> In i (g_known c)).
Proof. exact suffix_iff_all_known. Qed.
Print Assumptions C04_suffix_iff_all_known.

(* annotation-free run: no reference isoform exists (the assigner can only name isoforms of gene_info), gene_info is empty *)
Theorem C04_annotation_free_all_novel : forall P c p (refs : list (list iv)),
  g_empty c = true -> refs = [] -> (forall k, p_matching p = Some k -> 0 <= k < Z.of_nat (length refs)) ->
  decide P c p = Skip \/ exists st nic, decide P c p = Novel st NovelGene nic.
Proof. exact annotation_free_all_novel. Qed.
Print Assumptions C04_annotation_free_all_novel.

(* definite strand under only_canonical / only_stranded ... *)
Theorem C04_novel_has_definite_strand_partial : forall P c p st g nic, report_level P <> ReportAll -> decide P c p = Novel st g nic -> st <> Dot.
Proof. exact novel_has_definite_strand. Qed.
Print Assumptions C04_novel_has_definite_strand_partial.
(* ... and not under --report_canonical all: three exons over non-canonical sites, no polyA, no gene *)
Definition P_all := mkP 3 1 true ReportAll false.
Definition c_free := mkC true [] [] [].
Definition p_dot := mkPath (5001, 7300) false false [(5301, 6000); (6201, 7000)] 8 None 0 0 [] 1.
Theorem C04_novel_has_definite_strand_refuted : ~ (forall P c p st g nic, decide P c p = Novel st g nic -> st <> Dot).
Proof. intros H. apply (H P_all c_free p_dot Dot NovelGene false); reflexivity. Qed.
Print Assumptions C04_novel_has_definite_strand_refuted.

(* pairwise distinct chains: FALSE for the faithful model - fl_paths is a set of paths WITH their terminal vertices, so two paths
   that differ only in the polyA position give two novel models with one chain ... *)
Definition P_ont := mkP 3 1 true OnlyCanonical false.
Definition p_end1 := mkPath (5001, 6400) false true [(5301, 6000)] 6 None 1 0 [] 1.
Definition p_end2 := mkPath (5001, 6800) false true [(5301, 6000)] 6 None 1 0 [] 1.
Theorem C04_novel_chains_pairwise_distinct_refuted : ~ (forall P c paths, NoDup paths -> NoDup (novel_chains P c paths)).
Proof. intros H. specialize (H P_ont c_free [p_end1; p_end2]).
  assert (N : NoDup [p_end1; p_end2]). { constructor; [intros [E|[]]; discriminate|constructor; [intros []|constructor]]. }
  specialize (H N). vm_compute in H. inversion H as [|x l A B]; subst. apply A. left. reflexivity. Qed.
Print Assumptions C04_novel_chains_pairwise_distinct_refuted.
(* ... and detect_similar_isoforms never removes one of them: models of at most two exons are never compared, whatever the assigner says *)
Theorem C04_mono_intronic_never_deduplicated : forall matches storage, (forall m, In m storage -> m_nexons m <= 2) -> detect_similar matches storage = [].
Proof. exact mono_intronic_never_deduplicated. Qed.
Print Assumptions C04_mono_intronic_never_deduplicated.
(* the exact hypothesis under which it holds: the intron parts of the full-length paths are pairwise distinct *)
Theorem C04_novel_chains_pairwise_distinct_partial : forall P c paths, NoDup (map p_introns paths) -> NoDup (novel_chains P c paths).
Proof. exact novel_chains_pairwise_distinct_partial. Qed.
Print Assumptions C04_novel_chains_pairwise_distinct_partial.

(* --- the model store and the read table *)
(* filter_transcripts (first pass, any to_substitute / relative cut-off / mapq oracle) leaves novel models with internal_counter >= min_novel_count *)
Theorem C04_filter_pass_establishes_cut : forall mnc subst cut bad s,
  let s' := filter_pass mnc subst cut bad s in sstep s' (SCut mnc) = Some s'.
Proof. exact filter_pass_establishes_cut. Qed.
Print Assumptions C04_filter_pass_establishes_cut.
(* whatever filter_transcripts removes - in either pass, by substitution, coverage or the MAPQ test of models with <= 2 exons - takes its rows with
   it: afterwards every row of the read table still names a stored model (for all oracles) *)
Theorem C04_filter_transcripts_keeps_table_consistent : forall ops s mnc subst1_ cut bad subst2, srun store0 ops = Some s ->
  let s' := filter_transcripts_model mnc subst1_ cut bad subst2 s in
  forall t r, In (t, r) (rtab s') -> In t (ids s').
Proof. exact filter_transcripts_keeps_table_consistent. Qed.
Print Assumptions C04_filter_transcripts_keeps_table_consistent.
(* a two-exon novel model whose mean MAPQ falls below the cut-off after re-assignment disappears with its three rows; the other model keeps its own *)
Example ex_filter_mapq : exists s, srun store0 [SAdd 1 true; SSave 1 10; SSave 1 11; SAdd 2 true; SSave 2 20; SAssign 12 [1]] = Some s /\
  ids (filter_transcripts_model 1 [] (fun _ => 0) (fun t => t =? 1) [] s) = [2] /\ rtab (filter_transcripts_model 1 [] (fun _ => 0) (fun t => t =? 1) [] s) = [(2, 20)].
Proof. eexists. vm_compute. repeat split. Qed.
(* ... and from then on (second assign_reads_to_models, later deletions) every reported novel model has at least one row *)
Theorem C04_reported_model_has_reads : forall pre mnc post s, 1 <= mnc -> forallb late_op post = true ->
  srun store0 (pre ++ SCut mnc :: post) = Some s -> forall t, In (t, true) (models s) -> 1 <= nreads s t.
Proof. exact reported_model_has_reads. Qed.
Print Assumptions C04_reported_model_has_reads.
(* every row of transcript_model_reads names a stored model or "*", for ALL sequences of store operations *)
Theorem C04_r2t_refers_to_models : forall ops s unassigned, srun store0 ops = Some s ->
  forall r t, In (r, t) (r2t_rows s unassigned) -> t = -1 \/ In t (ids s).
Proof. exact r2t_refers_to_models. Qed.
Print Assumptions C04_r2t_refers_to_models.

(* --- the hypotheses are satisfiable / the definitions compute *)
(* a small locus: three reads, one with a junction 1 bp off (clustered into its neighbour), one rare intron collapsed by the graph *)
Definition ex_reads : list read :=
  [(false, [(10, 20); (30, 40)]); (false, [(11, 20); (30, 40)]); (false, [(10, 20); (30, 44)]); (true, [(10, 20); (50, 60)]); (false, [])].
Definition ex_ops : list op :=
  [AddVertex (30, 40); AddVertex (10, 20); ClusterSubst (11, 20) (10, 20); AddVertex (30, 44);
   AddEdge (10, 20) (30, 40); AddEdge (11, 20) (30, 40); AddEdge (10, 20) (30, 44);
   Collapse (30, 44) (30, 40); DropOut (30, 44); SimplifyMap].
Example ex_trace_valid : valid_trace ex_reads ex_ops [(10, 20); (30, 40)] = true.
Proof. vm_compute. reflexivity. Qed.
Example ex_thread : exists s, run (init ex_reads) ex_ops = Some s /\ pend s = [] /\ simplifiedb s = true /\
                              thread s [(11, 20); (30, 44)] = Some [(10, 20); (30, 40)].
Proof. eexists. vm_compute. repeat split. Qed.
(* a multimapper's intron is not collected, so it can never become a vertex *)
Example ex_multimapper_rejected : run (init ex_reads) [AddVertex (50, 60)] = None.
Proof. vm_compute. reflexivity. Qed.
(* a discarded intron cannot come back, a non-vertex cannot be a substitute *)
Example ex_bad_steps : run (init ex_reads) [AddVertex (30, 40); ClusterDiscard (10, 20); AddVertex (10, 20)] = None /\
                       run (init ex_reads) [AddVertex (30, 40); ClusterSubst (11, 20) (10, 20)] = None.
Proof. vm_compute. split; reflexivity. Qed.
Example ex_decide_nic : decide P_ont (mkC false [(1, Plus)] [(5301, 6000); (6201, 7000)] [[(5301, 6000)]])
                               (mkPath (5001, 7300) false true [(5301, 6000); (6201, 7000)] 4 None 2 0 [(1, 2)] 1) = Novel Plus (RefGene 1) true.
Proof. vm_compute. reflexivity. Qed.
Example ex_decide_known_chain : decide P_ont (mkC false [(1, Plus)] [(5301, 6000)] [[(5301, 6000)]])
                               (mkPath (5001, 7300) false true [(5301, 6000)] 4 None 1 0 [(1, 1)] 1) = Skip.
Proof. vm_compute. reflexivity. Qed.
Example ex_two_ends : novel_chains P_ont c_free [p_end1; p_end2] = [[(5301, 6000)]; [(5301, 6000)]].
Proof. vm_compute. reflexivity. Qed.
Example ex_store : exists s, srun store0 [SAdd 1 true; SSave 1 10; SSave 1 11; SAdd 2 true; SSave 2 12; SModels [1; 2]; SDel 2; SAssign 12 [1]; SCut 2; SAssign 13 [1]] = Some s /\
                             ids s = [1] /\ nreads s 1 = 4.
Proof. eexists. vm_compute. repeat split. Qed.
Example ex_wfp : wfp (5001 - 1, 5001 - 1) [(5301, 6000); (6201, 7000)] (7300 + 1, 7300 + 1).
Proof. cbn. lia. Qed.
