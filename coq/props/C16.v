(* C16 — alignment records become exon blocks exactly as SAM semantics dictate; polyA/polyT exon trimming.
   Property theorems only; proofs live in Cigar.v, Cigar2.v, PolyA.v, PolyA2.v. *)
From Coq Require Import ZArith List Bool.
From IQ Require Import Cigar Cigar2 PolyA PolyA2.
Import ListNotations. Open Scope Z_scope.

(* reference and read blocks of get_read_blocks are the SAM blocks, for every reference start and operation list *)
Theorem C16_blocks_are_sam_blocks : forall ref_start ops, get_read_blocks ref_start ops = sam_blocks ref_start ops.
Proof. exact blocks_are_sam_blocks. Qed.
Print Assumptions C16_blocks_are_sam_blocks.

(* the three-output function the code implements (with cigar-index blocks) projects onto it *)
Theorem C16_three_outputs_project : forall ref_start ops, map fst (get_read_blocks3 ref_start ops) = get_read_blocks ref_start ops.
Proof. exact blocks3_project. Qed.
Print Assumptions C16_three_outputs_project.

(* exons are well-formed, strictly increasing and disjoint for operations of positive length *)
Theorem C16_exons_increasing_disjoint : forall ref_start ops, pos_ops ops -> inc_blocks (ref_start + 1) (get_read_blocks ref_start ops).
Proof. exact exons_increasing_disjoint. Qed.
Print Assumptions C16_exons_increasing_disjoint.

(* trimming: for every pair of tail positions at least one exon survives (code after the repair of correct_read_info) *)
Theorem C16_trim_leaves_one : forall max_fake exons pa pt, exons <> [] ->
  let '(a, t) := correct_read_info2 max_fake exons pa pt in 0 <= a /\ 0 <= t /\ a + t < Z.of_nat (length exons).
Proof. exact correct_read_info_leaves_one. Qed.
Print Assumptions C16_trim_leaves_one.

Theorem C16_trim_nonempty : forall max_fake exons p, exons <> [] -> fst (fst (add_polya_info max_fake exons p)) <> [].
Proof. exact add_polya_info_nonempty. Qed.
Print Assumptions C16_trim_nonempty.

(* with ordered tails no exon is counted on both sides *)
Theorem C16_counts_do_not_overlap : forall max_fake exons pa pt, Forall (fun e => fst e <= snd e) exons -> tails_ordered pa pt ->
  count_polya_exons max_fake exons pa + count_polyt_exons max_fake exons pt <= Z.of_nat (length exons).
Proof. exact counts_do_not_overlap. Qed.
Print Assumptions C16_counts_do_not_overlap.

(* the retained exons are a contiguous part of the input (hence still sorted) *)
Theorem C16_trim_contiguous : forall max_fake exons p, exists front back, exons = front ++ fst (fst (add_polya_info max_fake exons p)) ++ back.
Proof. exact add_polya_info_contiguous. Qed.
Print Assumptions C16_trim_contiguous.

(* the recorded tail position moves onto the retained exon *)
Theorem C16_polya_moves_onto_retained_exon : forall exons k pos, Forall (fun e => fst e <= snd e) exons ->
  0 < k < Z.of_nat (length exons) -> pos <> -1 ->
  exists d, 0 <= d /\ shift_polya exons k pos = snd (last (drop_last k exons) (0,0)) + d.
Proof. exact shift_polya_on_retained. Qed.
Print Assumptions C16_polya_moves_onto_retained_exon.

Theorem C16_polyt_moves_onto_retained_exon : forall exons k pos, Forall (fun e => fst e <= snd e) exons ->
  0 < k < Z.of_nat (length exons) -> pos <> -1 ->
  exists d, 0 <= d /\ shift_polyt exons k pos = fst (hd (0,0) (drop_first k exons)) - d.
Proof. exact shift_polyt_on_retained. Qed.
Print Assumptions C16_polyt_moves_onto_retained_exon.

(* the code before the repair (PolyA.correct_read_info): the exon list could become empty; reached through the real finder too *)
Example C16_unrepaired_code_refuted :
  correct_read_info 40 [(100,120);(200,230);(300,330)] (Some 90) (Some 115) = (3, 1) /\
  trim [(100,120);(200,230);(300,330)] 3 1 = [].
Proof. exact correct_read_info_can_exceed. Qed.

(* non-vacuity: a three-exon read with a fake polyA exon *)
Example C16_trim_example :
  add_polya_info 40 [(100,200);(300,400);(500,530)] (mkp 505 (-1) 505 (-1)) = ([(100,200);(300,400)], mkp 405 (-1) 405 (-1), (1, 0)).
Proof. vm_compute. reflexivity. Qed.
