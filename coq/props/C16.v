(* C16 — alignment records become exon blocks exactly as SAM semantics dictate; polyA/polyT exon trimming.
   Property theorems only; proofs live in Cigar.v, Cigar2.v, PolyA.v, PolyA2.v. *)
From Coq Require Import ZArith List Bool.
From IQ Require Import Cigar Cigar2 PolyA PolyA2.
Import ListNotations. Open Scope Z_scope.

(* reference and read blocks of get_read_blocks are the SAM blocks, for every reference start and operation list *)
Theorem C16_blocks_are_sam_blocks : forall ref_start ops, get_read_blocks ref_start ops = sam_blocks ref_start ops.
Proof. exact blocks_are_sam_blocks. Qed.
Print Assumptions C16_blocks_are_sam_blocks.

(* the three-output function the code implements (with cigar-index blocks) projects onto it *)
Theorem C16_three_outputs_project : forall ref_start ops, map fst (get_read_blocks3 ref_start ops) = get_read_blocks ref_start ops.
Proof. exact blocks3_project. Qed.
Print Assumptions C16_three_outputs_project.

(* exons are well-formed, strictly increasing and disjoint for operations of positive length *)
Theorem C16_exons_increasing_disjoint : forall ref_start ops, pos_ops ops -> inc_blocks (ref_start + 1) (get_read_blocks ref_start ops).
Proof. exact exons_increasing_disjoint. Qed.
Print Assumptions C16_exons_increasing_disjoint.

(* trimming: for every pair of tail positions at least one exon survives (code after the repair of correct_read_info) *)
Theorem C16_trim_leaves_one : forall max_fake exons pa pt, exons <> [] ->
  let '(a, t) := correct_read_info2 max_fake exons pa pt in 0 <= a /\ 0 <= t /\ a + t < Z.of_nat (length exons).
Proof. exact correct_read_info_leaves_one. Qed.
Print Assumptions C16_trim_leaves_one.

Theorem C16_trim_nonempty : forall max_fake exons p, exons <> [] -> fst (fst (add_polya_info max_fake exons p)) <> [].
Proof. exact add_polya_info_nonempty. Qed.
Print Assumptions C16_trim_nonempty.

(* with ordered tails no exon is counted on both sides *)
Theorem C16_counts_do_not_overlap : forall max_fake exons pa pt, Forall (fun e => fst e <= snd e) exons -> tails_ordered pa pt ->
  count_polya_exons max_fake exons pa + count_polyt_exons max_fake exons pt <= Z.of_nat (length exons).
Proof. exact counts_do_not_overlap. Qed.
Print Assumptions C16_counts_do_not_overlap.

(* the retained exons are a contiguous part of the input (hence still sorted) *)
Theorem C16_trim_contiguous : forall max_fake exons p, exists front back, exons = front ++ fst (fst (add_polya_info max_fake exons p)) ++ back.
Proof. exact add_polya_info_contiguous. Qed.
Print Assumptions C16_trim_contiguous.

(* the recorded tail position moves onto the retained exon *)
Theorem C16_polya_moves_onto_retained_exon : forall exons k pos, Forall (fun e => fst e <= snd e) exons ->
  0 < k < Z.of_nat (length exons) -> pos <> -1 ->
  exists d, 0 <= d /\ shift_polya exons k pos = snd (last (drop_last k exons) (0,0)) + d.
Proof. exact shift_polya_on_retained. Qed.
Print Assumptions C16_polya_moves_onto_retained_exon.

Theorem C16_polyt_moves_onto_retained_exon : forall exons k pos, Forall (fun e => fst e <= snd e) exons ->
  0 < k < Z.of_nat (length exons) -> pos <> -1 ->
  exists d, 0 <= d /\ shift_polyt exons k pos = fst (hd (0,0) (drop_first k exons)) - d.
Proof. exact shift_polyt_on_retained. Qed.
Print Assumptions C16_polyt_moves_onto_retained_exon.

(* ... and WHERE on it, in an implementation-independent form (PolyAProofs3.v): the new polyA position is the end of the last retained exon
   plus the number of bases of the removed exons left of the old position; the new polyT position is the start of the first retained exon
   minus the number of bases of the removed exons right of the old position.  The removed exons are listed outermost first; the outermost one
   counts as continuing beyond the alignment (tail_dist_a / head_dist_t); clear_a / clear_t: the removed exons are well-formed and ordered and
   the old position is not strictly inside an intron between two of them (where it names no read base). *)
From IQ Require Import PolyAProofs3.
Theorem C16_tail_position_spec :
  (forall exons k pos, 0 < k < Z.of_nat (length exons) -> pos <> -1 ->
     let removed := rev (skipn (length exons - Z.to_nat k) exons) in clear_a pos removed = true ->
     shift_polya exons k pos = snd (last (drop_last k exons) (0,0)) + tail_dist_a pos removed) /\
  (forall exons k pos, 0 < k < Z.of_nat (length exons) -> pos <> -1 ->
     let removed := firstn (Z.to_nat k) exons in clear_t pos removed = true ->
     shift_polyt exons k pos = fst (hd (0,0) (drop_first k exons)) - head_dist_t pos removed).
Proof. split; [exact shift_polya_spec|exact shift_polyt_spec]. Qed.
Print Assumptions C16_tail_position_spec.
(* the decidable form of this clause that the add_polya_info correspondence evaluates on the IMPLEMENTATION's output (tail_spec: both recorded
   positions of every side on which exons were removed) holds of the model for every exon list, positions and max_fake_terminal_exon_len *)
Theorem C16_tail_position_spec_of_add_polya_info : forall max_fake exons p, tail_spec exons p (add_polya_info max_fake exons p) = true.
Proof. exact tail_spec_model. Qed.
Print Assumptions C16_tail_position_spec_of_add_polya_info.
Example C16_tail_position_example :
  shift_polya [(100,200);(300,400);(500,510);(600,640)] 2 603 = 414 /\ clear_a 603 [(600,640);(500,510)] = true /\
  tail_dist_a 603 [(600,640);(500,510)] = 14 /\
  shift_polyt [(100,130);(300,400);(500,600)] 1 125 = 295 /\ clear_t 125 [(100,130)] = true /\ head_dist_t 125 [(100,130)] = 5.
Proof. vm_compute. repeat split; reflexivity. Qed.

(* the code before the repair (PolyA.correct_read_info): the exon list could become empty; reached through the real finder too *)
Example C16_unrepaired_code_refuted :
  correct_read_info 40 [(100,120);(200,230);(300,330)] (Some 90) (Some 115) = (3, 1) /\
  trim [(100,120);(200,230);(300,330)] 3 1 = [].
Proof. exact correct_read_info_can_exceed. Qed.

(* non-vacuity: a three-exon read with a fake polyA exon *)
Example C16_trim_example :
  add_polya_info 40 [(100,200);(300,400);(500,530)] (mkp 505 (-1) 505 (-1)) = ([(100,200);(300,400)], mkp 405 (-1) 405 (-1), (1, 0)).
Proof. vm_compute. reflexivity. Qed.

(* ---- tie to the source.  gen/Extra.v is regenerated on every check (tools/translate_extra.py) from src/common.py (CigarEvent with
        get_match_events / get_ins_del_match_events), src/polya_verification.py (the sentinel, scan direction, break test and exon test of
        PolyAFixer.count_polya_exons / count_polyt_exons) and src/polya_finder.py (PolyAFinder defaults and search windows).
        op_of_event, cigar_of_code, code_table, py_scan, py_count are in CigarBridgeDefs.v.  The libraries with the proofs (CigarBridge.v, PolyABridge.v,
        FinderBridge.v) are loaded inside the proofs, so that an edit of the source that invalidates one is reported against its theorem. *)
From Coq Require QArith Qround.
From IQ.gen Require Extra.
From IQ Require Import CigarBridgeDefs.
(* the code -> constructor table the correspondences print pysam operations with is the value table of CigarEvent; the numeric codes of
   Cigar2.opcode are the enum's values; every constructor is a member; is_match / is_idm are the two event classes of the source *)
Theorem C16_cigar_codes_are_the_sources :
  (forall c, cigar_of_code c = lookup_code c code_table) /\
  (forall e, cigar_of_code (Extra.CE_value e) = Some (op_of_event e) /\ opcode (op_of_event e) = Extra.CE_value e) /\
  (forall o, exists e, op_of_event e = o) /\
  (forall e, is_match (op_of_event e) = Extra.CE_mem e Extra.CE_get_match_events /\
             is_idm (op_of_event e) = Extra.CE_mem e Extra.CE_get_ins_del_match_events).
Proof.
From IQ Require CigarBridge.
exact CigarBridge.cigar_codes_are_the_sources. Qed.
Print Assumptions C16_cigar_codes_are_the_sources.
(* count_polya_exons / count_polyt_exons of the model are the source's loops: same sentinel, same scan direction, same break test and
   same fake-terminal-exon test, for every max_fake_terminal_exon_len *)
Theorem C16_polya_exon_counts_are_the_sources : forall max_fake exons pos,
  count_polya_exons max_fake exons pos =
    py_count Extra.py_count_polya_sentinel Extra.py_count_polya_from_last_exon Extra.py_count_polya_break (Extra.py_count_polya_test max_fake) exons pos /\
  count_polyt_exons max_fake exons pos =
    py_count Extra.py_count_polyt_sentinel Extra.py_count_polyt_from_last_exon Extra.py_count_polyt_break (Extra.py_count_polyt_test max_fake) exons pos.
Proof.
From IQ Require PolyABridge.
exact PolyABridge.polya_exon_counts_are_the_sources. Qed.
Print Assumptions C16_polya_exon_counts_are_the_sources.
(* the PolyAFinder parameters (window, need = int(window * fraction), fraction as a ratio) and the (from, to, entire) windows with which
   find_polya_tail / find_polyt_head are instantiated in the correspondences and in props/C11.v are the source's defaults *)
Theorem C16_finder_defaults_are_the_sources :
  Extra.PF_window_size = 16 /\ Extra.PF_polyA_count = 12 /\
  (QArith_base.Qnum Extra.PF_min_polya_fraction, Z.pos (QArith_base.Qden Extra.PF_min_polya_fraction)) = (3, 4) /\
  Extra.PF_polyA_count = Qround.Qfloor (QArith_base.Qmult (QArith_base.inject_Z Extra.PF_window_size) Extra.PF_min_polya_fraction) /\
  Extra.PF_polya_external = (2, 2 * Extra.PF_window_size, false) /\ Extra.PF_polya_internal = (4 * Extra.PF_window_size, 2, true) /\
  Extra.PF_polyt_external = (2, 2 * Extra.PF_window_size, false) /\ Extra.PF_polyt_internal = (4 * Extra.PF_window_size, 2, true).
Proof.
From IQ Require FinderBridge.
exact FinderBridge.finder_defaults_are_the_sources. Qed.
Print Assumptions C16_finder_defaults_are_the_sources.

(* ================= round 3: the reference projection and the sliding-window search, for ALL inputs ================= *)
From IQ Require Import CigarProofs2.
(* move_ref_coord_alogn_alignment = the column semantics of the CIGAR: the number of reference-consuming columns in the shortest prefix
   (after the leading clips, in the chosen direction, up to the next clip) that holds |shift|+1 query-consuming columns, minus one *)
Theorem C16_move_ref_coord_spec : forall ops shift, nonneg_ops ops ->
  move_ref_coord ops shift =
    if shift =? 0 then 0 else rcu (expand (skip_clips (if 0 <? shift then ops else rev ops))) (Z.abs shift + 1) - 1.
Proof. exact move_ref_coord_spec. Qed.
Print Assumptions C16_move_ref_coord_spec.
Theorem C16_move_ref_coord_monotone : forall ops s s', nonneg_ops ops -> 0 < s <= s' -> move_ref_coord ops s <= move_ref_coord ops s'.
Proof. exact move_ref_coord_monotone. Qed.
Print Assumptions C16_move_ref_coord_monotone.
Theorem C16_move_ref_coord_monotone_back : forall ops s s', nonneg_ops ops -> s' <= s < 0 -> move_ref_coord ops s <= move_ref_coord ops s'.
Proof. exact move_ref_coord_monotone_back. Qed.
Print Assumptions C16_move_ref_coord_monotone_back.
Theorem C16_move_ref_coord_range : forall ops s, nonneg_ops ops -> s <> 0 ->
  -1 <= move_ref_coord ops s <= refcols (expand (skip_clips (if 0 <? s then ops else rev ops))) - 1.
Proof. exact move_ref_coord_range. Qed.
Print Assumptions C16_move_ref_coord_range.
Theorem C16_move_ref_coord_single_match : forall n s, 0 < s < n -> move_ref_coord [(M, n)] s = s.
Proof. exact move_ref_coord_single_match. Qed.
Print Assumptions C16_move_ref_coord_single_match.
Example C16_move_ref_coord_example : nonneg_ops [(S,5);(M,10);(N,100);(M,4);(I,2);(M,6);(S,3)] /\
  move_ref_coord [(S,5);(M,10);(N,100);(M,4);(I,2);(M,6);(S,3)] 12 = 112 /\ move_ref_coord [(S,5);(M,10);(N,100);(M,4);(I,2);(M,6);(S,3)] (-7) = 5.
Proof. split; [repeat constructor; cbn; discriminate|exact move_ref_coord_example]. Qed.

(* find_polya: the fuel of the model suffices (never -2); -1 iff no window START i < len - w holds `need` A's; otherwise the result is the
   FIRST such start, advanced to the first "AA" at or after it (find_aa_spec).  The last window, at len - w, is never examined. *)
Theorem C16_find_polya_spec : forall w need s, 0 < w ->
  let len := Z.of_nat (length s) in
  find_polya w need s <> -2 /\
  (find_polya w need s = -1 <-> forall i, (Z.of_nat i < len - w) -> wc w (skipn i s) < need) /\
  (find_polya w need s <> -1 -> exists i, Z.of_nat i < len - w /\ need <= wc w (skipn i s) /\
      (forall j, (j < i)%nat -> wc w (skipn j s) < need) /\
      find_polya w need s = Z.of_nat i + match find_aa (skipn i s) 0 with Some k => k | None => 0 end).
Proof. exact find_polya_spec. Qed.
Print Assumptions C16_find_polya_spec.
Theorem C16_find_aa_spec : forall l i k, find_aa l i = Some k ->
  i <= k /\ nth (Z.to_nat (k - i)) l false = true /\ nth (Datatypes.S (Z.to_nat (k - i))) l false = true /\
  forall j, (j < Z.to_nat (k - i))%nat -> nth j l false && nth (Datatypes.S j) l false = false.
Proof. exact find_aa_spec. Qed.
Print Assumptions C16_find_aa_spec.
Example C16_find_polya_example : find_polya 4 3 [false;true;false;false;true;true;true;false;false] = 4.
Proof. vm_compute. reflexivity. Qed.
Example C16_find_polya_last_window_refuted : find_polya 16 12 (repeat true 16) = -1 /\ wc 16 (repeat true 16) = 16.
Proof. exact find_polya_last_window_refuted. Qed.

(* the finder's range question (DESIGN §5 C16): is internal polyT <= internal polyA whenever both are found?  NO — a 27-base read
   T^11 A^4 T^2 A^10 aligned 27M at 1000 gives polyA 1011 and polyT 1016 on the model and on the real PolyAFinder (so the ordering
   hypothesis of C16_counts_do_not_overlap is not discharged by the finder; the repaired correct_read_info does not need it). *)
Theorem C16_finder_range_refuted :
  exists seq ops rs a t, find_polya_tail 16 12 3 4 seq ops rs 64 2 true = CorrSupport.Ok a /\ find_polyt_head 16 12 3 4 seq ops rs 64 2 true = CorrSupport.Ok t /\
    a <> -1 /\ t <> -1 /\ a < t.
Proof. exact finder_range_statement_refuted. Qed.
Print Assumptions C16_finder_range_refuted.
(* what does hold: projections of ORDERED read offsets are ordered — a base s positions after the first aligned base, projected forwards
   (find_polyt_head), is never right of a later base, s' positions before the end of the aligned part, projected backwards (find_polya_tail) *)
Theorem C16_finder_range_partial : forall ops C rs s s', nonneg_ops ops ->
  expand (skip_clips ops) = C -> expand (skip_clips (rev ops)) = rev C -> ref_len ops = refcols C ->
  0 < s -> 0 < s' -> s + s' < qcols C ->
  rs + move_ref_coord ops s <= rs + ref_len ops - move_ref_coord ops (- s').
Proof. exact fwd_le_bwd_projection. Qed.
Print Assumptions C16_finder_range_partial.
Theorem C16_finder_range_partial_clipfree : forall ops rs s s', nonneg_ops ops -> clipfree ops ->
  0 < s -> 0 < s' -> s + s' < qcols (expand ops) ->
  rs + move_ref_coord ops s <= rs + ref_len ops - move_ref_coord ops (- s').
Proof. exact fwd_le_bwd_projection_clipfree. Qed.
Print Assumptions C16_finder_range_partial_clipfree.
Example C16_finder_range_partial_example :
  let ops := [(S,5);(M,10);(N,100);(M,4);(I,2);(M,6);(S,3)] in let C := expand (skip_clips ops) in
  expand (skip_clips (rev ops)) = rev C /\ ref_len ops = refcols C /\ qcols C = 22 /\
  1000 + move_ref_coord ops 9 <= 1000 + ref_len ops - move_ref_coord ops (-12).
Proof. vm_compute. repeat split; discriminate. Qed.

(* ---- tie to the source, loop functions: correct_bam_coords (src/common.py) and shift_polya / shift_polyt (src/polya_verification.py) are
        regenerated from the source on every check (tools/translate_loops.py -> gen/Loops.v: guards, one `for i in range(exon_count)` as
        fold_left over seq, the exon list read with Python indices, negative = from the end) and PROVED equal to the hand-written models for
        every exon count the code can be called with; for those the exception-freedom condition py_..._pre holds.  One bridge library per
        function, loaded inside the proof. *)
From IQ.gen Require Loops.
Theorem C16_correct_bam_coords_is_the_source : forall l, Cigar2.correct_bam_coords l = Loops.py_correct_bam_coords l.
Proof.
From IQ Require LoopCorrectBamBridge.
exact LoopCorrectBamBridge.correct_bam_coords_is_the_source. Qed.
Print Assumptions C16_correct_bam_coords_is_the_source.
Theorem C16_shift_polya_is_the_source : forall exons k pos, 0 <= k <= Z.of_nat (length exons) ->
  PolyA2.shift_polya exons k pos = Loops.py_shift_polya exons k pos /\ Loops.py_shift_polya_pre exons k pos = true.
Proof.
From IQ Require LoopShiftPolyaBridge.
exact LoopShiftPolyaBridge.shift_polya_is_the_source. Qed.
Print Assumptions C16_shift_polya_is_the_source.
Theorem C16_shift_polyt_is_the_source : forall exons k pos, 0 <= k <= Z.of_nat (length exons) ->
  PolyA2.shift_polyt exons k pos = Loops.py_shift_polyt exons k pos /\ Loops.py_shift_polyt_pre exons k pos = true.
Proof.
From IQ Require LoopShiftPolytBridge.
exact LoopShiftPolytBridge.shift_polyt_is_the_source. Qed.
Print Assumptions C16_shift_polyt_is_the_source.

(* ---- tie to the source, methods and the while fragment (tools/translate_loops.py -> gen/Loops.v, regenerated on every check):
        PolyAFixer.count_polya_exons / count_polyt_exons WHOLE (the scan with its `break` as a fold with a `stopped` flag;
        self.params.max_fake_terminal_exon_len as a parameter) and PolyAFixer.correct_read_info (the decrement loop as a Fixpoint on fuel).
        For all inputs; no exception is possible; the loop terminates within len(read_exons) + 2 steps of fuel. *)
Theorem C16_count_polya_exons_is_the_source : forall max_fake exons pos,
  PolyA2.count_polya_exons max_fake exons pos = Loops.py_count_polya_exons max_fake exons pos /\ Loops.py_count_polya_exons_pre max_fake exons pos = true.
Proof.
From IQ Require LoopCountPolyABridge.
exact LoopCountPolyABridge.count_polya_exons_is_the_source. Qed.
Print Assumptions C16_count_polya_exons_is_the_source.
Theorem C16_count_polyt_exons_is_the_source : forall max_fake exons pos,
  PolyA2.count_polyt_exons max_fake exons pos = Loops.py_count_polyt_exons max_fake exons pos /\ Loops.py_count_polyt_exons_pre max_fake exons pos = true.
Proof.
From IQ Require LoopCountPolyTBridge.
exact LoopCountPolyTBridge.count_polyt_exons_is_the_source. Qed.
Print Assumptions C16_count_polyt_exons_is_the_source.
Theorem C16_correct_read_info_is_the_source : forall max_fake exons int_a int_t fuel, (length exons + 1 < fuel)%nat ->
  Loops.py_correct_read_info fuel max_fake exons int_a int_t = Loops.py_Done (PolyA2.correct_read_info2 max_fake exons int_a int_t).
Proof.
From IQ Require LoopCorrectReadInfoBridge.
exact LoopCorrectReadInfoBridge.correct_read_info_is_the_source. Qed.
Print Assumptions C16_correct_read_info_is_the_source.
