(* C15 — saved read assignments round-trip losslessly and can be reused.
   Property theorems only; the model and the proofs are in Codec0.v, SaveFormat.v, SaveFormat2.v.
   Documented domain (SaveFormat2: u32, u16, s31, short_text, id_or_none, list_wf, event_wf, match_wf, dict_wf, ra_wf,
   basic_wf, ghead_wf): unsigned fields < 2^32 (mapping quality < 2^16), signed fields |v| < 2^31, strings = ANY text (list of Unicode scalar values:
   code points up to U+10FFFF without the surrogates) whose UTF-8 encoding is shorter than 65 536 bytes (gene / transcript ids: None or shorter
   than 65 535 bytes; short_text = blen s < 65536 /\ text s; after fixes/C15_string_length_in_bytes.diff - the writer before it, which
   preserves ASCII strings only, is c_str_unrepaired), lists of fewer than 2^32 elements,
   dictionaries with pairwise different keys, penalties as fixed-point integers k = int(p * 2^20) < 2^32,
   EVERY member of ReadAssignmentType / MatchClassification / MatchEventSubtype (as regenerated from the sources).
   `c_ra true` is the format with the repaired read_dict (fixes/C15_read_dict_sign.diff), `c_ra false` the code before it.
   `c_ghead true` is the gene header that also carries the reference window of the reads (all_read_region_start / _end;
   fixes/C18_serialize_read_region.diff), `c_ghead false` the layout before it. *)
From Coq Require Import ZArith NArith List Bool QArith.
From IQ Require Import Codec0 SaveFormat SaveFormat2.
From IQ.gen Require Import Tables.
Import ListNotations.

(* --- every record of the format: reading what was written returns the record and leaves the rest of the stream untouched *)
Theorem C15_read_assignment_roundtrip : forall a rest, ra_wf true a -> dec (c_ra true) (enc (c_ra true) a ++ rest) = Some (a, rest).
Proof. intros a rest H. apply rt_ra, ra_wf_dom, H. Qed.
Print Assumptions C15_read_assignment_roundtrip.

(* the reader before the repair: the same, provided the integer values of the two dictionaries are not negative *)
Theorem C15_read_assignment_roundtrip_before_repair_partial : forall a rest, ra_wf false a -> dec (c_ra false) (enc (c_ra false) a ++ rest) = Some (a, rest).
Proof. intros a rest H. apply rt_ra, ra_wf_dom, H. Qed.
Print Assumptions C15_read_assignment_roundtrip_before_repair_partial.

Theorem C15_isoform_match_roundtrip : forall m rest, match_wf m -> dec c_match (enc c_match m ++ rest) = Some (m, rest).
Proof. intros m rest H. apply rt_match, match_wf_dom, H. Qed.
Print Assumptions C15_isoform_match_roundtrip.

Theorem C15_match_event_roundtrip : forall e rest, event_wf e -> dec c_event (enc c_event e ++ rest) = Some (e, rest).
Proof. intros e rest H. apply rt_event, event_wf_dom, H. Qed.
Print Assumptions C15_match_event_roundtrip.

Theorem C15_basic_assignment_roundtrip : forall b rest, basic_wf b -> dec c_basic (enc c_basic b ++ rest) = Some (b, rest).
Proof. intros b rest H. apply rt_basic, basic_wf_dom, H. Qed.
Print Assumptions C15_basic_assignment_roundtrip.

(* gene header with the reference window of the reads: every header, whatever its window *)
Theorem C15_gene_header_roundtrip : forall g rest, ghead_wf true g -> dec (c_ghead true) (enc (c_ghead true) g ++ rest) = Some (g, rest).
Proof. intros g rest H. apply rt_ghead, ghead_wf_dom, H. Qed.
Print Assumptions C15_gene_header_roundtrip.
(* the layout before the repair does not store the window: it comes back as the gene region, so only those headers survive whose window
   IS the gene region (ghead_wf false demands it) - which is false for every read region reaching beyond the genes (C18:intron-outside-window) *)
Theorem C15_gene_header_roundtrip_unrepaired : forall g rest,
  u32 (g_delta g) -> list_wf short_text (g_genes g) -> short_text (g_chr g) -> u32 (g_start g) -> u32 (g_end g) ->
  g_rstart g = g_start g -> g_rend g = g_end g ->
  dec (c_ghead false) (enc (c_ghead false) g ++ rest) = Some (g, rest).
Proof. intros g rest H1 H2 H3 H4 H5 H6 H7. apply rt_ghead, ghead_wf_dom. exact (conj H1 (conj H2 (conj H3 (conj H4 (conj H5 (conj H6 H7)))))). Qed.
Print Assumptions C15_gene_header_roundtrip_unrepaired.
Example C15_gene_header_window_lost_unrepaired :
  dec (c_ghead false) (enc (c_ghead false) (MkGene 6 [] [] 3395440 3453804 3391000 3460000)) = Some (MkGene 6 [] [] 3395440 3453804 3395440 3453804, []) /\
  dec (c_ghead true) (enc (c_ghead true) (MkGene 6 [] [] 3395440 3453804 3391000 3460000)) = Some (MkGene 6 [] [] 3395440 3453804 3391000 3460000, []).
Proof. exact ghead_window_lost_unrepaired. Qed.

(* --- the primitives of serialization.py *)
Theorem C15_primitives_roundtrip :
  (forall v rest, u32 v -> dec c_u32 (enc c_u32 v ++ rest) = Some (v, rest)) /\
  (forall v rest, u16 v -> dec c_u16 (enc c_u16 v ++ rest) = Some (v, rest)) /\
  (forall v rest, s31 v -> dec c_neg (enc c_neg v ++ rest) = Some (v, rest)) /\
  (forall s rest, short_text s -> dec c_str (enc c_str s ++ rest) = Some (s, rest)) /\
  (forall o rest, id_or_none o -> dec c_str_opt (enc c_str_opt o ++ rest) = Some (o, rest)) /\
  (forall n l rest, length l = n -> (n <= 8)%nat -> dec (c_bools n) (enc (c_bools n) l ++ rest) = Some (l, rest)) /\
  (forall l rest, list_wf pair_wf l -> dec c_pairs (enc c_pairs l ++ rest) = Some (l, rest)) /\
  (forall l rest, list_wf s31 l -> dec c_negs (enc c_negs l ++ rest) = Some (l, rest)) /\
  (forall l rest, list_wf short_text l -> dec c_strs (enc c_strs l ++ rest) = Some (l, rest)) /\
  (forall d rest, dict_wf true d -> dec (c_dict true) (enc (c_dict true) d ++ rest) = Some (d, rest)).
Proof.
  split; [exact rt_u32|]. split; [exact rt_u16|]. split; [exact rt_neg|]. split; [exact rt_str|]. split; [exact rt_str_opt|].
  split; [intros n l rest H1 H2; apply rt_bools; split; assumption|].
  split; [intros l rest H; apply rt_pairs, pairs_wf_dom, H|].
  split; [intros l rest H; apply rt_negs; apply (list_wf_dom c_neg s31); [intros x Hx; exact Hx|exact H]|].
  split; [intros l rest H; apply rt_strs; apply (list_wf_dom c_str short_text); [intros x Hx; exact Hx|exact H]|].
  intros d rest H. apply rt_dict, dict_wf_dom, H.
Qed.
Print Assumptions C15_primitives_roundtrip.

(* in the domain the real writers do not raise: the checked writers (OverflowError / AssertionError modelled) agree with enc *)
Theorem C15_writers_total_on_domain :
  (forall v, u32 v -> write_int_chk 4 v = CorrSupport.Ok (enc c_u32 v)) /\ (forall v, s31 v -> write_int_neg_chk v = CorrSupport.Ok (enc c_neg v)).
Proof. split; [exact write_int_chk_dom|exact write_int_neg_chk_dom]. Qed.
Print Assumptions C15_writers_total_on_domain.

(* --- the abridged reader used for multi-mapper resolution (BasicReadAssignment.deserialize_from_read_assignment) consumes
   exactly the bytes of the record and returns the projection BasicReadAssignment(read_assignment) *)
Theorem C15_quick_reader_aligned : forall a rest, ra_wf true a -> ra_exons a <> [] ->
  dec_quick true (enc (c_ra true) a ++ rest) = Some (basic_of a, rest).
Proof. intros a rest H E. apply quick_reader_aligned; [apply ra_wf_dom, H|exact E]. Qed.
Print Assumptions C15_quick_reader_aligned.

(* the projection's penalty is 0 whatever the matches are (min(0.0, first penalty) with penalties >= 0) *)
Theorem C15_basic_penalty_zero : forall a, ra_wf true a -> b_penalty (basic_of a) = 0%Z.
Proof. intros a H. apply basic_penalty_zero. eapply penalties_nonneg_of_wf, H. Qed.
Print Assumptions C15_basic_penalty_zero.

(* --- stream framing: any sequence of gene headers, each followed by any number of assignments, then the terminator *)
Theorem C15_stream_roundtrip : forall rr gs rest, Forall (fun g => ghead_wf rr (fst g) /\ Forall (ra_wf true) (snd g)) gs ->
  dec_save_full true rr (enc_save true rr gs ++ rest) = Some (gs, rest).
Proof. intros rr gs rest H. apply stream_roundtrip. eapply Forall_impl; [|exact H].
  intros g [Hg Hr]. split; [apply ghead_wf_dom, Hg|]. eapply Forall_impl; [|exact Hr]. intros a Ha. apply ra_wf_dom, Ha. Qed.
Print Assumptions C15_stream_roundtrip.

(* the abridged loader reads the same stream to the same end and yields the projections, group by group *)
Theorem C15_stream_quick_aligned : forall rr gs rest, Forall (fun g => ghead_wf rr (fst g) /\ Forall (fun a => ra_wf true a /\ ra_exons a <> []) (snd g)) gs ->
  dec_save_quick true rr (enc_save true rr gs ++ rest) = Some (map (fun g => (tt, map basic_of (snd g))) gs, rest).
Proof. intros rr gs rest H. apply stream_quick_aligned.
  - eapply Forall_impl; [|exact H]. intros g [Hg Hr]. split; [apply ghead_wf_dom, Hg|]. eapply Forall_impl; [|exact Hr]. intros a [Ha _]. apply ra_wf_dom, Ha.
  - eapply Forall_impl; [|exact H]. intros g [_ Hr]. eapply Forall_impl; [|exact Hr]. intros a [_ Ha]. exact Ha. Qed.
Print Assumptions C15_stream_quick_aligned.

(* no record marker equals the terminator or the other marker; all fit the two bytes they are written in *)
Theorem C15_markers_distinct : GENE_MARK <> READ_MARK /\ GENE_MARK <> TERM16 /\ READ_MARK <> TERM16 /\
  (GENE_MARK < 65536)%N /\ (READ_MARK < 65536)%N /\ TERM16 = SER_SHORT_TERMINATION_INT /\ TERM32 = SER_TERMINATION_INT.
Proof. exact markers_distinct. Qed.
Print Assumptions C15_markers_distinct.

(* --- multimappers file: lists of projections terminated by TERMINATION_INT *)
Theorem C15_multimap_file_roundtrip : forall ls rest, Forall (fun l => (N.of_nat (length l) < 4294967295)%N /\ Forall basic_wf l) ls ->
  dec_mm_file (enc_mm ls ++ rest) = Some (ls, rest).
Proof. intros ls rest H. apply multimap_file_roundtrip. eapply Forall_impl; [|exact H].
  intros l [Hl Hf]. split; [exact Hl|]. eapply Forall_impl; [|exact Hf]. intros b Hb. apply basic_wf_dom, Hb. Qed.
Print Assumptions C15_multimap_file_roundtrip.

Theorem C15_info_file_roundtrip : forall t p gs rest, u32 t -> u32 p -> list_wf short_text gs ->
  dec c_info (enc c_info (t, (p, gs)) ++ rest) = Some ((t, (p, gs)), rest).
Proof. intros t p gs rest Ht Hp Hg. apply rt_info. split; [exact Ht|]. split; [exact Hp|].
  apply (list_wf_dom c_str short_text); [intros x Hx; exact Hx|exact Hg]. Qed.
Print Assumptions C15_info_file_roundtrip.

(* --- penalties are stored in fixed point: writing is idempotent on stored values, the error is below 2^-20 *)
Theorem C15_penalty_fixed_point : forall k, (0 <= k)%Z -> enc_penalty (dec_penalty k) = k.
Proof. exact penalty_idempotent. Qed.
Print Assumptions C15_penalty_fixed_point.

Theorem C15_penalty_error_bound : forall p, (0 <= p)%Q ->
  (dec_penalty (enc_penalty p) <= p)%Q /\ (p < dec_penalty (enc_penalty p) + (1 # 1048576))%Q /\ (0 <= enc_penalty p)%Z.
Proof. exact penalty_error_bound. Qed.
Print Assumptions C15_penalty_error_bound.

(* --- every member of the regenerated enums has a value that fits two bytes and identifies it *)
Theorem C15_enum_values_fit :
  (forall x, (RAT_value x < 65536)%N /\ find (fun y => (RAT_value y =? RAT_value x)%N) RAT_all = Some x) /\
  (forall x, (MC_value x < 65536)%N /\ find (fun y => (MC_value y =? MC_value x)%N) MC_all = Some x) /\
  (forall x, (MES_value x < 65536)%N /\ find (fun y => (MES_value y =? MES_value x)%N) MES_all = Some x).
Proof. split; [exact rat_dom_all|]. split; [exact mc_dom_all|exact mes_dom_all]. Qed.
Print Assumptions C15_enum_values_fit.

Theorem C15_constants_agree :
  SER_STR_LEN_BYTES = 2%N /\ SER_NONE_STR_LEN = 65535%N /\ SER_SHORT_INT_BYTES = 2%N /\ SER_LONG_INT_BYTES = 4%N /\
  SER_TERMINATION_INT = 4294967295%N /\ SER_SHORT_TERMINATION_INT = 65535%N /\ SER_SHORT_FLOAT_MULTIPLIER = 1048576%N /\
  SER_DICT_TYPE_LEN = 1%N /\ SER_DICT_INT_TYPE = 9%N /\ SER_DICT_INT_PAIR_TYPE = 10%N /\ SER_DICT_STR_TYPE = 17%N.
Proof. exact ser_constants_agree. Qed.
Print Assumptions C15_constants_agree.

(* --- outside the documented domain: what the faithful model (and, by the correspondences, the code) does *)
(* a non-ASCII string: the character count is stored, UTF-8 bytes are written; the reader fails ... *)
(* the writer before fixes/C15_string_length_in_bytes.diff (c_str_unrepaired: the prefix counts characters, the reader takes bytes) loses
   every non-ASCII string - known finding C15:string-length-in-characters; the repaired codec c_str returns it *)
Example C15_non_ascii_string_refuted :
  dec c_str_unrepaired (enc c_str_unrepaired [233%N]) = None /\ dec c_str (enc c_str [233%N]) = Some ([233%N], []).
Proof. exact non_ascii_string_refuted. Qed.
(* the unrepaired stream is misaligned behind such a string *)
Example C15_non_ascii_string_misaligned_refuted : forall rest,
  dec c_str_unrepaired (enc c_str_unrepaired [233%N; 97%N] ++ rest) = Some ([233%N], 97%N :: rest) /\
  dec c_str (enc c_str [233%N; 97%N] ++ rest) = Some ([233%N; 97%N], rest).
Proof. exact non_ascii_string_misaligned_refuted. Qed.
(* what the unrepaired writer does preserve: ASCII strings, on which both writers produce the same bytes *)
Theorem C15_string_roundtrip_unrepaired : forall s rest, short_ascii s ->
  dec c_str_unrepaired (enc c_str_unrepaired s ++ rest) = Some (s, rest) /\ enc c_str s = enc c_str_unrepaired s /\ short_text s.
Proof. intros s rest H. split; [apply rt_str_unrepaired, H|]. split; [apply enc_str_ascii, H|apply short_ascii_text, H]. Qed.
Print Assumptions C15_string_roundtrip_unrepaired.
(* UTF-8: the strict decoder inverts the encoder on every text (all Unicode scalar values, 1- to 4-byte forms) *)
Theorem C15_utf8_roundtrip : forall s, text s -> utf8_dec (utf8 s) = Some s.
Proof. exact utf8_roundtrip. Qed.
Print Assumptions C15_utf8_roundtrip.
(* an id whose encoding has exactly 65 535 bytes reads back as None and its bytes stay in the stream *)
Example C15_len65535_or_none_refuted : forall s, blen s = 65535%N ->
  forall rest, dec c_str_opt (enc c_str_opt (Some s) ++ rest) = Some (None, utf8 s ++ rest).
Proof. exact len65535_or_none_refuted. Qed.
(* read_dict before the repair reads sign-bit integers as unsigned: -5 comes back as 2^31 + 5 *)
Example C15_dict_negative_int_refuted :
  dec (c_dict false) (enc (c_dict false) [([97%N], DInt (-5)); ([98%N], DPair (-1) 3)]) =
  Some ([([97%N], DInt 2147483653); ([98%N], DPair 2147483649 3)], []).
Proof. exact dict_negative_int_refuted. Qed.
(* an assignment without exons: the full reader returns it, the abridged reader raises (exons[0][0]) *)
Example C15_quick_reader_empty_exons_refuted :
  dec_quick true (enc (c_ra true) (ra_min [])) = None /\ dec (c_ra true) (enc (c_ra true) (ra_min [])) = Some (ra_min [], []).
Proof. exact quick_reader_empty_exons_refuted. Qed.
(* a list of 2^32 - 1 assignments in the multimappers file would be taken for the terminator *)
Example C15_multimap_terminator_collision_refuted : forall rest, dec_mm_file (enc_be 4 TERM32 ++ rest) = Some ([], rest).
Proof. exact multimap_terminator_collision_refuted. Qed.

(* --- non-vacuity: a record in the domain with a negative event offset, a None id, sentinels and a negative attribute *)
Local Open Scope Z_scope.
Definition ex_ra : rassign :=
  MkRA 7 [114%N; 233%N; 20013%N; 128512%N] (100, 900) [(100, 200); (300, 400)] [(100, 200); (300, 400)] [false; true; false] (-1, -1, 405, -1)
       [78%N; 65%N] [43%N] [43%N] [99%N; 57%N] 60 RAT_unique_minor_difference RAT_unique
       [MkMatch (Some [71%N]) None [43%N] MC_incomplete_splice_match 314572 [MkEvent MES_exon_elongation_left (0, 0) (2147483648, 2147483648) (-17)]]
       [([97%N], DInt (-5))] [] true [1; -1; 0] [1].
Example C15_example_in_domain : ra_wf true ex_ra /\ ra_exons ex_ra <> [].
Proof. unfold ra_wf, ex_ra, u32, u16, s31, short_text, pair_wf, list_wf, count32, dict_wf, text, blen, scalar; cbn.
  repeat match goal with |- _ /\ _ => split end; try reflexivity; try discriminate;
    repeat (constructor; cbn; unfold event_wf, match_wf, id_or_none, short_text, list_wf, count32, text, blen, scalar, u32, s31; cbn);
    repeat match goal with |- _ /\ _ => split end; try reflexivity; try discriminate; try (intros []); auto;
    repeat (constructor; cbn; unfold event_wf, u32, s31; cbn; repeat split; try reflexivity; try discriminate). Qed.
Example C15_example_roundtrip : dec (c_ra true) (enc (c_ra true) ex_ra) = Some (ex_ra, []) /\ dec_quick true (enc (c_ra true) ex_ra) = Some (basic_of ex_ra, []).
Proof. split; vm_compute; reflexivity. Qed.
