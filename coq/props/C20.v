(* C20 — concurrent runs under one user account do not interfere.
   Property theorems only; the model lives in Cache.v (file system, JSON dictionary, the two write protocols as programs of
   atomic steps, n processes, schedules = lists of process indices), the proofs in CacheProofs.v.
   The model of the code AS REPAIRED by fixes/C20_atomic_cache_write.diff is the atomic protocol (`prog_run true _`); the
   protocol of the unrepaired code (`prog_run false _`: open(path,'w') then json.dump) is refuted by the three witnesses
   at the end.  harness/props/c20.py determines which of the two the checked-out code follows and replays model schedules
   on it. *)
From Coq Require Import ZArith List Bool.
From IQ Require Import CorrSupport Cache CacheProofs.
Import ListNotations. Open Scope Z_scope.

(* Programs built from the atomic operations only (exists / dump-aside-and-replace / read / lookup / convert / modify):
   for EVERY number of processes and EVERY schedule the shared file is never unparseable and no reader dies with
   JSONDecodeError.  (Schedules are arbitrary lists, so this holds at every intermediate point as well.) *)
Theorem C20_reader_never_sees_partial : forall sched w,
  file_whole (s_file (w_sh w)) ->
  (forall i p, nth_error (w_procs w) i = Some p -> forallb atomic_op (p_prog p) = true /\ p_st p <> Crashed 1) ->
  file_whole (s_file (w_sh (run w sched))) /\
  forall i p, nth_error (w_procs (run w sched)) i = Some p -> p_st p <> Crashed 1.
Proof. exact reader_never_sees_partial. Qed.
Print Assumptions C20_reader_never_sees_partial.

(* A stored database is reused exactly when the entry under THIS annotation path names it, annotation and database exist
   with the recorded modification times, and the recorded completeness flag is the one asked for (find_converted_db,
   field by field). *)
Theorem C20_cache_hit_sound : forall d g c fs r,
  find_converted_db d g c fs = Ok (Some r) <->
  exists e sg sr, dget d g = Some e /\ e_genedb e = Some r /\
                  fs g = Some sg /\ e_gtf_mtime e = Some (f_mtime sg) /\
                  fs r = Some sr /\ e_db_mtime e = Some (f_mtime sr) /\
                  e_complete e = Some c.
Proof. exact cache_hit_sound. Qed.
Print Assumptions C20_cache_hit_sound.

(* The caches of read_mapper (aligner index, junction BED, alignments): a stored file is reused exactly when the entry under
   this key names it, the input and the stored file exist with the recorded modification times, and (index) the recorded
   k-mer size is the one the data type asks for; for the alignment cache the index and the annotation used must carry the
   recorded times as well. *)
Theorem C20_index_hit_sound : forall d ref kmer fs r,
  find_stored_index d ref kmer fs = Some r <->
  exists e sr si, aget d ref = Some e /\ i_index e = Some r /\
                  fs ref = Some sr /\ i_ref_mtime e = Some (f_mtime sr) /\
                  fs r = Some si /\ i_index_mtime e = Some (f_mtime si) /\ i_kmer e = Some kmer.
Proof. exact index_hit_sound. Qed.
Print Assumptions C20_index_hit_sound.
Theorem C20_bed_hit_sound : forall d db fs r,
  find_stored_bed d db fs = Some r <->
  exists e sd sb, aget d db = Some e /\ b_bed e = Some r /\
                  fs db = Some sd /\ b_ref_mtime e = Some (f_mtime sd) /\
                  fs r = Some sb /\ b_bed_mtime e = Some (f_mtime sb).
Proof. exact bed_hit_sound. Qed.
Print Assumptions C20_bed_hit_sound.
Theorem C20_alignment_hit_sound : forall d key fastq index ann fs r,
  find_stored_alignment d key fastq index ann fs = Ok (Some r) ->
  exists e si sf sb, aget d key = Some e /\ a_bam e = Some r /\
                     fs index = Some si /\ a_index_mtime e = Some (f_mtime si) /\
                     (forall ap, ann = Some ap -> exists sa, fs ap = Some sa /\ a_ann_mtime e = Some (f_mtime sa)) /\
                     fs fastq = Some sf /\ a_fastq_mtime e = Some (f_mtime sf) /\
                     fs r = Some sb /\ a_bam_mtime e = Some (f_mtime sb).
Proof. exact alignment_hit_sound. Qed.
Print Assumptions C20_alignment_hit_sound.

(* Both protocols, any programs that record an entry only after converting, any n, any schedule: a process that ends
   normally with database r finds in r the conversion of the annotation its input path held at the start, built with its
   own completeness flag.  Hypotheses (init_ok): pairwise different output paths that hold nothing yet and are nobody's
   input, inputs that are annotations, an initial cache file whose entries are honest. *)
Theorem C20_uses_own_conversion : forall w sched, init_ok w ->
  forall i p r, nth_error (w_procs (run w sched)) i = Some p -> p_st p = Done (Some r) ->
  exists p0 gm a dm, nth_error (w_procs w) i = Some p0 /\ same_static p p0 /\
                     s_fs (w_sh w) (p_gtf p0) = Some (mkstat gm (Gtf a)) /\
                     s_fs (w_sh (run w sched)) r = Some (mkstat dm (Db a (p_complete p0))).
Proof. exact uses_own_conversion. Qed.
Print Assumptions C20_uses_own_conversion.

(* whatever updates were lost on the way, the file holds honest entries only *)
Theorem C20_file_always_honest : forall w sched, init_ok w ->
  forall d n, s_file (w_sh (run w sched)) = Data (Some d) n -> honest (s_fs (w_sh (run w sched))) d.
Proof. exact file_always_honest. Qed.
Print Assumptions C20_file_always_honest.

(* a dictionary that lost entries stays honest, and a lookup in it returns the same database or misses (= the run converts
   again); it never returns a different database *)
Theorem C20_lost_update_harmless : forall d d' fs, subdict d' d ->
  (honest fs d -> honest fs d') /\
  (forall g c r, find_converted_db d' g c fs = Ok (Some r) -> find_converted_db d g c fs = Ok (Some r)).
Proof. exact lost_update_harmless. Qed.
Print Assumptions C20_lost_update_harmless.

(* the repaired code, n runs starting together on a new or a used HOME: no run dies, whatever the schedule *)
Theorem C20_all_runs_succeed : forall w sched, start_ok w ->
  file_whole (s_file (w_sh (run w sched))) /\
  forall i p, nth_error (w_procs (run w sched)) i = Some p -> forall k, p_st p <> Crashed k.
Proof. exact all_runs_succeed. Qed.
Print Assumptions C20_all_runs_succeed.

(* a run scheduled as often as its program is long has ended *)
Theorem C20_every_run_terminates : forall sched w,
  (forall i p, nth_error (w_procs w) i = Some p -> live p) ->
  forall i p, nth_error (w_procs w) i = Some p -> (budget p <= count_occ Nat.eq_dec sched i)%nat ->
  exists p', nth_error (w_procs (run w sched)) i = Some p' /\ p_st p' <> Running.
Proof. exact every_run_terminates. Qed.
Print Assumptions C20_every_run_terminates.

(* the statement of C20 for the repaired code: under every schedule that runs each process to its end, each ends normally
   with the conversion of its own annotation, and the cache file is never unparseable *)
Theorem C20_concurrent_runs_do_not_interfere : forall w sched, start_ok w ->
  (forall i p, nth_error (w_procs w) i = Some p -> (7 <= count_occ Nat.eq_dec sched i)%nat) ->
  file_whole (s_file (w_sh (run w sched))) /\
  forall i p, nth_error (w_procs (run w sched)) i = Some p ->
  exists r p0 gm a dm, p_st p = Done (Some r) /\ nth_error (w_procs w) i = Some p0 /\ same_static p p0 /\
                       s_fs (w_sh w) (p_gtf p0) = Some (mkstat gm (Gtf a)) /\
                       s_fs (w_sh (run w sched)) r = Some (mkstat dm (Db a (p_complete p0))).
Proof. exact concurrent_runs_do_not_interfere. Qed.
Print Assumptions C20_concurrent_runs_do_not_interfere.

(* the hypotheses are satisfiable: two runs with different annotations on a new / on a used HOME *)
Example C20_hypotheses_satisfiable :
  start_ok (mkworld sh_fresh (two true 120 120)) /\ start_ok (mkworld sh_existing (two true 120 120)).
Proof. split; [exact start_ok_fresh_home|exact start_ok_used_home]. Qed.
Print Assumptions C20_hypotheses_satisfiable.

(* ---- the configuration directory: makedirs(exist_ok=True) never fails, for any number of runs and any schedule;
        check-then-create is refuted by two runs *)
Theorem C20_mkdir_idempotent_never_fails : forall sched dir ps,
  Forall dok ps -> Forall (fun p => d_failed p = false) (snd (drun dir ps sched)).
Proof. exact mkdir_idempotent_never_fails. Qed.
Print Assumptions C20_mkdir_idempotent_never_fails.
Example C20_check_then_create_refuted :
  map d_failed (snd (drun false [dp (prog_mkdir false) false; dp (prog_mkdir false) false] [0; 1; 0; 1]%nat)) = [false; true].
Proof. exact check_then_create_fails. Qed.

(* ---- the db2gtf direction (STAR aligner given a .db): sound once the recorded database path is compared
        (fixes/C20_db2gtf_compare_db_path.diff); the predicate as it stands ignores the path *)
Theorem C20_db2gtf_hit_sound : forall d db fs k,
  find_converted_gtf true d db fs = Some k ->
  exists sg sd, field d k e_genedb = Some db /\ fs k = Some sg /\ field d k e_gtf_mtime = Some (f_mtime sg) /\
                fs db = Some sd /\ field d k e_db_mtime = Some (f_mtime sd).
Proof. exact db2gtf_hit_sound. Qed.
Print Assumptions C20_db2gtf_hit_sound.
Example C20_db2gtf_hit_sound_refuted :
  let fs := fs_of_list [(5, mkstat 7 (Gtf 100)); (21, mkstat 9 (Db 100 true)); (22, mkstat 9 (Db 200 true))] in
  let d := [(5, mkentry (Some 21) (Some 7) (Some 9) (Some true))] in
  find_converted_gtf false d 22 fs = Some 5 /\ find_converted_gtf true d 22 fs = None /\ find_converted_gtf true d 21 fs = Some 5.
Proof. exact db2gtf_hit_sound_refuted. Qed.

(* ---- the in-place protocol (open(path,'w'), then json.dump) is refuted; two processes suffice *)
(* a used HOME: P0 has truncated the file when P1 reads it — P1 dies with JSONDecodeError (kind 1) *)
Example C20_reader_never_sees_partial_refuted :
  map abs_status (w_procs (run (mkworld sh_existing (two false 120 120)) sched_partial)) = [(1, o1); (2, 1)].
Proof. exact inplace_reader_sees_partial. Qed.
(* a new HOME, both start together: P0 has created the file, P1 finds it present and reads it empty *)
Example C20_fresh_home_refuted :
  map abs_status (w_procs (run (mkworld sh_fresh (two false 120 120)) sched_fresh)) = [(1, o1); (2, 1)].
Proof. exact inplace_fresh_home_crash. Qed.
(* both truncate, the longer text lands first: both runs succeed, the file is unparseable for good and a third run
   started afterwards dies *)
Example C20_cache_corrupted_for_good_refuted :
  let w := run (mkworld sh_existing three_inplace) sched_corrupt in
  abs_file (w_sh w) = Some None /\ map abs_status (w_procs w) = [(1, o1); (1, o2); (2, 1)].
Proof. exact inplace_corrupt_forever. Qed.
(* the same schedules under the atomic protocol end well; a lost update (harmless, see above) is still possible *)
Example C20_atomic_same_schedules :
  forallb done_ok (w_procs (run (mkworld sh_existing (two true 120 120)) (sched_partial ++ [1; 1; 1; 1; 1; 1]%nat))) = true /\
  forallb done_ok (w_procs (run (mkworld sh_fresh (two true 120 120)) (sched_fresh ++ [1; 1; 1; 1; 1; 1]%nat))) = true /\
  forallb done_ok (w_procs (run (mkworld sh_existing (two true 140 120 ++ [mkp g1 o3 true 130 (prog_run true false)])) (sched_corrupt ++ [2; 2; 2; 2; 2; 2]%nat))) = true.
Proof. exact atomic_same_schedules. Qed.
Example C20_lost_update_possible :
  abs_file (w_sh (run (mkworld sh_existing (two true 120 120)) sched_lost)) = Some (Some [(g2, (Some o2, true, true, Some true))]).
Proof. exact atomic_lost_update. Qed.
