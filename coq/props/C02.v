(* C02 — expression tables equal the documented weighting of reported read assignments.
   Property theorems only; proofs live in Counting.v (weights), CountingCounter.v (faithful model of AssignedFeatureCounter,
   merge_counts, convert_counts_to_tpm and the declarative specification spec_cell), CountingProofs.v. *)
From Coq Require Import ZArith QArith List Bool.
From IQ Require Import Counting CountingCounter CountingProofs CountingCheck.
Import ListNotations.
Open Scope Z_scope.

(* ---- weights *)
Theorem C02_weight_range : forall fl t k, (0 < k)%nat -> (0 <= weight_tk fl t k <= 1)%Q.
Proof. exact weight_tk_range. Qed.
Print Assumptions C02_weight_range.

(* the code's weight is the documented one for every strategy, assignment type and feature count *)
Theorem C02_weight_table : forall s t k, (0 < k)%nat -> weight_tk (flags_of s) t k = documented s t k.
Proof. exact weight_table. Qed.
Print Assumptions C02_weight_table.

(* one record puts a total of exactly 0 or 1 into a table (k features times the weight), under every strategy *)
Theorem C02_record_contribution_0_or_1 : forall fl t k, (0 < k)%nat -> (is_unique t = true -> k = 1%nat) ->
  (qk k * weight_tk fl t k == 0 \/ qk k * weight_tk fl t k == 1)%Q.
Proof. exact contribution_tk_0_or_1. Qed.
Print Assumptions C02_record_contribution_0_or_1.
(* "no read contributes a total weight above 1": proved per reported record ... *)
Theorem C02_read_contribution_le_1_partial : forall fl t k, (0 < k)%nat -> (is_unique t = true -> k = 1%nat) -> (qk k * weight_tk fl t k <= 1)%Q.
Proof. exact contribution_tk_le_1. Qed.
Print Assumptions C02_read_contribution_le_1_partial.
(* ... and false for a read with several reported records: a multi-mapped read kept on two loci is re-typed `ambiguous` with one
   feature per locus and counts 1 on each, even under unique_only (known finding C02:ambiguous-multilocus-weight) *)
Example C02_read_contribution_le_1_refuted :
  let rec1 := ERead (mkra Ambiguous Ambiguous [mkm (Some 1) (Some 10)] 0 false 3) in
  let rec2 := ERead (mkra Ambiguous Ambiguous [mkm (Some 2) (Some 20)] 0 false 3) in
  (read_total UniqueOnly GeneLevel [rec1; rec2] == 2)%Q /\ prop_read_total (UniqueOnly, TranscriptLevel, [rec1; rec2]) = false /\
  match run (mk_counter UniqueOnly GeneLevel 0 [] true (true, true)) (init_state []) [rec1; rec2] with
  | Some st => get (fcount st) 10 0 = 1%Q /\ get (fcount st) 20 0 = 1%Q | None => False end.
Proof. vm_compute. repeat split; reflexivity. Qed.

(* ---- the dumped table: every row of the ungrouped table is zero for an unconfirmed feature and otherwise the documented
        weighted sum over the records reported for that feature; for every sequence of counter calls, every strategy and level *)
Theorem C02_table_is_weighted_sum : forall cf complete evs st, ungrouped_cfg cf ->
  run cf (init_state complete) evs = Some st -> forallb (wf_event cf) evs = true ->
  forall f cells, In (f, cells) (dump_ungrouped cf st) ->
  exists v, cells = [v] /\ (v == spec_cell (c_strategy cf) (c_level cf) evs f None)%Q.
Proof. exact table_is_weighted_sum. Qed.
Print Assumptions C02_table_is_weighted_sum.
(* the counters the factories build without read groups satisfy the hypothesis *)
Theorem C02_factory_counters_are_ungrouped : forall s lv na z fmt, ungrouped_cfg (mk_counter s lv na [] z fmt).
Proof. intros. apply mk_counter_ungrouped. Qed.
Print Assumptions C02_factory_counters_are_ungrouped.
Theorem C02_complete_features_listed : forall cf complete evs st f, c_ignore cf = true -> c_zeroes cf = true ->
  run cf (init_state complete) evs = Some st -> In f complete -> exists cells, In (f, cells) (dump_ungrouped cf st).
Proof. exact complete_features_listed. Qed.
Print Assumptions C02_complete_features_listed.

(* a feature supported by a uniquely assigned read whose corrected alignment is spliced (or whose isoform is mono-exonic) is never zeroed *)
Theorem C02_unique_spliced_confirms : forall s evs r f gsel, In (ERead r) evs -> counted r = true -> is_unique (ra_type r) = true ->
  feats_of TranscriptLevel r = [f] -> (1 < ra_nexons r \/ ra_mono r = true) ->
  (spec_cell s TranscriptLevel evs f gsel == qsum' (map (spec_contrib s TranscriptLevel f gsel) evs))%Q.
Proof. exact unique_spliced_confirms. Qed.
Print Assumptions C02_unique_spliced_confirms.
Theorem C02_unique_gene_confirms : forall s evs r f gsel, In (ERead r) evs -> counted r = true -> is_unique (ra_gtype r) = true ->
  feats_of GeneLevel r = [f] ->
  (spec_cell s GeneLevel evs f gsel == qsum' (map (spec_contrib s GeneLevel f gsel) evs))%Q.
Proof. exact unique_gene_confirms. Qed.
Print Assumptions C02_unique_gene_confirms.

(* ---- __ambiguous / __no_feature / __not_aligned *)
Theorem C02_stats_lines_count : forall cf complete evs st, run cf (init_state complete) evs = Some st ->
  n_amb st = spec_ambiguous (c_level cf) evs /\ n_noassign st = spec_no_feature evs /\ n_noalign st = spec_not_aligned evs.
Proof. exact stats_lines_count. Qed.
Print Assumptions C02_stats_lines_count.

(* ---- per-chromosome merge: a feature lives on one chromosome, so its cell in the table of all records is that chromosome's cell;
        merge_counts concatenates the rows and sums the statistics (the BAM's unmapped count overrides __not_aligned when positive) *)
Theorem C02_merge_is_table_of_concat : forall s lv e1 e2 f gsel,
  ((forall ev, In ev e2 -> mentions lv f ev = false) -> (spec_cell s lv (e1 ++ e2) f gsel == spec_cell s lv e1 f gsel)%Q) /\
  ((forall ev, In ev e1 -> mentions lv f ev = false) -> (spec_cell s lv (e1 ++ e2) f gsel == spec_cell s lv e2 f gsel)%Q).
Proof. intros. split; [apply merge_is_table_of_concat_l|apply merge_is_table_of_concat_r]. Qed.
Print Assumptions C02_merge_is_table_of_concat.
Theorem C02_merge_two_chromosomes : forall cf c1 c2 e1 e2 o1 o2 unaligned, ungrouped_cfg cf ->
  run_chr cf (c1, e1) = Some o1 -> run_chr cf (c2, e2) = Some o2 ->
  let m := merge cf [o1; o2] unaligned in
  mg_rows m = o_rows o1 ++ o_rows o2 /\
  mg_stats m = Some (spec_ambiguous (c_level cf) (e1 ++ e2), spec_no_feature (e1 ++ e2),
                     if 0 <? unaligned then unaligned else spec_not_aligned (e1 ++ e2)) /\
  mg_usable m = sumz (map usable_ind (e1 ++ e2)).
Proof. exact merge_two_chromosomes. Qed.
Print Assumptions C02_merge_two_chromosomes.

(* ---- TPM: simple normalisation rescales the printed table by one common factor (all ratios preserved) to a total of 10^6 *)
Theorem C02_tpm_scales : forall cf n rows total, c_ignore cf = true -> total = qsum' (map (col 0) rows) -> (0 < total)%Q ->
  (qsum' (map (col 0) (fst (tpm cf false n rows))) == million)%Q /\
  (forall f cells, In (f, cells) (fst (tpm cf false n rows)) -> exists r, In r rows /\ fst r = f /\ cells = [(million / total * col 0 r)%Q]) /\
  (c_zeroes cf = true -> forall r, In r rows -> In (fst r, [(million / total * col 0 r)%Q]) (fst (tpm cf false n rows))).
Proof. exact tpm_scales. Qed.
Print Assumptions C02_tpm_scales.
(* usable_reads: common factor 10^6 / usable reads; with the __unassigned line the values add up to 10^6 *)
Theorem C02_tpm_usable_reads : forall cf n rows, c_ignore cf = true -> rows <> [] -> n <> 0 ->
  exists u, snd (tpm cf true n rows) = Some u /\ (qsum' (map (col 0) (fst (tpm cf true n rows))) + u == million)%Q /\
  (forall f cells, In (f, cells) (fst (tpm cf true n rows)) -> exists r, In r rows /\ fst r = f /\ cells = [(million / inject_Z n * col 0 r)%Q]).
Proof. exact tpm_usable_reads. Qed.
Print Assumptions C02_tpm_usable_reads.

(* ---- non-vacuity: a run with a unique spliced read, an ambiguous read shared by two transcripts and an inconsistent one *)
Example C02_example_run :
  let cf := mk_counter WithAmbiguous TranscriptLevel 0 [] true (true, true) in
  let evs := [ERead (mkra Unique Unique [mkm (Some 1) (Some 10)] 0 false 3);
              ERead (mkra Ambiguous Unique [mkm (Some 1) (Some 10); mkm (Some 2) (Some 10)] 0 false 3);
              ERead (mkra Inconsistent Inconsistent [mkm (Some 2) (Some 10)] 0 false 2); ENone] in
  forallb (wf_event cf) evs = true /\
  match run cf (init_state [1; 2; 3]) evs with
  | Some st => map (fun r => (fst r, map Qred (snd r))) (dump_ungrouped cf st) = [(1, [(3 # 2)%Q]); (2, [0%Q]); (3, [0%Q])] /\ stats_of st = (1, 0, 1, 3)
  | None => False end /\
  (Qred (spec_cell WithAmbiguous TranscriptLevel evs 1 None) = 3 # 2)%Q.
Proof. vm_compute. repeat split; reflexivity. Qed.

(* ---- tie to the source.  gen/Extra.v and gen/Tables.v are regenerated from src/long_read_counter.py / src/isoform_assignment.py on
        every check (tools/translate_extra.py, translate_tables.py): CountingStrategy with its predicates, COUNTING_STRATEGIES,
        CountingStrategyFlags.__init__, ReadWeightCounter.process_ambiguous / process_inconsistent (floats read as exact rationals),
        ReadAssignmentType with its classification sets, GroupedOutputFormat.  cs_of / rat_of / csf_of (CountingBridgeDefs.v) map the
        model's constructors to the members of the source's enums.  The libraries with the proofs (CountingEnumsBridge.v,
        CountingBridge.v) are loaded inside the proofs, so that an edit of the source that invalidates one is reported against its theorems and
        the theorems above are still checked. *)
From IQ.gen Require Tables Extra.
From IQ Require Import CountingBridgeDefs.
(* every member of the source's enums is the image of a constructor of the model (nothing of the source is left unmodelled) *)
Theorem C02_enums_are_covered : (forall x : Tables.RAT, exists t, rat_of t = x) /\ (forall a b, rat_of a = rat_of b -> a = b).
Proof.
From IQ Require CountingEnumsBridge.
exact (conj CountingEnumsBridge.rat_of_onto CountingEnumsBridge.rat_of_inj). Qed.
Print Assumptions C02_enums_are_covered.
(* GroupedOutputFormat.output_matrix / output_linear: the (matrix, linear) pair handed to mk_counter for --counts_format matrix / linear / both *)
Theorem C02_grouped_format_is_the_source :
  Extra.GOF_all = [Extra.GOF_matrix; Extra.GOF_linear; Extra.GOF_both] /\ map fmt_of Extra.GOF_all = [(true, false); (false, true); (true, true)].
Proof.
From IQ Require CountingEnumsBridge.
exact CountingEnumsBridge.grouped_format_is_the_source. Qed.
Print Assumptions C02_grouped_format_is_the_source.
(* the model's flags and weights are the source's, for every strategy, assignment type and feature count *)
Theorem C02_weights_are_the_sources : forall s t k,
  process_ambiguous (flags_of s) k = Extra.py_process_ambiguous (Extra.CSF_init (cs_of s)) (Z.of_nat k) /\
  process_inconsistent (flags_of s) t k = Extra.py_process_inconsistent (Extra.CSF_init (cs_of s)) (rat_of t) (Z.of_nat k) /\
  csf_of (flags_of s) = Extra.CSF_init (cs_of s) /\
  s_no_inconsistent s = Extra.CS_mem (cs_of s) Extra.CS_no_inconsistent /\
  map cs_of all_strategies = Extra.CS_all /\ Extra.CS_COUNTING_STRATEGIES = Extra.CS_all /\
  is_unique t = rat_mem (rat_of t) Tables.RAT_is_unique /\ is_inconsistent t = rat_mem (rat_of t) Tables.RAT_is_inconsistent /\
  is_unassigned t = rat_mem (rat_of t) Tables.RAT_is_unassigned.
Proof.
From IQ Require CountingBridge.
exact CountingBridge.weights_are_the_sources. Qed.
Print Assumptions C02_weights_are_the_sources.
(* hence the weight of a record, written with the source's functions and sets only *)
Theorem C02_weight_tk_is_the_source : forall s t k,
  weight_tk (flags_of s) t k =
  let fl := Extra.CSF_init (cs_of s) in
  if rat_mem (rat_of t) Tables.RAT_is_unique then 1%Q
  else if Tables.RAT_eqb (rat_of t) Tables.RAT_ambiguous then Extra.py_process_ambiguous fl (Z.of_nat k)
  else if rat_mem (rat_of t) Tables.RAT_is_inconsistent then Extra.py_process_inconsistent fl (rat_of t) (Z.of_nat k)
  else 0%Q.
Proof.
From IQ Require CountingBridge.
exact CountingBridge.weight_tk_is_the_source. Qed.
Print Assumptions C02_weight_tk_is_the_source.

(* ==== transcript-MODEL count tables.  CountingModels.v is a faithful model of the read bookkeeping of src/graph_based_model_construction.py
        (transcript_read_ids, read_assignment_counts, transcript_model_storage; save_assigned_read, delete_from_storage, assign_reads_to_models),
        of forward_counts (the calls add_read_info_raw / add_unassigned / add_confirmed_features of the transcript-model counter, i.e. the events
        ERaw / EUnassigned / EConfirm of CountingCounter.v) and of GFFPrinter.dump_read_assignments (transcript_model_reads.tsv); proofs in
        CountingModelsProofs.v; the harness runs the REAL methods on generated step sequences against it (correspondence model_bookkeeping). *)
From Coq Require Import Permutation.
From IQ Require Import CountingModels CountingModelsProofs GroupedProofs.

(* every sequence of model creations, reads saved during construction, deletions and (re-)assignment rounds in which reads are stored for models of
   the storage only leaves read_assignment_counts[r] = number of stored (model, r) pairs, with pairwise different keys *)
Theorem C02_model_bookkeeping_consistent : forall ops, legal ms_empty ops -> consistent (process ops).
Proof. exact process_consistent. Qed.
Print Assumptions C02_model_bookkeeping_consistent.
Theorem C02_model_legal_is_decidable : forall ops st, legalb st ops = true -> legal st ops.
Proof. exact legalb_sound. Qed.
Print Assumptions C02_model_legal_is_decidable.

(* from consistent bookkeeping forward_counts issues, up to order, exactly one add_read_info_raw per read stored for some model - with ALL the models
   it is stored for and its group - then add_unassigned(number of reads stored for no model) and add_confirmed_features(reported models) *)
Theorem C02_model_counter_calls : forall st, consistent st -> Permutation (forward_counts st) (canon_events st).
Proof. exact forward_counts_perm. Qed.
Print Assumptions C02_model_counter_calls.

(* the transcript-model table: the cell of model f is 0 when f is not reported and otherwise the sum, over the reads, of (number of times f is among
   the read's models) x (1 for a read with one model, the documented ambiguous-read weight of the strategy for a read with k > 1 models) *)
Theorem C02_model_table_is_weighted_sum : forall cf complete st st', consistent st -> ungrouped_cfg cf ->
  run cf (init_state complete) (forward_counts st) = Some st' ->
  forall f cells, In (f, cells) (dump_ungrouped cf st') -> exists v, cells = [v] /\ (v == model_cell (c_strategy cf) st f None)%Q.
Proof. exact model_table_is_weighted_sum. Qed.
Print Assumptions C02_model_table_is_weighted_sum.
(* ... stated from the step sequence *)
Theorem C02_model_table_of_process : forall ops cf complete st', legal ms_empty ops -> ungrouped_cfg cf ->
  run cf (init_state complete) (forward_counts (process ops)) = Some st' ->
  forall f cells, In (f, cells) (dump_ungrouped cf st') -> exists v, cells = [v] /\ (v == model_cell (c_strategy cf) (process ops) f None)%Q.
Proof. intros ops cf complete st' L. apply model_table_is_weighted_sum, process_consistent, L. Qed.
Print Assumptions C02_model_table_of_process.
(* ... and read off the INPUT of one assignment round on fresh bookkeeping (models, then per read of the storage its id, group and the models the assigner
   found it consistent with; read ids pairwise different): every read contributes to each of its models 1 when that is its only model and the
   documented weight for k models otherwise (1/k under with_ambiguous / all, 0 under the other strategies) *)
Theorem C02_model_cell_from_round_input : forall s models res f gsel, models <> [] -> NoDup (map rid res) ->
  (model_cell s (process (map OModel models ++ [OAssign res])) f gsel == input_cell s res models f gsel)%Q.
Proof. intros s models res f gsel M N. rewrite (process_round models res M). apply assigned_cell, N. Qed.
Print Assumptions C02_model_cell_from_round_input.
(* a reported model is confirmed, i.e. never zeroed *)
Theorem C02_reported_model_never_zeroed : forall s st f gsel, In f (m_models st) -> model_cell s st f gsel = qsum' (map (model_contrib s st f gsel) (reads st)).
Proof. exact reported_model_cell. Qed.
Print Assumptions C02_reported_model_never_zeroed.

(* no read contributes a total weight above 1 to the transcript-model table (summed over any set of models) *)
Theorem C02_model_read_contribution_le_1 : forall s st r F, NoDup F -> (qsum' (map (fun f => model_contrib s st f None r) F) <= 1)%Q.
Proof. exact model_read_contribution_le_1. Qed.
Print Assumptions C02_model_read_contribution_le_1.

(* __ambiguous = reads stored for two or more models, __no_feature = reads stored for no model, __not_aligned contribution 0 *)
Theorem C02_model_stats_lines_count : forall cf complete st st', consistent st -> run cf (init_state complete) (forward_counts st) = Some st' ->
  n_amb st' = n_amb_spec st /\ n_noassign st' = n_nofeat_spec st /\ n_noalign st' = 0.
Proof. exact model_stats_lines_count. Qed.
Print Assumptions C02_model_stats_lines_count.

(* transcript_model_reads.tsv determines the table: the call sequence a reader reconstructs from its lines (per read id the list of its models, '*'
   lines as unassigned reads, every reported model confirmed - what the pipeline-level check does with counts_ok / stats_ok) gives the same cells and
   the same statistics as the calls forward_counts made *)
Theorem C02_model_reads_table_matches_counts : forall s lv st f gsel, consistent st ->
  (spec_cell s lv (events_from_r2t (r2t_lines st) (grp_of st) (m_models st)) f gsel == spec_cell s lv (forward_counts st) f gsel)%Q /\
  spec_ambiguous lv (events_from_r2t (r2t_lines st) (grp_of st) (m_models st)) = spec_ambiguous lv (forward_counts st) /\
  spec_no_feature (events_from_r2t (r2t_lines st) (grp_of st) (m_models st)) = spec_no_feature (forward_counts st).
Proof. exact model_reads_table_matches_counts. Qed.
Print Assumptions C02_model_reads_table_matches_counts.

(* grouped transcript-model table: every matrix cell is the weighted sum over the reads of that group, and the groups add up to the ungrouped cell *)
Theorem C02_model_matrix_is_weighted_sum : forall cf complete st st', consistent st -> enum_cfg cf ->
  run cf (init_state complete) (forward_counts st) = Some st' -> forallb (wf_event cf) (forward_counts st) = true ->
  forall f cells, In (f, cells) (dump_matrix cf st') -> Forall2 (fun g v => (v == model_cell (c_strategy cf) st f (Some g))%Q) (c_ordered cf) cells.
Proof. exact model_matrix_is_weighted_sum. Qed.
Print Assumptions C02_model_matrix_is_weighted_sum.
Theorem C02_model_groups_partition : forall s st f gs, consistent st -> NoDup gs -> (forall e, In e (flat (m_tri st)) -> In (e_g e) gs) ->
  (qsum' (map (fun g => model_cell s st f (Some g)) gs) == model_cell s st f None)%Q.
Proof. exact model_groups_partition. Qed.
Print Assumptions C02_model_groups_partition.

(* the hypothesis `consistent` is what carries the table: bookkeeping in which a read stored for two models has count 1 (what a single increment per read
   in assign_reads_to_models produces) makes forward_counts add 1 to BOTH models under unique_only, where the documented cell is 0 *)
Example C02_model_table_inconsistent_bookkeeping_refuted :
  let st := mkms [(1, [(7, 0)]); (2, [(7, 0)])] [(7, 1)] [1; 2] in
  let cf := mk_counter UniqueOnly TranscriptLevel 0 [] false (true, true) in
  forward_counts st = [ERaw true [1] 0; ERaw true [2] 0; EUnassigned 0; EConfirm [1; 2]] /\
  (model_cell UniqueOnly st 1 None == 0)%Q /\ (model_cell WithAmbiguous st 1 None == 1 # 2)%Q /\
  match run cf (init_state []) (forward_counts st) with
  | Some s1 => dump_ungrouped cf s1 = [(1, [1%Q]); (2, [1%Q])] /\ n_amb s1 = 0 | None => False end.
Proof. vm_compute. repeat split; reflexivity. Qed.
(* the clean statement "a read stored for ONE model counts 1 for it" needs the read to be stored once: a read id saved twice for the same model (two
   records of one read in the storage) is forwarded as ambiguous between the model and itself - 0 under unique_only, 2 x 1/2 under with_ambiguous *)
Example C02_model_read_stored_once_refuted :
  let ops := [OModel 1; OSave 7 0 1; OSave 7 0 1] in
  legalb ms_empty ops = true /\ forward_counts (process ops) = [ERaw true [1; 1] 0; EUnassigned 0; EConfirm [1]] /\
  r2t_lines (process ops) = [(7, Some 1); (7, Some 1)] /\
  (model_cell UniqueOnly (process ops) 1 None == 0)%Q /\ (model_cell WithAmbiguous (process ops) 1 None == 1)%Q.
Proof. vm_compute. repeat split; reflexivity. Qed.
(* non-vacuity: two models, three reads (one shared), a deletion between the rounds, re-assignment *)
Example C02_model_example_run :
  let ops := [OModel 1; OModel 2; OModel 3; OSave 5 0 3; OAssign [(5, 0, Some [1]); (6, 0, Some [1; 2]); (7, 0, Some [2]); (8, 0, None)];
              ODelete 3; OAssign [(5, 0, Some [1; 2]); (6, 0, Some [1]); (7, 0, Some [2]); (8, 0, Some [])]] in
  let cf := mk_counter WithAmbiguous TranscriptLevel 0 [] false (true, true) in
  legalb ms_empty ops = true /\
  forward_counts (process ops) = [ERaw true [2] 0; ERaw true [1; 2] 0; ERaw true [1; 2] 0; EUnassigned 1; EConfirm [1; 2]] /\
  match run cf (init_state []) (forward_counts (process ops)) with
  | Some s1 => map (fun r => (fst r, map Qred (snd r))) (dump_ungrouped cf s1) = [(1, [1%Q]); (2, [2%Q])] /\ stats_of s1 = (2, 1, 0, 4)
  | None => False end /\
  (Qred (model_cell WithAmbiguous (process ops) 2 None) = 2)%Q.
Proof. vm_compute. repeat split; reflexivity. Qed.
