(* C14 — corrected alignments are well-formed; junctions move only onto annotated ones.
   Property theorems only; models in Corrector.v, proofs in Corrector2.v and Exons.v.
   Model of: ExonCorrector.correct_assigned_read / process_events (src/exon_corrector.py), match_genomic_features
   (src/long_read_profiles.py), IlluminaExonCorrector.correct_exons (src/illumina_exon_corrector.py, with the repair of
   fixes/C14_illumina_read_span.diff; process_events with the repairs of fixes/C01_fuzzy_junction_keeps_exons.diff and
   fixes/C14_fake_terminal_exon_drops_restored_microintron.diff, the code before them as `_v unrepaired`), BEDPrinter.add_read_info (src/assignment_io.py), the preset table of
   set_splice_correction_options (isoquant.py). *)
From Coq Require Import ZArith List Bool.
From IQ Require Import CorrSupport Exons Corrector Corrector2.
From IQ.gen Require Import Tables.
Import ListNotations. Open Scope Z_scope.

(* ---- BED12 rows *)
(* well-formed exons => positive block sizes, first block at 0, ascending non-overlapping blocks, last block ends at chromEnd *)
Theorem C14_bed_row_valid : forall ex, sd ex -> ex <> [] ->
  Forall (fun z => 0 < z) (bed_sizes ex) /\ hd 0 (bed_starts ex) = 0 /\ ascending_blocks (bed_starts ex) (bed_sizes ex) /\
  last (bed_starts ex) 0 + last (bed_sizes ex) 0 = snd (last ex (0,0)) - fst (hd (0,0) ex) + 1.
Proof. exact bed_row_valid. Qed.
Print Assumptions C14_bed_row_valid.

(* the row BEDPrinter writes passes the decidable BED12 check the pipeline records are evaluated with (incl. blockCount, thick*, chromStart >= 0) *)
Theorem C14_bed_row_passes_bed_check : forall ex, sd ex -> ex <> [] -> 0 < fst (hd (0,0) ex) -> bed_valid_b (bed_row ex) = true.
Proof. exact bed_row_valid_b. Qed.
Print Assumptions C14_bed_row_passes_bed_check.

(* ---- corrected exons are well-formed *)
(* the exact hypothesis on what the event branches select: well-formed introns with non-decreasing starts, strictly inside the corrected region *)
Theorem C14_exons_from_selected_introns_wf : forall reg new, mono new ->
  Forall (fun x => fst reg < fst x /\ snd x < snd reg) new -> fst reg <= snd reg -> sd (build_exons reg new).
Proof. exact build_exons_sd. Qed.
Print Assumptions C14_exons_from_selected_introns_wf.

(* under the decidable predicate events_wf (validated on every real event list by the harness) the corrector returns, and returns
   well-formed, strictly increasing, disjoint exons — for every strategy, every oracle answer of get_error_count *)
Theorem C14_corrected_exons_wf : forall fl c ex, events_wf fl c = true -> correct_assigned_read fl c = Ok ex -> sd ex.
Proof. exact corrected_exons_wf. Qed.
Print Assumptions C14_corrected_exons_wf.

Theorem C14_events_wf_no_exception : forall fl c, events_wf fl c = true -> exists ex, correct_assigned_read fl c = Ok ex.
Proof. exact events_wf_returns. Qed.
Print Assumptions C14_events_wf_no_exception.

(* ---- the repaired fuzzy-junction choice (fixes/C01_fuzzy_junction_keeps_exons.diff) *)
(* for read introns that are well-formed, a base apart and strictly inside the read region, ANY potential introns and ANY answers of
   get_error_count: one corrected intron per (read intron, potential) pair, well-formed, a base apart (the exons between them are
   non-empty), strictly inside the read region, each ending before the next read intron *)
Theorem C14_fuzzy_wf : forall region reads pots orc, sdg_b reads = true -> forallb (inside region) reads = true ->
  let cs := fuzzy region None reads pots orc in
  length cs = Nat.min (length reads) (length pots) /\ sdg_b cs = true /\ forallb (inside region) cs = true /\
  (forall k c r', nth_error cs k = Some c -> nth_error reads (Datatypes.S k) = Some r' -> snd c + 1 < fst r').
Proof. exact fuzzy_wf. Qed.
Print Assumptions C14_fuzzy_wf.

(* with the repaired choice events_wf is a theorem whenever no event carries a read region (the event map is empty): no hypothesis on
   the annotation, delta, the isoform or get_error_count *)
Theorem C14_events_wf_no_events : forall vr fl c, v_fuzzy vr = true -> sdg_b (c_exons c) = true -> c_exons c <> [] ->
  Forall (fun e => e_read e = (undefined_position, undefined_position)) (c_events c) -> events_wf_v vr fl c = true.
Proof. exact events_wf_no_events. Qed.
Print Assumptions C14_events_wf_no_events.

Theorem C14_corrected_exons_wf_no_events : forall vr fl c, v_fuzzy vr = true -> sdg_b (c_exons c) = true -> c_exons c <> [] ->
  Forall (fun e => e_read e = (undefined_position, undefined_position)) (c_events c) ->
  exists ex, correct_assigned_read_v vr fl c = Ok ex /\ sd ex.
Proof. exact corrected_exons_wf_no_events. Qed.
Print Assumptions C14_corrected_exons_wf_no_events.

(* ---- ends *)
Theorem C14_ends_preserved_unless_terminal_flag : forall fl c ex, regions_ordered (c_events c) = true -> c_exons c <> [] ->
  correct_assigned_read fl c = Ok ex -> ends_ok fl c ex = true.
Proof. exact ends_preserved_unless_terminal_flag. Qed.
Print Assumptions C14_ends_preserved_unless_terminal_flag.

(* ---- origin of splice sites *)
Theorem C14_sites_from_allowed_sources : forall fl c ex, regions_ordered (c_events c) = true ->
  correct_assigned_read fl c = Ok ex -> sites_ok fl c ex = true.
Proof. exact sites_from_allowed_sources. Qed.
Print Assumptions C14_sites_from_allowed_sources.

(* what match_genomic_features may return for a read intron: the intron itself or an annotated intron within delta of it *)
Theorem C14_potential_introns_within_delta : forall delta known reads,
  Forall2 (fun r k => k = r \/ (In k known /\ Prims.py_equal_ranges r k delta = true)) reads (match_genomic_features delta known reads).
Proof. exact potentials_spec. Qed.
Print Assumptions C14_potential_introns_within_delta.

(* ---- strategy none *)
Theorem C14_strategy_none_identity : forall c ex, sdg_b (c_exons c) = true -> c_exons c <> [] -> regions_ordered (c_events c) = true ->
  correct_assigned_read (strategy_flags St_none) c = Ok ex -> ex = c_exons c.
Proof. exact strategy_none_identity. Qed.
Print Assumptions C14_strategy_none_identity.

(* ---- short-read based correction *)
(* repaired code: for every set of short-read introns the corrected exons are well-formed and the read keeps its ends *)
Theorem C14_illumina_exons_wf : forall short exons, sd exons -> exons <> [] ->
  sd (illumina_correct_exons short exons) /\ illumina_correct_exons short exons <> [] /\
  hull (illumina_correct_exons short exons) = hull exons.
Proof. exact illumina_exons_wf. Qed.
Print Assumptions C14_illumina_exons_wf.

(* code before the repair, from get_exons_wf: needs the hypothesis that the selected introns are start-ordered and inside the read *)
Theorem C14_illumina_unrepaired_wf_partial : forall short exons, illumina_wf short exons = true ->
  sd (illumina_correct_exons_unrepaired short exons) /\ illumina_correct_exons_unrepaired short exons <> [] /\
  hull (illumina_correct_exons_unrepaired short exons) = hull exons.
Proof. exact illumina_unrepaired_wf. Qed.
Print Assumptions C14_illumina_unrepaired_wf_partial.

(* the repair only ever drops corrections that violate that hypothesis *)
Theorem C14_illumina_repair_conservative : forall short exons, illumina_wf short exons = true ->
  illumina_correct_exons short exons = illumina_correct_exons_unrepaired short exons.
Proof. exact illumina_repair_conservative. Qed.
Print Assumptions C14_illumina_repair_conservative.

(* ---- witnesses *)
(* the unrepaired short-read corrector moves the read start without any terminal-exon event, and can return no exon at all *)
Example C14_illumina_unrepaired_refuted :
  illumina_correct_exons_unrepaired [(90,120);(130,199)] [(100,110);(200,300)] = [(121,129);(200,300)] /\
  illumina_correct_exons_unrepaired [(90,120);(121,215)] [(100,110);(200,210)] = [] /\
  illumina_correct_exons [(90,120);(130,199)] [(100,110);(200,300)] = [(100,110);(200,300)].
Proof. vm_compute. repeat split. Qed.

(* events_wf cannot be dropped: a fake_terminal_exon_right event on the first intron makes the faithful model (and the code,
   before and after the repairs) emit an inverted exon *)
Definition bad_input_right := mkcin [(100,200);(300,400);(500,600)] false true [mkev MES_fake_terminal_exon_right (1073741823,1073741823) (0,0)]
                              [] (100,600) [(201,299);(401,499)] [] 6.
Example C14_corrected_exons_wf_without_hypothesis_refuted :
  events_wf (strategy_flags St_all) bad_input_right = false /\
  correct_assigned_read (strategy_flags St_all) bad_input_right = Ok [(100,400);(500,200)] /\
  correct_assigned_read_unrepaired (strategy_flags St_all) bad_input_right = Ok [(100,400);(500,200)].
Proof. vm_compute. repeat split; reflexivity. Qed.
(* the mirror image, a fake_terminal_exon_left event on the second intron: the code before
   fixes/C14_fake_terminal_exon_drops_restored_microintron.diff keeps the intron appended before the event and emits an inverted exon;
   the repaired code discards it with the fake exon *)
Definition bad_input := mkcin [(100,200);(300,400);(500,600)] false true [mkev MES_fake_terminal_exon_left (1073741823,1073741823) (1,1)]
                              [] (100,600) [(201,299);(401,499)] [] 6.
Example C14_fake_terminal_left_second_intron :
  events_wf_v unrepaired (strategy_flags St_all) bad_input = false /\
  correct_assigned_read_unrepaired (strategy_flags St_all) bad_input = Ok [(500,200);(300,600)] /\
  events_wf (strategy_flags St_all) bad_input = true /\
  correct_assigned_read (strategy_flags St_all) bad_input = Ok [(500,600)].
Proof. vm_compute. repeat split; reflexivity. Qed.

(* ---- the two defects of process_events: the code before the repairs refuted, the repaired code on the same inputs *)
(* fixes/C01_fuzzy_junction_keeps_exons.diff. The annotated intron (1101,1305) within delta of the read intron (1101,1299) ends beyond
   the read's last exon (1300,1304); one indel next to the right site makes the code take the reference end: inverted last exon.
   No event carries a read region, so events_wf_no_events applies to the repaired code. *)
Example C14_fuzzy_junction_unrepaired_refuted :
  correct_assigned_read_unrepaired (strategy_flags St_default_ont) fuzzy_end_input = Ok [(1000,1100);(1306,1304)] /\
  events_wf_v unrepaired (strategy_flags St_default_ont) fuzzy_end_input = false /\
  correct_assigned_read (strategy_flags St_default_ont) fuzzy_end_input = Ok [(1000,1100);(1300,1304)].
Proof. exact events_wf_no_events_unrepaired_refuted. Qed.
Example C14_fuzzy_unrepaired_inverted_refuted :
  fuzzy_unrepaired [(1101,1299)] [(1101,1305)] [((0,0),(1,0))] = [(1101,1305)] /\
  fuzzy (1000,1304) None [(1101,1299)] [(1101,1305)] [((0,0),(1,0))] = [(1101,1299)].
Proof. exact fuzzy_unrepaired_inverted_refuted. Qed.

(* the read intron (2370,2374) is matched to the short annotated intron (2376,2380); an indel next to its left site makes the code
   take the reference start 2376 but keep the read's end 2374: the intron is inverted and the two exons around it overlap in base 2375 *)
Definition short_intron_input := mkcin [(1301,1650);(1853,1871);(1883,1888);(2134,2369);(2375,2469);(4434,4489)] false true
  [mkev MES_fsm (undefined_position,undefined_position) (undefined_position,undefined_position)]
  [(1651,1852);(1872,1882);(1889,2133);(2376,2380);(2376,4433);(2470,4433)] (1301,4489)
  [(1651,1852);(1872,1882);(1889,2133);(2376,2380);(2376,4433);(2470,4433)]
  [((0,0),(0,0));((0,0),(0,0));((0,0),(0,0));((1,0),(0,0));((0,0),(0,0))] 6.
Example C14_short_intron_unrepaired_refuted :
  correct_assigned_read_unrepaired (strategy_flags St_default_pacbio) short_intron_input =
    Ok [(1301,1650);(1853,1871);(1883,1888);(2134,2375);(2375,2469);(4434,4489)] /\
  events_wf_v unrepaired (strategy_flags St_default_pacbio) short_intron_input = false /\
  correct_assigned_read (strategy_flags St_default_pacbio) short_intron_input =
    Ok [(1301,1650);(1853,1871);(1883,1888);(2134,2369);(2375,2469);(4434,4489)] /\
  correct_assigned_read (strategy_flags St_default_pacbio) short_intron_input = Ok (c_exons short_intron_input).
Proof. vm_compute. repeat split; reflexivity. Qed.

(* fixes/C14_fake_terminal_exon_drops_restored_microintron.diff. A retained micro-intron (110,120) of the isoform lies inside the
   fake first exon (100,130): the code restores it and then skips the exon, so the new start 301 lies after the restored intron *)
Definition fake_micro_input := mkcin [(100,130);(301,400)] false true
  [mkev MES_fake_micro_intron_retention (0,0) (absent_position,0); mkev MES_fake_terminal_exon_left (1073741823,1073741823) (0,0)]
  [(110,120)] (50,600) [(110,120)] [((0,0),(0,0))] 6.
Example C14_fake_terminal_microintron_unrepaired_refuted :
  regions_ordered (c_events fake_micro_input) = true /\
  correct_assigned_read_unrepaired (strategy_flags St_default_ont) fake_micro_input = Ok [(301,109);(121,400)] /\
  events_wf_v unrepaired (strategy_flags St_default_ont) fake_micro_input = false /\
  correct_assigned_read (strategy_flags St_default_ont) fake_micro_input = Ok [(301,400)] /\
  events_wf (strategy_flags St_default_ont) fake_micro_input = true.
Proof. vm_compute. repeat split; reflexivity. Qed.

(* the hypotheses are satisfiable on a non-trivial input (a read of the bundled data set: retained micro intron restored, default_ont) *)
Definition bundled_read := mkcin [(3000923,3001444);(3001972,3002096)] false true
  [mkev MES_fake_micro_intron_retention (0,0) (2147483647,0); mkev MES_alt_right_site_novel (1,1) (0,0);
   mkev MES_terminal_site_match_left_precise (2147483648,2147483648) (2147483648,2147483648)]
  [(3000958,3000961);(3001445,3002049);(3002057,3002205)] (3000922,3002330) [(3000958,3000961);(3001445,3002049);(3002057,3002205)] [((0,0),(0,0))] 6.
Example C14_hypotheses_satisfiable :
  events_wf (strategy_flags St_default_ont) bundled_read = true /\ regions_ordered (c_events bundled_read) = true /\
  correct_assigned_read (strategy_flags St_default_ont) bundled_read = Ok [(3000923,3000957);(3000962,3001444);(3001972,3002096)] /\
  correct_assigned_read (strategy_flags St_none) bundled_read = Ok (c_exons bundled_read).
Proof. vm_compute. repeat split. Qed.

(* intron_shift correction is off in every preset but `all`; fake terminal exons are only removed by default_ont and all *)
Example C14_preset_facts :
  map (fun s => f_shifts (strategy_flags s)) all_strategies = [false; false; false; false; true; false] /\
  map (fun s => f_fake_terminal (strategy_flags s)) all_strategies = [false; false; false; true; true; false].
Proof. vm_compute. split; reflexivity. Qed.
