(* C19 — interval and profile primitives return exactly the set-theoretic result.  Property theorems only. *)
From Coq Require Import ZArith List Bool.
From IQ.gen Require Import Prims.
From IQ Require Import PrimsSpec.
Import ListNotations. Open Scope Z_scope.

(* translated predicates (re-proved against the regenerated text of src/common.py on every run) *)
Theorem C19_overlaps_iff_common_point : forall a b, fst a <= snd a -> fst b <= snd b ->
  (py_overlaps a b = true <-> exists p, fst a <= p <= snd a /\ fst b <= p <= snd b).
Proof. exact overlaps_iff_common_point. Qed.
Print Assumptions C19_overlaps_iff_common_point.
Theorem C19_contains_iff_subset : forall a b, fst b <= snd b ->
  (py_contains a b = true <-> forall p, fst b <= p <= snd b -> fst a <= p <= snd a).
Proof. exact contains_iff_subset. Qed.
Print Assumptions C19_contains_iff_subset.
Theorem C19_intersection_len_spec : forall a b, py_intersection_len a b = Z.max 0 (Z.min (snd a) (snd b) - Z.max (fst a) (fst b) + 1).
Proof. exact intersection_len_spec. Qed.
Print Assumptions C19_intersection_len_spec.
Theorem C19_equal_ranges_iff : forall a b d, py_equal_ranges a b d = true <-> Z.abs (fst a - fst b) <= d /\ Z.abs (snd a - snd b) <= d.
Proof. exact equal_ranges_iff. Qed.
Print Assumptions C19_equal_ranges_iff.

From IQ Require Import CorrSupport Intervals IntervalsSpec IntervalsProofs Profile.

(* read_coverage_fraction: for strictly separated lists the numerator is the total pairwise intersection, the denominator |read| *)
Theorem C19_coverage_fraction_spec : forall R I, sd R -> sd I -> R <> [] -> coverage_fraction R I = Ok (pairs R I, total R).
Proof. exact coverage_fraction_spec. Qed.
Print Assumptions C19_coverage_fraction_spec.

(* jaccard_similarity: (intersection, union) = (sum of pairwise intersections, |A| + |B| - intersection); neither assert can fire *)
Theorem C19_jaccard_spec : forall A B, sd A -> sd B -> (A <> [] \/ B <> []) ->
  jaccard A B = Ok (pairs A B, total A + total B - pairs A B) /\ 0 < total A + total B - pairs A B.
Proof. exact jaccard_spec. Qed.
Print Assumptions C19_jaccard_spec.

(* sum_intervals_to_point = number of covered positions strictly below the point *)
Theorem C19_sum_to_point_spec : forall l pos, sd l -> l <> [] -> sum_to_point l pos = Ok (below l pos).
Proof. exact sum_to_point_spec. Qed.
Print Assumptions C19_sum_to_point_spec.

(* exons built from any well-formed start-ordered intron list are well-formed, increasing and disjoint (reused by C03/C14) *)
Theorem C19_get_exons_wf : forall r introns, mono introns ->
  Forall (fun i => fst r - 1 <= fst i /\ fst i <= snd r + 1) introns -> fst r <= snd r + 2 -> sd (get_exons r introns).
Proof. exact get_exons_wf. Qed.
Print Assumptions C19_get_exons_wf.

(* junction/exon conversion round-trips for blocks separated by at least one base *)
Theorem C19_junctions_exons_roundtrip : forall blocks a, gappedP (a::blocks) ->
  get_exons (fst a, snd (last (a::blocks) a)) (jfb (a::blocks)) = a :: blocks.
Proof. exact junctions_exons_roundtrip. Qed.
Print Assumptions C19_junctions_exons_roundtrip.

(* binary searches, partial correctness: an index returned by the loop is the unique interval position of the coordinate *)
Theorem C19_bin_search_sound : forall fuel l pos ind step i, bs_loop fuel l pos ind step = Some i -> 0 <= i ->
  i + 1 < Z.of_nat (length l) /\ fst (nthz l i (0,0)) <= pos < fst (nthz l (i + 1) (0,0)).
Proof. exact bs_loop_sound. Qed.
Print Assumptions C19_bin_search_sound.
Theorem C19_bin_search_rev_sound : forall fuel l pos ind step i, bsr_loop fuel l pos ind step = Some i -> 1 <= i ->
  i < Z.of_nat (length l) /\ snd (nthz l (i - 1) (0,0)) < pos <= snd (nthz l i (0,0)).
Proof. exact bsr_loop_sound. Qed.
Print Assumptions C19_bin_search_rev_sound.

(* gene-side profile sweep = declarative characterisation (a known feature is compared with the first read feature reaching it) *)
Theorem C19_gene_profile_char : forall delta init K R rpos0, starts_sorted K -> gp delta init K R rpos0 = map (fun k => value delta init k R rpos0) K.
Proof. exact gp_char. Qed.
Print Assumptions C19_gene_profile_char.

(* the stated corners, as witnesses on the executable models *)
Example C19_profile_shadowed_match_refuted :
  overlapping_profile (fun r k => py_equal_ranges r k 2) (fun reg f => py_contains reg f) 2 [(3,9)] (3,9) [(1,3);(5,9)] (1,9) (-1) (-1)
  = Some ([-1], [0; -1], (0, 1)).
Proof. vm_compute. reflexivity. Qed.
Example C19_jaccard_example : jaccard [(1,4);(8,9)] [(3,8)] = Ok (3, 9).
Proof. vm_compute. reflexivity. Qed.
Example C19_truncate_outside_guard_refuted : truncate_to_polya [(3,3);(4,5);(6,6)] 4 2 = Ok [(2,4)].
Proof. vm_compute. reflexivity. Qed.
