(* C19 — interval and profile primitives return exactly the set-theoretic result.  Property theorems only. *)
From Coq Require Import ZArith List Bool.
From IQ.gen Require Import Prims.
From IQ Require Import PrimsSpec.
Import ListNotations. Open Scope Z_scope.

(* translated predicates (re-proved against the regenerated text of src/common.py on every run) *)
Theorem C19_overlaps_iff_common_point : forall a b, fst a <= snd a -> fst b <= snd b ->
  (py_overlaps a b = true <-> exists p, fst a <= p <= snd a /\ fst b <= p <= snd b).
Proof. exact overlaps_iff_common_point. Qed.
Print Assumptions C19_overlaps_iff_common_point.
Theorem C19_contains_iff_subset : forall a b, fst b <= snd b ->
  (py_contains a b = true <-> forall p, fst b <= p <= snd b -> fst a <= p <= snd a).
Proof. exact contains_iff_subset. Qed.
Print Assumptions C19_contains_iff_subset.
Theorem C19_intersection_len_spec : forall a b, py_intersection_len a b = Z.max 0 (Z.min (snd a) (snd b) - Z.max (fst a) (fst b) + 1).
Proof. exact intersection_len_spec. Qed.
Print Assumptions C19_intersection_len_spec.
Theorem C19_equal_ranges_iff : forall a b d, py_equal_ranges a b d = true <-> Z.abs (fst a - fst b) <= d /\ Z.abs (snd a - snd b) <= d.
Proof. exact equal_ranges_iff. Qed.
Print Assumptions C19_equal_ranges_iff.
