(* C19 — interval and profile primitives return exactly the set-theoretic result.  Property theorems only. *)
From Coq Require Import ZArith List Bool.
From IQ.gen Require Import Prims.
From IQ Require Import PrimsSpec.
Import ListNotations. Open Scope Z_scope.

(* translated predicates (re-proved against the regenerated text of src/common.py on every run) *)
Theorem C19_overlaps_iff_common_point : forall a b, fst a <= snd a -> fst b <= snd b ->
  (py_overlaps a b = true <-> exists p, fst a <= p <= snd a /\ fst b <= p <= snd b).
Proof. exact overlaps_iff_common_point. Qed.
Print Assumptions C19_overlaps_iff_common_point.
Theorem C19_contains_iff_subset : forall a b, fst b <= snd b ->
  (py_contains a b = true <-> forall p, fst b <= p <= snd b -> fst a <= p <= snd a).
Proof. exact contains_iff_subset. Qed.
Print Assumptions C19_contains_iff_subset.
Theorem C19_intersection_len_spec : forall a b, py_intersection_len a b = Z.max 0 (Z.min (snd a) (snd b) - Z.max (fst a) (fst b) + 1).
Proof. exact intersection_len_spec. Qed.
Print Assumptions C19_intersection_len_spec.
Theorem C19_equal_ranges_iff : forall a b d, py_equal_ranges a b d = true <-> Z.abs (fst a - fst b) <= d /\ Z.abs (snd a - snd b) <= d.
Proof. exact equal_ranges_iff. Qed.
Print Assumptions C19_equal_ranges_iff.

From IQ Require Import CorrSupport Intervals IntervalsSpec IntervalsProofs Profile.

(* read_coverage_fraction: for strictly separated lists the numerator is the total pairwise intersection, the denominator |read| *)
Theorem C19_coverage_fraction_spec : forall R I, sd R -> sd I -> R <> [] -> coverage_fraction R I = Ok (pairs R I, total R).
Proof. exact coverage_fraction_spec. Qed.
Print Assumptions C19_coverage_fraction_spec.

(* jaccard_similarity: (intersection, union) = (sum of pairwise intersections, |A| + |B| - intersection); neither assert can fire *)
Theorem C19_jaccard_spec : forall A B, sd A -> sd B -> (A <> [] \/ B <> []) ->
  jaccard A B = Ok (pairs A B, total A + total B - pairs A B) /\ 0 < total A + total B - pairs A B.
Proof. exact jaccard_spec. Qed.
Print Assumptions C19_jaccard_spec.

(* sum_intervals_to_point = number of covered positions strictly below the point *)
Theorem C19_sum_to_point_spec : forall l pos, sd l -> l <> [] -> sum_to_point l pos = Ok (below l pos).
Proof. exact sum_to_point_spec. Qed.
Print Assumptions C19_sum_to_point_spec.

(* exons built from any well-formed start-ordered intron list are well-formed, increasing and disjoint (reused by C03/C14) *)
Theorem C19_get_exons_wf : forall r introns, mono introns ->
  Forall (fun i => fst r - 1 <= fst i /\ fst i <= snd r + 1) introns -> fst r <= snd r + 2 -> sd (get_exons r introns).
Proof. exact get_exons_wf. Qed.
Print Assumptions C19_get_exons_wf.

(* junction/exon conversion round-trips for blocks separated by at least one base *)
Theorem C19_junctions_exons_roundtrip : forall blocks a, gappedP (a::blocks) ->
  get_exons (fst a, snd (last (a::blocks) a)) (jfb (a::blocks)) = a :: blocks.
Proof. exact junctions_exons_roundtrip. Qed.
Print Assumptions C19_junctions_exons_roundtrip.

(* binary searches, partial correctness: an index returned by the loop is the unique interval position of the coordinate *)
Theorem C19_bin_search_sound : forall fuel l pos ind step i, bs_loop fuel l pos ind step = Some i -> 0 <= i ->
  i + 1 < Z.of_nat (length l) /\ fst (nthz l i (0,0)) <= pos < fst (nthz l (i + 1) (0,0)).
Proof. exact bs_loop_sound. Qed.
Print Assumptions C19_bin_search_sound.
Theorem C19_bin_search_rev_sound : forall fuel l pos ind step i, bsr_loop fuel l pos ind step = Some i -> 1 <= i ->
  i < Z.of_nat (length l) /\ snd (nthz l (i - 1) (0,0)) < pos <= snd (nthz l i (0,0)).
Proof. exact bsr_loop_sound. Qed.
Print Assumptions C19_bin_search_rev_sound.

(* gene-side profile sweep = declarative characterisation (a known feature is compared with the first read feature reaching it) *)
Theorem C19_gene_profile_char : forall delta init K R rpos0, starts_sorted K -> gp delta init K R rpos0 = map (fun k => value delta init k R rpos0) K.
Proof. exact gp_char. Qed.
Print Assumptions C19_gene_profile_char.

(* the stated corners, as witnesses on the executable models *)
Example C19_profile_shadowed_match_refuted :
  overlapping_profile (fun r k => py_equal_ranges r k 2) (fun reg f => py_contains reg f) 2 [(3,9)] (3,9) [(1,3);(5,9)] (1,9) (-1) (-1)
  = Some ([-1], [0; -1], (0, 1)).
Proof. vm_compute. reflexivity. Qed.
Example C19_jaccard_example : jaccard [(1,4);(8,9)] [(3,8)] = Ok (3, 9).
Proof. vm_compute. reflexivity. Qed.
Example C19_truncate_outside_guard_refuted : truncate_to_polya [(3,3);(4,5);(6,6)] 4 2 = Ok [(2,4)].
Proof. vm_compute. reflexivity. Qed.

(* ================= round 3: the sweeps, the segmentation and the isoform profiles, for ALL inputs ================= *)
From IQ Require Import IntervalsProofs2 SplitProofs ProfileProofs.

(* merge_ranges: for strictly increasing disjoint lists the result is the union as a strictly increasing disjoint list; no assert fires *)
Theorem C19_merge_ranges_union : forall A B, sd A -> sd B -> (A <> [] \/ B <> []) ->
  exists l, merge_ranges A B = Ok l /\ sd l /\ forall p, cover l p = true <-> cover A p = true \/ cover B p = true.
Proof. exact merge_ranges_union. Qed.
Print Assumptions C19_merge_ranges_union.
(* the cover equation needs only well-formed intervals in start order (overlaps inside one list allowed) — the weakest hypothesis found:
   without start order it is refuted below *)
Theorem C19_merge_ranges_cover : forall A B, mono A -> mono B -> (A <> [] \/ B <> []) ->
  exists l, merge_ranges A B = Ok l /\ forall p, cover l p = cover A p || cover B p.
Proof. exact merge_ranges_cover. Qed.
Print Assumptions C19_merge_ranges_cover.
Theorem C19_merge_ranges_sorted_disjoint : forall A B l, sd A -> sd B -> merge_ranges A B = Ok l -> sd l.
Proof. exact merge_ranges_sd. Qed.
Print Assumptions C19_merge_ranges_sorted_disjoint.
(* `assert included2[pos2] == 0 or included1[pos1] == 0` is unreachable for EVERY pair of lists; `assert len(union) != 0` fires only on ([], []) *)
Theorem C19_merge_ranges_first_assert_unreachable : forall A B, mr_f (Datatypes.S (length A + length B)) A B false false [] <> None.
Proof. exact merge_ranges_first_assert_unreachable. Qed.
Print Assumptions C19_merge_ranges_first_assert_unreachable.
Example C19_merge_ranges_example : sd [(1,4);(8,9);(20,30)] /\ sd [(3,8);(12,13)] /\
  merge_ranges [(1,4);(8,9);(20,30)] [(3,8);(12,13)] = Ok [(1,9);(12,13);(20,30)].
Proof. vm_compute. repeat split; discriminate. Qed.
Example C19_merge_ranges_empty_refuted : merge_ranges [] [] = Raises AssertionError.
Proof. reflexivity. Qed.
Example C19_merge_ranges_unsorted_refuted :
  merge_ranges [(5,8)] [(6,6);(3,5)] = Ok [(5,8)] /\ cover [(6,6);(3,5)] 3 = true /\ cover [(5,8)] 3 = false.
Proof. exact merge_ranges_unsorted_refuted. Qed.

(* split_exons (repaired code): for every list of well-formed exons with non-negative coordinates (any order, duplicates allowed) the
   blocks are non-empty, strictly increasing and disjoint, cover exactly the union, and each lies inside or apart from every exon *)
Theorem C19_split_exons_partition : forall exons, Forall (fun x => 0 <= fst x <= snd x) exons ->
  exists blocks, split_exons exons = Some blocks /\ sd blocks /\ (forall p, cover blocks p = cover exons p) /\
    (forall b x, In b blocks -> In x exons -> py_contains x b = true \/ py_overlaps x b = false).
Proof. exact split_exons_partition. Qed.
Print Assumptions C19_split_exons_partition.
Example C19_split_exons_example : Forall (fun x => 0 <= fst x <= snd x) [(1,5);(3,8);(10,12);(6,8)] /\
  split_exons [(1,5);(3,8);(10,12);(6,8)] = Some [(1,2);(3,5);(6,8);(10,12)].
Proof. split; [repeat constructor; cbn; discriminate|vm_compute; reflexivity]. Qed.
(* the code's "-1 = no border yet" needs non-negative coordinates; an inverted exon exhausts the ends (IndexError) *)
Example C19_split_exons_negative_refuted : split_exons [(-1,5);(2,5)] = Some [(2,5)] /\ cover [(-1,5);(2,5)] 0 = true /\ cover [(2,5)] 0 = false.
Proof. exact split_exons_negative_refuted. Qed.
Example C19_split_exons_inverted_refuted : split_exons [(3,1)] = None.
Proof. exact split_exons_inverted_refuted. Qed.

(* set_profiles: the pointer walk marks exactly the matched features whenever the known features split, for each transcript feature in
   turn, into skipped | matched run | rest (`aligned`); value 1 iff matched, else -1 / -2 by overlap with the transcript span *)
Theorem C19_isoform_profile_aligned : forall cmp K F region, aligned cmp F K ->
  isoform_profile cmp K F region = map (fun k => if existsb (fun f => cmp f k) F then 1 else if py_overlaps k region then -1 else -2) K.
Proof. exact isoform_profile_aligned. Qed.
Print Assumptions C19_isoform_profile_aligned.
Theorem C19_isoform_profile_spec : forall cmp K F region, aligned cmp F K -> spec_isoform_profile cmp K F region (isoform_profile cmp K F region) = true.
Proof. exact isoform_profile_spec. Qed.
Print Assumptions C19_isoform_profile_spec.
(* equality comparator (intron and exon profiles): duplicate-free known features, the transcript's features a sub-sequence of them *)
Theorem C19_isoform_profile_eq_spec : forall K F region, NoDup K -> subseq F K ->
  length (isoform_profile (fun f k => py_equal_ranges f k 0) K F region) = length K /\
  forall j k, nth_error K j = Some k ->
    exists v, nth_error (isoform_profile (fun f k => py_equal_ranges f k 0) K F region) j = Some v /\
      (v = 1 <-> In k F) /\ (v = -2 <-> ~ In k F /\ py_overlaps k region = false) /\ (v = -1 <-> ~ In k F /\ py_overlaps k region = true).
Proof. exact isoform_profile_eq_spec. Qed.
Print Assumptions C19_isoform_profile_eq_spec.
(* `contains` on split exons: disjoint sorted blocks, disjoint sorted transcript exons, each containing at least one block *)
Theorem C19_isoform_profile_contains_spec : forall K F region, sd K -> sd F -> (forall f, In f F -> exists k, In k K /\ py_contains f k = true) ->
  isoform_profile py_contains K F region =
  map (fun k => if existsb (fun f => py_contains f k) F then 1 else if py_overlaps k region then -1 else -2) K.
Proof. exact isoform_profile_contains_spec. Qed.
Print Assumptions C19_isoform_profile_contains_spec.
(* ... and that hypothesis is discharged by the partition theorem when the blocks are split_exons of the gene's exons *)
Theorem C19_split_exon_profile_spec : forall exons blocks F region, Forall (fun x => 0 <= fst x <= snd x) exons ->
  split_exons exons = Some blocks -> sd F -> (forall f, In f F -> In f exons) ->
  isoform_profile py_contains blocks F region =
  map (fun k => if existsb (fun f => py_contains f k) F then 1 else if py_overlaps k region then -1 else -2) blocks.
Proof. exact split_exon_profile_spec. Qed.
Print Assumptions C19_split_exon_profile_spec.
Example C19_isoform_profile_eq_example : NoDup [(1,2);(3,4);(3,6);(8,9);(11,12)] /\ subseq [(3,4);(8,9)] [(1,2);(3,4);(3,6);(8,9);(11,12)] /\
  isoform_profile (fun f k => py_equal_ranges f k 0) [(1,2);(3,4);(3,6);(8,9);(11,12)] [(3,4);(8,9)] (3,9) = [-2; 1; -1; 1; -2].
Proof. split; [repeat (constructor; [cbn; intuition congruence|]); constructor|]. split; [apply ss_skip, ss_take, ss_skip, ss_take, ss_nil|vm_compute; reflexivity]. Qed.
Example C19_isoform_profile_contains_example :
  isoform_profile py_contains [(1,2);(3,5);(6,8);(10,12)] [(3,8);(10,12)] (3,12) = [-2; 1; 1; 1].
Proof. vm_compute. reflexivity. Qed.
(* a transcript feature missing from the known features makes the walk run off the end: the later feature (5,6) is not marked *)
Example C19_isoform_profile_missing_feature_refuted :
  isoform_profile (fun f k => py_equal_ranges f k 0) [(1,2);(5,6)] [(3,4);(5,6)] (3,6) = [-2; -1].
Proof. vm_compute. reflexivity. Qed.

(* non-overlapping (split-exon) read-profile constructor: the sweep equals the declarative characterisation of DESIGN Appendix B,
   for all strictly increasing disjoint exon lists (no bound, no further hypothesis) *)
From IQ Require Import NosProofs BinSearchProofs.
Theorem C19_nos_char : forall cmp K R, sd K -> sd R ->
  nos cmp (Datatypes.S (length K + length R)) K (map (fun _ => 0) K) 0 R (map (fun _ => 0) R) 0 [] [] =
  Some (map (gval cmp false R 0) K, map (rval cmp false K 0) R).
Proof. exact nos_char. Qed.
Print Assumptions C19_nos_char.
(* gene exon k is 1 iff some read exon overlapping it satisfies the comparator *)
Theorem C19_nos_gene_present_iff : forall cmp R k, gval cmp false R 0 k = 1 <-> exists r, In r R /\ py_overlaps r k = true /\ cmp r k = true.
Proof. exact gval_1_iff. Qed.
Print Assumptions C19_nos_gene_present_iff.
(* ... -1 iff it is not hit, no overlapping read exon reaches its end, and its end lies between two read exons; otherwise 0 *)
Theorem C19_nos_gene_absent_iff : forall cmp R k, gval cmp false R 0 k = -1 <->
  (forall r, In r R -> py_overlaps r k = true -> cmp r k = false) /\ (forall r, In r R -> py_overlaps r k = true -> snd r < snd k) /\
  (exists r, In r R /\ snd k < fst r) /\ (exists r, In r R /\ fst r <= snd k).
Proof. exact gval_m1_iff. Qed.
Print Assumptions C19_nos_gene_absent_iff.
Theorem C19_nos_gene_values : forall cmp R k, gval cmp false R 0 k = 1 \/ gval cmp false R 0 k = -1 \/ gval cmp false R 0 k = 0.
Proof. exact gval_range. Qed.
Print Assumptions C19_nos_gene_values.
(* read side, with the strict tie rule *)
Theorem C19_nos_read_present_iff : forall cmp K r, rval cmp false K 0 r = 1 <-> exists k, In k K /\ py_overlaps k r = true /\ cmp r k = true.
Proof. exact rval_1_iff. Qed.
Print Assumptions C19_nos_read_present_iff.
Theorem C19_nos_read_absent_iff : forall cmp K r, rval cmp false K 0 r = -1 <->
  (forall k, In k K -> py_overlaps k r = true -> cmp r k = false) /\ (forall k, In k K -> py_overlaps k r = true -> snd k <= snd r) /\
  (exists k, In k K /\ snd r < fst k) /\ (exists k, In k K /\ fst k <= snd r).
Proof. exact rval_m1_iff. Qed.
Print Assumptions C19_nos_read_absent_iff.
(* the whole constructor = that sweep, then -2 right of bin_search(K, polyA + delta) and left of bin_search_rev(K, polyT - delta); it never raises
   on a non-empty exon list *)
Theorem C19_nonoverlapping_profile_total : forall cmp delta K R polya polyt, sd K -> sd R -> K <> [] ->
  exists res, nonoverlapping_profile cmp delta K R polya polyt = Ok res.
Proof. exact nonoverlapping_profile_total. Qed.
Print Assumptions C19_nonoverlapping_profile_total.
Example C19_nos_example : sd [(1,4);(6,9);(12,15)] /\ sd [(3,7);(20,22)] /\
  nonoverlapping_profile (fun r k => py_overlaps_at_least_when_overlap r k 2) 0 [(1,4);(6,9);(12,15)] [(3,7);(20,22)] (-1) (-1)
  = Ok ([1; 1; -1], [1; 0], (0, 3)).
Proof. vm_compute. repeat split; discriminate. Qed.

(* binary searches: the fuel of the model always suffices and every index read lies inside the list (termination of the halving-step loops),
   and the result is the specified index — needs only non-decreasing starts (resp. ends) *)
Theorem C19_bin_search_total : forall l pos, smono l -> l <> [] ->
  exists i, bin_search l pos = Ok (Some i) /\
    let n := Z.of_nat (length l) in
    if (pos <? fst (nthz l 0 (0,0))) || (pos >? snd (nthz l (n - 1) (0,0))) then i = -1
    else 0 <= i < n /\ fst (nthz l i (0,0)) <= pos /\ (i = n - 1 \/ pos < fst (nthz l (i + 1) (0,0))).
Proof. exact bin_search_total_mono. Qed.
Print Assumptions C19_bin_search_total.
Theorem C19_bin_search_rev_total : forall l pos, emono l -> l <> [] ->
  exists i, bin_search_rev l pos = Ok (Some i) /\
    let n := Z.of_nat (length l) in
    if (pos <? fst (nthz l 0 (0,0))) || (pos >? snd (nthz l (n - 1) (0,0))) then i = -1
    else 0 <= i < n /\ pos <= snd (nthz l i (0,0)) /\ (i = 0 \/ snd (nthz l (i - 1) (0,0)) < pos).
Proof. exact bin_search_rev_total_mono. Qed.
Print Assumptions C19_bin_search_rev_total.
Theorem C19_bin_search_spec : forall l pos, sd l -> l <> [] -> exists i, bin_search l pos = Ok (Some i) /\ spec_bin_search l pos i = true.
Proof. exact bin_search_spec. Qed.
Print Assumptions C19_bin_search_spec.
Theorem C19_bin_search_rev_spec : forall l pos, sd l -> l <> [] -> exists i, bin_search_rev l pos = Ok (Some i) /\ spec_bin_search_rev l pos i = true.
Proof. exact bin_search_rev_spec. Qed.
Print Assumptions C19_bin_search_rev_spec.
Theorem C19_sd_monotone : forall l, sd l -> smono l /\ emono l.
Proof. intros l H. split; [apply sd_smono|apply sd_emono]; exact H. Qed.
Example C19_bin_search_example : bin_search [(1,3);(5,6);(9,12);(15,15);(20,22)] 10 = Ok (Some 2) /\ bin_search_rev [(1,3);(5,6);(9,12);(15,15);(20,22)] 13 = Ok (Some 3).
Proof. exact bin_search_example. Qed.
Example C19_bin_search_empty_refuted : bin_search [] 3 = Raises IndexError.
Proof. reflexivity. Qed.
Print Assumptions C19_sd_monotone.

(* overlapping constructor, READ side (the gene side is C19_gene_profile_char): for known features in start order and strictly increasing
   disjoint read features, read feature r gets
     1  iff a known feature k with cmp r k overlaps it AND starts after the end of the previous read feature (a feature reached by an earlier
        read feature is consumed there — the shadow corner, C19_profile_shadowed_match_refuted);
     else -1 iff its initial value is 0, some known feature starts after end(r) and some known feature starts at or before end(r);
     else its initial value (-1 if absence_condition(gene_region, r), else 0) *)
From IQ Require Import OvsReadProofs.
Theorem C19_overlapping_profile_read_char : forall cmp absent delta K gene_region R mapped polya polyt, starts_sorted K -> sd R ->
  exists gp rg, overlapping_profile cmp absent delta K gene_region R mapped polya polyt =
    Some (gp, match R with [] => [] | r :: R' => valO cmp false None K (read_init absent gene_region r) r :: rtail cmp (read_init absent gene_region) false K r R' end, rg).
Proof. exact overlapping_profile_read_char. Qed.
Print Assumptions C19_overlapping_profile_read_char.
Theorem C19_read_value_present_iff : forall cmp gp0 lo K v0 r, v0 <> 1 ->
  (valO cmp gp0 lo K v0 r = 1 <-> exists k, In k K /\ olt lo (fst k) = true /\ fst k <= snd r /\ fst r <= snd k /\ cmp r k = true).
Proof. exact valO_1_iff. Qed.
Print Assumptions C19_read_value_present_iff.
Theorem C19_read_value_unmatched : forall cmp gp0 lo K v0 r, v0 <> 1 -> matchedO cmp lo K r = false ->
  valO cmp gp0 lo K v0 r = if (v0 =? 0) && existsb (fun k => snd r <? fst k) K && (gp0 || existsb (fun k => fst k <=? snd r) K) then -1 else v0.
Proof. exact valO_unmatched. Qed.
Print Assumptions C19_read_value_unmatched.
Example C19_overlapping_profile_read_example :
  starts_sorted [(3,9);(12,20);(30,40)] /\ sd [(1,3);(5,9);(12,21);(50,60)] /\
  overlapping_profile (fun r k => py_equal_ranges r k 2) (fun reg f => py_contains reg f) 2 [(3,9);(12,20);(30,40)] (3,40) [(1,3);(5,9);(12,21);(50,60)] (1,60) (-1) (-1)
  = Some ([-1; 1; -1], [-1; -1; 1; 0], (0, 3)).
Proof. vm_compute. repeat split; try discriminate; try (intros H; discriminate H). Qed.

(* ---- tie to the source: the simplest LOOP functions of src/common.py are regenerated from the source on every check
        (tools/translate_loops.py -> gen/Loops.v: a fail-closed fold fragment: one `for` over a list / range(len(l)) as fold_left, accumulators as the
        state, `if c: return e` at the top of the body as an option in the state, list indexing as nth when in range by construction and as
        Python indexing with wrap-around plus an exception-freedom condition py_<f>_pre otherwise) and PROVED equal to the hand-written models for
        all inputs.  One bridge library per function, loaded inside the proof, so that an edit of one function in the source is reported against
        its own theorem and everything above is still checked. *)
From IQ.gen Require Loops.
From IQ Require Exons ProfileHelpers.
Theorem C19_intervals_total_length_is_the_source : forall l, Intervals.total l = Loops.py_intervals_total_length l.
Proof.
From IQ Require LoopTotalBridge.
exact LoopTotalBridge.total_is_the_source. Qed.
Print Assumptions C19_intervals_total_length_is_the_source.
(* junctions_from_blocks: both copies of the hand model (Intervals.v for C19, Exons.v for C03 / C14) *)
Theorem C19_junctions_from_blocks_is_the_source : forall l,
  Intervals.jfb l = Loops.py_junctions_from_blocks l /\ Exons.jfb l = Loops.py_junctions_from_blocks l.
Proof.
From IQ Require LoopJfbBridge.
exact (fun l => conj (LoopJfbBridge.jfb_is_the_source l) (eq_trans (LoopJfbBridge.exons_jfb_is_intervals_jfb l) (LoopJfbBridge.jfb_is_the_source l))). Qed.
Print Assumptions C19_junctions_from_blocks_is_the_source.
(* get_exons: the source pads the intron list with (-inf, start - 1) and (end + 1, inf); the translation takes the two infinities as integer
   parameters and the model equals it for EVERY value of them (the result does not read them) *)
Theorem C19_get_exons_is_the_source : forall inf_lo inf_hi r J,
  Intervals.get_exons r J = Loops.py_get_exons inf_lo inf_hi r J /\ Exons.get_exons r J = Loops.py_get_exons inf_lo inf_hi r J.
Proof.
From IQ Require LoopJfbBridge.
exact (fun a b r J => conj (LoopJfbBridge.get_exons_is_the_source a b r J)
                           (eq_trans (LoopJfbBridge.exons_get_exons_is_intervals_get_exons r J) (LoopJfbBridge.get_exons_is_the_source a b r J))). Qed.
Print Assumptions C19_get_exons_is_the_source.
(* the two exon accessors: value when no exception is possible, IndexError / AssertionError exactly otherwise *)
Theorem C19_get_following_exon_is_the_source : forall reg J p,
  Intervals.following_exon reg J p =
  if Loops.py_get_following_exon_from_junctions_pre reg J p then Ok (Loops.py_get_following_exon_from_junctions reg J p) else Raises IndexError.
Proof.
From IQ Require LoopFollowingBridge.
exact LoopFollowingBridge.following_exon_is_the_source. Qed.
Print Assumptions C19_get_following_exon_is_the_source.
Theorem C19_get_preceding_exon_is_the_source : forall reg J p,
  Intervals.preceding_exon reg J p =
  if negb (p <=? Z.of_nat (length J)) then Raises AssertionError
  else if Loops.py_get_preceding_exon_from_junctions_pre reg J p then Ok (Loops.py_get_preceding_exon_from_junctions reg J p) else Raises IndexError.
Proof.
From IQ Require LoopPrecedingBridge.
exact LoopPrecedingBridge.preceding_exon_is_the_source. Qed.
Print Assumptions C19_get_preceding_exon_is_the_source.

(* ---- profile helpers without a hand model: the regenerated function, under the `assert len(a) == len(b)` of the source, is the obvious
        position-wise function of the two profiles (ProfileHelpers.v: filter / forallb / existsb / map over the zipped profiles) *)
Theorem C19_count_both_present_features_spec : forall p1 p2, Loops.py_count_both_present_features_pre p1 p2 = true ->
  Loops.py_count_both_present_features p1 p2 = Z.of_nat (length (filter (fun p => (fst p =? 1) && (snd p =? 1)) (combine p1 p2))) /\
  0 <= Loops.py_count_both_present_features p1 p2 <= Z.of_nat (length p1).
Proof.
From IQ Require ProfileCountBothSpec.
exact (fun p1 p2 H => conj (ProfileCountBothSpec.count_both_present_spec p1 p2 H) (ProfileCountBothSpec.count_both_present_bounds p1 p2 H)). Qed.
Print Assumptions C19_count_both_present_features_spec.
Theorem C19_all_features_present_spec : forall iso read, Loops.py_all_features_present_pre iso read = true ->
  Loops.py_all_features_present iso read = forallb (fun p => negb (fst p =? 1) || (snd p =? 1)) (combine iso read).
Proof.
From IQ Require ProfileAllPresentSpec.
exact ProfileAllPresentSpec.all_features_present_spec. Qed.
Print Assumptions C19_all_features_present_spec.
Theorem C19_has_inconsistent_features_spec : forall read gene, Loops.py_has_inconsistent_features_pre read gene = true ->
  Loops.py_has_inconsistent_features read gene = existsb (fun p => negb (fst p =? snd p) && negb (fst p =? 0)) (combine read gene).
Proof.
From IQ Require ProfileInconsistentSpec.
exact ProfileInconsistentSpec.has_inconsistent_features_spec. Qed.
Print Assumptions C19_has_inconsistent_features_spec.
Theorem C19_mask_profile_spec : forall read truth, Loops.py_mask_profile_pre read truth = true ->
  Loops.py_mask_profile read truth = map (fun p => if snd p =? 1 then fst p else 0) (combine read truth) /\
  length (Loops.py_mask_profile read truth) = length truth.
Proof.
From IQ Require ProfileMaskSpec.
exact ProfileMaskSpec.mask_profile_spec. Qed.
Print Assumptions C19_mask_profile_spec.
Theorem C19_get_blocks_from_profile_spec : forall features profile, Loops.py_get_blocks_from_profile_pre features profile = true ->
  Loops.py_get_blocks_from_profile features profile = map fst (filter (fun p => snd p =? 1) (combine features profile)).
Proof.
From IQ Require ProfileBlocksSpec.
exact ProfileBlocksSpec.get_blocks_from_profile_spec. Qed.
Print Assumptions C19_get_blocks_from_profile_spec.

(* ---- tie to the source, WHILE fragment and small extensions (tools/translate_loops.py -> gen/Loops.v, regenerated on every check).
        Functions with a `while` loop are translated in checked form: the loop is a Fixpoint on an explicit fuel over the tuple of the local
        variables, the result is py_Done v / py_OutOfFuel / py_Raises k (1 IndexError, 3 AssertionError, 4 ZeroDivisionError).  run_of maps the
        `outcome` of the hand models to it.  Each equality is for ALL inputs and EVERY fuel above the stated bound.  One bridge library per
        function, loaded inside the proof. *)
From IQ Require Import LoopsRunSupport.
From IQ Require ProfileHelpers2.
Theorem C19_sum_intervals_to_point_is_the_source : forall l pos fuel, (length l < fuel)%nat ->
  Loops.py_sum_intervals_to_point fuel l pos = run_of (Intervals.sum_to_point l pos).
Proof.
From IQ Require LoopSumToBridge.
exact LoopSumToBridge.sum_to_point_is_the_source. Qed.
Print Assumptions C19_sum_intervals_to_point_is_the_source.
Theorem C19_sum_intervals_from_point_is_the_source : forall l pos fuel, (length l < fuel)%nat ->
  Loops.py_sum_intervals_from_point fuel l pos = run_of (Intervals.sum_from_point l pos).
Proof.
From IQ Require LoopSumFromBridge.
exact LoopSumFromBridge.sum_from_point_is_the_source. Qed.
Print Assumptions C19_sum_intervals_from_point_is_the_source.
(* read_coverage_fraction: the two-pointer sweep; the float quotient as the exact rational of the (intersection, read length) pair of the model *)
Theorem C19_read_coverage_fraction_is_the_source : forall R I fuel, (length R + length I < fuel)%nat ->
  Loops.py_read_coverage_fraction fuel R I =
  match Intervals.coverage_fraction R I with
  | Ok (i, t) => Loops.py_Done (QArith_base.Qdiv (QArith_base.inject_Z i) (QArith_base.inject_Z t)) | Raises k => Loops.py_Raises k end.
Proof.
From IQ Require LoopCoverageBridge.
exact LoopCoverageBridge.read_coverage_fraction_is_the_source. Qed.
Print Assumptions C19_read_coverage_fraction_is_the_source.
(* get_exon (loop-free; the re-assignment of the parameter for negative positions as a shadowing let) *)
Theorem C19_get_exon_is_the_source : forall reg J p,
  Intervals.get_exon reg J p =
  if negb (p <=? Z.of_nat (length J)) then Raises AssertionError
  else if Loops.py_get_exon_pre reg J p then Ok (Loops.py_get_exon reg J p) else Raises IndexError.
Proof.
From IQ Require LoopGetExonBridge.
exact LoopGetExonBridge.get_exon_is_the_source. Qed.
Print Assumptions C19_get_exon_is_the_source.

(* ---- further profile helpers without a hand model (default arguments applied by the regenerated prologue, ranges, membership / index):
        the regenerated function is its declarative reading (ProfileHelpers2.v) and no exception is possible, for profiles of equal length and
        every range inside them *)
Theorem C19_has_overlapping_features_spec : forall p1 p2 org, let rg := match org with Some r => r | None => ProfileHelpers2.whole p1 end in
  length p1 = length p2 -> ProfileHelpers2.range_ok p1 rg = true ->
  Loops.py_has_overlapping_features p1 p2 org = existsb (fun p => (fst p =? 1) && (snd p =? 1)) (combine (ProfileHelpers2.slice p1 rg) (ProfileHelpers2.slice p2 rg)) /\
  Loops.py_has_overlapping_features_pre p1 p2 org = true.
Proof.
From IQ Require ProfileOverlappingSpec.
exact ProfileOverlappingSpec.has_overlapping_features_spec. Qed.
Print Assumptions C19_has_overlapping_features_spec.
Theorem C19_equal_profiles_in_range_spec : forall iso read rg, length iso = length read -> ProfileHelpers2.range_ok iso rg = true ->
  Loops.py_equal_profiles_in_range iso read rg =
    forallb (fun p => (snd p =? 0) || (fst p =? snd p)) (combine (ProfileHelpers2.slice iso rg) (ProfileHelpers2.slice read rg)) /\
  Loops.py_equal_profiles_in_range_pre iso read rg = true.
Proof.
From IQ Require ProfileEqualInRangeSpec.
exact ProfileEqualInRangeSpec.equal_profiles_in_range_spec. Qed.
Print Assumptions C19_equal_profiles_in_range_spec.
(* difference_in_present_features(profile1, profile2) with both defaults: the number of positions where both are non-zero and differ *)
Theorem C19_difference_in_present_features_spec : forall p1 p2, length p1 = length p2 ->
  Loops.py_difference_in_present_features_dflt p1 p2 =
    Z.of_nat (length (filter (fun p => negb (fst p =? 0) && negb (snd p =? 0) && negb (fst p =? snd p)) (combine p1 p2))) /\
  Loops.py_difference_in_present_features_dflt_pre p1 p2 = true.
Proof.
From IQ Require ProfileDifferenceSpec LoopsRangeSupport.
exact (fun p1 p2 L => match ProfileDifferenceSpec.difference_in_present_features_dflt_spec p1 p2 L with
  conj A B => conj (eq_trans A (f_equal (fun l => Z.of_nat (length (filter ProfileHelpers2.differs l)))
                                 (f_equal2 (@combine Z Z) (LoopsRangeSupport.slice_whole p1)
                                    (eq_trans (f_equal (ProfileHelpers2.slice p2) (f_equal (fun n => (0, Z.of_nat n)) L)) (LoopsRangeSupport.slice_whole p2))))) B end). Qed.
Print Assumptions C19_difference_in_present_features_spec.
Theorem C19_find_matching_positions_spec : forall p1 p2, Loops.py_find_matching_positions_pre p1 p2 = true ->
  Loops.py_find_matching_positions p1 p2 = map (fun p => if fst p =? snd p then 1 else 0) (combine p1 p2) /\
  length (Loops.py_find_matching_positions p1 p2) = length p1.
Proof.
From IQ Require ProfileMatchingSpec.
exact ProfileMatchingSpec.find_matching_positions_spec. Qed.
Print Assumptions C19_find_matching_positions_spec.
(* left_truncated / right_truncated / rindex: in terms of the positions of the first / last 1 (ProfileHelpers2.first_pos / last_pos) *)
Theorem C19_truncated_spec : forall read iso,
  (Loops.py_left_truncated read iso = ProfileHelpers2.spec_left_truncated read iso /\ Loops.py_left_truncated_pre read iso = true) /\
  (Loops.py_right_truncated read iso = ProfileHelpers2.spec_right_truncated read iso /\ Loops.py_right_truncated_pre read iso = true).
Proof.
From IQ Require ProfileTruncatedSpec.
exact (fun r i => conj (ProfileTruncatedSpec.left_truncated_spec r i) (ProfileTruncatedSpec.right_truncated_spec r i)). Qed.
Print Assumptions C19_truncated_spec.
Theorem C19_rindex_spec : forall l el,
  (Loops.py_rindex_pre l el = match ProfileHelpers2.last_pos l el with Some _ => true | None => false end) /\
  forall k, ProfileHelpers2.last_pos l el = Some k -> Loops.py_rindex l el = k.
Proof.
From IQ Require ProfileTruncatedSpec.
exact ProfileTruncatedSpec.rindex_spec. Qed.
Print Assumptions C19_rindex_spec.

(* ---- jaccard_similarity and merge_ranges (three `while` loops in sequence, the `included` arrays, `union[-1] = ...`, asserts inside the loop;
        tools/translate_loops.py -> gen/Loops.v, regenerated on every check) against the hand models Intervals.jaccard / Intervals.merge_ranges:
        for all inputs and every fuel above len(A) + len(B), exceptions included.  Simulation: the unprocessed suffixes are skipn pos1 A / skipn pos2 B,
        the model's two flags are the `included` entries of the current heads, the source's union list is the reverse of the model's accumulator.
        The float quotient of jaccard_similarity is the exact rational of the model's (intersection, union) pair. *)
Theorem C19_jaccard_similarity_is_the_source : forall A B fuel, (length A + length B < fuel)%nat ->
  Loops.py_jaccard_similarity fuel A B =
  match Intervals.jaccard A B with
  | Ok (i, u) => Loops.py_Done (QArith_base.Qdiv (QArith_base.inject_Z i) (QArith_base.inject_Z u)) | Raises k => Loops.py_Raises k end.
Proof.
From IQ Require LoopJaccardBridge.
exact LoopJaccardBridge.jaccard_similarity_is_the_source. Qed.
Print Assumptions C19_jaccard_similarity_is_the_source.
Theorem C19_merge_ranges_is_the_source : forall A B fuel, (length A + length B < fuel)%nat ->
  Loops.py_merge_ranges fuel A B = match Intervals.merge_ranges A B with Ok l => Loops.py_Done l | Raises k => Loops.py_Raises k end.
Proof.
From IQ Require LoopMergeRangesBridge.
exact LoopMergeRangesBridge.merge_ranges_is_the_source. Qed.
Print Assumptions C19_merge_ranges_is_the_source.
