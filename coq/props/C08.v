(* C08 — multi-mapped reads resolve to one best locus, order-independently, counted once.
   Property theorems only; proofs live in Multimap2.v (record-level model of MultimapResolver and of the loader),
   MultimapWeight.v (contribution to the count tables) and Multimap.v (key-set level prototype).
   `keep_idx l` is the list of indices MultimapResolver.filter_assignments retains (after find_duplicates),
   `resolve TakeBest l` the list the resolver returns (same records; assignment types and multimapper flag rewritten).
   The unsuffixed names describe the REPAIRED select_noninformative (fixes/C08_noninformative_tie_break.diff: ties on
   (overlap, region start) are broken by (chr_id, start, end, isoforms) instead of list order); the `..._unrepaired` names
   describe the code before that repair (Multimap2.v: both are instances `Gen.xxx tkey` / `Gen.xxx tkey_unrepaired` of one
   development over the tie-break key).  harness/props/c08.py detects which variant is checked out and uses the matching model. *)
From Coq Require Import ZArith QArith List Bool Permutation.
From IQ Require Import CorrSupport Multimap2 MultimapWeight.
Import ListNotations. Open Scope Z_scope.

(* the model's resolve is select_best_assignment = "apply the verdict keep_idx"; take_best never raises *)
Theorem C08_resolve_is_verdict : forall l, (1 < length l)%nat -> resolve TakeBest l = Ok (apply_keep l (keep_idx l)).
Proof. exact (Gen.resolve_take_best_eq tkey). Qed.
Print Assumptions C08_resolve_is_verdict.

Theorem C08_take_best_total : forall l, exists out, resolve TakeBest l = Ok out.
Proof. exact (Gen.take_best_never_raises tkey). Qed.
Print Assumptions C08_take_best_total.

(* a primary alignment that is uniquely and consistently assigned wins over all others *)
Theorem C08_primary_unique_wins : forall l i, (i < length l)%nat -> p_pu (nthr l i) = true ->
  (forall j, (j < length l)%nat -> j <> i -> p_pu (nthr l j) = false) -> keep_idx l = [i].
Proof. exact (Gen.primary_unique_wins tkey). Qed.
Print Assumptions C08_primary_unique_wins.

Theorem C08_primary_unique_only : forall l, existsb p_pu l = true -> forall i, In i (keep_idx l) -> p_pu (nthr l i) = true.
Proof. exact (Gen.primary_unique_only tkey). Qed.
Print Assumptions C08_primary_unique_only.

(* consistent beats inconsistent beats uninformative (and primary inconsistent beats secondary inconsistent) *)
Theorem C08_class_order : forall l,
  (existsb p_cons l = true -> forall i, In i (keep_idx l) -> p_cons (nthr l i) = true) /\
  (existsb p_cons l = false -> existsb p_inc l = true -> forall i, In i (keep_idx l) -> p_inc (nthr l i) = true) /\
  (existsb p_pi l = true -> existsb p_cons l = false -> forall i, In i (keep_idx l) -> p_pi (nthr l i) = true).
Proof. exact (Gen.class_order tkey). Qed.
Print Assumptions C08_class_order.

(* every retained record is a winner of the best class (lowest penalty among inconsistent ones; best overlap, then lowest
   (region start, chr_id, start, end, isoforms) among uninformative ones), and the read is never lost *)
Theorem C08_kept_are_winners : forall l i, In i (keep_idx l) -> (i < length l)%nat /\ winner l (nthr l i) = true.
Proof. exact (Gen.kept_are_winners tkey). Qed.
Print Assumptions C08_kept_are_winners.

Theorem C08_read_not_lost : forall l, l <> [] -> keep_idx l <> [].
Proof. exact (Gen.keep_idx_nonempty tkey). Qed.
Print Assumptions C08_read_not_lost.

(* the alignments that lose are suspended ... *)
Theorem C08_losers_suspended : forall l out i, (1 < length l)%nat -> resolve TakeBest l = Ok out -> (i < length l)%nat -> ~ In i (keep_idx l) ->
  ty (nthr out i) = Suspended /\ gty (nthr out i) = Suspended.
Proof. exact (Gen.losers_suspended tkey). Qed.
Print Assumptions C08_losers_suspended.

Theorem C08_kept_not_suspended : forall l out i, (1 < length l)%nat -> resolve TakeBest l = Ok out -> In i (keep_idx l) ->
  ty (nthr l i) <> Suspended -> ty (nthr out i) <> Suspended.
Proof. exact (Gen.kept_not_suspended tkey). Qed.
Print Assumptions C08_kept_not_suspended.

(* ... and suppressed everywhere: the loader (ReadAssignmentLoader.get_next) drops them before the printers, the counters and
   the model constructor see them; retained records arrive with the verdict's types and flag.  Hypothesis: assignment ids
   are unique per chromosome (they come from one id distributor per process). *)
Theorem C08_losers_skipped_by_loader : forall g out i, (1 < length g)%nat -> resolve TakeBest g = Ok out ->
  NoDup (map (fun r => (aid r, chr r)) g) -> (i < length g)%nat -> ~ In i (keep_idx g) ->
  apply_verdict (nonempty_opt (filter (fun a => chr a =? chr (nthr g i)) out)) (nthr g i) = None.
Proof. exact (Gen.losers_skipped_by_loader tkey). Qed.
Print Assumptions C08_losers_skipped_by_loader.

Theorem C08_kept_loaded_with_verdict : forall g out i, (1 < length g)%nat -> resolve TakeBest g = Ok out ->
  NoDup (map (fun r => (aid r, chr r)) g) -> In i (keep_idx g) -> ty (nthr g i) <> Suspended ->
  apply_verdict (nonempty_opt (filter (fun a => chr a =? chr (nthr g i)) out)) (nthr g i) = Some (nthr out i).
Proof. exact (Gen.kept_loaded_with_verdict tkey). Qed.
Print Assumptions C08_kept_loaded_with_verdict.

(* when several assigned loci tie the read is kept on all of them (up to records with the same key) ... *)
Theorem C08_ties_kept : forall l i, only_uninformative l = false -> (i < length l)%nat -> winner l (nthr l i) = true ->
  exists j, In j (keep_idx l) /\ rec_eq (nthr l j) (nthr l i) = true.
Proof. exact (Gen.ties_kept tkey). Qed.
Print Assumptions C08_ties_kept.

(* ... and flagged ambiguous - PARTIAL: only when the retained records together name more than one isoform (resp. gene) *)
Theorem C08_ties_flagged_partial : forall l out i, (1 < length l)%nat -> resolve TakeBest l = Ok out -> In i (keep_idx l) ->
  (change_t l (keep_idx l) = true -> ty (nthr out i) = ambiguity_type (ty (nthr l i)) /\ mm (nthr out i) = true) /\
  (change_g l (keep_idx l) = true -> gty (nthr out i) = ambiguity_type (ty (nthr l i)) /\ mm (nthr out i) = true) /\
  (change_t l (keep_idx l) = false -> change_g l (keep_idx l) = false -> verdict_of (nthr out i) = verdict_of (nthr l i)).
Proof. exact (Gen.ties_flagged tkey). Qed.
Print Assumptions C08_ties_flagged_partial.

(* two retained alignments to one and the same isoform are not flagged *)
Example C08_ties_flagged_refuted :
  model_out TakeBest [set_verdict locA Unique Unique true; sameA] = Ok [(Unique, Unique, true); (Unique, Unique, true)].
Proof. exact ties_flagged_refuted. Qed.

(* flagged records are ignored by model construction *)
Theorem C08_flagged_not_used_for_graph : forall l out i h, (1 < length l)%nat -> resolve TakeBest l = Ok out -> In i (keep_idx l) ->
  change_t l (keep_idx l) || change_g l (keep_idx l) = true -> used_for_graph (nthr out i) h = false.
Proof. exact (Gen.flagged_not_used_for_graph tkey). Qed.
Print Assumptions C08_flagged_not_used_for_graph.

(* uninformative alignments only: exactly one is retained *)
Theorem C08_uninformative_single : forall l, l <> [] -> only_uninformative l = true ->
  exists b, keep_idx l = [b] /\ (b < length l)%nat /\ best_non l (nthr l b) = true.
Proof. exact (Gen.uninformative_single tkey). Qed.
Print Assumptions C08_uninformative_single.

(* exact duplicates: two records with the same key (read, chromosome, start, end, isoform list) never both survive *)
Theorem C08_dedup : forall l a b, In a (keep_idx l) -> In b (keep_idx l) -> rec_eq (nthr l a) (nthr l b) = true -> a = b.
Proof. exact (Gen.dedup tkey). Qed.
Print Assumptions C08_dedup.

Theorem C08_no_index_twice : forall l, NoDup (keep_idx l).
Proof. exact (Gen.keep_idx_NoDup tkey). Qed.
Print Assumptions C08_no_index_twice.

(* the set of retained alignments does not depend on the order of chromosomes, files or records.
   REPAIRED code, full statement: `all` = all alignment records of all chromosomes in any order, `group_of all rid` = the list of
   the records of read `rid` that collect_reads / resolve_multimappers hand to the resolver; no hypothesis *)
Theorem C08_resolve_perm_invariant_groups : forall all all' rid, Permutation all all' ->
  forall k, In k (kept_keys (group_of all rid)) <-> In k (kept_keys (group_of all' rid)).
Proof. exact resolve_perm_invariant_groups. Qed.
Print Assumptions C08_resolve_perm_invariant_groups.

Theorem C08_resolve_file_order_invariant : forall (files files':list (Z * list rec)) rid, Permutation files files' ->
  forall k, In k (kept_keys (group_of (flat_map snd files) rid)) <-> In k (kept_keys (group_of (flat_map snd files') rid)).
Proof. exact resolve_file_order_invariant. Qed.
Print Assumptions C08_resolve_file_order_invariant.

(* the same for an arbitrary list handed to `resolve`: no tie hypothesis; the only hypothesis is that the list holds the records
   of ONE read (the model's `rec` carries the read id as a free field; `group_of` lists satisfy it, C08_group_one_read) *)
Theorem C08_resolve_perm_invariant : forall l l', Permutation l l' -> one_read l -> forall k, In k (kept_keys l) <-> In k (kept_keys l').
Proof. exact resolve_perm_invariant. Qed.
Print Assumptions C08_resolve_perm_invariant.

Theorem C08_group_one_read : forall all rid, one_read (group_of all rid).
Proof. exact group_one_read. Qed.
Print Assumptions C08_group_one_read.

Theorem C08_one_read_decidable : forall l, one_read_b l = true -> one_read l.
Proof. exact one_read_b_sound. Qed.
Print Assumptions C08_one_read_decidable.

(* the tying pair of the known finding under the repaired code: the same alignment is retained in both orders *)
Example C08_resolve_perm_invariant_witness : kept_keys [tie1; tie2] = [key_of tie1] /\ kept_keys [tie2; tie1] = [key_of tie1].
Proof. exact resolve_perm_invariant_witness. Qed.

(* ---- UNREPAIRED code (select_noninformative compares genomic_region[0] alone; known finding C08:uninformative-tie) ---- *)
(* the literal transcription of the unrepaired scan is the instance of the generic model at the key [genomic_region[0]] *)
Theorem C08_unrepaired_model_is_literal : forall l idx, pick_noninformative_unrepaired l idx = Gen.pick_noninformative tkey_unrepaired l idx.
Proof. exact pick_noninformative_unrepaired_eq. Qed.
Print Assumptions C08_unrepaired_model_is_literal.

(* PARTIAL (unrepaired code): order independence provided uninformative alignments that tie on (overlap with the gene region,
   region start) have the same key *)
Theorem C08_resolve_perm_invariant_partial : forall l l', Permutation l l' -> no_tie_unrepaired l ->
  forall k, In k (kept_keys_unrepaired l) <-> In k (kept_keys_unrepaired l').
Proof. exact resolve_perm_invariant_partial. Qed.
Print Assumptions C08_resolve_perm_invariant_partial.

Theorem C08_no_tie_decidable : forall l, no_tie_b_unrepaired l = true -> no_tie_unrepaired l.
Proof. exact no_tie_b_sound. Qed.
Print Assumptions C08_no_tie_decidable.

(* REFUTED (unrepaired code) without the hypothesis: select_noninformative keeps the first of the tying records in list order *)
Example C08_resolve_perm_invariant_refuted :
  Permutation [tie1; tie2] [tie2; tie1] /\ kept_keys_unrepaired [tie1; tie2] = [key_of tie1] /\ kept_keys_unrepaired [tie2; tie1] = [key_of tie2] /\ key_of tie1 <> key_of tie2.
Proof. exact resolve_perm_invariant_refuted. Qed.

(* the other statements hold of the unrepaired code as well (they are proved once, for every tie-break key); the two the
   correspondence on an unrepaired tree relies on: *)
Theorem C08_resolve_satisfies_spec_unrepaired : forall l out, spec_pre l = true -> resolve_unrepaired TakeBest l = Ok out -> spec_ok_unrepaired l (verdicts out) = true.
Proof. exact (Gen.resolve_satisfies_spec tkey_unrepaired). Qed.
Print Assumptions C08_resolve_satisfies_spec_unrepaired.

Theorem C08_uninformative_single_unrepaired : forall l, l <> [] -> only_uninformative l = true ->
  exists b, keep_idx_unrepaired l = [b] /\ (b < length l)%nat /\ best_non_unrepaired l (nthr l b) = true.
Proof. exact uninformative_single_unrepaired. Qed.
Print Assumptions C08_uninformative_single_unrepaired.

(* the decidable specification `spec_ok` that the correspondence evaluates on the IMPLEMENTATION's verdicts (losers suspended,
   only winners kept, no two records with one key, ties kept, re-typed and flagged) is met by the model's verdicts *)
Theorem C08_resolve_satisfies_spec : forall l out, spec_pre l = true -> resolve TakeBest l = Ok out -> spec_ok l (verdicts out) = true.
Proof. exact (Gen.resolve_satisfies_spec tkey). Qed.
Print Assumptions C08_resolve_satisfies_spec.

(* default and --high_memory hand the same per-read lists to the resolver *)
Theorem C08_both_paths_same_groups : forall all rid, to_resolve (default_group all rid) = to_resolve (highmem_group all rid).
Proof. exact both_paths_same_groups. Qed.
Print Assumptions C08_both_paths_same_groups.

(* the read's total contribution to a count table never exceeds one - PARTIAL: when it is retained on one record *)
Theorem C08_record_total_range : forall fl gene_level a, (0 <= record_total fl gene_level a <= 1)%Q.
Proof. exact record_total_range. Qed.
Print Assumptions C08_record_total_range.

Theorem C08_contribution_le_1_partial : forall fl gene_level loaded, (length loaded <= 1)%nat -> (contribution fl gene_level loaded <= 1)%Q.
Proof. exact contribution_le_1_partial. Qed.
Print Assumptions C08_contribution_le_1_partial.

(* retained on two loci with one isoform each: re-typed ambiguous with a single feature, weight 1 on both - known finding *)
Example C08_contribution_le_1_refuted :
  verdicts (loaded_records [mA; mB]) = [(Ambiguous, Ambiguous, true); (Ambiguous, Ambiguous, true)] /\
  (contribution unique_only false (loaded_records [mA; mB]) == 2)%Q /\ (contribution unique_only true (loaded_records [mA; mB]) == 2)%Q /\
  (contribution all_strategy false (loaded_records [mA; mB]) == 2)%Q.
Proof. exact contribution_le_1_refuted. Qed.

Example C08_contribution_same_isoform_refuted :
  verdicts (loaded_records [mA; mA']) = [(Unique, Unique, true); (Unique, Unique, true)] /\ (contribution unique_only false (loaded_records [mA; mA']) == 2)%Q.
Proof. exact contribution_same_isoform_refuted. Qed.

(* non-vacuity *)
Example C08_example_priority_and_ties :
  model_out TakeBest [locA; locB; locC] = Ok [(Unique, Unique, false); (Suspended, Suspended, true); (Suspended, Suspended, true)] /\
  model_out TakeBest [locB; locB; locC; set_verdict locA Unique Unique true] =
     Ok [(Ambiguous, Ambiguous, true); (Suspended, Suspended, true); (Suspended, Suspended, true); (Ambiguous, Ambiguous, true)].
Proof. exact ties_kept_and_flagged_example. Qed.

Example C08_other_strategies :
  resolve Merge [locA; locB] = Raises 3 /\ model_out IgnoreMultimapper [locA; locB] = Ok [(Suspended, Unique, false); (Suspended, Unique, true)].
Proof. exact other_strategies. Qed.

(* ==== composed with C05 (coq/Accounting.v): the retained key set of a read behind the loader does not depend on the order in which the
   sub-regions and clusters of a chromosome are processed.  `iq_emitted` = the (sub-region, alignment, verdict) triples in processing order,
   `number` gives them assignment ids 0, 1, 2, ... in the order of the list: any rearrangement em' of the triples (which then carry OTHER
   assignment ids) yields the same key set.  For all files, verdict functions (never `suspended`) and both memory modes. *)
From IQ Require Import Regions Accounting.
Theorem C08_C05_kept_records_independent_of_region_order :
  forall (chrom:Z) (read_of:aln -> Z) (secondary:aln -> bool) (verdict_of:iv -> aln -> option vd),
  (forall reg a v, verdict_of reg a = Some v -> v_ty v <> Suspended) ->
  forall (m:mode) (file:list aln) (em':list (iv * aln * vd)) rid, Permutation (iq_emitted verdict_of m file) em' ->
  forall k, In k (map key_of (kept_records chrom (iq_stream chrom read_of secondary verdict_of m file) rid)) <->
            In k (map key_of (kept_records chrom (number chrom read_of secondary em') rid)).
Proof. exact iq_kept_records_independent_of_region_order. Qed.
Print Assumptions C08_C05_kept_records_independent_of_region_order.

(* the same key set as Multimap2's kept_keys of the read's group *)
Theorem C08_C05_kept_records_keys : forall (chrom:Z) (all:list rec),
  (forall r, In r all -> chr r = chrom) -> NoDup (map aid all) -> (forall r, In r all -> ty r <> Suspended) ->
  forall rid k, In k (map key_of (kept_records chrom all rid)) <-> In k (kept_keys (group_of all rid)).
Proof. exact kept_records_keys. Qed.
Print Assumptions C08_C05_kept_records_keys.
