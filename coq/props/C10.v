(* C10 - experiments processed in one invocation are independent of each other; the combined_* tables are the per-experiment columns.
   Property theorems only; models in Orchestration.v / OrchestrationInput.v, proofs in OrchestrationProofs.v.  process_sample_fix describes
   the code after fixes/C10_reset_class_state.diff, C10_sticky_flags.diff and C10_unaligned_per_sample.diff; process_sample_cur is the
   code before them and is refuted by witnesses. *)
From Coq Require Import ZArith List Bool Permutation.
From IQ Require Import CorrSupport Orchestration OrchestrationProofs OrchestrationInput OrchestrationInputProofs.
Import ListNotations.
Open Scope Z_scope.

(* ---- experiments as a fold over the process-wide state (DatasetProcessor.process_all_samples): for every sequence of experiments, every
        state the process starts in and both modes (main process / process pool), experiment number i gets exactly the output of a
        stand-alone run on it *)
Theorem C10_samples_independent : forall dmi dme st rgfn pool pool' es g,
  run_samples (process_sample_fix dmi dme st rgfn pool) es g = map (fun e => fst (process_sample_fix dmi dme st rgfn pool' e (init_state dmi dme rgfn))) es.
Proof. exact samples_independent. Qed.
Print Assumptions C10_samples_independent.
Theorem C10_samples_order_irrelevant : forall dmi dme st rgfn pool es es' g g' e, In e es -> In e es' ->
  exists o, In o (run_samples (process_sample_fix dmi dme st rgfn pool) es g) /\ In o (run_samples (process_sample_fix dmi dme st rgfn pool) es' g') /\
            o = fst (process_sample_fix dmi dme st rgfn pool e (init_state dmi dme rgfn)).
Proof. exact samples_order_irrelevant. Qed.
Print Assumptions C10_samples_order_irrelevant.
Example C10_samples_independent_example :
  run_samples (process_sample_fix false false PAuto true false) [ex_high; ex_unmapped; ex_low; ex_low; ex_replicas; ex_low] (init_state false false true)
  = map (fun e => fst (process_sample_fix false false PAuto true true e (init_state false false true))) [ex_high; ex_unmapped; ex_low; ex_low; ex_replicas; ex_low].
Proof. exact samples_independent_fix_on_the_witnesses. Qed.

(* ---- the code before the repairs: three leaks, each refuting the statement on a two-experiment sequence *)
(* args.require_monointronic_polya / require_monoexonic_polya are or-ed with their own previous value *)
Example C10_samples_independent_current_code_refuted_sticky_flags :
  run_samples (process_sample_cur PAuto false true) [ex_high; ex_low] (init_state false false false)
  <> map (fun e => fst (process_sample_cur PAuto false true e (init_state false false false))) [ex_high; ex_low].
Proof. exact samples_independent_refuted_sticky_flags. Qed.
(* ... exactly: the flag of experiment k is the strategy applied to (default or any experiment up to k had enough polyA reads) *)
Theorem C10_sticky_flags_characterisation_current_code : forall st rgfn pool es dmi dme,
  map o_mono_intronic (run_samples (process_sample_cur st rgfn pool) es (init_state dmi dme rgfn))
  = map (fun k => set_strategy (dmi || existsb (fun e => set_strategy (e_polya_high e) st) (firstn (Datatypes.S k) es)) st) (seq 0 (length es)).
Proof. exact sticky_flags_characterisation. Qed.
Print Assumptions C10_sticky_flags_characterisation_current_code.
(* DatasetProcessor.alignment_stat_counter is never reset: __not_aligned of a later experiment includes the earlier experiments' reads *)
Example C10_samples_independent_current_code_refuted_unaligned :
  run_samples (process_sample_cur PAuto false true) [ex_unmapped; ex_low] (init_state true true false)
  <> map (fun e => fst (process_sample_cur PAuto false true e (init_state true true false))) [ex_unmapped; ex_low].
Proof. exact samples_independent_refuted_unaligned. Qed.
(* GraphBasedModelConstructor.detected_known_isoforms survives in the main process with --threads 1 (not with a process pool) *)
Example C10_samples_independent_current_code_refuted_detected_threads1 :
  run_samples (process_sample_cur PAuto false false) [ex_low; ex_low] (init_state true true false)
  <> map (fun e => fst (process_sample_cur PAuto false false e (init_state true true false))) [ex_low; ex_low]
  /\ run_samples (process_sample_cur PAuto false true) [ex_low; ex_low] (init_state true true false)
  = map (fun e => fst (process_sample_cur PAuto false true e (init_state true true false))) [ex_low; ex_low].
Proof. exact samples_independent_refuted_detected_threads1. Qed.

(* ---- args.use_technical_replicas (the replica filter of the model constructor) is derived per experiment from read_group == "file_name" (rgfn) and
        the experiment's number of files; it does not depend on the state left by earlier experiments *)
Theorem C10_use_technical_replicas_frame : forall dmi dme st rgfn pool e g g',
  o_replicas (fst (process_sample_fix dmi dme st rgfn pool e g)) = replicas_flag rgfn e /\
  o_replicas (fst (process_sample_cur st rgfn pool e g)) = replicas_flag rgfn e /\
  o_replicas (fst (process_sample_fix dmi dme st rgfn pool e g)) = o_replicas (fst (process_sample_fix dmi dme st rgfn pool e g')).
Proof. exact use_technical_replicas_frame. Qed.
Print Assumptions C10_use_technical_replicas_frame.
Example C10_use_technical_replicas_example :
  map o_replicas (run_samples (process_sample_fix true true PAuto true false) [ex_low; ex_replicas; ex_low; ex_replicas] (init_state true true true)) = [false; true; false; true].
Proof. exact use_technical_replicas_example. Qed.

(* ---- frame lemmas for the class-level set *)
Theorem C10_detected_frame : forall regions D, (forall i, In i (concat regions) -> ~ In i D) ->
  fst (chr_known regions D) = fst (chr_known regions []).
Proof. exact detected_frame. Qed.
Print Assumptions C10_detected_frame.
Theorem C10_detected_frame_repaired : forall regions D, fst (chr_known_fix regions D) = fst (chr_known_fix regions []).
Proof. exact detected_frame_fix. Qed.
Print Assumptions C10_detected_frame_repaired.
Example C10_detected_leak_current_code_refuted : fst (chr_known [[1; 2]; [3]] [1; 3]) = [[2]; []] /\ fst (chr_known [[1; 2]; [3]] []) = [[1; 2]; [3]].
Proof. exact detected_leak_witness. Qed.

(* ---- combined_* tables: one row per feature of the union, cell i = the feature's value in experiment i's own table *)
Theorem C10_combined_tables_are_columns : forall full tables,
  let ts := map (transform full) tables in
  let comb := combine_tables full tables in
  NoDup (map fst comb) /\
  (forall k, In k (map fst comb) <-> exists t, In t ts /\ In k (map fst t)) /\
  (forall k row, In (k, row) comb -> row = map (zlookup k) ts) /\
  (forall t k v, In t ts -> NoDup (map fst t) -> In (k, v) t -> zlookup k t = Some v) /\
  (forall t k, In t ts -> ~ In k (map fst t) -> zlookup k t = None).
Proof. exact combined_tables_are_columns. Qed.
Print Assumptions C10_combined_tables_are_columns.
Theorem C10_combine_tables_satisfies_combined_ok : forall full labels tables, combined_ok full labels labels tables (combine_tables full tables) = true.
Proof. exact combine_tables_satisfies_combined_ok. Qed.
Print Assumptions C10_combine_tables_satisfies_combined_ok.
(* what an accepted real file is known to satisfy *)
Theorem C10_combined_ok_sound : forall full header labels tables comb, combined_ok full header labels tables comb = true ->
  let ts := map (transform full) tables in
  header = labels /\ NoDup (map fst comb) /\
  (forall k row, In (k, row) comb -> row = map (zlookup k) ts) /\
  (forall k, In k (map fst comb) <-> exists t, In t ts /\ In k (map fst t)).
Proof. exact combined_ok_sound. Qed.
Print Assumptions C10_combined_ok_sound.
Example C10_combined_example :
  combine_tables false [[(2, 100); (1, 250); (7, 0); (8, 0); (9, 0)]; [(3, 5); (1, 11); (7, 0); (8, 0); (9, 0)]]
  = [(1, [Some 250; Some 11]); (2, [Some 100; None]); (3, [None; Some 5])].
Proof. reflexivity. Qed.

(* ---- experiment names (= output directories) parsed from a list file / YAML file are pairwise different (after
        fixes/C10_renamed_name_clash.diff; `true` selects the repaired renaming rule) *)
Theorem C10_list_experiment_names_distinct : forall prefix lines samples, parse_list true prefix lines = Ok samples -> NoDup (map sm_name samples).
Proof. exact list_experiment_names_distinct. Qed.
Print Assumptions C10_list_experiment_names_distinct.
Theorem C10_yaml_experiment_names_distinct : forall prefix dir fmt es samples, parse_yaml true prefix dir fmt es = Ok samples -> NoDup (map sm_name samples).
Proof. exact yaml_experiment_names_distinct. Qed.
Print Assumptions C10_yaml_experiment_names_distinct.
(* current code: "#P2 / a.bam / #A / x1.bam / #A / x2.bam" with prefix P: the duplicate A becomes P2, the name of the first experiment *)
Example C10_experiment_names_current_code_refuted :
  match parse_list false [80] [[35;80;50;10]; [97;46;98;97;109;10]; [35;65;10]; [120;49;46;98;97;109;10]; [35;65;10]; [120;50;46;98;97;109;10]] with
  | Ok [s1; s2; s3] => sm_name s1 = [80; 50] /\ sm_name s3 = [80; 50]
  | _ => False
  end.
Proof. exact list_experiment_names_current_code_refuted. Qed.
Example C10_experiment_names_repaired_example :
  parse_list true [80] [[35;80;50;10]; [97;46;98;97;109;10]; [35;65;10]; [120;49;46;98;97;109;10]; [35;65;10]; [120;50;46;98;97;109;10]] = Raises 1.
Proof. exact list_experiment_names_repaired_on_the_witness. Qed.

(* ---- tie to the source.  gen/Extra.v is regenerated from src/dataset_processor.py on every check (tools/translate_extra.py):
        PolyAUsageStrategies and set_polya_requirement_strategy.  The model's set_strategy is the source's function under the name
        correspondence pus_of (OrchestrationBridgeDefs.v), and the three strategies of the model are exactly the members of the enum.
        The library with the proof is loaded inside the proof, so that an edit of the source is reported against this theorem. *)
From IQ.gen Require Extra.
From IQ Require Import OrchestrationBridgeDefs.
Theorem C10_polya_strategy_is_the_source :
  (forall flag st, set_strategy flag st = Extra.py_set_polya_requirement_strategy flag (pus_of st)) /\
  map pus_of [PAuto; PNever; PAlways] = Extra.PUS_all /\ (forall x : Extra.PUS, exists st, pus_of st = x).
Proof.
From IQ Require OrchestrationBridge.
exact OrchestrationBridge.polya_strategy_is_the_source. Qed.
Print Assumptions C10_polya_strategy_is_the_source.
