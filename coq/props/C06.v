(* C06 - outputs do not depend on --threads, PYTHONHASHSEED, --high_memory / --keep_tmp or repetition.
   Property theorems only; model in Orchestration.v, proofs in OrchestrationProofs.v.  What is proved: the orchestration (fan-out over worker
   processes with carried state, ordered collection, natural-sort merge) is schedule-independent GIVEN the frame condition, the frame condition
   for each piece of carried state found in src/, and permutation-invariance of the set consumers that reach an output.  That no other set is
   enumerated on an output path is NOT a theorem (source scan + seed sweep in harness/props/c06.py): the property is covered partially. *)
From Coq Require Import ZArith List Bool Permutation Sorting.Sorted.
From IQ Require Import GroupedGroupers Orchestration OrchestrationProofs.
Import ListNotations.
Open Scope Z_scope.

(* ---- for ALL assignments of the chromosomes to any number of worker processes (sch: per worker the chromosomes it ran, in its order) and ALL
        completion orders (finished: any permutation of the workers' results), Executor.map returns what a fresh worker gives for each chromosome;
        Inv h s = "s is a state a worker can be in after the chromosomes h", frame = "what is written for c does not depend on that state" *)
Theorem C06_schedule_independent : forall (C S O : Type) (ceqb : C -> C -> bool), (forall a b, ceqb a b = true <-> a = b) ->
  forall (f : C -> S -> O * S) (Inv : list C -> S -> Prop) (s0 : S),
  Inv [] s0 -> (forall h s c, Inv h s -> ~ In c h -> Inv (c :: h) (snd (f c s))) ->
  (forall h s c, Inv h s -> ~ In c h -> fst (f c s) = fst (f c s0)) ->
  forall chr_ids sch finished, NoDup chr_ids -> Permutation (concat sch) chr_ids -> Permutation finished (run_workers f s0 sch) ->
  collect ceqb chr_ids finished = map (fun c => Some (fst (f c s0))) chr_ids.
Proof. intros C S O ceqb H f Inv s0. exact (schedule_independent ceqb H f Inv s0). Qed.
Print Assumptions C06_schedule_independent.
(* --threads 1 (builtin map in the main process) gives the same list *)
Theorem C06_threads1_is_a_schedule : forall (C S O : Type) (f : C -> S -> O * S) (Inv : list C -> S -> Prop) (s0 : S),
  Inv [] s0 -> (forall h s c, Inv h s -> ~ In c h -> Inv (c :: h) (snd (f c s))) ->
  (forall h s c, Inv h s -> ~ In c h -> fst (f c s) = fst (f c s0)) ->
  forall chr_ids, NoDup chr_ids -> fst (sequential f chr_ids s0) = map (fun c => Some (fst (f c s0))) chr_ids.
Proof. intros C S O f Inv s0. exact (sequential_is_a_schedule f Inv s0). Qed.
Print Assumptions C06_threads1_is_a_schedule.
(* ... and the merged file is the same for every schedule, completion order and listing order of the chromosomes *)
Theorem C06_merged_output_schedule_independent : forall (C S : Type) (ceqb : C -> C -> bool), (forall a b, ceqb a b = true <-> a = b) ->
  forall (f : C -> S -> list str * S) (Inv : list C -> S -> Prop) (s0 : S),
  Inv [] s0 -> (forall h s c, Inv h s -> ~ In c h -> Inv (c :: h) (snd (f c s))) ->
  (forall h s c, Inv h s -> ~ In c h -> fst (f c s) = fst (f c s0)) ->
  forall (name : C -> str) chr_ids chr_ids' sch finished copy_header,
  NoDup chr_ids -> Permutation (concat sch) chr_ids -> Permutation finished (run_workers f s0 sch) -> Permutation chr_ids chr_ids' ->
  (forall x y, In x chr_ids -> In y chr_ids -> tokens (name x) = tokens (name y) -> x = y) ->
  merge_files copy_header (map (fun c => (name c, lookup ceqb c finished)) chr_ids)
  = merge_files copy_header (map (fun c => (name c, Some (fst (f c s0)))) chr_ids').
Proof. intros C S ceqb H f Inv s0. exact (merged_output_schedule_independent ceqb H f Inv s0). Qed.
Print Assumptions C06_merged_output_schedule_independent.
Example C06_schedule_example :
  let f := fun (c : nat) (s : Z) => ([[Z.of_nat c]], s + 1) in
  collect Nat.eqb [2; 0; 1]%nat (run_workers f 0 [[1; 2]; [0]]%nat) = map (fun c => Some (fst (f c 0))) [2; 0; 1]%nat.
Proof. reflexivity. Qed.

(* ---- natural sort of the part names *)
Theorem C06_natural_sort_total_order :
  (forall a b, nat_le a b = true \/ nat_le b a = true) /\
  (forall a b c, nat_le a b = true -> nat_le b c = true -> nat_le a c = true) /\
  (forall a b, nat_le a b = true -> nat_le b a = true -> tokens a = tokens b).
Proof. exact natural_sort_total_order. Qed.
Print Assumptions C06_natural_sort_total_order.
Theorem C06_natural_sort_sorted : forall l, StronglySorted (fun a b => nat_le a b = true) (nsort l) /\ Permutation l (nsort l).
Proof. exact natural_sort_sorted. Qed.
Print Assumptions C06_natural_sort_sorted.
Theorem C06_merge_order_deterministic : forall l l', Permutation l l' ->
  (forall x y, In x l -> In y l -> tokens x = tokens y -> x = y) -> nsort l = nsort l'.
Proof. exact natural_sort_deterministic. Qed.
Print Assumptions C06_merge_order_deterministic.
(* the key never compares an int with a str *)
Theorem C06_tokens_alternate : forall a b i x y, nth_error (tokens a) i = Some x -> nth_error (tokens b) i = Some y -> is_TS x = is_TS y.
Proof. exact tokens_alternate. Qed.
Print Assumptions C06_tokens_alternate.
Theorem C06_merge_files_all_present : forall (parts : list (str * list str)),
  merge_files false (map (fun p => (fst p, Some (snd p))) parts) =
  (flat_map (fun p => drop_header (snd p)) (nsort_by fst parts), map fst (nsort_by fst parts), false).
Proof. exact merge_files_all_present. Qed.
Print Assumptions C06_merge_files_all_present.
Example C06_natural_sort_example : nsort [[99;104;114;49;48]; [99;104;114;50]; [99;104;114;88]; [99;104;114;49]] = [[99;104;114;49]; [99;104;114;50]; [99;104;114;49;48]; [99;104;114;88]].
Proof. reflexivity. Qed.

(* ---- which part file merge_files looks for *)
Theorem C06_part_name_correct : forall dir label chr_id suffix, label <> [] -> occurs label (tl (label ++ suffix)) = false ->
  part_name (dir ++ label ++ suffix) label chr_id = written_part_name dir label chr_id suffix.
Proof. exact part_name_correct. Qed.
Print Assumptions C06_part_name_correct.
(* current code, experiment "S" with --sqanti_output: the part looked for is not the part written (the run dies in os.remove) *)
Example C06_part_name_current_code_refuted :
  part_name [47; 83; 47; 83; 46; 83; 81] [83] [99] = [47; 83; 47; 83; 46; 83; 95; 99; 81] /\
  written_part_name [47; 83; 47] [83] [99] [46; 83; 81] = [47; 83; 47; 83; 95; 99; 46; 83; 81].
Proof. exact part_name_refuted. Qed.
Theorem C06_part_name_repaired_correct : forall dir label chr_id suffix, no_slash (label ++ suffix) = true ->
  part_name_fix (dir ++ [47] ++ label ++ suffix) label chr_id = written_part_name (dir ++ [47]) label chr_id suffix.
Proof. exact part_name_fix_correct. Qed.
Print Assumptions C06_part_name_repaired_correct.

(* ---- frame lemmas, one per piece of state a worker process carries from chromosome to chromosome *)
(* GraphBasedModelConstructor.detected_known_isoforms *)
Theorem C06_detected_frame : forall regions D, (forall i, In i (concat regions) -> ~ In i D) ->
  fst (chr_known regions D) = fst (chr_known regions []).
Proof. exact detected_frame. Qed.
Print Assumptions C06_detected_frame.
Theorem C06_detected_grows : forall regions D x, In x (snd (chr_known regions D)) <-> In x D \/ In x (concat regions).
Proof. exact detected_grows. Qed.
Print Assumptions C06_detected_grows.
Theorem C06_detected_schedule_independent : forall (ids : nat -> list (list Z)),
  (forall c c' x, In x (concat (ids c)) -> In x (concat (ids c')) -> c = c') ->
  forall chr_ids sch finished, NoDup chr_ids -> Permutation (concat sch) chr_ids ->
  Permutation finished (run_workers (fun c D => chr_known (ids c) D) [] sch) ->
  collect Nat.eqb chr_ids finished = map (fun c => Some (fst (chr_known (ids c) []))) chr_ids.
Proof. exact detected_schedule_independent. Qed.
Print Assumptions C06_detected_schedule_independent.
(* ReadAssignment.assignment_id_generator: the ids written by stage 1 are only keys for stage 2 *)
Theorem C06_assignment_ids_only_keys : forall (T : Type) (r : Z -> Z), (forall a b, r a = r b -> a = b) ->
  forall records (entries : list (Z * Z * T)), resolve_all (rename_records r records) (rename_entries r entries) = resolve_all records entries.
Proof. intros T. exact (@assignment_ids_only_keys T). Qed.
Print Assumptions C06_assignment_ids_only_keys.
(* FeatureInfo.feature_id_counter: only a dictionary key of the exon / intron counters *)
Theorem C06_feature_ids_only_keys : forall (r : Z -> Z), (forall a b, r a = r b -> a = b) ->
  forall groups evs, fdump groups (rename_fevents r evs) = fdump groups evs.
Proof. exact feature_ids_only_keys. Qed.
Print Assumptions C06_feature_ids_only_keys.

(* ---- set consumers on an output path: the gene list of an exon / intron row (group numbering is C09) *)
Theorem C06_gene_list_perm_invariant : forall e1 e2, Permutation e1 e2 -> gene_list_fix e1 = gene_list_fix e2.
Proof. exact gene_list_perm_invariant. Qed.
Print Assumptions C06_gene_list_perm_invariant.
Example C06_gene_list_current_code_refuted : Permutation [1; 2] [2; 1] /\ gene_list_cur [1; 2] <> gene_list_cur [2; 1].
Proof. exact gene_list_current_code_refuted. Qed.
