(* C17 — identifiers in the outputs are unique, collision-free and functional.
   Property theorems only; the model and the proofs live in Ids.v (strings are lists of byte values). *)
From Coq Require Import ZArith List Bool Sorted.
From IQ Require Import Ids.
Import ListNotations. Open Scope Z_scope.

(* ExcludingIdDistributor: whatever the forbidden set and the starting value, the numbers issued by successive increment()
   calls are strictly increasing, above the starting value and never forbidden *)
Theorem C17_excluding_increment_fresh : forall forb v n,
  StronglySorted Z.lt (issue forb v n) /\ Forall (fun x => v < x /\ ~ In x forb) (issue forb v n).
Proof. exact excluding_increment_fresh. Qed.
Print Assumptions C17_excluding_increment_fresh.

Theorem C17_issued_numbers_distinct : forall forb v n, NoDup (issue forb v n).
Proof. exact issued_numbers_distinct. Qed.
Print Assumptions C17_issued_numbers_distinct.

(* int("%d" % n) = n: the parse of the forbidden numbers inverts the printing of the issued ones *)
Theorem C17_parse_print_roundtrip : forall n, 0 <= n -> py_int (print_dec n) = Some n.
Proof. exact py_int_print_dec. Qed.
Print Assumptions C17_parse_print_roundtrip.

(* the id constructors are injective for every chromosome name (dots, underscores and digits in it included) *)
Theorem C17_transcript_id_injective : forall n c s n' c' s', 0 <= n -> 0 <= n' ->
  transcript_id n c s = transcript_id n' c' s' -> n = n' /\ c = c' /\ s = s'.
Proof. exact transcript_id_inj. Qed.
Print Assumptions C17_transcript_id_injective.
Theorem C17_novel_gene_id_injective : forall c n c' n', 0 <= n -> 0 <= n' -> novel_gene_id c n = novel_gene_id c' n' -> c = c' /\ n = n'.
Proof. exact novel_gene_id_inj. Qed.
Print Assumptions C17_novel_gene_id_injective.
Theorem C17_exon_id_constructor_injective : forall c n c' n', 0 <= n -> 0 <= n' -> exon_id c n = exon_id c' n' -> c = c' /\ n = n'.
Proof. exact exon_id_inj. Qed.
Print Assumptions C17_exon_id_constructor_injective.

(* string level: an id built from an issued number is not among the gene / transcript ids of the reference on that chromosome,
   whatever those ids are (an annotation written by an earlier IsoQuant run included) *)
Theorem C17_novel_id_not_in_reference : forall genes transcripts v k x c s, 0 <= v ->
  In x (issue (forbidden_ids genes transcripts) v k) ->
  ~ In (transcript_id x c s) transcripts /\ ~ In (novel_gene_id c x) genes.
Proof. exact novel_id_not_in_reference. Qed.
Print Assumptions C17_novel_id_not_in_reference.

(* the way construct_fl_isoforms / generate_monoexon_from_clustered draw numbers (one per path, one more for a new gene):
   ids of one chromosome are pairwise distinct and none is a reference id *)
Theorem C17_allocated_ids_distinct : forall forb chr l v, 0 <= v ->
  NoDup (out_tids (snd (allocate forb chr v l))) /\ NoDup (out_gids (snd (allocate forb chr v l))).
Proof. exact allocated_ids_distinct. Qed.
Print Assumptions C17_allocated_ids_distinct.
Theorem C17_allocated_ids_not_in_reference : forall genes transcripts chr l v, 0 <= v ->
  let r := snd (allocate (forbidden_ids genes transcripts) chr v l) in
  (forall t, In t (out_tids r) -> ~ In t transcripts) /\ (forall g, In g (out_gids r) -> ~ In g genes).
Proof. exact allocated_ids_not_in_reference. Qed.
Print Assumptions C17_allocated_ids_not_in_reference.

(* per file: chromosomes are processed with separate distributors; distinct numbers per chromosome and the chromosome name
   in the id make the ids of the merged file pairwise distinct *)
Theorem C17_ids_unique_per_file : forall per_chr : list (str * list (Z * bool)),
  NoDup (map fst per_chr) ->
  Forall (fun c => NoDup (map fst (snd c)) /\ Forall (fun p => 0 <= fst p) (snd c)) per_chr ->
  NoDup (concat (map chr_transcript_ids per_chr)).
Proof. exact transcript_ids_unique_per_file. Qed.
Print Assumptions C17_ids_unique_per_file.
Theorem C17_gene_ids_unique_per_file : forall per_chr : list (str * list Z),
  NoDup (map fst per_chr) -> Forall (fun c => NoDup (snd c) /\ Forall (fun n => 0 <= n) (snd c)) per_chr ->
  NoDup (concat (map chr_gene_ids per_chr)).
Proof. exact gene_ids_unique_per_file. Qed.
Print Assumptions C17_gene_ids_unique_per_file.

(* FeatureIdStorage.get_id (repaired): for every store and every call sequence equal keys get equal ids *)
Theorem C17_exon_id_functional : forall s ks i j k,
  nth_error ks i = Some k -> nth_error ks j = Some k ->
  nth_error (snd (run get_id s ks)) i = nth_error (snd (run get_id s ks)) j.
Proof. exact exon_id_functional. Qed.
Print Assumptions C17_exon_id_functional.

(* ... and distinct keys get distinct ids, the ids pre-loaded from the reference included, provided the reference's own
   exon_id attribute does not already repeat an id on different exons *)
Theorem C17_exon_id_injective : forall chr fs ks i j ki kj v, ref_injective fs ->
  nth_error ks i = Some ki -> nth_error ks j = Some kj ->
  nth_error (snd (run get_id (init_store chr fs) ks)) i = Some v ->
  nth_error (snd (run get_id (init_store chr fs) ks)) j = Some v -> ki = kj.
Proof. intros chr fs ks i j ki kj v R. apply exon_id_injective. apply init_store_inv. exact R. Qed.
Print Assumptions C17_exon_id_injective.

(* exon ids present in the reference are preserved: the stored id is returned for every later query of that exon ... *)
Theorem C17_reference_exon_ids_preserved : forall chr fs ks k v j,
  lookup k (dict (init_store chr fs)) = Some v -> nth_error ks j = Some k ->
  nth_error (snd (run get_id (init_store chr fs) ks)) j = Some v.
Proof. exact reference_exon_ids_preserved. Qed.
Print Assumptions C17_reference_exon_ids_preserved.
(* ... and when exon_id is a function of the exon in the reference, that is the id every reference exon line carries *)
Theorem C17_reference_exon_ids_preserved_functional : forall chr fs ks st en sd v j, ref_functional fs ->
  In (st, en, sd, Some v) fs -> nth_error ks j = Some (chr, st, en, sd) ->
  nth_error (snd (run get_id (init_store chr fs) ks)) j = Some v.
Proof. exact reference_exon_ids_preserved_functional. Qed.
Print Assumptions C17_reference_exon_ids_preserved_functional.

(* the code before the repairs *)
Theorem C17_exon_id_functional_unrepaired_refuted : ~ functional get_id_cur.
Proof. exact exon_id_functional_cur_refuted. Qed.
Theorem C17_exon_id_injective_without_exclusion_refuted :
  let s := init_store chr9 [(100, 200, plus, Some (exon_id chr9 1))] in
  ref_injective [(100, 200, plus, Some (exon_id chr9 1))] /\
  snd (run get_id_noexcl s [(chr9,100,200,plus); (chr9,300,400,plus)]) = [exon_id chr9 1; exon_id chr9 1] /\
  snd (run get_id s [(chr9,100,200,plus); (chr9,300,400,plus)]) = [exon_id chr9 1; exon_id chr9 2].
Proof. exact exon_id_injective_noexcl_refuted. Qed.

(* non-vacuity: "transcript12.chr9.nnic", "novel_gene_chr9_13", "chr9.7"; a reference with transcript1 and novel_gene_chr9_2 makes 1 and 2 forbidden *)
Example C17_format_examples :
  transcript_id 12 chr9 false = [116;114;97;110;115;99;114;105;112;116;49;50;46;99;104;114;57;46;110;110;105;99] /\
  novel_gene_id chr9 13 = [110;111;118;101;108;95;103;101;110;101;95;99;104;114;57;95;49;51] /\
  exon_id chr9 7 = [99;104;114;57;46;55] /\
  issue (forbidden_ids [novel_gene_id chr9 2] [transcript_id 1 chr9 true]) 0 3 = [3; 4; 5].
Proof. vm_compute. repeat split; reflexivity. Qed.

(* ---- tie to the source.  gen/Extra.v is regenerated from src/common.py on every check (tools/translate_extra.py); the model's
        naming constants are those of TranscriptNaming (the four eq_refl are checked by conversion: an edit of a constant in the
        source is reported against this theorem), so the two id formats are built from the source's constants *)
From IQ.gen Require Extra.
From IQ Require Import IdsBridge.
Theorem C17_naming_constants_are_the_sources :
  transcript_prefix = Extra.TN_transcript_prefix /\ novel_gene_prefix = Extra.TN_novel_gene_prefix /\
  nic_suffix = Extra.TN_nic_transcript_suffix /\ nnic_suffix = Extra.TN_nnic_transcript_suffix /\
  (forall n chr is_nic, transcript_id n chr is_nic =
     Extra.TN_transcript_prefix ++ print_dec n ++ 46 :: chr ++ (if is_nic then Extra.TN_nic_transcript_suffix else Extra.TN_nnic_transcript_suffix)) /\
  (forall chr n, novel_gene_id chr n = Extra.TN_novel_gene_prefix ++ chr ++ 95 :: print_dec n).
Proof. exact (naming_constants_bridge Extra.TN_transcript_prefix Extra.TN_novel_gene_prefix Extra.TN_nic_transcript_suffix Extra.TN_nnic_transcript_suffix
                eq_refl eq_refl eq_refl eq_refl). Qed.
Print Assumptions C17_naming_constants_are_the_sources.

(* ================================================================== round 3: ids across chromosomes *)
(* Every chromosome has its own worker: FeatureIdStorage(SimpleIDDistributor(), genedb, chr_id) and ExcludingIdDistributor(genedb,
   chr_id) read the reference features of THEIR chromosome only.  Generated ids of different chromosomes never collide, for any
   chromosome names (C17_*_injective above: "chr1" / "chr1.2" / "1_2" are all harmless, the number is the last resp. first field
   and a decimal numeral contains neither '.' nor '_').  What remains is a generated id against a reference id that sits on
   ANOTHER chromosome, which the worker never sees. *)
From IQ Require Import IdsMulti.

(* every exon id a chromosome's storage returns is an exon_id attribute of the reference on that chromosome or <chr of the key>.<n> *)
Theorem C17_returned_exon_id_origin : forall chr fs ks j k v, nth_error ks j = Some k ->
  nth_error (snd (run get_id (init_store chr fs) ks)) j = Some v ->
  In v (ref_ids fs) \/ exists n, 0 < n /\ v = exon_id (key_chr k) n.
Proof. exact returned_exon_id_origin. Qed.
Print Assumptions C17_returned_exon_id_origin.

(* exon ids issued on different chromosomes never coincide, provided (cross_clean) the reference itself does not repeat an exon_id
   on the two chromosomes and no exon_id found on one of them is <the other chromosome>.<n>.  Nothing is asked of the names. *)
Theorem C17_exon_ids_across_chromosomes : forall c1 c2 fs1 fs2 ks1 ks2 i j k1 k2 v,
  c1 <> c2 -> cross_clean c1 c2 fs1 fs2 ->
  nth_error ks1 i = Some k1 -> key_chr k1 = c1 -> nth_error ks2 j = Some k2 -> key_chr k2 = c2 ->
  nth_error (snd (run get_id (init_store c1 fs1) ks1)) i = Some v ->
  nth_error (snd (run get_id (init_store c2 fs2) ks2)) j = Some v -> False.
Proof. exact exon_ids_across_chromosomes. Qed.
Print Assumptions C17_exon_ids_across_chromosomes.
(* cross_clean holds: without exon_id attributes; for an annotation written by IsoQuant (every exon_id on c is c.<n>); for foreign
   ids (ENSE...) that the reference does not repeat across the two chromosomes *)
Theorem C17_cross_clean_cases : forall c1 c2 fs1 fs2,
  (ref_ids fs1 = [] -> ref_ids fs2 = [] -> cross_clean c1 c2 fs1 fs2) /\
  (c1 <> c2 -> isoquant_made c1 fs1 -> isoquant_made c2 fs2 -> cross_clean c1 c2 fs1 fs2) /\
  (no_generated_shape fs1 -> no_generated_shape fs2 -> (forall v, In v (ref_ids fs1) -> In v (ref_ids fs2) -> False) -> cross_clean c1 c2 fs1 fs2).
Proof. intros c1 c2 fs1 fs2. split; [apply exon_ids_across_chromosomes_no_reference_ids|].
  split; [apply exon_ids_across_chromosomes_isoquant_made|apply exon_ids_across_chromosomes_foreign_ids]. Qed.
Print Assumptions C17_cross_clean_cases.
(* both halves of cross_clean are needed: a reference that gives an exon of chrA the id "chrB.1" (injective per chromosome, no id
   shared between the chromosomes) makes the worker of chrB issue chrB.1 for its first new exon; a reference that repeats ENSE7 on
   chrA and chrB keeps both *)
Theorem C17_exon_ids_across_chromosomes_without_cross_clean_refuted :
  let fsA := [(100, 200, plus, Some (exon_id chrB 1))] in let fsB := [(500, 600, plus, Some ENSE7)] in
  ref_injective fsA /\ ref_injective fsB /\ (forall v, In v (ref_ids fsA) -> In v (ref_ids fsB) -> False) /\
  snd (run get_id (init_store chrA fsA) [(chrA, 100, 200, plus)]) = [exon_id chrB 1] /\
  snd (run get_id (init_store chrB fsB) [(chrB, 700, 800, plus)]) = [exon_id chrB 1].
Proof. exact exon_ids_cross_chromosome_refuted. Qed.
Example C17_exon_ids_shared_reference_id_refuted :
  snd (run get_id (init_store chrA [(100, 200, plus, Some ENSE7)]) [(chrA, 100, 200, plus)]) = [ENSE7] /\
  snd (run get_id (init_store chrB [(100, 200, plus, Some ENSE7)]) [(chrB, 100, 200, plus)]) = [ENSE7].
Proof. exact exon_ids_shared_reference_id_refuted. Qed.
(* chromosome "chr1" issues the id "chr1.2", which is the NAME of chromosome "chr1.2" — whose ids are "chr1.2.1", "chr1.2.2", ... *)
Example C17_dotted_chromosome_names_example :
  snd (run get_id (init_store chr1 []) [(chr1, 10, 20, plus); (chr1, 30, 40, plus); (chr1, 50, 60, plus)]) = [exon_id chr1 1; exon_id chr1 2; exon_id chr1 3] /\
  snd (run get_id (init_store chr1_2 []) [(chr1_2, 10, 20, plus); (chr1_2, 30, 40, plus)]) = [exon_id chr1_2 1; exon_id chr1_2 2] /\
  exon_id chr1 2 = chr1_2 /\ exon_id chr1_2 1 = [99;104;114;49;46;50;46;49] /\ cross_clean chr1 chr1_2 [] [].
Proof. exact dotted_chromosome_names. Qed.

(* transcript and gene ids: an id built from a number issued on chromosome c occurs NOWHERE in the reference — on c because the
   number is forbidden there, on the other chromosomes because ids of the generated shape sit on the chromosome they name
   (home_ok; true of every annotation IsoQuant writes and of every annotation without such ids) *)
Theorem C17_novel_ids_not_in_whole_reference : forall (ref:list (str * (list str * list str))) c genes transcripts v k x s,
  NoDup (map fst ref) -> home_ok ref -> In (c, (genes, transcripts)) ref -> 0 <= v ->
  In x (issue (forbidden_ids genes transcripts) v k) ->
  forall c' g' t', In (c', (g', t')) ref -> ~ In (transcript_id x c s) t' /\ ~ In (novel_gene_id c x) g'.
Proof. exact novel_ids_not_in_whole_reference. Qed.
Print Assumptions C17_novel_ids_not_in_whole_reference.
(* without home_ok: "transcript1.chrB.nic" and "novel_gene_chrB_2" annotated on chrA; the distributor of chrB forbids nothing and
   issues 1, 2 (the distributor of chrA, which needs neither, forbids both) *)
Theorem C17_novel_ids_without_home_ok_refuted :
  let ref : list (str * (list str * list str)) := [(chrA, ([novel_gene_id chrB 2], [transcript_id 1 chrB true])); (chrB, ([], [ENST1]))] in
  NoDup (map fst ref) /\ issue (forbidden_ids [] [ENST1]) 0 2 = [1; 2] /\
  In (transcript_id 1 chrB true) [transcript_id 1 chrB true] /\ In (novel_gene_id chrB 2) [novel_gene_id chrB 2] /\
  forbidden_ids [novel_gene_id chrB 2] [transcript_id 1 chrB true] = [2; 1].
Proof. exact novel_ids_cross_chromosome_refuted. Qed.

(* the ids of a whole output file, all chromosomes (this is the hypothesis of C03_transcript_ids_once_per_file): reference
   transcript ids + the novel transcript ids of every chromosome are pairwise distinct; novel gene ids are pairwise distinct and
   none is a reference gene id.  A `world` lists, per chromosome, its reference gene / transcript ids and what model construction
   asks of its distributor (Ids.allocate), starting from 0 *)
Theorem C17_extended_file_ids_unique : forall (w:list (str * (list str * list str) * list alloc)),
  NoDup (map (fun e => fst (fst e)) w) -> home_ok (w_ref w) -> NoDup (ref_tids w) ->
  NoDup (ref_tids w ++ concat (map w_novel_tids w)) /\
  NoDup (concat (map w_novel_gids w)) /\ (forall g, In g (concat (map w_novel_gids w)) -> ~ In g (ref_gids w)).
Proof. exact extended_file_ids_unique. Qed.
Print Assumptions C17_extended_file_ids_unique.
Example C17_extended_file_ids_example :
  let w : list (str * (list str * list str) * list alloc) :=
      [(chrA, ([novel_gene_id chrA 2], [ENST1; transcript_id 1 chrA true]), [WithRefGene true; WithNovelGene false]);
       (chrB, ([], [transcript_id 1 chrB false]), [WithNovelGene true])] in
  home_ok (w_ref w) /\ NoDup (map (fun e => fst (fst e)) w) /\ NoDup (ref_tids w) /\
  concat (map w_novel_tids w) = [transcript_id 3 chrA true; transcript_id 4 chrA false; transcript_id 2 chrB true] /\
  concat (map w_novel_gids w) = [novel_gene_id chrA 5; novel_gene_id chrB 3].
Proof. exact extended_file_ids_example. Qed.
