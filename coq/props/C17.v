(* C17 — identifiers in the outputs are unique, collision-free and functional.
   Property theorems only; the model and the proofs live in Ids.v (strings are lists of byte values). *)
From Coq Require Import ZArith List Bool Sorted.
From IQ Require Import Ids.
Import ListNotations. Open Scope Z_scope.

(* ExcludingIdDistributor: whatever the forbidden set and the starting value, the numbers issued by successive increment()
   calls are strictly increasing, above the starting value and never forbidden *)
Theorem C17_excluding_increment_fresh : forall forb v n,
  StronglySorted Z.lt (issue forb v n) /\ Forall (fun x => v < x /\ ~ In x forb) (issue forb v n).
Proof. exact excluding_increment_fresh. Qed.
Print Assumptions C17_excluding_increment_fresh.

Theorem C17_issued_numbers_distinct : forall forb v n, NoDup (issue forb v n).
Proof. exact issued_numbers_distinct. Qed.
Print Assumptions C17_issued_numbers_distinct.

(* int("%d" % n) = n: the parse of the forbidden numbers inverts the printing of the issued ones *)
Theorem C17_parse_print_roundtrip : forall n, 0 <= n -> py_int (print_dec n) = Some n.
Proof. exact py_int_print_dec. Qed.
Print Assumptions C17_parse_print_roundtrip.

(* the id constructors are injective for every chromosome name (dots, underscores and digits in it included) *)
Theorem C17_transcript_id_injective : forall n c s n' c' s', 0 <= n -> 0 <= n' ->
  transcript_id n c s = transcript_id n' c' s' -> n = n' /\ c = c' /\ s = s'.
Proof. exact transcript_id_inj. Qed.
Print Assumptions C17_transcript_id_injective.
Theorem C17_novel_gene_id_injective : forall c n c' n', 0 <= n -> 0 <= n' -> novel_gene_id c n = novel_gene_id c' n' -> c = c' /\ n = n'.
Proof. exact novel_gene_id_inj. Qed.
Print Assumptions C17_novel_gene_id_injective.
Theorem C17_exon_id_constructor_injective : forall c n c' n', 0 <= n -> 0 <= n' -> exon_id c n = exon_id c' n' -> c = c' /\ n = n'.
Proof. exact exon_id_inj. Qed.
Print Assumptions C17_exon_id_constructor_injective.

(* string level: an id built from an issued number is not among the gene / transcript ids of the reference on that chromosome,
   whatever those ids are (an annotation written by an earlier IsoQuant run included) *)
Theorem C17_novel_id_not_in_reference : forall genes transcripts v k x c s, 0 <= v ->
  In x (issue (forbidden_ids genes transcripts) v k) ->
  ~ In (transcript_id x c s) transcripts /\ ~ In (novel_gene_id c x) genes.
Proof. exact novel_id_not_in_reference. Qed.
Print Assumptions C17_novel_id_not_in_reference.

(* the way construct_fl_isoforms / generate_monoexon_from_clustered draw numbers (one per path, one more for a new gene):
   ids of one chromosome are pairwise distinct and none is a reference id *)
Theorem C17_allocated_ids_distinct : forall forb chr l v, 0 <= v ->
  NoDup (out_tids (snd (allocate forb chr v l))) /\ NoDup (out_gids (snd (allocate forb chr v l))).
Proof. exact allocated_ids_distinct. Qed.
Print Assumptions C17_allocated_ids_distinct.
Theorem C17_allocated_ids_not_in_reference : forall genes transcripts chr l v, 0 <= v ->
  let r := snd (allocate (forbidden_ids genes transcripts) chr v l) in
  (forall t, In t (out_tids r) -> ~ In t transcripts) /\ (forall g, In g (out_gids r) -> ~ In g genes).
Proof. exact allocated_ids_not_in_reference. Qed.
Print Assumptions C17_allocated_ids_not_in_reference.

(* per file: chromosomes are processed with separate distributors; distinct numbers per chromosome and the chromosome name
   in the id make the ids of the merged file pairwise distinct *)
Theorem C17_ids_unique_per_file : forall per_chr : list (str * list (Z * bool)),
  NoDup (map fst per_chr) ->
  Forall (fun c => NoDup (map fst (snd c)) /\ Forall (fun p => 0 <= fst p) (snd c)) per_chr ->
  NoDup (concat (map chr_transcript_ids per_chr)).
Proof. exact transcript_ids_unique_per_file. Qed.
Print Assumptions C17_ids_unique_per_file.
Theorem C17_gene_ids_unique_per_file : forall per_chr : list (str * list Z),
  NoDup (map fst per_chr) -> Forall (fun c => NoDup (snd c) /\ Forall (fun n => 0 <= n) (snd c)) per_chr ->
  NoDup (concat (map chr_gene_ids per_chr)).
Proof. exact gene_ids_unique_per_file. Qed.
Print Assumptions C17_gene_ids_unique_per_file.

(* FeatureIdStorage.get_id (repaired): for every store and every call sequence equal keys get equal ids *)
Theorem C17_exon_id_functional : forall s ks i j k,
  nth_error ks i = Some k -> nth_error ks j = Some k ->
  nth_error (snd (run get_id s ks)) i = nth_error (snd (run get_id s ks)) j.
Proof. exact exon_id_functional. Qed.
Print Assumptions C17_exon_id_functional.

(* ... and distinct keys get distinct ids, the ids pre-loaded from the reference included, provided the reference's own
   exon_id attribute does not already repeat an id on different exons *)
Theorem C17_exon_id_injective : forall chr fs ks i j ki kj v, ref_injective fs ->
  nth_error ks i = Some ki -> nth_error ks j = Some kj ->
  nth_error (snd (run get_id (init_store chr fs) ks)) i = Some v ->
  nth_error (snd (run get_id (init_store chr fs) ks)) j = Some v -> ki = kj.
Proof. intros chr fs ks i j ki kj v R. apply exon_id_injective. apply init_store_inv. exact R. Qed.
Print Assumptions C17_exon_id_injective.

(* exon ids present in the reference are preserved: the stored id is returned for every later query of that exon ... *)
Theorem C17_reference_exon_ids_preserved : forall chr fs ks k v j,
  lookup k (dict (init_store chr fs)) = Some v -> nth_error ks j = Some k ->
  nth_error (snd (run get_id (init_store chr fs) ks)) j = Some v.
Proof. exact reference_exon_ids_preserved. Qed.
Print Assumptions C17_reference_exon_ids_preserved.
(* ... and when exon_id is a function of the exon in the reference, that is the id every reference exon line carries *)
Theorem C17_reference_exon_ids_preserved_functional : forall chr fs ks st en sd v j, ref_functional fs ->
  In (st, en, sd, Some v) fs -> nth_error ks j = Some (chr, st, en, sd) ->
  nth_error (snd (run get_id (init_store chr fs) ks)) j = Some v.
Proof. exact reference_exon_ids_preserved_functional. Qed.
Print Assumptions C17_reference_exon_ids_preserved_functional.

(* the code before the repairs *)
Theorem C17_exon_id_functional_unrepaired_refuted : ~ functional get_id_cur.
Proof. exact exon_id_functional_cur_refuted. Qed.
Theorem C17_exon_id_injective_without_exclusion_refuted :
  let s := init_store chr9 [(100, 200, plus, Some (exon_id chr9 1))] in
  ref_injective [(100, 200, plus, Some (exon_id chr9 1))] /\
  snd (run get_id_noexcl s [(chr9,100,200,plus); (chr9,300,400,plus)]) = [exon_id chr9 1; exon_id chr9 1] /\
  snd (run get_id s [(chr9,100,200,plus); (chr9,300,400,plus)]) = [exon_id chr9 1; exon_id chr9 2].
Proof. exact exon_id_injective_noexcl_refuted. Qed.

(* non-vacuity: "transcript12.chr9.nnic", "novel_gene_chr9_13", "chr9.7"; a reference with transcript1 and novel_gene_chr9_2 makes 1 and 2 forbidden *)
Example C17_format_examples :
  transcript_id 12 chr9 false = [116;114;97;110;115;99;114;105;112;116;49;50;46;99;104;114;57;46;110;110;105;99] /\
  novel_gene_id chr9 13 = [110;111;118;101;108;95;103;101;110;101;95;99;104;114;57;95;49;51] /\
  exon_id chr9 7 = [99;104;114;57;46;55] /\
  issue (forbidden_ids [novel_gene_id chr9 2] [transcript_id 1 chr9 true]) 0 3 = [3; 4; 5].
Proof. vm_compute. repeat split; reflexivity. Qed.

(* ---- tie to the source.  gen/Extra.v is regenerated from src/common.py on every check (tools/translate_extra.py); the model's
        naming constants are those of TranscriptNaming (the four eq_refl are checked by conversion: an edit of a constant in the
        source is reported against this theorem), so the two id formats are built from the source's constants *)
From IQ.gen Require Extra.
From IQ Require Import IdsBridge.
Theorem C17_naming_constants_are_the_sources :
  transcript_prefix = Extra.TN_transcript_prefix /\ novel_gene_prefix = Extra.TN_novel_gene_prefix /\
  nic_suffix = Extra.TN_nic_transcript_suffix /\ nnic_suffix = Extra.TN_nnic_transcript_suffix /\
  (forall n chr is_nic, transcript_id n chr is_nic =
     Extra.TN_transcript_prefix ++ print_dec n ++ 46 :: chr ++ (if is_nic then Extra.TN_nic_transcript_suffix else Extra.TN_nnic_transcript_suffix)) /\
  (forall chr n, novel_gene_id chr n = Extra.TN_novel_gene_prefix ++ chr ++ 95 :: print_dec n).
Proof. exact (naming_constants_bridge Extra.TN_transcript_prefix Extra.TN_novel_gene_prefix Extra.TN_nic_transcript_suffix Extra.TN_nnic_transcript_suffix
                eq_refl eq_refl eq_refl eq_refl). Qed.
Print Assumptions C17_naming_constants_are_the_sources.
