(* C18 — strand and canonical-site flags are pure functions of the reference sequence.
   Property theorems only; the model and the proofs live in Canon.v (bases are byte values, the stored window is explicit). *)
From Coq Require Import ZArith List Bool.
From IQ Require Import Ids Canon.
Import ListNotations. Open Scope Z_scope.

(* inside the stored window the test of one intron reads the reference's own bases: it is true iff the upper-cased
   dinucleotide pair (first two, last two bases of the intron) is in the site set of that strand *)
Theorem C18_canonical_pure_spec : forall ref w st i, covers ref w -> inside w i ->
  (canonical_on w st i = true <->
   In ([upper (ref (fst i)); upper (ref (fst i + 1))], [upper (ref (snd i - 1)); upper (ref (snd i))]) (sites st)).
Proof. intros ref w st i C I. rewrite (canonical_pure_spec ref w st i C I). apply canonical_ref_iff. Qed.
Print Assumptions C18_canonical_pure_spec.

(* the reverse-strand set is the forward set read on the other strand *)
Theorem C18_rev_sites_generated : rev_sites = map mirror fwd_sites /\ forall p, in_sites rev_sites p = in_sites fwd_sites (mirror p).
Proof. split; [exact rev_sites_generated|exact rev_strand_is_mirror]. Qed.
Print Assumptions C18_rev_sites_generated.

(* check_sites_are_canonical with its per-locus memo (repaired: keyed by intron and strand): for every history of queries,
   on either strand, each answer is the conjunction of the pure test over the queried introns *)
Theorem C18_memo_history_independent : forall w qs,
  snd (run_queries w [] qs) = map (fun q => forallb (canonical_on w (fst q)) (snd q)) qs.
Proof. intros w qs. apply memo_history_independent. apply sound_nil. Qed.
Print Assumptions C18_memo_history_independent.
Theorem C18_memo_history_independent_any_state : forall w qs m, sound w m ->
  snd (run_queries w m qs) = map (fun q => forallb (canonical_on w (fst q)) (snd q)) qs.
Proof. exact memo_history_independent. Qed.
Print Assumptions C18_memo_history_independent_any_state.

(* the printed flags: Unspliced without introns, otherwise the conjunction, whatever was processed before *)
Theorem C18_model_flag_spec : forall w m st exons, wseq w <> [] -> sound w m ->
  snd (model_flag w m None st exons) = Some (flag_spec w st exons) /\ sound w (fst (model_flag w m None st exons)).
Proof. exact model_flag_spec. Qed.
Print Assumptions C18_model_flag_spec.
Theorem C18_read_flag_spec : forall w m st exons, wseq w <> [] -> sound w m ->
  snd (read_flag w m st exons) = Some (flag_spec w st exons) /\ sound w (fst (read_flag w m st exons)).
Proof. exact read_flag_spec. Qed.
Print Assumptions C18_read_flag_spec.
Theorem C18_unspliced_flag : forall w st e, flag_spec w st [e] = Unspliced.
Proof. exact unspliced_flag. Qed.
Print Assumptions C18_unspliced_flag.

(* splice-site strand of one intron: '+' iff canonical on '+', '-' iff canonical on '-' (the sets are disjoint) *)
Theorem C18_intron_strand_spec : forall w i,
  (get_intron_strand w i = Plus <-> canonical_on w Plus i = true) /\ (get_intron_strand w i = Minus <-> canonical_on w Minus i = true).
Proof. exact intron_strand_spec. Qed.
Print Assumptions C18_intron_strand_spec.

(* StrandDetector with its memo, pre-seeded from the annotation (d0): for every history the answers are pure functions of the
   evidence (annotated strand of the intron if it has a single one, else its splice sites in the reference) *)
Theorem C18_detector_history_independent : forall w d0 d l pa pt, good w d0 d ->
  snd (detector_get_strand w d l pa pt) = (let '(f, r) := tally w d0 l in decide_strand f r pa pt) /\
  snd (detector_get_clean_strand w d l) = (let '(f, r) := tally w d0 l in decide_clean f r) /\
  good w d0 (fst (detector_get_strand w d l pa pt)) /\ good w d0 (fst (detector_get_clean_strand w d l)).
Proof. exact detector_history_independent. Qed.
Print Assumptions C18_detector_history_independent.

(* the decision agrees with the splice sites, ties are broken by an unopposed polyA / polyT tail, and the result is never a
   strand that all available evidence contradicts *)
Theorem C18_strand_agrees_with_sites : forall f r pa pt, 0 <= f -> 0 <= r ->
  match decide_strand f r pa pt with
  | Plus => (r < f \/ (f = r /\ pa = true /\ pt = false)) /\ (0 < f \/ pa = true)
  | Minus => (f < r \/ (f = r /\ pt = true /\ pa = false)) /\ (0 < r \/ pt = true)
  | Dot => f = r /\ pa = pt
  end.
Proof. exact strand_agrees_with_sites. Qed.
Print Assumptions C18_strand_agrees_with_sites.
Theorem C18_clean_strand_spec : forall f r, 0 <= f -> 0 <= r ->
  match decide_clean f r with Plus => 0 < f /\ r = 0 | Minus => f = 0 /\ 0 < r | Dot => (f = 0 /\ r = 0) \/ (0 < f /\ 0 < r) end.
Proof. exact clean_strand_spec. Qed.
Print Assumptions C18_clean_strand_spec.

(* construct_fl_isoforms: under only_stranded / only_canonical a reported novel model in a new gene has a strand *)
Theorem C18_reported_novel_has_strand : forall w pr g forb chr s p st tid id nic, report_level pr <> ReportAll ->
  snd (fl_step w pr g forb chr s p) = Novel st tid (NovelGene id) nic -> st <> Dot.
Proof. exact reported_novel_has_strand. Qed.
Print Assumptions C18_reported_novel_has_strand.

(* satisfiable hypotheses and the explicit exceptions *)
Example C18_canonical_example : covers ref_ex whole_ex /\ canonical_on whole_ex Plus (5, 14) = true /\ canonical_on whole_ex Minus (5, 14) = false /\ inside whole_ex (5, 14).
Proof. split; [exact whole_ex_covers|exact canonical_example]. Qed.
(* the memo of the unrepaired code (keyed by the intron only) makes the answer depend on the history *)
Example C18_memo_unrepaired_refuted :
  snd (check_sites_cur whole_ex (fst (check_sites_cur whole_ex [] Minus [(5, 14)])) Plus [(5, 14)]) = false /\
  snd (check_sites_cur whole_ex [] Plus [(5, 14)]) = true /\
  snd (run_queries whole_ex [] [(Minus, [(5, 14)]); (Plus, [(5, 14)])]) = [false; true].
Proof. exact memo_history_dependent_cur_refuted. Qed.
(* the unrepaired test does not upper-case: a soft-masked gt..ag intron was reported non-canonical *)
Example C18_lower_case_unrepaired_refuted :
  let w := {| wstart := 1; wseq := map (fun c => c + 32) text_ex |} in
  canonical_on_raw w Plus (5, 14) = false /\ canonical_on w Plus (5, 14) = true /\ get_intron_strand w (5, 14) = Plus.
Proof. exact lower_case_raw_refuted. Qed.
(* an intron outside the stored window (known finding C18:intron-outside-window): the flag is not the reference's *)
Example C18_outside_window_refuted :
  covers ref_ex late_ex /\
  canonical_ref ref_ex Plus (5, 14) = true /\ canonical_on late_ex Plus (5, 14) = false /\ ~ inside late_ex (5, 14) /\
  canonical_ref ref_ex Plus (6, 14) = false /\ canonical_on late_ex Plus (6, 14) = true.
Proof. split; [exact late_ex_covers|exact outside_window_refuted]. Qed.
(* ... which is how a reloaded GeneInfo behaved before fixes/C18_serialize_read_region.diff: the save file kept the gene region only and the
   loader cut the window for it.  With the stage-1 window (gene region + region and spans of the reads) stored in the gene header
   (CanonReload.v: reloaded_window true = that window; in_read_region = inside it) the restriction disappears: for EVERY intron inside the stored
   window - i.e. every intron of every read of the group, of every model built from them and of every annotated transcript of the genes - the
   test reads the chromosome's own bases, and the printed flags of reads and models are flag_ref of the chromosome, whatever was processed before *)
From IQ Require Import CanonSpec CanonReload.
Theorem C18_canonical_reloaded : forall text g st i, region_valid text g -> in_read_region g i ->
  canonical_on (reloaded_window true text g) st i = canonical_ref (ref_of text) st i.
Proof. exact canonical_reloaded. Qed.
Print Assumptions C18_canonical_reloaded.
Theorem C18_flag_spec_reloaded : forall text g m st exons, region_valid text g -> Forall (in_read_region g) (jfb exons) ->
  sound (reloaded_window true text g) m ->
  snd (read_flag (reloaded_window true text g) m st exons) = Some (flag_ref text st exons) /\
  snd (model_flag (reloaded_window true text g) m None st exons) = Some (flag_ref text st exons).
Proof. exact flag_spec_reloaded. Qed.
Print Assumptions C18_flag_spec_reloaded.
(* the two reloads on the example above: genes at 10..30, a read from 1 to 30 with the GT..AG intron 5..14; the unrepaired reload is late_ex *)
Example C18_reload_example :
  region_valid text_ex saved_ex /\ in_read_region saved_ex (5, 14) /\
  reloaded_window false text_ex saved_ex = late_ex /\
  canonical_ref (ref_of text_ex) Plus (5, 14) = true /\
  canonical_on (reloaded_window false text_ex saved_ex) Plus (5, 14) = false /\
  canonical_on (reloaded_window true text_ex saved_ex) Plus (5, 14) = true.
Proof. exact reload_example. Qed.
(* --report_canonical all: strand '.' is possible (see C04) *)
Example C18_dot_strand_report_all :
  let w := {| wstart := 1; wseq := [65;65;65;65;65;65;65;65;65;65;65;65;65;65;65;65;65;65] |} in
  let pr := {| min_novel_count := 1; min_known_count := 1; require_monointronic_polya := false; report_level := ReportAll |} in
  let g := {| g_empty := true; g_intron_genes := []; g_strands := []; g_known_introns := [] |} in
  let p := {| p_count := 5; p_polyt := false; p_polya := false; p_introns := [(3,6);(9,12)]; p_matching := false; p_in_known := false |} in
  match snd (fl_step w pr g [] [99] (0, []) p) with Novel Dot _ _ _ => True | _ => False end.
Proof. exact dot_strand_report_all. Qed.

(* ---- tie to the source.  gen/Extra.v is regenerated from src/common.py on every check (tools/translate_extra.py); the model's
        site sets are CANONICAL_FWD_SITES / CANONICAL_REV_SITES of the source, pair by pair in the order of the set literals (the two
        eq_refl are checked by conversion: an edit of the source's sets is reported against this theorem), so the lookup table of
        `sites`, the mirror-image relation and the disjointness of the two sets hold of the source's sets *)
From IQ.gen Require Extra.
From IQ Require Import CanonBridge.
Theorem C18_site_sets_are_the_sources :
  Canon.fwd_sites = Extra.CANONICAL_FWD_SITES /\ Canon.rev_sites = Extra.CANONICAL_REV_SITES /\
  (forall st, sites st = match st with Plus => Extra.CANONICAL_FWD_SITES | _ => Extra.CANONICAL_REV_SITES end) /\
  Extra.CANONICAL_REV_SITES = map mirror Extra.CANONICAL_FWD_SITES /\
  (forall p, In p Extra.CANONICAL_FWD_SITES -> In p Extra.CANONICAL_REV_SITES -> False).
Proof. exact (site_sets_bridge Extra.CANONICAL_FWD_SITES Extra.CANONICAL_REV_SITES eq_refl eq_refl). Qed.
Print Assumptions C18_site_sets_are_the_sources.
