(* C12 — equivalent representations of the same input give identical results.
   Property theorems only.  Models: KMerge.v (BAMOnlineMerger as "smallest head by (start, end), lowest file index among
   equals"; tie equivalence), Regions.v (`process`: the clustering of AlignmentCollector.process), Cache.v (the cache-hit
   predicate of find_converted_db, shared with C20).  The gffutils half of the property (GTF = .gtf.gz = .db, with or
   without --complete_genedb) is differential only: harness/props/c12.py. *)
From Coq Require Import ZArith List Bool Permutation Sorted.
From IQ Require Import CorrSupport Regions KMerge Cache CacheProofs.
Import ListNotations. Open Scope Z_scope.

(* For ALL partitions of a record list into k files the stream the merger produces is a permutation of the union.
   A coordinate-sorted BAM is sorted by reference_start only; if list and files are sorted by start, the stream is sorted
   by start and is the list up to exchanges of neighbours with one start.  If they are sorted by (start, end), the stream
   is sorted by (start, end), is the list up to exchanges of neighbours with equal (start, end), and shows the same
   (start, end) at every position. *)
Theorem C12_merge_is_sorted_permutation : forall l fs, Permutation l (concat fs) ->
  Permutation l (kmerge fs) /\
  (StronglySorted sleP l -> all_sorted_s fs ->
     StronglySorted sleP (kmerge fs) /\ tie_equiv same_start l (kmerge fs) /\ map rs (kmerge fs) = map rs l) /\
  (StronglySorted kleP l -> all_sorted fs ->
     StronglySorted kleP (kmerge fs) /\ tie_equiv same_key l (kmerge fs) /\ map key (kmerge fs) = map key l).
Proof. exact merge_is_sorted_permutation. Qed.
Print Assumptions C12_merge_is_sorted_permutation.

(* The clusters formed by AlignmentCollector.process are, one by one, the same multisets of alignments whatever the order
   among records with one start - hence whatever the order inside (start, end) ties (every alignment covers at least one
   reference base). *)
Theorem C12_clusters_invariant_under_tie_order : forall l m,
  StronglySorted sleP l -> StronglySorted sleP m -> Permutation l m -> Forall positive l ->
  Forall2 (@Permutation (Z * Z * Z)) (process l) (process m).
Proof. exact clusters_invariant_under_tie_order. Qed.
Print Assumptions C12_clusters_invariant_under_tie_order.

(* One BAM or several: any two distributions of the same records over coordinate-sorted files give the same clusters. *)
Theorem C12_split_over_files_same_clusters : forall fs1 fs2,
  all_sorted_s fs1 -> all_sorted_s fs2 -> Permutation (concat fs1) (concat fs2) -> Forall positive (concat fs1) ->
  Forall2 (@Permutation (Z * Z * Z)) (process (kmerge fs1)) (process (kmerge fs2)).
Proof. exact split_over_files_same_clusters. Qed.
Print Assumptions C12_split_over_files_same_clusters.

(* the hypotheses are satisfiable, with a tie across files *)
Example C12_split_example :
  let one := [[(10, 20, 1); (10, 20, 2); (15, 30, 3); (40, 50, 4)]] in
  let two := [[(10, 20, 2); (40, 50, 4)]; [(10, 20, 1); (15, 30, 3)]] in
  kmerge one = [(10, 20, 1); (10, 20, 2); (15, 30, 3); (40, 50, 4)] /\
  kmerge two = [(10, 20, 2); (10, 20, 1); (15, 30, 3); (40, 50, 4)] /\
  process (kmerge one) = [[(10, 20, 1); (10, 20, 2); (15, 30, 3)]; [(40, 50, 4)]] /\
  process (kmerge two) = [[(10, 20, 2); (10, 20, 1); (15, 30, 3)]; [(40, 50, 4)]].
Proof. vm_compute. repeat split; reflexivity. Qed.
(* zero-length alignments (never produced by an aligner) are the boundary of the theorem *)
Example C12_clusters_need_positive_length_refuted :
  process [(5, 5, 1); (5, 5, 2)] = [[(5, 5, 1)]; [(5, 5, 2)]] /\ process [(5, 5, 2); (5, 5, 1)] = [[(5, 5, 2)]; [(5, 5, 1)]].
Proof. exact clusters_need_positive_length_refuted. Qed.

(* A stored database is reused exactly when the entry under this annotation path names it, annotation and database
   exist with the recorded modification times, and the recorded completeness flag is the one asked for. *)
Theorem C12_cache_hit_sound : forall d g c fs r,
  find_converted_db d g c fs = Ok (Some r) <->
  exists e sg sr, dget d g = Some e /\ e_genedb e = Some r /\
                  fs g = Some sg /\ e_gtf_mtime e = Some (f_mtime sg) /\
                  fs r = Some sr /\ e_db_mtime e = Some (f_mtime sr) /\
                  e_complete e = Some c.
Proof. exact cache_hit_sound. Qed.
Print Assumptions C12_cache_hit_sound.
