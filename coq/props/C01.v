(* C01 - reads that follow an annotated isoform are assigned to compatible isoforms only; reads far from every isoform never
   get a consistent type.  Property theorems only (proofs: Assigner.v, JunctionsProofs.v, JunctionsTyping.v).
   Level: PROOF for the decision layers (classification over the regenerated tables, presets, both phases of the junction
   comparator); the end-to-end statement C01_statement is kept below and is PARTIAL: it is decided, case by case, by Coq
   evaluating `assignment_ok` on the read_assignments.tsv of real runs over generated annotations and reads. *)
From Coq Require Import ZArith QArith List Bool.
From IQ.gen Require Import Tables Prims.
From IQ Require Import CorrSupport Intervals Junctions JunctionsProofs JunctionsTyping JunctionsCorrector Assigner AssignerEnds AssignerPath AssignerMatch AssignerMatchProofs AssignerMatchGeom.
Require IQ.Corrector.
Import ListNotations. Open Scope Z_scope.

(* ================================================================ the end-to-end statement (partial) *)
(* `pipeline n ann read` stands for what IsoQuant reports (assignment type, isoform ids) for a read aligned with exons `read` against
   the annotation `ann` under matching strategy `n`; `assignment_ok` (Assigner.v) is the decidable, implementation-independent
   specification: a read that follows its source isoform within the tolerances gets a consistent type, every reported isoform is
   `compatible`, the source is reported when the read is full-length and uniquely when nothing else is compatible; a read `far`
   from every isoform (all tolerances doubled) never gets a consistent type; everything in between is not judged. *)
Definition C01_statement (pipeline : MSN -> list isoform -> list iv -> RAT * list Z) : Prop :=
  forall (n:MSN) (ann:list isoform) (read:list iv) (source:option Z),
    let '(t, reported) := pipeline n ann read in
    assignment_ok (params_of (MS_preset n)) ann (mkRC read source t reported) = true.

(* ================================================================ (a) classification over the generated tables *)
Theorem C01_classify_consistent_iff : forall amb ev,
  type_consistent (classify amb ev) = true <->
  forallb ev_consistent ev = true \/ (existsb ev_major ev = false /\ existsb ev_minor ev = true).
Proof. exact classify_consistent_iff. Qed.
Print Assumptions C01_classify_consistent_iff.

Theorem C01_major_event_never_consistent : forall amb ev, existsb ev_major ev = true -> type_consistent (classify amb ev) = false.
Proof. exact major_event_never_consistent. Qed.
Print Assumptions C01_major_event_never_consistent.

Theorem C01_consistent_major_disjoint : forallb (fun x => negb (ev_consistent x && ev_major x)) MES_all = true.
Proof. exact consistent_major_disjoint. Qed.
Print Assumptions C01_consistent_major_disjoint.

Theorem C01_classes_disjoint_and_complete :
  forallb (fun x => negb (ev_consistent x && ev_minor x)) MES_all = true /\ forallb (fun x => negb (ev_minor x && ev_major x)) MES_all = true /\
  unclassified = [MES_undefined; MES_antisense; MES_aligned_polya_tail].
Proof. exact (conj consistent_minor_disjoint (conj minor_major_disjoint unclassified_are)). Qed.
Print Assumptions C01_classes_disjoint_and_complete.

Theorem C01_intronic_vs_non_intronic : forall ev, existsb ev_major ev = true ->
  (classify false ev = RAT_inconsistent <-> existsb ev_intronic ev = true) /\
  (classify false ev = RAT_inconsistent_non_intronic <-> existsb ev_intronic ev = false).
Proof. exact intronic_vs_non_intronic. Qed.
Print Assumptions C01_intronic_vs_non_intronic.

Theorem C01_intronic_is_major_minus_nonintronic :
  forallb (fun x => Bool.eqb (ev_intronic x) (ev_major x && negb (mem x MES_nonintronic_events))) MES_all = true.
Proof. exact intronic_is_major_minus_nonintronic. Qed.
Print Assumptions C01_intronic_is_major_minus_nonintronic.

(* the classes are the documented ones (docs/formats.md); every structural change named by the property is a major inconsistency *)
Theorem C01_event_classes_as_documented :
  same_set MES_is_consistent
    [MES_none_; MES_mono_exon_match; MES_fsm; MES_ism_left; MES_ism_right; MES_ism_internal; MES_mono_exonic;
     MES_terminal_site_match_left; MES_terminal_site_match_left_precise; MES_terminal_site_match_right; MES_terminal_site_match_right_precise;
     MES_correct_polya_site_left; MES_correct_polya_site_right] = true /\
  same_set MES_is_minor_error
    [MES_intron_shift; MES_exon_misalignment; MES_fake_terminal_exon_left; MES_fake_terminal_exon_right;
     MES_terminal_exon_misalignment_left; MES_terminal_exon_misalignment_right; MES_exon_elongation_left; MES_exon_elongation_right;
     MES_fake_micro_intron_retention] = true.
Proof. exact (conj consistent_as_documented minor_as_documented). Qed.
Print Assumptions C01_event_classes_as_documented.

Theorem C01_structural_changes_are_major : forallb ev_major
  [MES_intron_retention; MES_unspliced_intron_retention; MES_incomplete_intron_retention_left; MES_incomplete_intron_retention_right;
   MES_exon_skipping_known; MES_exon_skipping_novel; MES_exon_merge_known; MES_exon_merge_novel; MES_exon_gain_known; MES_exon_gain_novel;
   MES_exon_detach_known; MES_exon_detach_novel; MES_extra_intron_known; MES_extra_intron_novel; MES_extra_intron_flanking_left; MES_extra_intron_flanking_right;
   MES_alt_left_site_known; MES_alt_left_site_novel; MES_alt_right_site_known; MES_alt_right_site_novel;
   MES_intron_migration; MES_intron_alternation_known; MES_intron_alternation_novel; MES_mutually_exclusive_exons_known; MES_mutually_exclusive_exons_novel;
   MES_terminal_exon_shift_known; MES_terminal_exon_shift_novel; MES_alternative_structure_known; MES_alternative_structure_novel;
   MES_major_exon_elongation_left; MES_major_exon_elongation_right; MES_alternative_polya_site_left; MES_alternative_polya_site_right;
   MES_alternative_tss_left; MES_alternative_tss_right; MES_internal_polya_left; MES_internal_polya_right] = true.
Proof. exact structural_changes_are_major. Qed.
Print Assumptions C01_structural_changes_are_major.

(* cost range: defined (except antisense), in [0,1], zero for consistent events, >= 1/2 for major, in (0, 1/5] for minor errors *)
Theorem C01_cost_range :
  cost_ok (fun _ q => Qle_bool 0 q && Qle_bool q 1) = true /\
  forallb (fun x => match MES_cost x with Some _ => true | None => MES_eqb x MES_antisense end) MES_all = true /\
  cost_ok (fun x q => negb (ev_consistent x) || Qeq_bool q 0) = true /\
  cost_ok (fun x q => negb (ev_major x) || Qle_bool (1 # 2) q) = true /\
  cost_ok (fun x q => negb (ev_minor x) || (Qle_bool q (1 # 5) && negb (Qle_bool q 0))) = true.
Proof. exact (conj costs_in_unit_interval (conj costs_defined (conj consistent_cost_zero (conj major_cost_at_least_half minor_cost_positive_at_most_fifth)))). Qed.
Print Assumptions C01_cost_range.

Theorem C01_assignment_type_classes : RAT_is_consistent = [RAT_unique; RAT_unique_minor_difference; RAT_ambiguous] /\
  forallb (fun t => negb (rmem t RAT_is_consistent && rmem t RAT_is_inconsistent)) RAT_all = true /\
  forallb (fun t => implb (rmem t RAT_is_unique) (rmem t RAT_is_consistent)) RAT_all = true.
Proof. exact type_classes. Qed.
Print Assumptions C01_assignment_type_classes.

(* presets: the documented deltas and meaning of each strategy, sanity relations between the tolerances, monotone from exact to loose *)
Theorem C01_presets_as_documented : presets_documented = true.
Proof. exact presets_as_documented. Qed.
Print Assumptions C01_presets_as_documented.
Theorem C01_presets_sane : forallb (fun n => preset_sane (MS_preset n)) MSN_all = true /\
  msp_le MS_exact MS_precise && msp_le MS_precise MS_default && msp_le MS_default MS_loose = true.
Proof. exact (conj presets_sane presets_monotone). Qed.
Print Assumptions C01_presets_sane.

(* ================================================================ (b) the junction comparator *)
(* phase 1 on a read whose junctions are, within delta, a contiguous sub-chain of the isoform's (ends inside the flanking exons):
   every read junction is marked matched, nothing is marked contradictory, no contradictory pair is produced *)
Theorem C01_chain_phase1 : forall delta rreg ireg R II k, 0 <= delta -> R <> [] -> junctions_wf II = true -> chain_at delta rreg R II k = true ->
  phase1 delta rreg ireg R II =
  (map (fun _ => 1) R, map (fun _ => 0) (firstn k II) ++ map (fun _ => 1) R ++ map (fun _ => 0) (skipn (k + length R) II), []).
Proof. exact chain_phase1. Qed.
Print Assumptions C01_chain_phase1.

Theorem C01_chain_match_no_contradiction : forall P known rreg R ireg II, 0 <= p_delta P -> R <> [] -> junctions_wf II = true ->
  chain_match (p_delta P) rreg R II = true -> compare_junctions P known rreg R ireg II = [ev0 MES_none_].
Proof. exact chain_match_no_contradiction. Qed.
Print Assumptions C01_chain_match_no_contradiction.

(* ... and [none] is classified as a consistent assignment *)
Theorem C01_chain_match_consistent : forall P known rreg R ireg II amb, 0 <= p_delta P -> R <> [] -> junctions_wf II = true ->
  chain_match (p_delta P) rreg R II = true ->
  type_consistent (classify amb (map e_type (compare_junctions P known rreg R ireg II))) = true.
Proof. exact chain_match_consistent. Qed.
Print Assumptions C01_chain_match_consistent.

Theorem C01_unmatched_junction_marked : forall delta rreg ireg R II k r, 0 <= delta ->
  junctions_wf R = true -> junctions_wf II = true -> inside_region ireg II = true ->
  forallb (fun i => delta <=? py_interval_len i) II = true ->
  (II <> [] \/ py_overlaps ireg (hd (0,0) R) = true) ->
  nth_error R k = Some r -> py_overlaps ireg r = true -> existsb (fun i => py_equal_ranges i r delta) II = false ->
  nth k (fst (fst (phase1 delta rreg ireg R II))) 0 = -1.
Proof. exact unmatched_junction_marked. Qed.
Print Assumptions C01_unmatched_junction_marked.

Theorem C01_unmatched_junction_flagged : forall P known rreg R ireg II k r, 0 <= p_delta P -> lenz R < absent ->
  junctions_wf R = true -> junctions_wf II = true -> inside_region ireg II = true ->
  forallb (fun i => p_delta P <=? py_interval_len i) II = true ->
  (II <> [] \/ py_overlaps ireg (hd (0,0) R) = true) ->
  nth_error R k = Some r -> py_overlaps ireg r = true -> existsb (fun i => py_equal_ranges i r (p_delta P)) II = false ->
  nth k (fst (fst (phase1 (p_delta P) rreg ireg R II))) 0 = -1 /\
  covered (compare_junctions P known rreg R ireg II) (Z.of_nat k) = true /\
  exists e, In e (compare_junctions P known rreg R ireg II) /\
            fst (e_read e) <> absent /\ fst (e_read e) <= Z.of_nat k <= snd (e_read e) /\
            (ev_major (e_type e) = true \/ mem (e_type e) tolerance_types = true).
Proof. exact unmatched_junction_flagged. Qed.
Print Assumptions C01_unmatched_junction_flagged.

(* the seven tolerance branches, with the guards of the code: a contradictory area whose read part is present is typed as a major
   inconsistency unless (1) the extra introns are short enough to be a deletion, (2,3) the extra intron sits next to a short terminal
   exon, (4) one intron is shifted by at most max_intron_shift keeping its length, (5) short exons were skipped keeping the total
   length, (6,7) a terminal exon of similar length is misplaced *)
Theorem C01_type_pair_tolerances : forall P known rreg R ireg II ra rb ia ib e, ra <> absent ->
  type_pair P known rreg R ireg II ((ra, rb), (ia, ib)) = Some e ->
  ev_major (e_type e) = true \/
  (e_type e = MES_none_ /\ ia = absent /\ suspicious P rreg R ra rb = true /\ known (seg R ra rb) = false) \/
  (e_type e = MES_fake_terminal_exon_left /\ ia = absent /\ ra = 0 /\ py_interval_len (exon rreg R 0) <= p_max_fake_terminal_exon_len P /\
   known (seg R ra rb) = false) \/
  (e_type e = MES_fake_terminal_exon_right /\ ia = absent /\ rb = lenz R - 1 /\ py_interval_len (exon rreg R (lenz R)) <= p_max_fake_terminal_exon_len P /\
   known (seg R ra rb) = false) \/
  (e_type e = MES_intron_shift /\ rb = ra /\ ib = ia /\ Z.abs (fst (J II ia) - fst (J R ra)) <= p_max_intron_shift P /\
   similar_of P R II ra rb ia ib = true /\ surrounded_of rreg R ireg II ra rb ia ib = true) \/
  (e_type e = MES_exon_misalignment /\ rb = ra /\ ia < ib /\
   similar_of P R II ra rb ia ib = true /\ surrounded_of rreg R ireg II ra rb ia ib = true /\
   zsum (map (fun k => fst (J II (k + 1)) - snd (J II k) + 1) (zrange ia ib)) <= p_max_missed_exon_len P /\
   py_contains_approx (fst (J II ia), snd (J II ib)) (fst (J R ra), snd (J R rb)) (p_delta P) = true) \/
  (e_type e = MES_terminal_exon_misalignment_left /\ rb = ra /\ ib = ia /\ ra = 0 /\ ia = 0 /\
   1 < lenz R /\ Z.abs (snd (J R rb) - snd (J II ib)) <= 2 * p_delta P /\
   Z.abs (py_interval_len (exon rreg R 0) - py_interval_len (exon ireg II 0)) < 2 * p_delta P) \/
  (e_type e = MES_terminal_exon_misalignment_right /\ rb = ra /\ ib = ia /\ ra = lenz R - 1 /\ ia = lenz II - 1 /\
   1 < lenz R /\ Z.abs (fst (J R ra) - fst (J II ia)) <= 2 * p_delta P /\
   Z.abs (py_interval_len (exon rreg R (lenz R)) - py_interval_len (exon ireg II (lenz II))) < 2 * p_delta P).
Proof. exact type_pair_tolerances_strong. Qed.
Print Assumptions C01_type_pair_tolerances.

(* typed_event_wf: the regions of every event are in range - the hypothesis C14's corrector needs (Corrector.regions_ordered) *)
Theorem C01_typed_event_wf : forall P known rreg R ireg II, lenz R < absent -> lenz II < absent ->
  regions_ok (lenz R) (lenz II) (compare_junctions P known rreg R ireg II) = true /\
  Corrector.regions_ordered (compare_junctions P known rreg R ireg II) = true.
Proof. exact typed_event_wf. Qed.
Print Assumptions C01_typed_event_wf.

Theorem C01_phase1_pairs_wf : forall delta rreg ireg R II, lenz R < absent -> lenz II < absent ->
  forallb (rpair_ok (lenz R) (lenz II)) (snd (phase1 delta rreg ireg R II)) = true.
Proof. exact phase1_pairs_wf. Qed.
Print Assumptions C01_phase1_pairs_wf.

(* ================================================================ (c) read ends: exon elongation subtype and polyA verification *)
(* categorize_exon_elongation_subtype only emits terminal-site matches and exon elongations; a major elongation exactly when the
   read end lies more than minor_exon_extension beyond the isoform's terminal exon; ends inside the exons (up to delta) give only
   consistent events; a minor elongation is longer than delta and at most minor_exon_extension *)
Theorem C01_elongation_types : forall P split isop prange rp rrange rfeat evs,
  elongation_subtype P split isop prange rp rrange rfeat = Ok evs -> forall e, In e evs -> In (x_type e) elongation_type_list.
Proof. exact elongation_types. Qed.
Print Assumptions C01_elongation_types.
Theorem C01_elongation_major_iff : forall P split isop prange rp rrange rfeat evs,
  elongation_subtype P split isop prange rp rrange rfeat = Ok evs ->
  exists v, elong_view split isop prange rp rrange rfeat = Ok v /\
    (has_type MES_major_exon_elongation_left evs = true <->
       py_overlaps (v_fe v) (v_sf v) = true /\ v_cfe v = fst prange /\ extra_left v > p_minor_ext P) /\
    (has_type MES_major_exon_elongation_right evs = true <->
       py_overlaps (v_le v) (v_sl v) = true /\ v_cle v = snd prange - 1 /\ extra_right v > p_minor_ext P).
Proof. exact elongation_major_iff. Qed.
Print Assumptions C01_elongation_major_iff.
Theorem C01_elongation_inside_consistent : forall P split isop prange rp rrange rfeat evs v,
  p_delta P <= p_minor_ext P ->
  elongation_subtype P split isop prange rp rrange rfeat = Ok evs -> elong_view split isop prange rp rrange rfeat = Ok v ->
  extra_left v <= p_delta P -> extra_right v <= p_delta P -> forall e, In e evs -> ev_consistent (x_type e) = true.
Proof. exact elongation_inside_consistent. Qed.
Print Assumptions C01_elongation_inside_consistent.
Theorem C01_elongation_minor_bound : forall P split isop prange rp rrange rfeat evs,
  elongation_subtype P split isop prange rp rrange rfeat = Ok evs ->
  forall e, In e evs -> x_type e = MES_exon_elongation_left \/ x_type e = MES_exon_elongation_right -> p_delta P < x_info e <= p_minor_ext P.
Proof. exact elongation_minor_bound. Qed.
Print Assumptions C01_elongation_minor_bound.

(* PolyAVerifier.verify_read_ends: never returns an empty list, changes nothing without a polyA/polyT position, only adds polyA-related
   events (never an intronic inconsistency) and only drops an exon elongation of the polyA side; a polyA tail at the isoform's 3' end
   (within apa_delta) yields correct_polya_site and no alternative_polya_site *)
Theorem C01_verify_nonempty : forall P strand iso rex pa evs out, verify_read_ends P true strand iso rex pa evs = Ok out -> out <> [].
Proof. exact verify_nonempty. Qed.
Print Assumptions C01_verify_nonempty.
Theorem C01_verify_no_polya_identity : forall P strand iso rex evs,
  verify_read_ends P true strand iso rex (mkPA (-1) (-1) (-1) (-1)) evs = Ok (match evs with [] => [xe MES_none_ 0] | _ => evs end).
Proof. exact verify_no_polya_identity. Qed.
Print Assumptions C01_verify_no_polya_identity.
Theorem C01_verify_only_polya_changes : forall P strand iso rex pa evs out,
  verify_read_ends P true strand iso rex pa evs = Ok out ->
  (forall e, In e out -> In e evs \/ In (x_type e) polya_new_types) /\ (forall e, In e evs -> ~ In e out -> elong_side strand e = true).
Proof. exact verify_only_polya_changes. Qed.
Print Assumptions C01_verify_only_polya_changes.
Theorem C01_verify_adds_no_intronic : forall P strand iso rex pa evs out,
  verify_read_ends P true strand iso rex pa evs = Ok out -> forall e, In e out -> ~ In e evs -> ev_intronic (x_type e) = false.
Proof. exact verify_adds_no_intronic. Qed.
Print Assumptions C01_verify_adds_no_intronic.
Theorem C01_polya_at_isoform_end_consistent : forall P iso rex pa evs,
  iso <> [] -> pa_int_a pa = -1 -> pa_ext_a pa <> -1 -> Z.abs (snd (last iso (0,0)) - pa_ext_a pa) <= p_apa_delta P ->
  verify_read_ends P true 1 iso rex pa evs = Ok (remove_last is_elong_right evs ++ [xe MES_correct_polya_site_right (pa_ext_a pa)]).
Proof. exact polya_at_isoform_end_consistent. Qed.
Print Assumptions C01_polya_at_isoform_end_consistent.
Theorem C01_polyt_at_isoform_start_consistent : forall P iso rex pa evs,
  iso <> [] -> pa_int_t pa = -1 -> pa_ext_t pa <> -1 -> Z.abs (fst (hd (0,0) iso) - pa_ext_t pa) <= p_apa_delta P ->
  verify_read_ends P true (-1) iso rex pa evs = Ok (remove_last is_elong_left evs ++ [xe MES_correct_polya_site_left (pa_ext_t pa)]).
Proof. exact polyt_at_isoform_start_consistent. Qed.
Print Assumptions C01_polyt_at_isoform_start_consistent.
Theorem C01_polya_close_adds_no_apa : forall P strand iso rex pa evs out,
  polya_close P strand iso pa = true -> verify_read_ends P true strand iso rex pa evs = Ok out ->
  forall e, In e out -> is_apa e = true -> In e evs.
Proof. exact polya_close_adds_no_apa. Qed.
Print Assumptions C01_polya_close_adds_no_apa.
(* corners of the faithful models (both confirmed on the real objects by the correspondence) *)
Example C01_elongation_inside_needs_delta_le_extension_refuted :
  p_delta (mkP 5 0 0 0 0 0 2 6 0 0 0 0 0 2 1) > p_minor_ext (mkP 5 0 0 0 0 0 2 6 0 0 0 0 0 2 1) /\
  elongation_subtype (mkP 5 0 0 0 0 0 2 6 0 0 0 0 0 2 1) [(10,20)] [1] (0,1) [1] (0,1) [(6,20)] = Ok [xe MES_major_exon_elongation_left 4; xe MES_terminal_site_match_right_precise 0].
Proof. vm_compute. split; reflexivity. Qed.
Example C01_verify_without_isoform_refuted : verify_read_ends (params_of MS_default) false 1 [(1, 10)] [(1, 10)] (mkPA 10 (-1) (-1) (-1)) [] = Ok [].
Proof. exact verify_nonempty_without_isoform_refuted. Qed.

(* ================================================================ (d) composition: the inconsistent path of the assigner for a read that follows T *)
(* detect_inconsistensies for isoform T = comparator events ++ elongation events, then polyA verification.  For a read whose junctions
   are a delta-sub-chain of T's (ends in the flanking exons), whose elongation events are consistent (C01_elongation_inside_consistent)
   and whose polyA tail, if any, is at T's 3' end: every event is consistent, the penalty of T is the minimal one (0), and
   classify_assignment answers a consistent type; conversely one major event among the selected isoforms excludes a consistent type *)
Theorem C01_follows_events_consistent : forall P known rreg R ireg II elong strand iso rex pa out,
  0 <= p_delta P -> R <> [] -> junctions_wf II = true -> chain_match (p_delta P) rreg R II = true ->
  (forall e, In e elong -> ev_consistent (x_type e) = true) -> polya_ok P strand iso pa ->
  detect_events P known rreg R ireg II elong strand iso rex pa = Ok out ->
  forall e, In e out -> ev_consistent (x_type e) = true.
Proof. exact follows_events_consistent. Qed.
Print Assumptions C01_follows_events_consistent.
Theorem C01_follows_penalty_minimal : forall w evsT evsO, (forall e, 0 <= w e) ->
  (forall e, In e evsT -> ev_consistent (x_type e) = true) -> Qle (penalty_w w evsT) (penalty_w w evsO).
Proof. exact follows_penalty_minimal. Qed.
Print Assumptions C01_follows_penalty_minimal.
Theorem C01_follows_classified_consistent : forall P known rreg R ireg II elong strand iso rex pa out,
  0 <= p_delta P -> R <> [] -> junctions_wf II = true -> chain_match (p_delta P) rreg R II = true ->
  (forall e, In e elong -> ev_consistent (x_type e) = true) -> polya_ok P strand iso pa ->
  detect_events P known rreg R ireg II elong strand iso rex pa = Ok out ->
  type_consistent (classify false (map x_type out)) = true.
Proof. exact follows_classified_consistent. Qed.
Print Assumptions C01_follows_classified_consistent.
Theorem C01_follows_classified_consistent_multi : forall outs amb,
  (forall o, In o outs -> forall e, In e o -> ev_consistent (x_type e) = true) ->
  type_consistent (classify amb (concat (map (map x_type) outs))) = true.
Proof. exact follows_classified_consistent_multi. Qed.
Print Assumptions C01_follows_classified_consistent_multi.
Theorem C01_major_event_blocks_consistent : forall amb outs o e, In o outs -> In e o -> ev_major (x_type e) = true ->
  type_consistent (classify amb (concat (map (map x_type) outs))) = false.
Proof. exact major_event_blocks_consistent. Qed.
Print Assumptions C01_major_event_blocks_consistent.

(* ================================================================ (e) the assigner: assign_to_isoform on a read with T's exact intron chain *)
(* AssignerMatch.assign is the executable model of LongReadAssigner.assign_to_isoform (profiles, match_consistent, select_similar_isoforms,
   match_inconsistent; float arithmetic abstracted into the parameters SC / sc_* / select_min; the float instance is corresponded with
   the real method).  exact_match: a read without polyA whose intron chain equals T's and whose ends lie inside T's terminal exons is
   assigned a consistent type with T among the reported isoforms, every reported isoform being profile-compatible, and uniquely T
   (type unique) when no other isoform's profile is compatible.  Hypotheses, all needed (refuted witnesses in AssignerMatchGeom.v):
   gene_ok (distinct ids, exons separated by a base, non-negative coordinates, introns longer than delta), T's internal exons longer
   than delta (H2), the corner condition on the read ends inside their split-exon blocks (or minimal_exon_overlap <= delta + 1, true for
   the default preset), delta <= minor_exon_extension, and - only when several isoforms are compatible - that T survives
   resolve_by_nucleotide_score (score(T) * 1.5 >= best; C01_hscore_of_best_Q: true for the best-scoring isoform with a non-negative score) *)
Theorem C01_exact_match_reports_T : forall P absd arm (SC:Type) sc_make sc_lt sc_ge_min sc_keeps select_min,
  0 <= p_delta P -> 0 < p_minimal_exon_overlap P -> 0 <= p_min_abs_exon_overlap P -> p_delta P <= p_minor_ext P ->
  forall isos g t rex ri rs,
  mk_gene isos = Some g -> In t isos -> gene_ok (p_delta P) isos = true -> IntervalsSpec.H2 (p_delta P) (i_introns t) = true ->
  exact_read t rex -> corner_ok (p_minimal_exon_overlap P) (p_delta P) (g_split g) rex ->
  let r := mkRead rex no_pa in
  intron_rprof P absd g r = Ok ri -> split_rprof P g r = Ok rs ->
  (forall l, incl l (compatible_ids P g ri rs r) -> In (i_id t) l ->
     exists l', resolve P SC sc_make sc_lt sc_ge_min sc_keeps true false r g l = Ok l' /\ In (i_id t) l') ->
  exists ty ms, assign P absd arm SC sc_make sc_lt sc_ge_min sc_keeps select_min g r = Ok (ty, ms) /\
    type_consistent ty = true /\ In (i_id t) (map fst ms) /\ incl (map fst ms) (compatible_ids P g ri rs r) /\
    ((forall id, In id (compatible_ids P g ri rs r) -> id = i_id t) -> ty = RAT_unique /\ map fst ms = [i_id t]).
Proof. exact exact_match_reports_T_strong. Qed.
Print Assumptions C01_exact_match_reports_T.

Theorem C01_exact_match_unique : forall P absd arm (SC:Type) sc_make sc_lt sc_ge_min sc_keeps select_min,
  0 <= p_delta P -> 0 < p_minimal_exon_overlap P -> 0 <= p_min_abs_exon_overlap P -> p_delta P <= p_minor_ext P ->
  forall isos g t rex ri rs,
  mk_gene isos = Some g -> In t isos -> gene_ok (p_delta P) isos = true -> IntervalsSpec.H2 (p_delta P) (i_introns t) = true ->
  exact_read t rex -> corner_ok (p_minimal_exon_overlap P) (p_delta P) (g_split g) rex ->
  intron_rprof P absd g (mkRead rex no_pa) = Ok ri -> split_rprof P g (mkRead rex no_pa) = Ok rs ->
  (forall id, In id (compatible_ids P g ri rs (mkRead rex no_pa)) -> id = i_id t) ->
  exists evs, consistent_events P g ri rs (mkRead rex no_pa) t true = Ok evs /\ (forall e, In e evs -> ev_consistent (x_type e) = true) /\
    assign P absd arm SC sc_make sc_lt sc_ge_min sc_keeps select_min g (mkRead rex no_pa) = Ok (RAT_unique, [(i_id t, map x_type evs)]).
Proof. exact exact_match_unique. Qed.
Print Assumptions C01_exact_match_unique.

(* the profile facts behind it: the read's intron profile marks every read intron matched and, on the gene side, exactly T's introns *)
Theorem C01_exact_intron_read_profile : forall P absd, 0 <= p_delta P -> 0 < p_minimal_exon_overlap P -> 0 <= p_min_abs_exon_overlap P ->
  forall isos g t rex,
  mk_gene isos = Some g -> In t isos -> gene_ok (p_delta P) isos = true -> IntervalsSpec.H2 (p_delta P) (i_introns t) = true -> exact_read t rex ->
  exists ri, intron_rprof P absd g (mkRead rex no_pa) = Ok ri /\ rp ri = map (fun _ => 1) (jfb rex) /\
    length (gp ri) = length (g_introns g) /\ prange ri = profile_range_zero (gp ri) /\
    forall j k, nth_error (g_introns g) j = Some k ->
      exists v, nth_error (gp ri) j = Some v /\ (v = 1 <-> In k (i_introns t)) /\
                (v = -1 -> py_overlaps k (i_region t) = true /\ ~ In k (i_introns t)) /\ v <> -2 /\ (v = 1 \/ v = -1 \/ v = 0).
Proof. exact exact_intron_read_profile. Qed.
Print Assumptions C01_exact_intron_read_profile.

(* decision layer, from facts about the computed profiles only: a single profile-compatible isoform is reported uniquely; the
   consistent path never returns an inconsistent type nor a major event *)
Theorem C01_unique_compatible_reports_T : forall P absd arm (SC:Type) sc_make sc_lt sc_ge_min sc_keeps select_min g r ri rs tid t,
  g_isos g <> [] -> intron_rprof P absd g r = Ok ri -> split_rprof P g r = Ok rs -> profiles_clean ri rs = true ->
  rp ri <> [] -> compatible_ids P g ri rs r = [tid] -> t = find_iso g tid ->
  events_all_consistent (consistent_events P g ri rs r t true) ->
  exists evs, consistent_events P g ri rs r t true = Ok evs /\
    assign P absd arm SC sc_make sc_lt sc_ge_min sc_keeps select_min g r = Ok (RAT_unique, [(tid, map x_type evs)]).
Proof. exact unique_compatible_reports_T. Qed.
Print Assumptions C01_unique_compatible_reports_T.
Theorem C01_consistent_path_only_consistent : forall P arm (SC:Type) sc_make sc_lt sc_ge_min sc_keeps g ri rs r ty ms,
  match_consistent P arm SC sc_make sc_lt sc_ge_min sc_keeps g ri rs r = Ok (Some (ty, ms)) ->
  rmem ty RAT_is_inconsistent = false /\ type_consistent ty = true /\
  (forall m t, In m ms -> In t (snd m) -> ev_major t = false) /\ incl (map fst ms) (compatible_ids P g ri rs r).
Proof. exact major_blocks_consistent_path. Qed.
Print Assumptions C01_consistent_path_only_consistent.
(* the score hypothesis of C01_exact_match_reports_T holds, with exact rational scores, for the best-scoring isoform when its score is >= 0 *)
Theorem C01_hscore_of_best_Q : forall P r g C tid stid,
  score_of P Q q_make true r (find_iso g tid) = Ok stid ->
  (forall id, In id C -> exists s, score_of P Q q_make true r (find_iso g id) = Ok s /\ Qle s stid) -> Qle 0 stid ->
  forall l, incl l C -> In tid l -> exists l', resolve P Q q_make q_lt q_ge_min q_keeps true false r g l = Ok l' /\ In tid l'.
Proof. exact hscore_of_best_Q. Qed.
Print Assumptions C01_hscore_of_best_Q.

(* ================================================================ (f) the comparator's events discharge C14's hypothesis *)
(* comparator_cin = the corrector's input for a read with exons `exons` assigned to the isoform (II, ireg): its first match carries the
   comparator model's events followed by `extra` events without read region (elongation / polyA / fsm-ism events).  For the REPAIRED
   ExonCorrector (fixes/C01_fuzzy_junction_keeps_exons.diff, fixes/C14_fake_terminal_exon_drops_restored_microintron.diff) the full
   decidable hypothesis events_wf of C14's theorems holds, hence the corrected exons are well-formed with NO hypothesis on the events.
   Hypotheses: read exons well-formed and longer than 2*delta, read introns longer than delta (sizes_ok), isoform junctions well-formed
   inside their region, delta <= minimal_exon_overlap + 1 when fuzzy-junction and micro-intron correction are both on, fewer than 2^31-1
   exons / junctions.  Each is needed: JunctionsCorrector.v w2 (short exons), w3 (delta vs minimal_exon_overlap); on the UNREPAIRED code
   events_wf fails and the output is malformed even with them (w1, w4, w5): C14_fuzzy_junction_unrepaired_refuted etc. *)
Theorem C01_events_satisfy_corrector_hypothesis : forall P K greg exons ireg II extra orc fl,
  0 <= p_delta P -> 0 < p_minimal_exon_overlap P ->
  Corrector.sdg_b exons = true -> exons <> [] -> sizes_ok (p_delta P) exons = true ->
  junctions_wf II = true -> inside_region ireg II = true ->
  (Corrector.f_fuzzy fl = true -> Corrector.f_microintron fl = true -> p_delta P <= p_minimal_exon_overlap P + 1) ->
  lenz exons < absent -> lenz II < absent -> Forall no_read_region extra ->
  Corrector.events_wf fl (comparator_cin P K greg exons ireg II extra orc) = true.
Proof. exact events_satisfy_corrector_hypothesis. Qed.
Print Assumptions C01_events_satisfy_corrector_hypothesis.
Theorem C01_C14_corrected_exons_wf_unconditional : forall P K greg exons ireg II extra orc fl,
  0 <= p_delta P -> 0 < p_minimal_exon_overlap P ->
  Corrector.sdg_b exons = true -> exons <> [] -> sizes_ok (p_delta P) exons = true ->
  junctions_wf II = true -> inside_region ireg II = true ->
  (Corrector.f_fuzzy fl = true -> Corrector.f_microintron fl = true -> p_delta P <= p_minimal_exon_overlap P + 1) ->
  lenz exons < absent -> lenz II < absent -> Forall no_read_region extra ->
  exists ex, Corrector.correct_assigned_read fl (comparator_cin P K greg exons ireg II extra orc) = Ok ex /\ Corrector.sd_b ex = true.
Proof. exact corrected_exons_wf_unconditional. Qed.
Print Assumptions C01_C14_corrected_exons_wf_unconditional.
(* without the fuzzy-junction flag only the exon sizes matter *)
Theorem C01_events_satisfy_corrector_hypothesis_nofuzzy : forall P K greg exons ireg II extra orc fl,
  Corrector.f_fuzzy fl = false -> 0 <= p_delta P -> 0 < p_minimal_exon_overlap P ->
  Corrector.sdg_b exons = true -> exons <> [] -> forallb (fun e => 2 * p_delta P <? py_interval_len e) exons = true ->
  junctions_wf II = true -> inside_region ireg II = true -> lenz exons < absent -> lenz II < absent -> Forall no_read_region extra ->
  Corrector.events_wf fl (comparator_cin P K greg exons ireg II extra orc) = true.
Proof. exact events_satisfy_corrector_hypothesis_nofuzzy. Qed.
Print Assumptions C01_events_satisfy_corrector_hypothesis_nofuzzy.
(* the unrepaired code: a reference splice site beyond the read's last exon inverts it; the repaired choice keeps the read's exons *)
Example C01_unrepaired_fuzzy_beyond_read_end_refuted :
  let c := comparator_cin (params_of MS_default) [(1101,1305)] (1000,1500) [(1000,1100);(1300,1304)] (1000,1500) [(1101,1305)] [] [((0,0),(1,0))] in
  let fl := Corrector.strategy_flags Corrector.St_default_ont in
  Corrector.correct_assigned_read_v Corrector.unrepaired fl c = Ok [(1000,1100);(1306,1304)] /\
  Corrector.correct_assigned_read fl c = Ok [(1000,1100);(1300,1304)] /\ sizes_ok 6 [(1000,1100);(1300,1304)] = false.
Proof. vm_compute. repeat split; reflexivity. Qed.

(* ================================================================ examples: the hypotheses are satisfiable, the corners are real *)
Definition Pd := params_of MS_default.
(* a read truncated on both sides, every splice site within delta = 6 of isoform junctions 1..2 *)
Example C01_chain_example :
  chain_match 6 (480, 1320) [(505, 797); (903, 1196)] [(101, 299); (501, 799); (901, 1199); (1401, 1599)] = true /\
  compare_junctions Pd (fun _ => true) (480, 1320) [(505, 797); (903, 1196)] (1, 1700) [(101, 299); (501, 799); (901, 1199); (1401, 1599)] = [ev0 MES_none_].
Proof. vm_compute. split; reflexivity. Qed.
(* the same read under `exact` (delta 0): both junctions are contradictory - two alternative splice sites *)
Example C01_exact_strategy_example :
  map e_type (compare_junctions (params_of MS_exact) (fun _ => false) (480, 1320) [(505, 797); (903, 1196)] (1, 1700) [(101, 299); (501, 799); (901, 1199); (1401, 1599)])
  = [MES_intron_alternation_novel; MES_intron_alternation_novel].
Proof. vm_compute. reflexivity. Qed.
(* a skipped exon: one read junction spanning two isoform junctions is flagged and typed as exon skipping (major) *)
Example C01_skipped_exon_example :
  compare_junctions Pd (fun _ => false) (1, 1700) [(101, 299); (501, 1199); (1401, 1599)] (1, 1700) [(101, 299); (501, 799); (901, 1199); (1401, 1599)]
  = [mkev MES_exon_skipping_novel (1, 2) (1, 1)] /\
  type_consistent (classify false [MES_exon_skipping_novel]) = false.
Proof. vm_compute. split; reflexivity. Qed.
(* the hypothesis "first read exon at least delta long" of chain_at cannot be dropped: a tiny isoform junction just before the read
   is delta-equal to the first read junction, the sweep pairs them and reports a contradiction for a read that follows the isoform *)
Example C01_chain_without_first_exon_hypothesis_refuted :
  let R := [(13, 14)] in let II := [(10, 11); (13, 14)] in
  chain_eq 3 R (skipn 1 II) = true /\ forallb (fun i => snd i <? 12) (firstn 1 II) = true /\ chain_at 3 (12, 20) R II 1 = false /\
  map e_type (compare_junctions (params_of_delta MS_default 3) (fun _ => false) (12, 20) R (1, 30) II) = [MES_intron_retention].
Proof. vm_compute. repeat split; reflexivity. Qed.
(* the break corner of "check terminating regions": against a mono-exonic isoform the loop stops at the first read junction outside
   the isoform span, so a later junction inside it is not marked (it is still reported, as a flanking intron) *)
Example C01_unmatched_needs_corner_hypothesis_refuted :
  fst (fst (phase1 6 (1, 900) (350, 800) [(101, 299); (401, 499)] [])) = [0; 0] /\
  map e_type (compare_junctions Pd (fun _ => false) (1, 900) [(101, 299); (401, 499)] (350, 800) []) = [MES_extra_intron_flanking_left; MES_extra_intron_flanking_left].
Proof. vm_compute. split; reflexivity. Qed.
(* assignment_ok on three hand-made reads: a full-length read reported unique to its source; the same read reported for another
   isoform; a read skipping a long exon reported as consistent *)
Definition ann_ex : list isoform := [(1, [(1,100); (300,500); (800,1200); (1400,1700)]); (2, [(1,100); (800,1200); (1400,1700)])].
Example C01_assignment_ok_examples :
  judge Pd ann_ex (mkRC [(1,100); (303,497); (800,1200); (1400,1700)] (Some 1) RAT_unique [1]) = Positive_ok /\
  judge Pd ann_ex (mkRC [(1,100); (303,497); (800,1200); (1400,1700)] (Some 1) RAT_unique [2]) = Bad 2 /\
  judge Pd ann_ex (mkRC [(1,100); (300,500); (1400,1700)] None RAT_unique [1]) = Bad 5 /\
  judge Pd ann_ex (mkRC [(1,100); (300,500); (1400,1700)] None RAT_inconsistent [1]) = Negative_ok /\
  judge Pd ann_ex (mkRC [(1,100); (320,480); (800,1200); (1400,1700)] (Some 1) RAT_inconsistent [1]) = Not_judged.
Proof. vm_compute. repeat split; reflexivity. Qed.
