(* C11 — results are equivariant under coordinate translation (shift k) and strand reflection (reflect L: x -> L+1-x, lists reversed).
   Property theorems only; models and proofs are in Mirror.v, MirrorProofs.v, MirrorPairs.v, MirrorPairsProofs.v.
   sh / shl / shp : shift of an interval / interval list / position with the sentinel -1;  rf / rfl / rfp : reflection of the same. *)
From Coq Require Import ZArith NArith List Bool.
From IQ.gen Require Import Prims Tables.
From IQ Require Import CorrSupport Mirror MirrorProofs MirrorRegions MirrorPairs MirrorPairsProofs MirrorCorrector MirrorScore MirrorJunctions.
From IQ Require Junctions AssignerScore.
From IQ Require Intervals IntervalsSpec IntervalsProofs Cigar Cigar2 PolyA PolyA2 Regions Corrector.
Import ListNotations. Open Scope Z_scope.

(* ================================================================ 1. translated predicates of src/common.py (gen/Prims.v) *)
Theorem C11_prims_shift_invariant : forall k a b d,
  py_overlaps (sh k a) (sh k b) = py_overlaps a b /\ py_contains (sh k a) (sh k b) = py_contains a b /\
  py_intersection_len (sh k a) (sh k b) = py_intersection_len a b /\ py_equal_ranges (sh k a) (sh k b) d = py_equal_ranges a b d /\
  py_overlaps_at_least (sh k a) (sh k b) d = py_overlaps_at_least a b d /\
  py_overlaps_at_least_when_overlap (sh k a) (sh k b) d = py_overlaps_at_least_when_overlap a b d /\
  py_left_of (sh k a) (sh k b) = py_left_of a b /\ py_covers_start (sh k a) (sh k b) = py_covers_start a b /\
  py_covers_end (sh k a) (sh k b) = py_covers_end a b /\ py_contains_well_inside (sh k a) (sh k b) d = py_contains_well_inside a b d /\
  py_contains_approx (sh k a) (sh k b) d = py_contains_approx a b d /\ py_interval_len (sh k a) = py_interval_len a /\
  py_overlap_intervals (sh k a) (sh k b) = sh k (py_overlap_intervals a b) /\ py_max_range (sh k a) (sh k b) = sh k (py_max_range a b).
Proof. intros. repeat split; [apply py_overlaps_shift|apply py_contains_shift|apply py_intersection_len_shift|apply py_equal_ranges_shift|
  apply py_overlaps_at_least_shift|apply py_overlaps_at_least_when_overlap_shift|apply py_left_of_shift|apply py_covers_start_shift|apply py_covers_end_shift|
  apply py_contains_well_inside_shift|apply py_contains_approx_shift|apply py_interval_len_shift|apply py_overlap_intervals_shift|apply py_max_range_shift]. Qed.
Print Assumptions C11_prims_shift_invariant.

Theorem C11_prims_self_mirror : forall L a b d,
  py_overlaps (rf L a) (rf L b) = py_overlaps a b /\ py_contains (rf L a) (rf L b) = py_contains a b /\
  py_intersection_len (rf L a) (rf L b) = py_intersection_len a b /\ py_equal_ranges (rf L a) (rf L b) d = py_equal_ranges a b d /\
  py_contains_well_inside (rf L a) (rf L b) d = py_contains_well_inside a b d /\ py_contains_approx (rf L a) (rf L b) d = py_contains_approx a b d /\
  py_interval_len (rf L a) = py_interval_len a /\
  py_overlap_intervals (rf L a) (rf L b) = rf L (py_overlap_intervals a b) /\ py_max_range (rf L a) (rf L b) = rf L (py_max_range a b).
Proof. intros. repeat split; [apply py_overlaps_mirror|apply py_contains_mirror|apply py_intersection_len_mirror|apply py_equal_ranges_mirror|
  apply py_contains_well_inside_mirror|apply py_contains_approx_mirror|apply py_interval_len_mirror|apply py_overlap_intervals_mirror|apply py_max_range_mirror]. Qed.
Print Assumptions C11_prims_self_mirror.

Theorem C11_prims_mirror_pairs : forall L a b,
  py_left_of (rf L a) (rf L b) = py_left_of b a /\ py_covers_start (rf L a) (rf L b) = py_covers_end a b /\ py_covers_end (rf L a) (rf L b) = py_covers_start a b.
Proof. intros. repeat split; [apply py_left_of_mirror|apply py_covers_start_mirror|apply py_covers_end_mirror]. Qed.
Print Assumptions C11_prims_mirror_pairs.

(* overlaps_at_least is NOT its own mirror image ... *)
Theorem C11_overlaps_at_least_mirror_refuted :
  py_overlaps_at_least (10, 12) (10, 30) 10 = true /\ py_overlaps_at_least (rf 100 (10, 12)) (rf 100 (10, 30)) 10 = false.
Proof. exact py_overlaps_at_least_mirror_refuted. Qed.
Print Assumptions C11_overlaps_at_least_mirror_refuted.
(* ... exactly in the corner "one interval strictly inside the other, sharing one end, shorter than delta - 1" *)
Theorem C11_overlaps_at_least_mirror_partial : forall L a b d, fst a <> fst b -> snd a <> snd b ->
  py_overlaps_at_least (rf L a) (rf L b) d = py_overlaps_at_least a b d.
Proof. exact py_overlaps_at_least_mirror_partial. Qed.
Print Assumptions C11_overlaps_at_least_mirror_partial.
Theorem C11_overlaps_at_least_mirror_corner : forall L a b d, fst a <= snd a -> fst b <= snd b ->
  py_overlaps_at_least (rf L a) (rf L b) d <> py_overlaps_at_least a b d ->
  (fst a = fst b /\ snd a < snd b /\ snd a - fst a < d - 1) \/ (snd a = snd b /\ fst b < fst a /\ snd a - fst a < d - 1).
Proof. exact py_overlaps_at_least_mirror_corner. Qed.
Print Assumptions C11_overlaps_at_least_mirror_corner.
Theorem C11_overlaps_at_least_when_overlap_mirror_partial : forall L a b d, fst a <> fst b -> snd a <> snd b ->
  py_overlaps_at_least_when_overlap (rf L a) (rf L b) d = py_overlaps_at_least_when_overlap a b d.
Proof. exact py_overlaps_at_least_when_overlap_mirror_partial. Qed.
Print Assumptions C11_overlaps_at_least_when_overlap_mirror_partial.

(* the event tables do not distinguish left from right *)
Theorem C11_event_cost_mirror : forall e, MES_cost (swap_mes e) = MES_cost e.
Proof. exact event_cost_mirror. Qed.
Print Assumptions C11_event_cost_mirror.

(* ================================================================ 2. shift equivariance of the interval-list functions (Intervals.v) *)
Section Lists.
Import Intervals IntervalsSpec IntervalsProofs IntervalsShift ProfilesShift.
Theorem C11_shift_equivariant_interval_lists : forall k A B l pos r,
  total (shl k l) = total l /\
  sum_to_point (shl k l) (pos + k) = sum_to_point l pos /\ sum_from_point (shl k l) (pos + k) = sum_from_point l pos /\
  jaccard (shl k A) (shl k B) = jaccard A B /\ coverage_fraction (shl k A) (shl k B) = coverage_fraction A B /\
  extra_exon_pair (sh k r) (shl k l) = extra_exon_pair r l /\
  merge_ranges (shl k A) (shl k B) = match merge_ranges A B with Ok m => Ok (shl k m) | Raises e => Raises e end /\
  jfb (shl k l) = shl k (jfb l) /\ get_exons (sh k r) (shl k l) = shl k (get_exons r l) /\
  bin_search (shl k l) (pos + k) = bin_search l pos /\ bin_search_rev (shl k l) (pos + k) = bin_search_rev l pos.
Proof. intros. repeat split; [apply total_shift|apply sum_to_point_shift|apply sum_from_point_shift|apply jaccard_shift|apply coverage_fraction_shift|
  apply extra_exon_pair_shift|apply merge_ranges_shift|apply jfb_shift|apply get_exons_shift|apply bin_search_shift|apply bin_search_rev_shift]. Qed.
Print Assumptions C11_shift_equivariant_interval_lists.

(* profile constructors, for every comparator / absence condition that is itself shift invariant (equal_ranges, overlaps, contains, ...) *)
Theorem C11_shift_equivariant_profiles : forall (cmp absent:iv -> iv -> bool) k delta,
  (forall r x, cmp (sh k r) (sh k x) = cmp r x) -> (forall r x, absent (sh k r) (sh k x) = absent r x) ->
  (forall fuel mapped K kv gpos R rv rpos gacc racc m,
     ovs cmp absent fuel (sh k mapped) (shl k K) kv gpos (shl k R) rv rpos gacc racc m = ovs cmp absent fuel mapped K kv gpos R rv rpos gacc racc m) /\
  (forall K gp polya polyt, (polya <> -1 -> polya + k <> -1) -> (polyt <> -1 -> polyt + k <> -1) ->
     mark_polya delta (shl k K) gp (shp k polya) (shp k polyt) = mark_polya delta K gp polya polyt) /\
  (forall K R polya polyt, (polya <> -1 -> polya + k <> -1) -> (polyt <> -1 -> polyt + k <> -1) ->
     nonoverlapping_profile cmp delta (shl k K) (shl k R) (shp k polya) (shp k polyt) = nonoverlapping_profile cmp delta K R polya polyt) /\
  (forall K F region, isoform_profile cmp (shl k K) (shl k F) (sh k region) = isoform_profile cmp K F region).
Proof. intros cmp absent k delta Hc Ha. repeat split; intros;
  [apply ovs_shift; assumption|apply mark_polya_shift; assumption|apply nonoverlapping_profile_shift; assumption|apply isoform_profile_shift; assumption]. Qed.
Print Assumptions C11_shift_equivariant_profiles.
End Lists.

(* ================================================================ 3. shift equivariance: CIGAR blocks, polyA counting / shifting, tail finder, region splitting *)
Section Align.
Import Cigar Cigar2 PolyA PolyA2 AlignShift.
Theorem C11_get_read_blocks_shift : forall k ref_start ops, get_read_blocks (ref_start + k) ops = map (shb k) (get_read_blocks ref_start ops).
Proof. exact get_read_blocks_shift. Qed.
Print Assumptions C11_get_read_blocks_shift.
Theorem C11_polya_counting_shift : forall mf k ex pa pt, (pa <> -1 -> pa + k <> -1) -> (pt <> -1 -> pt + k <> -1) ->
  count_polya_exons mf (shl k ex) (shp k pa) = count_polya_exons mf ex pa /\ count_polyt_exons mf (shl k ex) (shp k pt) = count_polyt_exons mf ex pt /\
  correct_read_info2 mf (shl k ex) (shp k pa) (shp k pt) = correct_read_info2 mf ex pa pt.
Proof. intros. repeat split; [apply count_polya_exons_shift|apply count_polyt_exons_shift|apply correct_read_info_shift]; assumption. Qed.
Print Assumptions C11_polya_counting_shift.
Theorem C11_shift_polya_polyt_shift : forall k ex c pos, 0 <= c <= Z.of_nat (length ex) -> (pos <> -1 -> pos + k <> -1) ->
  shift_polya (shl k ex) c (shp k pos) = (if (c =? 0) || (c =? Z.of_nat (length ex)) || (pos =? -1) then shp k pos else shift_polya ex c pos + k) /\
  shift_polyt (shl k ex) c (shp k pos) = (if (c =? 0) || (c =? Z.of_nat (length ex)) || (pos =? -1) then shp k pos else shift_polyt ex c pos + k).
Proof. intros. split; [apply shift_polya_shift|apply shift_polyt_shift]; assumption. Qed.
Print Assumptions C11_shift_polya_polyt_shift.
Theorem C11_find_polya_tail_shift : forall w need fnum fden k seq ops rs fr to en,
  let r := find_polya_tail w need fnum fden seq ops rs fr to en in
  let r' := find_polya_tail w need fnum fden seq ops (rs + k) fr to en in
  r' = r \/ exists p, r = Ok p /\ r' = Ok (p + k).
Proof. exact find_polya_tail_shift. Qed.
Print Assumptions C11_find_polya_tail_shift.
(* find_polyt_head clamps its result with max(1, .): equivariant above the clamp only *)
Theorem C11_find_polyt_head_shift_partial : forall w need fnum fden k seq ops rs fr to en, 0 <= k ->
  let r := find_polyt_head w need fnum fden seq ops rs fr to en in
  let r' := find_polyt_head w need fnum fden seq ops (rs + k) fr to en in
  r' = r \/ exists p, r = Ok p /\ (1 < p -> r' = Ok (p + k)).
Proof. exact find_polyt_head_shift_partial. Qed.
Print Assumptions C11_find_polyt_head_shift_partial.
Theorem C11_find_polyt_head_shift_refuted :
  let seq := repeat 3 20 ++ repeat 1 30 in
  find_polyt_head 16 12 3 4 seq [(S, 20); (M, 30)] 0 2 32 false = Ok 1 /\
  find_polyt_head 16 12 3 4 seq [(S, 20); (M, 30)] (0 + 10) 2 32 false = Ok 9 /\ 9 <> 1 + 10.
Proof. exact find_polyt_head_shift_refuted. Qed.
Print Assumptions C11_find_polyt_head_shift_refuted.
End Align.

Section Split.
Import Regions RegionsShift.
(* split_coverage_regions: only shifts by whole coverage bins (m bins = m * BIN bases) commute with the split *)
Theorem C11_split_regions_shift : forall BIN MAXLEN MINREADS ABSV RN RD m r count cov first last,
  split_regions BIN MAXLEN MINREADS ABSV RN RD (sh (m * BIN) r) count (shcov m cov) (first + m) (last + m) =
  option_map (shl (m * BIN)) (split_regions BIN MAXLEN MINREADS ABSV RN RD r count cov first last).
Proof. exact split_regions_shift. Qed.
Print Assumptions C11_split_regions_shift.
Theorem C11_split_regions_prev_shift : forall BIN MAXLEN MINREADS ABSV RN RD m r count cov first last,
  split_regions_prev BIN MAXLEN MINREADS ABSV RN RD (sh (m * BIN) r) count (shcov m cov) (first + m) (last + m) =
  option_map (shl (m * BIN)) (split_regions_prev BIN MAXLEN MINREADS ABSV RN RD r count cov first last).
Proof. exact split_regions_prev_shift. Qed.
Print Assumptions C11_split_regions_prev_shift.
(* ... but the decision not to split a short locus with few reads is invariant under EVERY shift *)
Theorem C11_unsplit_decision_shift_invariant : forall BIN MAXLEN MINREADS ABSV RN RD k r count cov cov' first first' last last',
  py_interval_len r < MAXLEN -> count < MINREADS ->
  split_regions BIN MAXLEN MINREADS ABSV RN RD r count cov first last = Some [r] /\
  split_regions BIN MAXLEN MINREADS ABSV RN RD (sh k r) count cov' first' last' = Some [sh k r] /\
  split_regions_prev BIN MAXLEN MINREADS ABSV RN RD r count cov first last = Some [r] /\
  split_regions_prev BIN MAXLEN MINREADS ABSV RN RD (sh k r) count cov' first' last' = Some [sh k r].
Proof. exact unsplit_decision_shift_invariant. Qed.
Print Assumptions C11_unsplit_decision_shift_invariant.
(* the coverage dictionary and its key range of alignments shifted by m bins are the shifted dictionary / range *)
Theorem C11_coverage_bins_shift : forall BIN m, 0 < BIN -> forall l,
  (forall p, cov_of BIN (map (shaln BIN m) l) p = shcov m (cov_of BIN l) p) /\
  (l <> [] -> first_bin BIN (map (shaln BIN m) l) = first_bin BIN l + m /\ last_bin BIN (map (shaln BIN m) l) = last_bin BIN l + m).
Proof. intros BIN m H l. split; [intros p; apply cov_of_shift; exact H|apply first_last_bin_shift; exact H]. Qed.
Print Assumptions C11_coverage_bins_shift.
(* a shift by 1 or 37 bases leaves the cut on the bin grid; a shift by 256 moves it *)
Theorem C11_split_regions_shift_refuted :
  cut_of (split_with iq_split_regions w_shift) = Some 34048 /\ cut_of (split_with iq_split_regions_prev w_shift) = Some 34048 /\
  cut_of (split_with iq_split_regions (map (sh1 1) w_shift)) = Some 34048 /\ cut_of (split_with iq_split_regions_prev (map (sh1 1) w_shift)) = Some 34048 /\
  cut_of (split_with iq_split_regions (map (sh1 37) w_shift)) = Some 34048 /\
  cut_of (split_with iq_split_regions (map (sh1 256) w_shift)) = Some (34048 + 256) /\
  split_with iq_split_regions (map (sh1 256) w_shift) = option_map (shl 256) (split_with iq_split_regions w_shift).
Proof. exact split_regions_shift_refuted. Qed.
Print Assumptions C11_split_regions_shift_refuted.
End Split.

(* ================================================================ 4. reflection: interval lists *)
Section ListsMirror.
Import Intervals IntervalsSpec IntervalsProofs IntervalsMirror.
Theorem C11_sum_to_from_point_mirror_pair : forall L l pos, hull_ok l ->
  sum_from_point (rfl L l) (L + 1 - pos) = sum_to_point l pos /\ sum_to_point (rfl L l) (L + 1 - pos) = sum_from_point l pos.
Proof. intros. split; [apply sum_from_point_mirror|apply sum_to_point_mirror]; assumption. Qed.
Print Assumptions C11_sum_to_from_point_mirror_pair.
Theorem C11_interval_lists_self_mirror : forall L l r introns,
  total (rfl L l) = total l /\ jfb (rfl L l) = rfl L (jfb l) /\ get_exons (rf L r) (rfl L introns) = rfl L (get_exons r introns) /\ (sd l -> sd (rfl L l)).
Proof. intros. repeat split; [apply total_mirror|apply jfb_mirror|apply get_exons_mirror|apply sd_mirror]. Qed.
Print Assumptions C11_interval_lists_self_mirror.
Theorem C11_similarity_scores_self_mirror : forall L A B, sd A -> sd B -> A <> [] ->
  coverage_fraction (rfl L A) (rfl L B) = coverage_fraction A B /\ jaccard (rfl L A) (rfl L B) = jaccard A B.
Proof. intros L A B HA HB Hne. split; [apply coverage_fraction_mirror|apply jaccard_mirror]; auto. Qed.
Print Assumptions C11_similarity_scores_self_mirror.
(* MIRROR PAIR interval_bin_search / interval_bin_search_rev *)
Theorem C11_bin_search_rev_is_mirror_of_bin_search : forall L l pos i j, sd l ->
  bin_search l pos = Ok (Some i) -> bin_search_rev (rfl L l) (L + 1 - pos) = Ok (Some j) -> 0 <= i -> 0 <= j ->
  j = Z.of_nat (length l) - 1 - i.
Proof. exact bin_search_mirror. Qed.
Print Assumptions C11_bin_search_rev_is_mirror_of_bin_search.
Theorem C11_bin_search_outside_mirror : forall L l pos, l <> [] ->
  (bin_search l pos = Ok (Some (-1)) /\ bin_search_rev (rfl L l) (L + 1 - pos) = Ok (Some (-1))) \/
  (match l with a :: _ => fst a <= pos <= snd (last l a) | [] => False end).
Proof. exact bin_search_outside_mirror. Qed.
Print Assumptions C11_bin_search_outside_mirror.
End ListsMirror.

(* ================================================================ 5. reflection: the polyA / polyT pairs *)
Section PolyAPairs.
Import PolyA PolyA2 PolyAMirror.
Theorem C11_count_polyt_is_mirror_of_count_polya : forall mf L ex pos, (pos <> -1 -> L + 1 - pos <> -1) ->
  count_polyt_exons mf (rfl L ex) (rfp L pos) = count_polya_exons mf ex pos /\ count_polya_exons mf (rfl L ex) (rfp L pos) = count_polyt_exons mf ex pos.
Proof. intros. split; [apply count_polyt_mirror|apply count_polya_mirror]; assumption. Qed.
Print Assumptions C11_count_polyt_is_mirror_of_count_polya.
Theorem C11_correct_read_info_mirror : forall mf L ex pa pt, (pa <> -1 -> L + 1 - pa <> -1) -> (pt <> -1 -> L + 1 - pt <> -1) ->
  correct_read_info2 mf (rfl L ex) (rfp L pt) (rfp L pa) = let '(a, t) := correct_read_info2 mf ex pa pt in (t, a).
Proof. exact correct_read_info_mirror. Qed.
Print Assumptions C11_correct_read_info_mirror.
Theorem C11_shift_polyt_is_mirror_of_shift_polya : forall L ex c pos, 0 <= c <= Z.of_nat (length ex) -> (pos <> -1 -> L + 1 - pos <> -1) ->
  shift_polyt (rfl L ex) c (rfp L pos) = (if (c =? 0) || (c =? Z.of_nat (length ex)) || (pos =? -1) then rfp L pos else L + 1 - shift_polya ex c pos) /\
  shift_polya (rfl L ex) c (rfp L pos) = (if (c =? 0) || (c =? Z.of_nat (length ex)) || (pos =? -1) then rfp L pos else L + 1 - shift_polyt ex c pos).
Proof. intros. split; [apply shift_polyt_mirror|apply shift_polya_mirror]; assumption. Qed.
Print Assumptions C11_shift_polyt_is_mirror_of_shift_polya.
End PolyAPairs.

Section Finder.
Import Cigar Cigar2 FinderMirror.
(* find_polyt_head(from, to) on the reverse-complemented read examines the bases find_polya_tail(from+1, to-1) examines on the read *)
Theorem C11_finder_window_mirror : forall w need fnum fden seq ops fr to en, 0 <= fr -> 1 <= to -> 0 <= tail_clip ops <= Z.of_nat (length seq) ->
  head_rel w need fnum fden (mseq seq) (rev ops) fr to en = tail_rel w need fnum fden seq ops (fr + 1) (to - 1) en.
Proof. exact finder_window_mirror. Qed.
Print Assumptions C11_finder_window_mirror.
Theorem C11_finder_mirror_partial : forall w need fnum fden L seq ops rs fr to en, 0 <= fr -> 1 <= to -> 0 <= tail_clip ops < Z.of_nat (length seq) ->
  let p1 := tail_rel w need fnum fden seq ops (fr + 1) (to - 1) en in
  let mend := Z.of_nat (length seq) - tail_clip ops in
  let pos := Z.max 0 (mend - (fr + 1)) + p1 in
  let t := find_polya_tail w need fnum fden seq ops rs (fr + 1) (to - 1) en in
  let h := find_polyt_head w need fnum fden (mseq seq) (rev ops) (L - (rs + ref_len ops)) fr to en in
  (p1 = -1 -> t = Ok (-1) /\ h = Ok (-1)) /\
  (p1 <> -1 -> pos >= mend -> exists p, t = Ok p /\ h = Ok (Z.max 1 (L - 1 - p))).
Proof. exact finder_mirror_partial. Qed.
Print Assumptions C11_finder_mirror_partial.
(* the exact mirror statement is false: (1) the windows differ by one base, (2) the polyT position lies two bases further out *)
Theorem C11_finder_mirror_refuted_window :
  let seq := repeat 1 30 ++ repeat 1 20 ++ repeat 0 12 ++ [1] in let ops := [(M, 30); (S, 33)] in
  find_polya_tail 16 12 3 4 seq ops 1000 2 32 false = Ok 1050 /\
  find_polyt_head 16 12 3 4 (mseq seq) (rev ops) (5000 - (1000 + 30)) 2 32 false = Ok (-1).
Proof. exact finder_mirror_refuted_window. Qed.
Print Assumptions C11_finder_mirror_refuted_window.
Theorem C11_finder_mirror_refuted_position :
  let seq := repeat 1 100 ++ repeat 0 25 in let ops := [(M, 100); (S, 25)] in
  find_polya_tail 16 12 3 4 seq ops 1000 2 32 false = Ok 1100 /\
  find_polyt_head 16 12 3 4 (mseq seq) (rev ops) (5000 - 1100) 2 32 false = Ok 3899 /\ rfp 5000 1100 = 3901.
Proof. exact finder_mirror_refuted_position. Qed.
Print Assumptions C11_finder_mirror_refuted_position.
End Finder.

(* ================================================================ 6. reflection: PolyAVerifier, select_similar_isoforms, thread_ends / thread_starts, exon corrector *)
Section Pairs.
Import VerifierMirror.
Theorem C11_check_if_close_mirror : forall n L P E ext int events t, pos_ok L ext -> pos_ok L int -> is_polya_pos_type t = true ->
  check_if_close P (L + 1 - E) (rfp L ext) (rfp L int) (map (mev n L) events) (swap_mes t) = option_map (map (mev n L)) (check_if_close P E ext int events t).
Proof. exact check_if_close_mirror. Qed.
Print Assumptions C11_check_if_close_mirror.
Theorem C11_detect_reference_exons_mirror : forall n L P iso ext int events, n = Z.of_nat (length iso) -> pos_ok L ext -> pos_ok L int -> ~ (ext = -1 /\ int = -1) ->
  Forall (fun e => 0 <= snd e <= L) iso -> sent_ok L iso ext int ->
  detect_before_polyt P (rfl L iso) (rfp L ext) (rfp L int) (map (mev n L) events) =
  let '(ev', x, i) := detect_beyond_polya P iso ext int events in (map (mev n L) ev', rfp L x, rfp L i).
Proof. exact detect_mirror. Qed.
Print Assumptions C11_detect_reference_exons_mirror.
Theorem C11_verify_polyt_is_mirror_of_verify_polya : forall n L P iso read ext int events, n = Z.of_nat (length iso) -> iso <> [] ->
  pos_ok L ext -> pos_ok L int -> Forall (fun e => 0 <= snd e <= L) iso -> shifted_ok L read [ext; int] ->
  (forall c, sent_ok L iso (PolyA2.shift_polya read c ext) (PolyA2.shift_polya read c int)) ->
  verify_polyt P (rfl L iso) (rfl L read) (rfp L ext) (rfp L int) (map (mev n L) events) =
  match verify_polya P iso read ext int events with Ok l => Ok (map (mev n L) l) | Raises k => Raises k end.
Proof. exact verify_polyt_mirror. Qed.
Print Assumptions C11_verify_polyt_is_mirror_of_verify_polya.

(* select_similar_isoforms: extra_right tests the read's START; with read_region[1] the selection is mirror symmetric *)
Theorem C11_extra_right_mirror_refuted :
  extra_left 4 (160, 200) (150, 190) + extra_right_cur 4 (160, 200) (150, 190) = 0 /\
  extra_left 4 (rf 1000 (160, 200)) (rf 1000 (150, 190)) + extra_right_cur 4 (rf 1000 (160, 200)) (rf 1000 (150, 190)) = 1 /\
  best_candidates 4 (160, 200) [(1, 0, (150, 190)); (2, 4, (150, 210))] = [1] /\
  best_candidates 4 (rf 1000 (160, 200)) [(1, 0, rf 1000 (150, 190)); (2, 4, rf 1000 (150, 210))] = [1; 2].
Proof. exact extra_right_mirror_refuted. Qed.
Print Assumptions C11_extra_right_mirror_refuted.
Theorem C11_best_candidates_fix_mirror : forall L delta rr cands,
  best_candidates_fix delta (rf L rr) (map (fun c => let '(id, diff, tr) := c in (id, diff, rf L tr)) cands) = best_candidates_fix delta rr cands.
Proof. exact best_candidates_fix_mirror. Qed.
Print Assumptions C11_best_candidates_fix_mirror.

(* thread_starts lacks the apa_delta tolerance of thread_ends *)
Theorem C11_thread_mirror_refuted :
  thread_ends 50 6 [] [5000] [] 5020 false = Some (1, 5000) /\
  thread_starts 50 6 [] [10000 + 1 - 5000] [] (10000 + 1 - 5020) false = None.
Proof. exact thread_mirror_refuted. Qed.
Print Assumptions C11_thread_mirror_refuted.
(* ExonCorrector.process_events (model of C14): a retained micro-intron is inserted in every read exon but the last *)
Theorem C11_microintron_mirror_refuted :
  Corrector.correct_assigned_read (Corrector.strategy_flags Corrector.St_default_ont) MicroIntron.c_first = Ok [(100, 149); (154, 200); (300, 400)] /\
  Corrector.correct_assigned_read (Corrector.strategy_flags Corrector.St_default_ont) MicroIntron.c_last = Ok [(101, 201); (301, 401)] /\
  rfl 500 [(100, 149); (154, 200); (300, 400)] = [(101, 201); (301, 347); (352, 401)].
Proof. exact MicroIntron.microintron_mirror_refuted. Qed.
Print Assumptions C11_microintron_mirror_refuted.
(* categorize_exon_elongation_subtype: with a common split exon in the searched range the left part on the mirrored input is the
   mirror image of the right part (profiles reversed, profile ranges [a, b) -> [n-b, n-a)) ... *)
Theorem C11_elongation_left_is_mirror_of_right : forall E L sx ip rp ir rr read_last,
  let n := Z.of_nat (length sx) in
  Z.of_nat (length ip) = n -> Z.of_nat (length rp) = n -> 0 <= snd ir <= n -> 0 <= snd rr <= n ->
  last_common (Datatypes.S (length sx)) ip rp (Z.min (snd ir - 1) (snd rr - 1)) <> -1 ->
  elong_left E (rfl L sx) (rev ip) (rev rp) (n - snd ir, n - fst ir) (n - snd rr, n - fst rr) (rf L read_last) =
  option_map (map (mev 0 L)) (elong_right E sx ip rp ir rr read_last).
Proof. exact ElongationMirror.elong_left_is_mirror_of_elong_right. Qed.
Print Assumptions C11_elongation_left_is_mirror_of_right.
(* ... without a common exon: split_exons[-1] on both sides *)
Theorem C11_elongation_no_common_exon_refuted :
  let E := mkep 50 300 6 in
  categorize_elongation E [(100, 200); (300, 400)] [1; 1] [-1; -1] (0, 2) (0, 2) [(95, 200); (300, 420)] =
    Some [mk_ev MES_exon_elongation_right undef_region undef_region 20] /\
  categorize_elongation E (rfl 1000 [(100, 200); (300, 400)]) [1; 1] [-1; -1] (0, 2) (0, 2) (rfl 1000 [(95, 200); (300, 420)]) = Some [].
Proof. exact elongation_no_common_exon_refuted. Qed.
Print Assumptions C11_elongation_no_common_exon_refuted.
End Pairs.

(* ================================================================ 7. inconsistency scoring, internal read ends, extra terminal exons *)
(* select_best_among_inconsistent: the exact (rational) penalty of a candidate does not change when left and right are swapped in every event;
   the bit-exact float model used by the correspondence has the same property (MirrorScore.select_best_swap, primitive floats, not restated here) *)
Theorem C11_inconsistency_penalty_left_right : forall P e evs,
  AssignerScore.event_penalty_q P (swap_sev e) = AssignerScore.event_penalty_q P e /\
  AssignerScore.penalty_q P (map swap_sev evs) = AssignerScore.penalty_q P evs.
Proof. intros. split; [apply event_penalty_q_swap|apply penalty_q_swap]. Qed.
Print Assumptions C11_inconsistency_penalty_left_right.
(* MIRROR PAIR IntronGraph.is_start_internal / is_end_internal *)
Theorem C11_is_start_internal_is_mirror_of_is_end_internal : forall L delta introns pos,
  is_start_internal delta (rfl L introns) (L + 1 - pos) = is_end_internal delta introns pos /\
  is_end_internal delta (rfl L introns) (L + 1 - pos) = is_start_internal delta introns pos.
Proof. intros. split; [apply is_start_internal_mirror|apply is_end_internal_mirror]. Qed.
Print Assumptions C11_is_start_internal_is_mirror_of_is_end_internal.
(* JunctionComparator.add_extra_out_exon_events (model of C01): terminal exons are measured alike on both sides, and the events of the
   mirrored read are the mirror images with the two sides exchanged (at least one read intron matched) *)
Theorem C11_terminal_exon_mirror : forall L reg l k, 0 <= k <= Junctions.lenz l ->
  Junctions.exon (rf L reg) (rfl L l) (Junctions.lenz l - k) = rf L (Junctions.exon reg l k).
Proof. exact exon_mirror. Qed.
Print Assumptions C11_terminal_exon_mirror.
Theorem C11_extra_out_exon_events_mirror : forall L P rreg R ireg rp nI, length rp = length R -> (1 <= length R)%nat ->
  2 * Junctions.lenz R < SMC_extra_left_mod_position -> forallb (Z.eqb 0) rp = false ->
  exists left right, Junctions.extra_out P rreg R ireg rp = left ++ right /\
    Junctions.extra_out P (rf L rreg) (rfl L R) (rf L ireg) (rev rp) = map (mevent (Junctions.lenz R) nI) right ++ map (mevent (Junctions.lenz R) nI) left.
Proof. exact extra_out_mirror. Qed.
Print Assumptions C11_extra_out_exon_events_mirror.

(* ================================================================ the hypotheses are satisfiable *)
Example C11_hypotheses_satisfiable :
  VerifierMirror.pos_ok 5000 398 /\ VerifierMirror.pos_ok 5000 (-1) /\ IntervalsMirror.hull_ok [(10, 20); (30, 40)] /\
  VerifierMirror.sent_ok 5000 [(100, 200); (300, 400)] 398 (-1) /\ VerifierMirror.shifted_ok 5000 [(100, 200); (300, 398)] [398; -1] /\
  verify_polya (mkvp 50 40 100 6) [(100, 200); (300, 400)] [(100, 200); (300, 398)] 398 (-1) [] =
    Ok [mk_ev MES_correct_polya_site_right undef_region undef_region 398].
Proof. exact hypotheses_satisfiable. Qed.
Print Assumptions C11_hypotheses_satisfiable.
