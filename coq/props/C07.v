(* C07 — resuming an interrupted run yields the outputs of an uninterrupted run.
   Property theorems only; models and proofs: Resume.v (generic lock protocol), ResumeInvariant.v (generic: the invariant "a lock
   vouches for intact outputs" makes every crash point resumable, merge and clean-up included), ResumeProgram.v (the pipeline
   as a program of file-system operations; unit level for every chromosome list; merge_files is not a unit), ResumeFull.v
   (the repaired pipeline is an instance of ResumeInvariant for every chromosome list), ResumeCompute.v (the operation-level
   program evaluated at every crash point of families of small configurations).
   The harness (harness/props/c07.py) checks that the logged mutation trace of the real pipeline IS `ticks cfg` and that the
   real outcome of kill + --resume at every mutation point IS `outcome_of cfg k after`. *)
From Coq Require Import NArith List Bool Lia.
From IQ Require Import Resume ResumeInvariant ResumeProgram ResumeFull ResumeCompute.
Import ListNotations. Open Scope N_scope.

(* ---- 1. the protocol, generically: units = truncating writes then the lock; resume = skip iff the lock exists.  Whatever the
   crash did to the outputs of the interrupted unit (several files open at once, half written, missing), the resumed run
   reaches pointwise the state of the uninterrupted run. *)
Theorem C07_lock_protocol_sound : forall (F:Type) (feqb:F -> F -> bool), (forall a b, feqb a b = true <-> a = b) ->
  forall (C:Type) (lockc:C) (pre:list (Resume.unit_ F C)) u post (s0 c:Resume.st F C),
  NoDup (pre ++ u :: post) -> disjoint_units F C (pre ++ u :: post) -> lock_apart F C u ->
  (forall v, In v (pre ++ u :: post) -> s0 (lock v) = None) ->
  crashed_inside F C (run_all F feqb C lockc s0 pre) u c ->
  eqst F C (resume_all F feqb C lockc c (pre ++ u :: post)) (run_all F feqb C lockc s0 (pre ++ u :: post)).
Proof. exact lock_protocol_sound_any. Qed.
Print Assumptions C07_lock_protocol_sound.

(* ---- 2. the units of the pipeline (read-group split, stage 1 per chromosome, resolve, stage 2 per chromosome) satisfy the
   premises for EVERY configuration and EVERY chromosome list without repetitions *)
Theorem C07_pipeline_units_wf : forall cf, NoDup (chrs cf) ->
  NoDup (pipeline_units cf) /\ disjoint_units fname content (pipeline_units cf) /\ Forall (lock_apart fname content) (pipeline_units cf).
Proof. exact pipeline_units_wf. Qed.
Print Assumptions C07_pipeline_units_wf.

(* ---- 3. hence every crash up to the end of stage 2 resumes to the uninterrupted state *)
Theorem C07_resume_ok_before_merge : forall cf pre u post (s0 c:ust),
  NoDup (chrs cf) -> pipeline_units cf = pre ++ u :: post ->
  (forall v, In v (pipeline_units cf) -> s0 (lock v) = None) ->
  crashed_inside fname content (u_run_all s0 pre) u c ->
  u_eq (u_resume_all c (pipeline_units cf)) (u_run_all s0 (pipeline_units cf)).
Proof. exact resume_ok_before_merge. Qed.
Print Assumptions C07_resume_ok_before_merge.

(* the hierarchical guards of the source (save_lock skips the whole collection) are the flat skip-iff-lock interpretation on
   every state in which save_lock implies the _collected locks *)
Theorem C07_hierarchical_guards : forall cf (s:ust),
  (s SaveLock <> None -> forall c, In c (chrs cf) -> s (Collected c) <> None) ->
  resume_pipeline cf s = u_resume_all s (pipeline_units cf).
Proof. exact resume_pipeline_eq. Qed.
Print Assumptions C07_hierarchical_guards.

(* ---- 4. merge_files is not a unit: run on the state it produced itself it fails in os.remove, for every chromosome list,
   output kind and state - nothing guards it and its removals are not idempotent *)
Theorem C07_merge_not_a_unit : forall cf k x, merge_order cf <> [] -> stat x = Running -> budget x = None ->
  stat (run (ds (merge_kind cf k ++ merge_kind cf k)) x) = Failed.
Proof. exact merge_not_a_unit. Qed.
Print Assumptions C07_merge_not_a_unit.

(* ---- 5. the repaired protocol, every crash point, EVERY chromosome list (unit level with reads, merge and clean-up).
   Generic form: a program of producer units (lock last, skipped iff locked), lock drops, finals computed from parts that
   are then removed strictly, clean-up of locks then data; any kill leaves a Good state, and from any Good state the resumed
   program completes in the final state of the uninterrupted run. *)
Theorem C07_resume_sound_generic : forall (F:Type) (feqb:F -> F -> bool), (forall a b, feqb a b = true <-> a = b) ->
  forall (C:Type) (ceqb:C -> C -> bool), (forall a b, ceqb a b = true <-> a = b) ->
  forall (want:F -> C) (lockc:C) (p:pprog F), wf F p ->
  forall (s0 c:ResumeInvariant.st F C), (forall u, In u (units F p) -> s0 (p_lock F u) = None) ->
  crash_state F feqb C ceqb want lockc p s0 c ->
  exists s' s'', ResumeInvariant.exec F feqb C ceqb want lockc c (steps F p) = Some s' /\
                 ResumeInvariant.exec F feqb C ceqb want lockc s0 (steps F p) = Some s'' /\ forall g, s' g = s'' g.
Proof. exact resume_sound. Qed.
Print Assumptions C07_resume_sound_generic.

(* the pipeline with the three repairs: every configuration, every chromosome list without repetitions, every order `dl` in
   which the clean-up removes the data files, every kill point *)
Theorem C07_resume_any_crash_point : forall cf dl (s0 c:ResumeInvariant.st fname content),
  NoDup (chrs cf) -> rg_ok cf = true -> layout_ok cf = true ->
  (forall f, In f dl -> exists u, In u (p_units cf) /\ In f (p_outs fname u)) ->
  (forall u, In u (p_units cf) -> s0 (p_lock fname u) = None) ->
  f_crash_state cf dl s0 c ->
  exists s' s'', f_exec c (steps fname (repaired_prog cf dl)) = Some s' /\ f_exec s0 (steps fname (repaired_prog cf dl)) = Some s'' /\
                 forall g, s' g = s'' g.
Proof. exact resume_any_crash_point. Qed.
Print Assumptions C07_resume_any_crash_point.

(* its units are the units of section 2 (same outputs, same locks), and its lock creations and removals are, in the same
   order, those of the operation-level program that the harness compares with the real trace (computed for the family);
   the side conditions layout_ok / rg_ok hold there *)
Theorem C07_abstract_units_are_pipeline_units : forall cf,
  map (fun u => (map (fun f => (f, want f)) (p_outs fname u), p_lock fname u)) (p_units cf) = map (fun u => (outs u, lock u)) (pipeline_units cf).
Proof. exact p_units_are_pipeline_units. Qed.
Print Assumptions C07_abstract_units_are_pipeline_units.
Theorem C07_abstract_program_is_the_program : forallb abstract_matches (family true true true) = true.
Proof. exact family_abstract_matches. Qed.
Print Assumptions C07_abstract_program_is_the_program.

(* ---- 6. the operation-level program at every crash point; `family fc fp fcl` = 1 to 3 chromosomes (also with name order <>
   processing order), with/without --genedb, with/without a read-group file, with/without --keep_tmp;
   fc / fp / fcl = with fixes/C07_close_before_lock / C07_drop_processed_locks_before_merge / C07_cleanup_locks_first *)
(* current code: a kill before any mutation up to the first removal of a per-chromosome file resumes to identical outputs *)
Theorem C07_resume_ok_before_merge_program : forall cf, In cf (family false false false) ->
  forall k, (1 <= k <= first_part_removal cf)%nat -> (k <= n_mutations cf)%nat -> outcome_of cf k false = Identical.
Proof. exact resume_ok_before_merge_program. Qed.
Print Assumptions C07_resume_ok_before_merge_program.

(* current code: once the first per-chromosome file is removed and until the last _processed lock is gone (never, with
   --keep_tmp) the resumed run FAILS - the model predicts failure, not different content *)
Theorem C07_resume_merge_refuted : forall cf, In cf (family false false false) ->
  forall k after, (1 <= k <= n_mutations cf)%nat -> in_merge_window cf k after = true -> outcome_of cf k after = Fails.
Proof. exact resume_merge_refuted. Qed.
Print Assumptions C07_resume_merge_refuted.

(* repaired code: EVERY crash point - before or right after any mutation - resumes to identical outputs.
   Partial: computed for the family (up to 3 chromosomes) and for the same configurations run with --read_assignments on the
   saves of a --keep_tmp run (reuse_family), not proved for every chromosome list. *)
Theorem C07_resume_any_crash_point_partial : forall cf, In cf (family true true true ++ reuse_family true true) ->
  forall k after, (1 <= k <= n_mutations cf)%nat -> outcome_of cf k after = Identical.
Proof. exact resume_any_crash_point_small. Qed.
Print Assumptions C07_resume_any_crash_point_partial.

(* each of the three repairs is needed *)
Theorem C07_each_repair_needed :
  forallb all_identical (family false true true) = false /\ forallb all_identical (family true false true) = false /\
  forallb all_identical (family true true false) = false.
Proof. exact family_each_fix_needed. Qed.
Print Assumptions C07_each_repair_needed.

(* the two levels agree: when stage 2 has finished, the operation-level state gives every file of every unit the content
   the unit-level run gives it (both code variants, whole family) *)
Theorem C07_units_are_the_programs_units : forallb units_state_matches (family false false false ++ family true true true) = true.
Proof. exact family_units_state_matches. Qed.
Print Assumptions C07_units_are_the_programs_units.

(* ---- 7. a fresh (not --resume) start in a folder that holds the leftovers of a killed EARLIER run with other options (every
   left-over content is stale).  cfA: one chromosome, leftovers of a kill at every mutation point; cfB: two chromosomes with a
   read-group file, all points for the uninterrupted run, three representative kills for the interrupted one. *)
(* uninterrupted, the fresh run produces the outputs of a run in an empty folder: what it trusts it has written itself *)
Theorem C07_fresh_start_ignores_leftovers :
  both (fun k1 a1 => uninterrupted_ok cfA (leftovers cfA k1 a1)) (seq 1 (n_mutations cfA)) &&
  both (fun k1 a1 => uninterrupted_ok cfB (leftovers cfB k1 a1)) (seq 1 (n_mutations cfB)) = true.
Proof. exact fresh_start_uninterrupted. Qed.
Print Assumptions C07_fresh_start_ignores_leftovers.
(* current code, REFUTED for the killed fresh run: the stage locks of the earlier run are dropped only when collect_reads is
   reached; killed right after .params was rewritten (its 5th mutation) the resumed run trusts them and completes with stale
   content *)
Theorem C07_killed_fresh_start_refuted :
  verdict (fs (clean_run cfA)) (resume_over false (leftovers cfA (first_removal cfA) false) cfA 5 false) = Differs /\
  over_all false cfA (leftovers cfA (first_removal cfA) false) 5 = false.
Proof. exact fresh_start_current_refuted. Qed.
Print Assumptions C07_killed_fresh_start_refuted.
(* with the stage locks dropped before .params is rewritten (fixes/C07_fresh_start_drops_stale_locks.diff) every kill point
   of the fresh run resumes to the outputs of a run in an empty folder (partial: the two configurations above) *)
Theorem C07_killed_fresh_start_repaired_partial :
  both (fun k1 a1 => over_all true cfA (leftovers cfA k1 a1) 5) (seq 1 (n_mutations cfA)) &&
  both (fun k1 a1 => over_all true cfB (leftovers cfB k1 a1) 5) [first_removal cfB; first_part_removal cfB + 2; n_mutations cfB - 4]%nat = true.
Proof. exact fresh_start_early_cleaning_ok. Qed.
Print Assumptions C07_killed_fresh_start_repaired_partial.

(* ---- examples and witnesses *)
(* the configuration term the harness derives for the bundled single-chromosome run (current code, lexicographic glob
   order) is gen_cfg; its program has the 79 mutations the wrapper logs *)
Definition bundled_setup : list N := [0; 1; 1; 2; 3; 4; 5; 6; 7; 8; 9; 10; 7; 11; 11; 12; 13].
Definition bundled_current : cfg :=
  mkcfg bundled_setup [] false [0] [0] [COpen 0; COpen 1; CTouch 2; CTouch 5; CTouch 8; COpen 20; COpen 21; COpen 22]
        [DCounterU 2 3; DCounterU 5 6; DReadStat; DCounterU 8 9; DTrStat]
        [MPrinter 20; MPrinter 21; MCounterU 8 9 10; MPrinter 22; MPrinter 1; MPrinter 0; MCounterU 2 3 4; MCounterU 5 6 7] true false
        [Save 0; Bamstat 0; Collected 0; Groups 0; Processed 0; ReadStat 0; TrStat 0; Info; SaveLock; Multi 0; RGLock] false false false.
Definition bundled_repaired : cfg :=
  mkcfg bundled_setup [] false [0] [0] [COpen 0; COpen 1; CTouch 2; CTouch 5; CTouch 8; COpen 20; COpen 21; COpen 22]
        [DCounterU 2 3; DCounterU 5 6; DReadStat; DCounterU 8 9; DTrStat]
        [MPrinter 20; MPrinter 21; MCounterU 8 9 10; MPrinter 22; MPrinter 1; MPrinter 0; MCounterU 2 3 4; MCounterU 5 6 7] true false
        [RGLock; SaveLock; Collected 0; Save 0; Bamstat 0; Groups 0; ReadStat 0; TrStat 0; Info; Multi 0] true true false.
Example harness_cfg_is_gen_cfg :
  bundled_current = gen_cfg bundled_setup [0] [] false true false false false false false /\
  bundled_repaired = gen_cfg bundled_setup [0] [] false true false false true true true.
Proof. split; reflexivity. Qed.
Example bundled_has_79_mutations : n_mutations bundled_current = 79%nat /\ n_mutations bundled_repaired = 79%nat /\
  cleanup_ok bundled_current = true /\ cleanup_ok bundled_repaired = true /\ locks_first (cleanup bundled_repaired) = true.
Proof. vm_compute. repeat split. Qed.

(* the window of the bundled run: mutations 52 (first part removed) to 73 (_processed removed under lexicographic order) *)
Example bundled_window : first_part_removal bundled_current = 52%nat /\ last_processed_removal bundled_current = 73%nat /\
  outcome_of bundled_current 52 false = Identical /\ outcome_of bundled_current 53 false = Fails /\ outcome_of bundled_current 73 false = Fails.
Proof. vm_compute. repeat split. Qed.

(* lock written before its files are closed (current code): killed right after the _collected lock of stage 1 appears the
   resumed run fails on the cut-off save file; killed right after the _processed lock of stage 2 appears the resumed run
   SUCCEEDS with truncated results *)
Example C07_lock_before_close_refuted :
  outcome_of bundled_current 23 true = Fails /\ outcome_of bundled_current 51 true = Differs /\
  outcome_of bundled_repaired 23 true = Identical /\ outcome_of bundled_repaired 51 true = Identical.
Proof. vm_compute. repeat split. Qed.

(* clean-up in glob order (current code): after the _processed lock is gone the save file of the chromosome is already
   removed while save_lock still vouches for it; with locks first every clean-up point resumes *)
Example C07_cleanup_order_refuted :
  outcome_of bundled_current 74 false = Fails /\ outcome_of bundled_current 77 false = Fails /\ outcome_of bundled_current 78 false = Identical /\
  in_merge_window bundled_current 74 false = false /\
  forallb (fun k => outcome_eqb (outcome_of bundled_repaired k false) Identical && outcome_eqb (outcome_of bundled_repaired k true) Identical) (seq 70 10) = true.
Proof. vm_compute. repeat split. Qed.

(* the hypotheses of the unit-level theorem are satisfiable: a crash in the middle of stage 2 of the second of three
   chromosomes, two of its files half written, one missing *)
Example unit_level_instance :
  let cf := gen_cfg [] [1;2;0] [1;2;0] true true true false true true true in
  exists pre u post, pipeline_units cf = pre ++ u :: post /\ u = stage2_unit cf 1 /\ NoDup (chrs cf) /\ length pre = 6%nat.
Proof. cbv zeta. exists (firstn 6 (pipeline_units (gen_cfg [] [1;2;0] [1;2;0] true true true false true true true))).
  eexists. eexists. split; [|split; [|split]].
  - vm_compute. reflexivity.
  - reflexivity.
  - vm_compute. repeat constructor; cbn; intuition discriminate.
  - reflexivity. Qed.

(* the hypotheses of C07_resume_any_crash_point are satisfiable: three chromosomes with a read-group file, killed in the
   merge phase after 44 steps (all units done, the _processed locks dropped, some parts already removed) *)
Example crash_state_inhabited :
  let cf := gen_cfg [] [1;2;0] [1;2;0] true true true false true true true in let dl := data_of_cleanup cf in
  NoDup (chrs cf) /\ rg_ok cf = true /\ layout_ok cf = true /\ exists c, f_crash_state cf dl (fun _ => None) c.
Proof. cbv zeta. split; [|split; [|split]].
  - vm_compute. repeat constructor; cbn; intuition discriminate.
  - vm_compute. reflexivity.
  - vm_compute. reflexivity.
  - set (cf := gen_cfg [] [1;2;0] [1;2;0] true true true false true true true). set (dl := data_of_cleanup cf).
    set (l := steps fname (repaired_prog cf dl)).
    assert (X: exists m, f_exec (fun _ => None) (firstn 44 l) = Some m) by (vm_compute; eexists; reflexivity).
    destruct X as (m & X). exists m. exists (firstn 44 l), (nth 44 l (SErase fname Info)), (skipn 45 l), m.
    split; [vm_compute; reflexivity|split; [exact X|reflexivity]]. Qed.

(* what the current code breaks is the invariant: killed before mutation 53 of the bundled run the _processed lock of chr9
   exists while the part OUT_chr9.transcript_models.gtf is gone *)
Example C07_current_code_breaks_the_invariant :
  let s : ResumeInvariant.st fname content := fun f => option_map fcontent (get (crash_fs (crash_run bundled_current 53 false)) f) in
  ~ f_Good bundled_current [] s.
Proof. cbv zeta. apply (lock_with_bad_output_not_good bundled_current [] _ (p_stage2 bundled_current 0) (Part 20 0)).
  - vm_compute. repeat (try (left; reflexivity); right).
  - vm_compute. repeat (try (left; reflexivity); right).
  - vm_compute. discriminate.
  - vm_compute. discriminate. Qed.
