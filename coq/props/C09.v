(* C09 — grouped tables partition the ungrouped ones; matrix and linear formats agree; every read gets the documented group.
   Property theorems only; proofs live in GroupedGroupers.v (groupers), CountingCounter.v (faithful counter model),
   CountingProofs.v, GroupedProofs.v.  The model describes the code after fixes/C09_linear_labels.diff and
   fixes/C09_read_id_default_group.diff; the unrepaired definitions are kept and refuted by witnesses. *)
From Coq Require Import ZArith QArith List Bool.
From IQ Require Import Counting CountingCounter CountingProofs GroupedProofs GroupedGroupers.
Import ListNotations.
Open Scope Z_scope.

(* ---- groupers: a group is always returned, the default group NA when the read carries none *)
Theorem C09_grouper_total :
  (tag_group None = NA /\ forall v, tag_group (Some v) = v) /\
  (forall d name, occurs d name = false -> read_id_group d name = NA) /\
  (forall rc gc delim lines name, lookup_last (load_table rc gc delim lines) name = None -> table_group rc gc delim lines name = NA) /\
  (forall dict, file_name_group dict None = NA /\
     (forall f, lookup_first dict f = None -> file_name_group dict (Some f) = match f with [] => NA | _ => f end) /\
     (forall f l, lookup_first dict f = Some l -> file_name_group dict (Some f) = l)).
Proof. split; [exact tag_group_total|]. split; [exact read_id_group_default|]. split; [exact table_group_default|exact file_name_group_total]. Qed.
Print Assumptions C09_grouper_total.
(* read-id suffix: the part after the last delimiter of Python's left-to-right split; `occurs` is "the delimiter is a substring" *)
Theorem C09_read_id_group_is_suffix : forall d name, d <> [] -> occurs d name = true ->
  exists pre, name = pre ++ d ++ read_id_group d name /\ occurs d (read_id_group d name) = false.
Proof. exact read_id_group_suffix. Qed.
Print Assumptions C09_read_id_group_is_suffix.
Theorem C09_occurs_is_substring : forall d s, occurs d s = true <-> exists a b, s = a ++ d ++ b.
Proof. exact occurs_spec. Qed.
Print Assumptions C09_occurs_is_substring.
(* the code before the repair answers None for a read id without the delimiter (the run then dies in write_string) *)
Example C09_read_id_grouper_current_code_refuted : read_id_group_cur [95] [114; 101; 97; 100; 49] = None /\ read_id_group [95] [114; 101; 97; 100; 49] = NA.
Proof. exact read_id_group_current_code_refuted. Qed.

(* ---- matrix: every cell is zero for an unconfirmed feature and otherwise the documented weighted sum over the records of that group,
        for EVERY duplicate-free enumeration of the group set from which the numeric ids are taken (= every hash seed) *)
Theorem C09_matrix_cell_is_weighted_sum : forall cf complete evs st, enum_cfg cf ->
  run cf (init_state complete) evs = Some st -> forallb (wf_event cf) evs = true ->
  forall f cells, In (f, cells) (dump_matrix cf st) ->
  Forall2 (fun g v => (v == spec_cell (c_strategy cf) (c_level cf) evs f (Some g))%Q) (c_ordered cf) cells.
Proof. exact matrix_cell_is_weighted_sum. Qed.
Print Assumptions C09_matrix_cell_is_weighted_sum.
Theorem C09_matrix_perm_invariant : forall cf1 cf2 complete evs st1 st2, enum_cfg cf1 -> enum_cfg cf2 ->
  c_strategy cf1 = c_strategy cf2 -> c_level cf1 = c_level cf2 -> c_ordered cf1 = c_ordered cf2 ->
  run cf1 (init_state complete) evs = Some st1 -> run cf2 (init_state complete) evs = Some st2 ->
  forallb (wf_event cf1) evs = true -> forallb (wf_event cf2) evs = true ->
  forall f cells1 cells2, In (f, cells1) (dump_matrix cf1 st1) -> In (f, cells2) (dump_matrix cf2 st2) -> Forall2 Qeq cells1 cells2.
Proof. exact matrix_perm_invariant. Qed.
Print Assumptions C09_matrix_perm_invariant.
(* both constructors (current: ids by enumeration of the collection; repaired: ids by position in the sorted list) satisfy the hypothesis *)
Theorem C09_constructors_enumerate : forall s lv na groups z fmt, groups <> [] ->
  repaired_cfg (mk_counter s lv na groups z fmt) /\ (NoDup groups -> enum_cfg (mk_counter_cur s lv na groups z fmt)).
Proof. intros. split; [apply mk_counter_repaired; assumption|apply mk_counter_cur_enum; assumption]. Qed.
Print Assumptions C09_constructors_enumerate.
(* the repaired constructor is the same object for every enumeration order of the group collection *)
Theorem C09_counter_order_independent : forall s lv na g1 g2 z fmt, g1 <> [] -> (forall x, In x g1 <-> In x g2) ->
  mk_counter s lv na g1 z fmt = mk_counter s lv na g2 z fmt.
Proof. exact mk_counter_order_independent. Qed.
Print Assumptions C09_counter_order_independent.

(* ---- linear = matrix (after the repair): every linear row carries a label of the universe, the value of the matrix cell of that
        (feature, label) and hence the documented weighted sum; every non-zero matrix cell is a linear row *)
Theorem C09_linear_eq_matrix : forall cf complete evs st, repaired_cfg cf ->
  run cf (init_state complete) evs = Some st -> forallb (wf_event cf) evs = true ->
  (forall f lab v, In (f, lab, v) (dump_linear cf st) -> In lab (c_ordered cf) /\ (v == get (zeroed st) f (gid_of cf lab))%Q) /\
  (forall f g, In f (all_feats st) -> In g (c_ordered cf) -> ~ (get (zeroed st) f (gid_of cf g) == 0)%Q ->
     In (f, g, get (zeroed st) f (gid_of cf g)) (dump_linear cf st)).
Proof. exact linear_eq_matrix. Qed.
Print Assumptions C09_linear_eq_matrix.
Theorem C09_linear_rows_are_weighted_sums : forall cf complete evs st, repaired_cfg cf ->
  run cf (init_state complete) evs = Some st -> forallb (wf_event cf) evs = true ->
  forall f lab v, In (f, lab, v) (dump_linear cf st) ->
  In lab (c_ordered cf) /\ (v == get (zeroed st) f (gid_of cf lab))%Q /\ (v == spec_cell (c_strategy cf) (c_level cf) evs f (Some lab))%Q.
Proof. exact linear_rows_are_matrix_cells. Qed.
Print Assumptions C09_linear_rows_are_weighted_sums.
(* the code before the repair: with the collection enumerated as [3;1;2] the two reads of group 3 are printed under label 1 *)
Example C09_linear_eq_matrix_current_code_refuted :
  match run cur_witness_cfg (init_state []) cur_witness_events with
  | Some st => dump_matrix cur_witness_cfg st = [(7, [1%Q; 0%Q; (1 + 1)%Q])] /\
               dump_linear cur_witness_cfg st = [(7, 1, (1 + 1)%Q); (7, 2, 1%Q)]
  | None => False end.
Proof. exact linear_eq_matrix_current_code_refuted. Qed.

(* ---- the groups partition the ungrouped table: for every feature the per-group cells add up to the ungrouped cell, provided
        every record's group is in the (duplicate-free) universe *)
Theorem C09_groups_partition_ungrouped : forall s lv evs f gs, NoDup gs ->
  (forall ev g, In ev evs -> ev_group ev = Some g -> In g gs) ->
  (qsum' (map (fun g => spec_cell s lv evs f (Some g)) gs) == spec_cell s lv evs f None)%Q.
Proof. exact groups_partition_ungrouped. Qed.
Print Assumptions C09_groups_partition_ungrouped.

(* ---- non-vacuity: the hypotheses hold of a concrete grouped run (repaired constructor, groups passed as [3;1;2]) *)
Example C09_example_run :
  let cf := mk_counter AllReads TranscriptLevel 2 [3; 1; 2] true (true, true) in
  forallb (wf_event cf) cur_witness_events = true /\ c_ordered cf = [1; 2; 3] /\
  match run cf (init_state []) cur_witness_events with
  | Some st => dump_matrix cf st = [(7, [1%Q; 0%Q; (1 + 1)%Q])] /\ dump_linear cf st = [(7, 3, (1 + 1)%Q); (7, 1, 1%Q)]
  | None => False end.
Proof. vm_compute. repeat split; reflexivity. Qed.
