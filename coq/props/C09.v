(* C09 — grouped tables partition the ungrouped ones; matrix and linear formats agree; every read gets the documented group.
   Property theorems only; proofs live in GroupedGroupers.v (groupers), CountingCounter.v (faithful counter model),
   CountingProofs.v, GroupedProofs.v.  The model describes the code after fixes/C09_linear_labels.diff and
   fixes/C09_read_id_default_group.diff; the unrepaired definitions are kept and refuted by witnesses. *)
From Coq Require Import ZArith QArith List Bool.
From IQ Require Import Counting CountingCounter CountingProofs GroupedProofs GroupedGroupers.
Import ListNotations.
Open Scope Z_scope.

(* ---- groupers: a group is always returned, the default group NA when the read carries none *)
Theorem C09_grouper_total :
  (tag_group None = NA /\ forall v, tag_group (Some v) = v) /\
  (forall d name, occurs d name = false -> read_id_group d name = NA) /\
  (forall rc gc delim lines name, lookup_last (load_table rc gc delim lines) name = None -> table_group rc gc delim lines name = NA) /\
  (forall dict, file_name_group dict None = NA /\
     (forall f, lookup_first dict f = None -> file_name_group dict (Some f) = match f with [] => NA | _ => f end) /\
     (forall f l, lookup_first dict f = Some l -> file_name_group dict (Some f) = l)).
Proof. split; [exact tag_group_total|]. split; [exact read_id_group_default|]. split; [exact table_group_default|exact file_name_group_total]. Qed.
Print Assumptions C09_grouper_total.
(* read-id suffix: the part after the last delimiter of Python's left-to-right split; `occurs` is "the delimiter is a substring" *)
Theorem C09_read_id_group_is_suffix : forall d name, d <> [] -> occurs d name = true ->
  exists pre, name = pre ++ d ++ read_id_group d name /\ occurs d (read_id_group d name) = false.
Proof. exact read_id_group_suffix. Qed.
Print Assumptions C09_read_id_group_is_suffix.
Theorem C09_occurs_is_substring : forall d s, occurs d s = true <-> exists a b, s = a ++ d ++ b.
Proof. exact occurs_spec. Qed.
Print Assumptions C09_occurs_is_substring.
(* the code before the repair answers None for a read id without the delimiter (the run then dies in write_string) *)
Example C09_read_id_grouper_current_code_refuted : read_id_group_cur [95] [114; 101; 97; 100; 49] = None /\ read_id_group [95] [114; 101; 97; 100; 49] = NA.
Proof. exact read_id_group_current_code_refuted. Qed.

(* ---- matrix: every cell is zero for an unconfirmed feature and otherwise the documented weighted sum over the records of that group,
        for EVERY duplicate-free enumeration of the group set from which the numeric ids are taken (= every hash seed) *)
Theorem C09_matrix_cell_is_weighted_sum : forall cf complete evs st, enum_cfg cf ->
  run cf (init_state complete) evs = Some st -> forallb (wf_event cf) evs = true ->
  forall f cells, In (f, cells) (dump_matrix cf st) ->
  Forall2 (fun g v => (v == spec_cell (c_strategy cf) (c_level cf) evs f (Some g))%Q) (c_ordered cf) cells.
Proof. exact matrix_cell_is_weighted_sum. Qed.
Print Assumptions C09_matrix_cell_is_weighted_sum.
Theorem C09_matrix_perm_invariant : forall cf1 cf2 complete evs st1 st2, enum_cfg cf1 -> enum_cfg cf2 ->
  c_strategy cf1 = c_strategy cf2 -> c_level cf1 = c_level cf2 -> c_ordered cf1 = c_ordered cf2 ->
  run cf1 (init_state complete) evs = Some st1 -> run cf2 (init_state complete) evs = Some st2 ->
  forallb (wf_event cf1) evs = true -> forallb (wf_event cf2) evs = true ->
  forall f cells1 cells2, In (f, cells1) (dump_matrix cf1 st1) -> In (f, cells2) (dump_matrix cf2 st2) -> Forall2 Qeq cells1 cells2.
Proof. exact matrix_perm_invariant. Qed.
Print Assumptions C09_matrix_perm_invariant.
(* both constructors (current: ids by enumeration of the collection; repaired: ids by position in the sorted list) satisfy the hypothesis *)
Theorem C09_constructors_enumerate : forall s lv na groups z fmt, groups <> [] ->
  repaired_cfg (mk_counter s lv na groups z fmt) /\ (NoDup groups -> enum_cfg (mk_counter_cur s lv na groups z fmt)).
Proof. intros. split; [apply mk_counter_repaired; assumption|apply mk_counter_cur_enum; assumption]. Qed.
Print Assumptions C09_constructors_enumerate.
(* the repaired constructor is the same object for every enumeration order of the group collection *)
Theorem C09_counter_order_independent : forall s lv na g1 g2 z fmt, g1 <> [] -> (forall x, In x g1 <-> In x g2) ->
  mk_counter s lv na g1 z fmt = mk_counter s lv na g2 z fmt.
Proof. exact mk_counter_order_independent. Qed.
Print Assumptions C09_counter_order_independent.

(* ---- linear = matrix (after the repair): every linear row carries a label of the universe, the value of the matrix cell of that
        (feature, label) and hence the documented weighted sum; every non-zero matrix cell is a linear row *)
Theorem C09_linear_eq_matrix : forall cf complete evs st, repaired_cfg cf ->
  run cf (init_state complete) evs = Some st -> forallb (wf_event cf) evs = true ->
  (forall f lab v, In (f, lab, v) (dump_linear cf st) -> In lab (c_ordered cf) /\ (v == get (zeroed st) f (gid_of cf lab))%Q) /\
  (forall f g, In f (all_feats st) -> In g (c_ordered cf) -> ~ (get (zeroed st) f (gid_of cf g) == 0)%Q ->
     In (f, g, get (zeroed st) f (gid_of cf g)) (dump_linear cf st)).
Proof. exact linear_eq_matrix. Qed.
Print Assumptions C09_linear_eq_matrix.
Theorem C09_linear_rows_are_weighted_sums : forall cf complete evs st, repaired_cfg cf ->
  run cf (init_state complete) evs = Some st -> forallb (wf_event cf) evs = true ->
  forall f lab v, In (f, lab, v) (dump_linear cf st) ->
  In lab (c_ordered cf) /\ (v == get (zeroed st) f (gid_of cf lab))%Q /\ (v == spec_cell (c_strategy cf) (c_level cf) evs f (Some lab))%Q.
Proof. exact linear_rows_are_matrix_cells. Qed.
Print Assumptions C09_linear_rows_are_weighted_sums.
(* the code before the repair: with the collection enumerated as [3;1;2] the two reads of group 3 are printed under label 1 *)
Example C09_linear_eq_matrix_current_code_refuted :
  match run cur_witness_cfg (init_state []) cur_witness_events with
  | Some st => dump_matrix cur_witness_cfg st = [(7, [1%Q; 0%Q; (1 + 1)%Q])] /\
               dump_linear cur_witness_cfg st = [(7, 1, (1 + 1)%Q); (7, 2, 1%Q)]
  | None => False end.
Proof. exact linear_eq_matrix_current_code_refuted. Qed.

(* ---- the groups partition the ungrouped table: for every feature the per-group cells add up to the ungrouped cell, provided
        every record's group is in the (duplicate-free) universe *)
Theorem C09_groups_partition_ungrouped : forall s lv evs f gs, NoDup gs ->
  (forall ev g, In ev evs -> ev_group ev = Some g -> In g gs) ->
  (qsum' (map (fun g => spec_cell s lv evs f (Some g)) gs) == spec_cell s lv evs f None)%Q.
Proof. exact groups_partition_ungrouped. Qed.
Print Assumptions C09_groups_partition_ungrouped.

(* ---- non-vacuity: the hypotheses hold of a concrete grouped run (repaired constructor, groups passed as [3;1;2]) *)
Example C09_example_run :
  let cf := mk_counter AllReads TranscriptLevel 2 [3; 1; 2] true (true, true) in
  forallb (wf_event cf) cur_witness_events = true /\ c_ordered cf = [1; 2; 3] /\
  match run cf (init_state []) cur_witness_events with
  | Some st => dump_matrix cf st = [(7, [1%Q; 0%Q; (1 + 1)%Q])] /\ dump_linear cf st = [(7, 3, (1 + 1)%Q); (7, 1, 1%Q)]
  | None => False end.
Proof. vm_compute. repeat split; reflexivity. Qed.

(* ==== the group universe (GroupedUniverse.v): per chromosome the grouper registers the answer of every get_group_id call; the set goes into
        <raw>_<chr>_groups, one name per line (read back on --resume with only the line terminator removed - commit 40e2502; str.strip() before, kept
        as the ..._unrepaired definitions); the parent takes the union over the chromosomes, writes it into <raw>_info, load_read_info reads it back
        and the counters are built with it (ordered_groups = sorted, ids = positions).  Sets are duplicate-free lists and every enumeration of a set
        (file lines, list(set)) is a parameter: the theorems hold for every enumeration order. *)
From IQ Require Import GroupedUniverse GroupedTable.

(* every group a processed read carries is in the universe the counters are built with, for every distribution of the reads over the chromosomes,
   every order of the chromosomes and every enumeration order; on --resume for names that contain no line terminator ("\n" / "\r": the group file has
   one name per line) - white space at the ends of a name is kept *)
Theorem C09_universe_complete : forall resume enum_file enum_info chrs, enumeration enum_file -> enumeration enum_info ->
  (resume = true -> forall answers g, In answers chrs -> In g answers -> no_newline g = true) ->
  forall answers g, In answers chrs -> In g answers -> In g (universe resume enum_file enum_info chrs).
Proof. exact universe_complete. Qed.
Print Assumptions C09_universe_complete.
(* ... so group_numeric_ids[g] is defined and ordered_groups[id] is g again *)
Theorem C09_universe_ids_defined : forall resume enum_file enum_info chrs, enumeration enum_file -> enumeration enum_info ->
  (resume = true -> forall answers g, In answers chrs -> In g answers -> no_newline g = true) ->
  forall answers g, In answers chrs -> In g answers ->
  let ordered := counter_ordered (universe resume enum_file enum_info chrs) in
  exists i, index_of g ordered = Some i /\ nth i ordered [] = g.
Proof. exact universe_ids_defined. Qed.
Print Assumptions C09_universe_ids_defined.
(* in the counter model (groups as integer codes): a counter built with a universe that contains the group never raises on it *)
Theorem C09_universe_group_known : forall s lv na groups z fmt g, In g groups -> exists gid, lookup_gid (mk_counter s lv na groups z fmt) g = Some gid.
Proof. exact universe_group_known. Qed.
Print Assumptions C09_universe_group_known.
(* the converse as far as it holds: a group of the universe was returned by the grouper for SOME alignment of some chromosome (the universe has no
   duplicates) - but that alignment's read may have been dropped later, or count for other features only: then the code prints the group's column in
   every matrix row with the value 0 and no linear row (C09_linear_eq_matrix), which the property allows *)
Theorem C09_universe_sound : forall resume enum_file enum_info chrs, enumeration enum_file -> enumeration enum_info ->
  (resume = true -> forall answers g, In answers chrs -> In g answers -> no_newline g = true) ->
  (forall g, In g (universe resume enum_file enum_info chrs) -> exists answers, In answers chrs /\ In g answers) /\
  NoDup (universe resume enum_file enum_info chrs).
Proof. intros. split; [apply universe_sound; assumption|apply universe_NoDup]. Qed.
Print Assumptions C09_universe_sound.
Theorem C09_unused_group_zero_cell : forall s lv evs f g, (forall ev, In ev evs -> ev_group ev <> Some g) -> (spec_cell s lv evs f (Some g) == 0)%Q.
Proof. exact unused_group_zero_cell. Qed.
Print Assumptions C09_unused_group_zero_cell.
(* the code before the repair (universe_unrepaired: read-back through str.strip()) needed names without white space at their ends as well ... *)
Theorem C09_universe_complete_unrepaired : forall resume enum_file enum_info chrs, enumeration enum_file -> enumeration enum_info ->
  (resume = true -> forall answers g, In answers chrs -> In g answers -> no_newline g = true /\ strip g = g) ->
  forall answers g, In answers chrs -> In g answers -> In g (universe_unrepaired resume enum_file enum_info chrs).
Proof. exact universe_complete_unrepaired. Qed.
Print Assumptions C09_universe_complete_unrepaired.
(* ... and lost " g1": read back as "g1" while the reads carry " g1" (group_numeric_ids then raises KeyError); the repaired read-back keeps it *)
Example C09_universe_complete_resume_padded_refuted :
  let g := [32; 103; 49] in
  universe_unrepaired true (fun l => l) (fun l => l) [[g]] = [[103; 49]] /\ mem_str g (universe_unrepaired true (fun l => l) (fun l => l) [[g]]) = false /\
  universe true (fun l => l) (fun l => l) [[g]] = [g] /\ universe_unrepaired false (fun l => l) (fun l => l) [[g]] = [g].
Proof. exact universe_complete_resume_padded_refuted. Qed.
(* what remains after the repair: a name that contains a line terminator is cut into two lines of the group file *)
Example C09_universe_complete_resume_newline_refuted :
  let g := [97; 10; 98] in
  universe true (fun l => l) (fun l => l) [[g]] = [[97]; [98]] /\ mem_str g (universe true (fun l => l) (fun l => l) [[g]]) = false.
Proof. exact universe_complete_resume_newline_refuted. Qed.

(* ==== the table grouper end to end (GroupedTable.v): option string, split_read_group_table, the fixed layout of the split files (read without comment
        skipping - commit 614fc16; with it before, kept as table_group_split_unrepaired), ReadTableGrouper *)
(* a read of the chromosome that is listed in the table gets exactly the group of its (last) row, whatever column layout and delimiter the command
   line gives for the table; hypotheses: the reads of the chromosome have SAM-clean names (non-empty, no white space; they MAY start with '#'), the
   groups of the listed ones are non-empty, contain no TAB and do not end in white space *)
Theorem C09_table_group_is_the_row_entry : forall rc gc delim lines reads,
  (forall n, In n reads -> clean_name n = true) ->
  (forall n g, In n reads -> lookup_last (load_table rc gc delim lines) n = Some g -> safe_group g = true) ->
  forall name g, In name reads -> lookup_last (load_table rc gc delim lines) name = Some g -> table_group_split rc gc delim lines reads name = g.
Proof. exact table_group_is_the_row_entry. Qed.
Print Assumptions C09_table_group_is_the_row_entry.
Theorem C09_table_missing_row_is_NA : forall rc gc delim lines reads,
  (forall n, In n reads -> clean_name n = true) ->
  (forall n g, In n reads -> lookup_last (load_table rc gc delim lines) n = Some g -> safe_group g = true) ->
  forall name, lookup_last (load_table rc gc delim lines) name = None -> table_group_split rc gc delim lines reads name = NA.
Proof. exact table_missing_row_is_NA. Qed.
Print Assumptions C09_table_missing_row_is_NA.
(* every read of chromosome c that has a row is in c's split file with the group of its last row, and every line of the file is such a row *)
Theorem C09_split_preserves_rows : forall rc gc delim lines reads,
  (forall n g, In n reads -> lookup_last (load_table rc gc delim lines) n = Some g -> In (n ++ [9] ++ g) (split_file rc gc delim lines reads)) /\
  (forall l, In l (split_file rc gc delim lines reads) -> exists n g, l = n ++ [9] ++ g /\ In n reads /\ lookup_last (load_table rc gc delim lines) n = Some g).
Proof. intros. split; [intros n g; apply split_preserves_rows|apply split_rows_are_table_rows]. Qed.
Print Assumptions C09_split_preserves_rows.
(* the code before the repair: additionally no read id of the chromosome starts with '#' ... *)
Theorem C09_table_group_is_the_row_entry_unrepaired : forall rc gc delim lines reads,
  (forall n, In n reads -> clean_name_unrepaired n = true) ->
  (forall n g, In n reads -> lookup_last (load_table rc gc delim lines) n = Some g -> safe_group g = true) ->
  forall name g, In name reads -> lookup_last (load_table rc gc delim lines) name = Some g -> table_group_split_unrepaired rc gc delim lines reads name = g.
Proof. exact table_group_is_the_row_entry_unrepaired. Qed.
Print Assumptions C09_table_group_is_the_row_entry_unrepaired.
(* ... and a read id that starts with '#' listed in a table whose read column is not the first was skipped as a comment of the split file *)
Example C09_table_group_hash_read_id_refuted :
  let lines := [[103; 49; 9; 35; 114]] in
  lookup_last (load_table 1 0 [9] lines) [35; 114] = Some [103; 49] /\ table_group_split_unrepaired 1 0 [9] lines [[35; 114]] [35; 114] = NA /\
  table_group_split 1 0 [9] lines [[35; 114]] [35; 114] = [103; 49].
Proof. exact table_group_hash_read_id_refuted. Qed.
(* reading the split file with the layout of the command line instead of (0, 1, TAB) loses the read *)
Example C09_table_group_user_layout_refuted :
  let lines := [[103; 49; 9; 114; 49]] in
  lookup_last (load_table 1 0 [9] lines) [114; 49] = Some [103; 49] /\ split_file 1 0 [9] lines [[114; 49]] = [[114; 49; 9; 103; 49]] /\
  table_group_split 1 0 [9] lines [[114; 49]] [114; 49] = [103; 49] /\ table_group_split_user_layout 1 0 [9] lines [[114; 49]] [114; 49] = NA.
Proof. exact table_group_user_layout_refuted. Qed.
(* the hypothesis on the groups is needed: a group that ends in white space is trimmed *)
Example C09_table_group_padded_group_refuted :
  let lines := [[114; 49; 44; 103; 49; 32; 44; 120]] in
  lookup_last (load_table 0 1 [44] lines) [114; 49] = Some [103; 49; 32] /\ table_group_split 0 1 [44] lines [[114; 49]] [114; 49] = [103; 49].
Proof. exact table_group_padded_group_refuted. Qed.
Example C09_option_layout_examples :
  option_layout [102; 105; 108; 101; 58; 116] = Some ([116], O, 1%nat, [9]) /\
  option_layout [102; 105; 108; 101; 58; 116; 58; 50; 58; 48] = Some ([116], 2%nat, O, [9]) /\
  option_layout [102; 105; 108; 101; 58; 116; 58; 48; 58; 49; 58; 44] = Some ([116], O, 1%nat, [44]) /\
  option_layout [102; 105; 108; 101; 58; 116; 58; 120; 58; 49] = None.
Proof. exact option_layout_examples. Qed.
