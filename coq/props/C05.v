(* C05 — every aligned read is accounted for; region splitting loses or duplicates none.
   Property theorems only; model and proofs live in Regions.v (decidable specifications for the harness: RegionsCorr.v).
   The model describes src/alignment_processor.py after fixes/C05_split_last_bin.diff, fixes/C05_inmemory_end_bin.diff and
   fixes/C05_first_subregion_start.diff (`iq_split_regions`, `iq_forward`); the code before the third repair is
   `iq_split_regions_prev` / `iq_forward_prev` (theorems `..._prev`, with the one-base corner exempted and refuted below), the
   loops as they were before the first two are `forward_cur` and refuted below.  harness/props/c05.py detects which of the
   two variants of split_coverage_regions is checked out and uses the matching model and specification.
   An alignment is (reference_start, reference_end, id) as pysam reports it; regions are closed 0-based intervals. *)
From Coq Require Import ZArith List Bool.
From IQ Require Import Regions RegionsCorr.
From IQ.gen Require Import Prims Tables.
Import ListNotations. Open Scope Z_scope.

(* ---- clustering (AlignmentCollector.process) *)
(* every alignment is in exactly one cluster and the input order is kept: the clusters concatenate to the input *)
Theorem C05_clusters_partition : forall file, concat (process file) = file.
Proof. exact clusters_partition. Qed.
Print Assumptions C05_clusters_partition.

Theorem C05_clusters_nonempty : forall file, Forall (fun c => c <> []) (process file).
Proof. exact clusters_nonempty. Qed.
Print Assumptions C05_clusters_nonempty.

(* in a coordinate-sorted file every alignment of an earlier cluster ends before every alignment of a later cluster starts *)
Theorem C05_clusters_separated : forall file, sorted file -> (forall b, In b file -> rs b < re b) -> separated (process file).
Proof. exact (clusters_separated AP_COVERAGE_BIN iq_bin_pos). Qed.
Print Assumptions C05_clusters_separated.

(* ---- split_coverage_regions: for ALL coverage functions, region lengths and read counts the function returns, and the
   sub-regions are consecutive non-empty intervals that tile the region from r0 to r1 (`chain`: first starts at r0, each
   starts one past the end of its predecessor, the last ends at r1) *)
Theorem C05_split_regions_tile : forall r count cov first last,
  fst r <= snd r -> first = fst r / AP_COVERAGE_BIN -> last = snd r / AP_COVERAGE_BIN ->
  (forall p, last < p -> cov p <= AP_ABS_COV_VALLEY) ->
  exists regs, iq_split_regions r count cov first last = Some regs /\ chain (fst r) (snd r) regs.
Proof. exact iq_split_regions_tile. Qed.
Print Assumptions C05_split_regions_tile.

(* the same for every choice of the constants (positive bin size): this is what the scaled unit correspondence exercises *)
Theorem C05_split_regions_tile_any_constants : forall BIN MAXLEN MINREADS ABSV RN RD, 0 < BIN ->
  forall r count cov first last, fst r <= snd r -> first = fst r / BIN -> last = snd r / BIN -> (forall p, last < p -> cov p <= ABSV) ->
  exists regs, split_regions BIN MAXLEN MINREADS ABSV RN RD r count cov first last = Some regs /\ chain (fst r) (snd r) regs.
Proof. exact split_regions_tile. Qed.
Print Assumptions C05_split_regions_tile_any_constants.

(* ---- forward_alignments: every alignment of a cluster is handed to the processing of at least one (sub-)region - no exception *)
Theorem C05_no_alignment_lost_default : forall file cluster a,
  cluster <> [] -> (forall b, In b cluster -> rs b < re b) -> incl cluster file -> In a cluster ->
  exists whole out, hull_of cluster = Some whole /\ iq_forward Default file cluster = Some out /\
    exists reg alns, In (reg, alns) out /\ In a alns.
Proof. exact iq_no_alignment_lost_default. Qed.
Print Assumptions C05_no_alignment_lost_default.

Theorem C05_no_alignment_lost_highmem : forall file cluster a,
  cluster <> [] -> (forall b, In b cluster -> rs b < re b) -> sorted cluster -> In a cluster ->
  exists whole out, hull_of cluster = Some whole /\ iq_forward HighMem file cluster = Some out /\
    exists reg alns, In (reg, alns) out /\ In a alns.
Proof. exact iq_no_alignment_lost_highmem. Qed.
Print Assumptions C05_no_alignment_lost_highmem.

(* an alignment is handed over for exactly the regions it overlaps (BAM fetch: of the file; in-memory: of the storage) *)
Theorem C05_returned_iff_overlaps : forall m file cluster out reg alns a,
  cluster <> [] -> (forall b, In b cluster -> rs b < re b) -> (m = HighMem -> sorted cluster) ->
  iq_forward m file cluster = Some out -> In (reg, alns) out ->
  (In a alns <-> In a (source m file cluster) /\ py_overlaps reg (span a) = true).
Proof. exact iq_returned_iff_overlaps. Qed.
Print Assumptions C05_returned_iff_overlaps.

(* and the regions of one cluster do not overlap: an alignment is processed twice only if it crosses a sub-region border *)
Theorem C05_regions_disjoint : forall m file cluster out i j ri rj xi xj,
  cluster <> [] -> (forall b, In b cluster -> rs b < re b) -> (m = HighMem -> sorted cluster) ->
  iq_forward m file cluster = Some out -> (i < j)%nat ->
  nth_error out i = Some (ri, xi) -> nth_error out j = Some (rj, xj) -> snd ri < fst rj.
Proof. exact iq_regions_disjoint. Qed.
Print Assumptions C05_regions_disjoint.

(* ---- whole chromosome: clustering + splitting + retrieval, both memory modes *)
Theorem C05_every_alignment_forwarded : forall m file a,
  sorted file -> (forall b, In b file -> rs b < re b) -> In a file ->
  exists c whole out, In c (process file) /\ In a c /\ hull_of c = Some whole /\ iq_forward m file c = Some out /\
    exists reg alns, In (reg, alns) out /\ In a alns.
Proof. exact iq_every_alignment_forwarded. Qed.
Print Assumptions C05_every_alignment_forwarded.

(* the processing of a cluster never sees an alignment of another cluster (default mode re-fetches from the file) *)
Theorem C05_only_cluster_members_returned : forall m file c out reg alns a,
  sorted file -> (forall b, In b file -> rs b < re b) -> In c (process file) ->
  iq_forward m file c = Some out -> In (reg, alns) out -> In a alns -> In a c.
Proof. exact iq_only_cluster_members_returned. Qed.
Print Assumptions C05_only_cluster_members_returned.

(* ---- de-duplication of a read seen in two sub-regions (find_duplicates with BasicReadAssignment.__eq__) *)
Theorem C05_dedup_removes_identical : forall l : list akey, pairwise_distinct akey_eqb (dedup akey_eqb l).
Proof. exact (dedup_removes_identical akey_eqb). Qed.
Print Assumptions C05_dedup_removes_identical.

Theorem C05_dedup_keeps_a_representative : forall (l : list akey) x, In x l ->
  In x (dedup akey_eqb l) \/ exists y, In y (dedup akey_eqb l) /\ akey_eqb y x = true.
Proof. exact (dedup_complete akey_eqb). Qed.
Print Assumptions C05_dedup_keeps_a_representative.

Theorem C05_dedup_invents_nothing : forall (l : list akey) x, In x (dedup akey_eqb l) -> In x l.
Proof. exact (dedup_sound akey_eqb). Qed.
Print Assumptions C05_dedup_invents_nothing.

(* ---- statistics of process(): per-category record counts of the input *)
Theorem C05_stats_are_category_counts : forall recs,
  stats recs = (count cat_primary recs, count cat_secondary recs, count cat_supplementary recs).
Proof. exact stats_are_category_counts. Qed.
Print Assumptions C05_stats_are_category_counts.

(* the decidable tiling specification evaluated on the implementation's output is the theorem's conclusion *)
Theorem C05_chain_decidable : forall regs lo hi, chainb lo hi regs = true <-> chain lo hi regs.
Proof. exact chainb_iff. Qed.
Print Assumptions C05_chain_decidable.

(* ---- the code BEFORE fixes/C05_first_subregion_start.diff (known finding C05:one-base-alignment-on-bin-boundary): PARTIAL *)
(* the sub-regions are the whole region, or consecutive non-empty intervals from max(256 * first bin + 1, r0) to r1 *)
Theorem C05_split_regions_tile_prev : forall r count cov first last,
  fst r <= snd r -> first = fst r / AP_COVERAGE_BIN -> last = snd r / AP_COVERAGE_BIN ->
  (forall p, last < p -> cov p <= AP_ABS_COV_VALLEY) ->
  exists regs, iq_split_regions_prev r count cov first last = Some regs /\
    (regs = [r] \/ chain (Z.max (first * AP_COVERAGE_BIN + 1) (fst r)) (snd r) regs).
Proof. exact iq_split_regions_tile_prev. Qed.
Print Assumptions C05_split_regions_tile_prev.

(* every alignment is handed out EXCEPT a one-base alignment on the first base of a cluster that starts on a bin boundary *)
Theorem C05_no_alignment_lost_default_prev_partial : forall file cluster a,
  cluster <> [] -> (forall b, In b cluster -> rs b < re b) -> incl cluster file -> In a cluster ->
  exists whole out, hull_of cluster = Some whole /\ iq_forward_prev Default file cluster = Some out /\
    (~ iq_corner whole a -> exists reg alns, In (reg, alns) out /\ In a alns).
Proof. exact iq_no_alignment_lost_default_prev. Qed.
Print Assumptions C05_no_alignment_lost_default_prev_partial.

Theorem C05_no_alignment_lost_highmem_prev_partial : forall file cluster a,
  cluster <> [] -> (forall b, In b cluster -> rs b < re b) -> sorted cluster -> In a cluster ->
  exists whole out, hull_of cluster = Some whole /\ iq_forward_prev HighMem file cluster = Some out /\
    (~ iq_corner whole a -> exists reg alns, In (reg, alns) out /\ In a alns).
Proof. exact iq_no_alignment_lost_highmem_prev. Qed.
Print Assumptions C05_no_alignment_lost_highmem_prev_partial.

(* the exception is real: that code skips this one-base alignment, and emits no region at all for a deep cluster of them *)
Example C05_boundary_corner_refuted :
  out_regions (iq_forward_prev Default w_corner w_corner) = [(5121, 38144); (38145, 71999)] /\
  existsb (Z.eqb 7777) (returned_ids (iq_forward_prev Default w_corner w_corner)) = false /\
  existsb (Z.eqb 7777) (returned_ids (iq_forward_prev HighMem w_corner w_corner)) = false /\
  iq_corner (5120, 71999) (5120, 5121, 7777).
Proof. exact boundary_corner_refuted. Qed.
Example C05_boundary_pile_refuted : iq_forward_prev Default w_corner_pile w_corner_pile = Some [].
Proof. exact boundary_pile_refuted. Qed.
(* after the repair the same inputs are complete *)
Example C05_boundary_corner_repaired :
  out_regions (iq_forward Default w_corner w_corner) = [(5120, 38144); (38145, 71999)] /\
  existsb (Z.eqb 7777) (returned_ids (iq_forward Default w_corner w_corner)) = true /\
  existsb (Z.eqb 7777) (returned_ids (iq_forward HighMem w_corner w_corner)) = true.
Proof. exact boundary_corner_repaired. Qed.
Example C05_boundary_pile_repaired : out_regions (iq_forward Default w_corner_pile w_corner_pile) = [(5120, 5120)] /\
  length (returned_ids (iq_forward Default w_corner_pile w_corner_pile)) = 1100%nat.
Proof. exact boundary_pile_repaired. Qed.

(* ---- the code before the first two repairs (DESIGN section 6, #8, #21, #7), at the real constants *)
Example C05_last_bin_refuted :
  out_regions (iq_forward_cur Default w_tail w_tail) = [(5000, 38144); (38145, 72448)] /\
  existsb (Z.eqb 9999) (returned_ids (iq_forward_cur Default w_tail w_tail)) = false.
Proof. exact last_bin_refuted. Qed.
Example C05_single_bin_refuted : iq_forward_cur Default w_pile w_pile = Some [] /\ iq_forward_cur HighMem w_pile w_pile = Some [].
Proof. exact single_bin_refuted. Qed.
Example C05_inmemory_end_bin_refuted :
  existsb (Z.eqb 9999)
    (returned_ids (forward_gen AP_COVERAGE_BIN iq_split_regions (get_mem_cur AP_COVERAGE_BIN) HighMem w_tail w_tail)) = false.
Proof. exact inmemory_end_bin_refuted. Qed.
(* after the repairs the same inputs are complete (non-vacuity of the theorems above) *)
Example C05_last_bin_repaired :
  out_regions (iq_forward Default w_tail w_tail) = [(5000, 38144); (38145, 72448); (72449, 72499)] /\
  existsb (Z.eqb 9999) (returned_ids (iq_forward Default w_tail w_tail)) = true /\
  existsb (Z.eqb 9999) (returned_ids (iq_forward HighMem w_tail w_tail)) = true.
Proof. exact last_bin_repaired. Qed.
Example C05_single_bin_repaired : out_regions (iq_forward Default w_pile w_pile) = [(4900, 4999)] /\
  length (returned_ids (iq_forward Default w_pile w_pile)) = 1100%nat /\ length (returned_ids (iq_forward HighMem w_pile w_pile)) = 1100%nat.
Proof. exact single_bin_repaired. Qed.

(* ==== END TO END: the per-read record flow of one chromosome (coq/Accounting.v) ====
   file --process--> clusters --forward_alignments--> (sub-region, alignments) --assigner (ABSTRACT: `verdict_of region alignment`, None = dropped
   by a filter)--> one record per (sub-region, alignment), numbered in processing order (`iq_stream`) --records of one read id collected,
   MultimapResolver.resolve, the loader re-applies the verdict and drops suspended records--> `kept_records chr stream read_id`.
   For ALL files, read-id assignments, secondary flags, verdict functions and both memory modes; the only hypothesis on the assigner:
   it never outputs the type `suspended`. *)
From IQ Require Import Multimap2 Accounting.

(* (1) every alignment that the per-region filters let through gives its read at least one record behind the loader *)
Theorem C05_read_reported_at_least_once : forall (chrom:Z) (read_of:aln -> Z) (secondary:aln -> bool) (verdict_of:iv -> aln -> option vd),
  (forall reg a v, verdict_of reg a = Some v -> v_ty v <> Suspended) ->
  forall (m:mode) (file:list aln), sorted file -> (forall b, In b file -> rs b < re b) ->
  forall a, In a file -> (forall reg, verdict_of reg a <> None) ->
  exists r, In r (kept_records chrom (iq_stream chrom read_of secondary verdict_of m file) (read_of a)) /\ rd r = read_of a.
Proof. exact iq_read_reported_at_least_once. Qed.
Print Assumptions C05_read_reported_at_least_once.

(* (2) two records of one read behind the loader never have the same key (read, chromosome, start, end, isoform list): an alignment
   processed in several sub-regions never yields two identical records *)
Theorem C05_no_identical_records : forall (chrom:Z) (read_of:aln -> Z) (secondary:aln -> bool) (verdict_of:iv -> aln -> option vd),
  (forall reg a v, verdict_of reg a = Some v -> v_ty v <> Suspended) ->
  forall (m:mode) (file:list aln) rid, NoDup (map key_of (kept_records chrom (iq_stream chrom read_of secondary verdict_of m file) rid)).
Proof. exact iq_no_identical_records. Qed.
Print Assumptions C05_no_identical_records.

(* (3) a uniquely mapped read (one alignment in the file) that passes the filters and is handed over in one sub-region only: exactly one record *)
Theorem C05_single_alignment_single_region_exactly_once : forall (chrom:Z) (read_of:aln -> Z) (secondary:aln -> bool) (verdict_of:iv -> aln -> option vd),
  (forall reg a v, verdict_of reg a = Some v -> v_ty v <> Suspended) ->
  forall (m:mode) (file:list aln), sorted file -> (forall b, In b file -> rs b < re b) ->
  forall a reg0, In a file -> (forall b, In b file -> read_of b = read_of a -> b = a) -> (forall reg, verdict_of reg a <> None) ->
  (forall reg v, In (reg, a, v) (iq_emitted verdict_of m file) -> reg = reg0) ->
  length (kept_records chrom (iq_stream chrom read_of secondary verdict_of m file) (read_of a)) = 1%nat.
Proof. exact iq_single_alignment_single_region_exactly_once. Qed.
Print Assumptions C05_single_alignment_single_region_exactly_once.

(* ... and its last hypothesis holds for an alignment that lies inside one sub-region of its cluster *)
Theorem C05_inside_one_region : forall (verdict_of:iv -> aln -> option vd) (m:mode) (file:list aln),
  sorted file -> (forall b, In b file -> rs b < re b) ->
  forall a cl out reg0 alns0, In cl (process file) -> iq_forward m file cl = Some out -> In (reg0, alns0) out -> In a alns0 ->
  fst reg0 <= rs a -> re a - 1 <= snd reg0 -> forall reg v, In (reg, a, v) (iq_emitted verdict_of m file) -> reg = reg0.
Proof. exact iq_inside_one_region. Qed.
Print Assumptions C05_inside_one_region.

(* (4) a uniquely mapped read whose alignment crosses sub-region borders: if all sub-regions report the same isoform list, exactly one
   record stays (whatever their assignment types) *)
Theorem C05_split_alignment_kept_once_when_verdicts_equal : forall (chrom:Z) (read_of:aln -> Z) (secondary:aln -> bool) (verdict_of:iv -> aln -> option vd),
  (forall reg a v, verdict_of reg a = Some v -> v_ty v <> Suspended) ->
  forall (m:mode) (file:list aln), sorted file -> (forall b, In b file -> rs b < re b) ->
  forall a, In a file -> (forall b, In b file -> read_of b = read_of a -> b = a) -> (forall reg, verdict_of reg a <> None) ->
  (forall reg reg' v v', verdict_of reg a = Some v -> verdict_of reg' a = Some v' -> v_isos v = v_isos v') ->
  length (kept_records chrom (iq_stream chrom read_of secondary verdict_of m file) (read_of a)) = 1%nat.
Proof. exact iq_single_alignment_kept_once. Qed.
Print Assumptions C05_split_alignment_kept_once_when_verdicts_equal.

(* the precise condition under which two records of one read BOTH stay (for any save stream `all` of one chromosome with unique assignment
   ids and no suspended record): both are winners of the best class and their keys differ - for the two copies of one alignment: the two
   sub-regions' isoform lists differ (the split-region phenomenon of C13).  A read with uninformative records only keeps exactly one. *)
Theorem C05_two_records_both_kept_iff : forall (chrom:Z) (all:list rec),
  (forall r, In r all -> chr r = chrom) -> NoDup (map aid all) -> (forall r, In r all -> ty r <> Suspended) ->
  forall rid x y, group_of all rid = [x; y] -> only_uninformative (group_of all rid) = false ->
  (length (kept_records chrom all rid) = 2%nat <->
   winner (group_of all rid) x = true /\ winner (group_of all rid) y = true /\ key_of x <> key_of y).
Proof. exact two_records_both_kept. Qed.
Print Assumptions C05_two_records_both_kept_iff.

(* what comes back for a multi-record read is the resolver's output at the retained indices (C08's keep_idx), in stream order *)
Theorem C05_kept_records_are_resolved : forall (chrom:Z) (all:list rec),
  (forall r, In r all -> chr r = chrom) -> NoDup (map aid all) -> (forall r, In r all -> ty r <> Suspended) ->
  forall rid, (1 < length (group_of all rid))%nat ->
  kept_records chrom all rid = map (nthr (apply_keep (group_of all rid) (keep_idx (group_of all rid))))
                                   (filter (fun i => memb i (keep_idx (group_of all rid))) (seq 0 (length (group_of all rid)))).
Proof. exact kept_records_resolved. Qed.
Print Assumptions C05_kept_records_are_resolved.

(* witnesses at the real constants (w_tail: alignment 1000 = (37900, 39000) crosses the border between (5000,38144) and (38145,72448)) *)
Example C05_split_alignment_kept_once_example :
  let all := ex_stream ex_same Default in
  summary (group_of all 1000) = [(300, (5000, 38144), Unique, false, [7]); (301, (38145, 72448), Unique, false, [7])] /\
  summary (kept_records 1 all 1000) = [(300, (5000, 38144), Unique, false, [7])] /\
  summary (kept_records 1 (ex_stream ex_same HighMem) 1000) = [(300, (5000, 38144), Unique, false, [7])].
Proof. exact split_alignment_kept_once_example. Qed.
(* REFUTED without the equal-isoform-list hypothesis: both copies stay, re-typed ambiguous and flagged *)
Example C05_split_alignment_kept_once_refuted :
  let all := ex_stream ex_differ Default in
  summary (kept_records 1 all 1000) = [(300, (5000, 38144), Ambiguous, true, [5000]); (301, (38145, 72448), Ambiguous, true, [38145])] /\
  summary (kept_records 1 all 9999) = [(608, (72449, 72499), Unique, false, [72449])] /\
  forallb (fun a => negb (length (kept_records 1 all (snd a)) =? 0)%nat) w_tail = true.
Proof. exact split_alignment_kept_once_refuted. Qed.
