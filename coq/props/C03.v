(* C03 — output annotations are well-formed and reproduce reference transcripts verbatim.
   Property theorems only; the model is Gff.v (validate_exons, GFFPrinter.dump, from_reference_transcript,
   create_extended_storage, correct_novel_transcript_ends, TranscriptToGeneJoiner, merge_files), proofs are in GffThm.v and Exons.v.
   The end-to-end statement over both output files is evaluated by the check on real runs (Gff.gtf_tr_ok, Gff.extended_ok);
   the theorems below are the per-mechanism facts it rests on.  Strands: 0 '+', 1 '-', 2 '.'; feature type 2 = exon. *)
From Coq Require Import ZArith List Bool Permutation.
From IQ Require Import CorrSupport Exons Gff GffThm.
Import ListNotations. Open Scope Z_scope.

(* what validate_exons guarantees: tuple-order sortedness and 0 < start <= end — nothing more *)
Theorem C03_validate_exons_spec : forall l, validate_exons l = true <-> lex_sorted l /\ coords_ok l.
Proof. exact validate_exons_spec. Qed.
Print Assumptions C03_validate_exons_spec.

(* every transcript / feature line of a dump call belongs to a model of the storage that passed validate_exons; the transcript
   line is (first start, last end) of its exon list; the exon lines are exons of the model *)
Theorem C03_printed_transcripts_valid : forall printed gi storage p ls, dump printed gi storage = Ok (p, ls) ->
  forall l, In l ls -> ~ is_gene_line l ->
  exists m, In m storage /\ lex_sorted (t_exons m) /\ coords_ok (t_exons m) /\ t_exons m <> [] /\
    (l = TrL (t_chr m) (fst (tregion (t_exons m))) (snd (tregion (t_exons m))) (t_strand m) (t_gene m) (t_id m) \/
     exists k s e ty, l = FeatL (t_chr m) ty s e (t_strand m) (t_gene m) (t_id m) k /\
        (In (s, e, ty) (t_other m) \/ (ty = 2 /\ In (s, e) (t_exons m)))).
Proof. exact printed_transcripts_valid. Qed.
Print Assumptions C03_printed_transcripts_valid.

(* sortedness alone does not give disjointness: that comes from how novel exon lists are made — get_exons on an intron path
   ordered by start inside the transcript range, followed by end correction *)
Theorem C03_novel_exons_disjoint : forall r introns apa reads, mono introns ->
  Forall (fun i => fst r - 1 <= fst i /\ fst i <= snd r + 1) introns -> fst r <= snd r + 2 ->
  sd (correct_ends apa (get_exons r introns) reads).
Proof. exact novel_exons_disjoint. Qed.
Print Assumptions C03_novel_exons_disjoint.

Theorem C03_novel_exons_pass_validation : forall r introns apa reads, mono introns ->
  Forall (fun i => fst r - 1 <= fst i /\ fst i <= snd r + 1) introns -> fst r <= snd r + 2 -> 0 < fst r ->
  get_exons r introns <> [] ->
  validate_exons (correct_ends apa (get_exons r introns) reads) = true.
Proof. exact novel_exons_validate. Qed.
Print Assumptions C03_novel_exons_pass_validation.

(* end correction keeps disjoint exons disjoint, keeps every intron and the exon count, and moves the outer ends inwards only *)
Theorem C03_end_correction_preserves_wf : forall apa ex reads, sd ex ->
  let ex' := correct_ends apa ex reads in
  sd ex' /\ jfb ex' = jfb ex /\ length ex' = length ex /\
  fst (hd (0,0) ex) <= fst (hd (0,0) ex') /\ snd (last ex' (0,0)) <= snd (last ex (0,0)).
Proof. exact end_correction_preserves_wf. Qed.
Print Assumptions C03_end_correction_preserves_wf.

(* the printed transcript line (first start, last end) is the hull of the exons when they are disjoint and increasing *)
Theorem C03_transcript_spans_exons : forall ex, sd ex -> ex <> [] -> tregion ex = hull ex.
Proof. exact transcript_spans_exons. Qed.
Print Assumptions C03_transcript_spans_exons.

(* per dump call: the gene line contains every transcript line of that gene written by the call, on the same chromosome, and
   the annotated range of the gene; it is never written for a gene the printer has already printed *)
Theorem C03_gene_range_contains_transcripts : forall printed gi storage p ls, dump printed gi storage = Ok (p, ls) ->
  forall c s e st g n, In (GeneL c s e st g n) ls ->
  (forall c' s' e' st' t, In (TrL c' s' e' st' g t) ls -> c' = c /\ s <= s' /\ e' <= e) /\
  (g_empty gi = false -> forall rg, assoc g (g_regions gi) = Some rg -> s <= fst rg /\ snd rg <= e) /\
  ~ In g printed.
Proof. exact gene_range_contains_transcripts. Qed.
Print Assumptions C03_gene_range_contains_transcripts.

(* over the whole life of a printer (any sequence of dump calls) no gene gets two gene lines *)
Theorem C03_gene_once_per_printer : forall calls p ls, dumps [] calls = Ok (p, ls) -> NoDup (glines ls).
Proof. intros calls p ls H. exact (proj1 (gene_once_per_printer calls [] p ls H)). Qed.
Print Assumptions C03_gene_once_per_printer.

(* reference models: from_reference_transcript copies exons, strand, gene and features; such models are `known` and the
   end-correction step passes known models through untouched *)
Theorem C03_reference_models_verbatim : forall ri tid m, from_reference_transcript ri tid = Some m ->
  exists i, In i (ri_isoforms ri) /\ i_id i = tid /\ t_id m = tid /\
    t_exons m = i_exons i /\ t_strand m = i_strand i /\ t_gene m = i_gene i /\ t_other m = i_other i /\ t_chr m = ri_chr ri /\ t_known m = true.
Proof. exact reference_models_verbatim. Qed.
Print Assumptions C03_reference_models_verbatim.

Theorem C03_known_models_not_corrected : forall apa reads_of m, t_known m = true -> correct_model apa reads_of m = m.
Proof. exact known_models_not_corrected. Qed.
Print Assumptions C03_known_models_not_corrected.

(* the gene joiner never moves a known model to another gene, whatever it merges: its id is a transcript of the annotation and
   no novel model carries that id *)
Theorem C03_joiner_keeps_reference_gene : forall ref_genes ref_tr storage out m g0 ins,
  join_transcripts ref_genes ref_tr storage = Ok out ->
  NoDup (map fst ref_tr) -> assoc (t_id m) ref_tr = Some (g0, ins) -> In g0 (map fst ref_genes) ->
  (forall m', In m' storage -> t_known m' = false -> t_id m' <> t_id m) ->
  In m storage -> In (set_gene m g0) out.
Proof. exact joiner_keeps_reference_gene. Qed.
Print Assumptions C03_joiner_keeps_reference_gene.

(* the storage of the extended annotation is every annotated isoform (in order, verbatim) followed by exactly the novel models *)
Theorem C03_extended_is_reference_plus_novel : forall ri novel,
  create_extended_storage (Some ri) novel = map (model_of_iso (ri_chr ri)) (ri_isoforms ri) ++ novel /\
  create_extended_storage None novel = novel /\
  (forall m, In m (create_extended_storage (Some ri) novel) <->
     (exists i, In i (ri_isoforms ri) /\ m = model_of_iso (ri_chr ri) i) \/ In m novel) /\
  (forall i, In i (ri_isoforms ri) -> from_reference_transcript ri (i_id i) <> None).
Proof. exact extended_is_reference_plus_novel. Qed.
Print Assumptions C03_extended_is_reference_plus_novel.

(* merging the per-chromosome parts loses and duplicates nothing *)
Theorem C03_merge_files_no_loss : forall parts,
  Permutation (merge_files false parts) (flat_map (fun p => if p_exists p then drop_header (p_lines p) else []) parts).
Proof. exact merge_files_no_loss. Qed.
Print Assumptions C03_merge_files_no_loss.

(* ---- where the faithful model does NOT give the property *)
(* validate_exons accepts sorted but nested exons; the transcript line is then not their hull *)
Example C03_validation_alone_refuted :
  validate_exons [(1,10);(2,3)] = true /\ tregion [(1,10);(2,3)] = (1,3) /\ hull [(1,10);(2,3)] = (1,10) /\ ~ sd [(1,10);(2,3)].
Proof. exact transcript_spans_exons_needs_disjointness. Qed.
(* an intron path that is not ordered by start yields overlapping exons that still pass the validation *)
Example C03_unordered_introns_refuted :
  get_exons (1, 100) [(30, 40); (20, 25)] = [(1, 29); (26, 100)] /\ validate_exons [(1, 29); (26, 100)] = true /\ ~ sd [(1, 29); (26, 100)].
Proof. exact unordered_introns_overlap. Qed.
(* finding #24: across dump calls the gene line comes from the first call only and does not contain a later transcript *)
Example C03_gene_contains_all_transcripts_refuted :
  let gi := mkG 0 false [(7, (10001, 80000))] in
  let known := mkT 0 0 1 7 true [(10001,10300);(12001,12300);(14001,14500)] [] in
  let late := mkT 0 0 2 7 false [(70001,70300);(72001,72300);(79501,81000)] [] in
  exists p ls, dumps [] [(gi, [known]); (gi, [late])] = Ok (p, ls) /\
    In (GeneL 0 10001 80000 0 7 1) ls /\ In (TrL 0 70001 81000 0 7 2) ls /\ glines ls = [7].
Proof. exact gene_line_first_dump_refuted. Qed.
(* the empty exon list passes validate_exons and dump then fails with IndexError (Raises 1) *)
Example C03_empty_exon_list_raises : validate_exons [] = true /\ dump [] (mkG 0 true []) [mkT 0 0 1 1 false [] []] = Raises 1.
Proof. split; vm_compute; reflexivity. Qed.

(* ---- hypotheses are satisfiable *)
Example C03_novel_example :
  get_exons (100, 900) [(201, 299); (401, 499)] = [(100, 200); (300, 400); (500, 900)] /\
  correct_ends 10 [(100, 200); (300, 400); (500, 900)] [(150, 700); (160, 650)] = [(150, 200); (300, 400); (500, 700)].
Proof. split; vm_compute; reflexivity. Qed.
Example C03_dump_example :
  dump [] (mkG 0 false [(7, (90, 950))]) [mkT 0 1 1 7 false [(100, 200); (300, 400)] []] =
  Ok ([7], [GeneL 0 90 950 1 7 1; TrL 0 100 400 1 7 1; FeatL 0 2 300 400 1 7 1 1; FeatL 0 2 100 200 1 7 1 2]).
Proof. vm_compute. reflexivity. Qed.
(* the joiner moves a novel model that shares an intron and most of its range with an annotated gene into that gene ... *)
Example C03_joiner_example :
  option_map (map t_gene) (match join_transcripts [(5, (0, (100, 900)))] [(1, (5, [(201, 299)]))]
     [mkT 0 0 1 5 true [(100,200);(300,900)] []; mkT 0 0 2 8 false [(100,200);(300,700)] []; mkT 0 0 3 9 false [(2000,2100);(2300,2400)] []]
     with Ok l => Some l | Raises _ => None end) = Some [5; 5; 9].
Proof. vm_compute. reflexivity. Qed.
(* ... but not when that pair is the only candidate pair (`while len(self.scores) > 1`): the same model keeps its own gene *)
Example C03_joiner_single_pair_not_merged :
  option_map (map t_gene) (match join_transcripts [(5, (0, (100, 900)))] [(1, (5, [(201, 299)]))]
     [mkT 0 0 1 5 true [(100,200);(300,900)] []; mkT 0 0 2 8 false [(100,200);(300,700)] []]
     with Ok l => Some l | Raises _ => None end) = Some [5; 8].
Proof. vm_compute. reflexivity. Qed.

(* ================================================================== round 3: whole files, whole printer lives *)
From IQ Require Import GffMulti GffFiles.

(* finding C03:gene-line-first-dump, characterised exactly.  Over ANY sequence of dump calls of one printer (one per processed
   region): the gene line of g is written by the first call that holds a valid model of g (valid_of: passes validate_exons); its
   range is the LEAST interval around the range annotated for g in that call's gene_info and the valid models of g of THAT call;
   it contains every transcript line of g in the file iff every valid model of g handed over by a LATER call lies inside it; and
   its `transcripts "n"` attribute is the number of transcript lines of g in the file iff no later call holds a valid model of g *)
Theorem C03_gene_contains_all_transcripts_iff : forall calls p ls c s e st g n,
  dumps [] calls = Ok (p, ls) -> In (GeneL c s e st g n) ls ->
  exists pre gi storage post,
    calls = pre ++ (gi, storage) :: post /\
    (forall call, In call pre -> valid_of g (snd call) = []) /\ valid_of g storage <> [] /\
    (s, e) = call_range gi g (valid_of g storage) /\
    ((forall m, In m (valid_of g storage) -> contains (s, e) (tregion (t_exons m))) /\
     (forall rg, annot gi g = Some rg -> contains (s, e) rg) /\
     (forall big, (forall m, In m (valid_of g storage) -> contains big (tregion (t_exons m))) ->
                  (forall rg, annot gi g = Some rg -> contains big rg) -> contains big (s, e))) /\
    ((forall c' s' e' st' t, In (TrL c' s' e' st' g t) ls -> s <= s' /\ e' <= e) <->
     (forall call m, In call post -> In m (valid_of g (snd call)) -> contains (s, e) (tregion (t_exons m)))) /\
    (n = Z.of_nat (length (valid_of g storage))) /\
    (n = trcount g ls <-> forall call, In call post -> valid_of g (snd call) = []).
Proof. exact gene_contains_all_transcripts_iff. Qed.
Print Assumptions C03_gene_contains_all_transcripts_iff.

(* a gene whose valid models all come in one call (a locus processed in one region) always satisfies the property, count included *)
Theorem C03_single_call_gene_contains_all_transcripts : forall calls p ls c s e st g n,
  dumps [] calls = Ok (p, ls) -> In (GeneL c s e st g n) ls ->
  (forall c1 c2 pre mid post, calls = pre ++ c1 :: mid ++ c2 :: post -> valid_of g (snd c1) = [] \/ valid_of g (snd c2) = []) ->
  (forall c' s' e' st' t, In (TrL c' s' e' st' g t) ls -> s <= s' /\ e' <= e) /\ n = trcount g ls.
Proof. exact single_call_gene_contains_all. Qed.
Print Assumptions C03_single_call_gene_contains_all_transcripts.
(* in particular every gene of a printer that is called once — the extended-annotation printer of a chromosome *)
Theorem C03_one_dump_gene_contains_all_transcripts : forall gi storage p ls c s e st g n,
  dumps [] [(gi, storage)] = Ok (p, ls) -> In (GeneL c s e st g n) ls ->
  (forall c' s' e' st' t, In (TrL c' s' e' st' g t) ls -> s <= s' /\ e' <= e) /\ n = trcount g ls.
Proof. exact one_dump_gene_contains_all. Qed.
Print Assumptions C03_one_dump_gene_contains_all_transcripts.

(* one dump call, exactly: the transcript and feature lines are (a permutation of) the lines of the models that pass validate_exons;
   the printer remembers exactly the genes it has seen; a gene line carries the call range and the call's model count *)
Theorem C03_dump_characterised : forall printed gi storage p ls, dump printed gi storage = Ok (p, ls) ->
  Permutation (filter nongene ls) (flat_map emit_model (filter valid storage)) /\
  (forall g, In g p <-> In g printed \/ valid_of g storage <> []) /\
  (forall c s e st g n, In (GeneL c s e st g n) ls ->
     ~ In g printed /\ valid_of g storage <> [] /\ (s, e) = call_range gi g (valid_of g storage) /\
     n = Z.of_nat (length (valid_of g storage)) /\ c = g_chr gi).
Proof. exact dump_char. Qed.
Print Assumptions C03_dump_characterised.

(* extended_annotation.gtf and transcript_models.gtf over all chromosomes.  A `chrom` is one worker: the dump calls of its models
   printer, what create_extended_storage reads, the novel models it collects (c_novel = the models of all regions that are not
   `known`).  For every list of chromosomes, whatever their names and the file suffixes sm / se (merge_files(copy_header=False)
   sorts the parts in natural order of their file names itself; gmerge_files is merge_files over lines instead of numbers, see C03_merge_files_generic): the non-gene lines of the
   merged extended file are, as a multiset, the lines of every annotated isoform whose exons pass validate_exons + the lines of
   every valid novel model; the merged models file holds the lines of exactly the same novel models (+ the known models it
   reports).  emit_model fixes id, gene, chromosome, strand and every exon coordinate: identical coordinates, each once. *)
Theorem C03_extended_file_is_reference_plus_novel_all_chromosomes : forall (sm se:list Z) chrs mls els,
  Forall2 (fun c ls => models_part c = Ok ls) chrs mls -> Forall2 (fun c ls => extended_part c = Ok ls) chrs els ->
  Permutation (filter nongene (merged se chrs els)) (flat_map emit_model (all_refs chrs ++ all_novel chrs)) /\
  Permutation (filter nongene (merged sm chrs mls)) (flat_map emit_model (all_known_printed chrs ++ all_novel chrs)).
Proof. exact extended_file_all_chromosomes. Qed.
Print Assumptions C03_extended_file_is_reference_plus_novel_all_chromosomes.

Theorem C03_reference_transcripts_in_extended_file : forall (sm se:list Z) chrs mls els c ri i,
  Forall2 (fun c ls => models_part c = Ok ls) chrs mls -> Forall2 (fun c ls => extended_part c = Ok ls) chrs els ->
  In c chrs -> c_ref c = Some ri -> In i (ri_isoforms ri) -> validate_exons (i_exons i) = true ->
  In (TrL (ri_chr ri) (fst (tregion (i_exons i))) (snd (tregion (i_exons i))) (i_strand i) (i_gene i) (i_id i)) (merged se chrs els) /\
  forall x, In x (i_exons i) -> exists k, In (FeatL (ri_chr ri) 2 (fst x) (snd x) (i_strand i) (i_gene i) (i_id i) k) (merged se chrs els).
Proof. exact reference_transcripts_in_extended_file. Qed.
Print Assumptions C03_reference_transcripts_in_extended_file.

(* Gff.merge_files (payload Z) run on encoded lines is the generic merge used above, and the generic merge loses nothing *)
Theorem C03_merge_files_generic : forall (A:Type) (enc:A -> Z) cp (parts:list (gpart A)),
  merge_files cp (map (to_part enc) parts) = map (enc_line enc) (gmerge_files cp parts) /\
  Permutation (gmerge_files false parts) (flat_map (fun p => if gp_exists p then gdrop_header (gp_lines p) else []) parts).
Proof. intros A enc cp parts. split; [apply merge_files_is_gmerge|apply gmerge_files_no_loss]. Qed.
Print Assumptions C03_merge_files_generic.

(* a transcript id is written once per output file (and once per printer), given that the printable models carry distinct ids.
   Transcript ids are numbers chosen by the harness in this model; the hypothesis is discharged for the real id strings by C17:
   C17_extended_file_ids_unique (reference ids + novel ids of all chromosomes pairwise distinct; its own hypotheses are distinct
   chromosome names, distinct reference ids, C17 home_ok), built on C17_allocated_ids_distinct, C17_ids_unique_per_file,
   C17_allocated_ids_not_in_reference and C17_novel_ids_not_in_whole_reference.  The converse holds too: a repeated id among the
   printable models is printed twice. *)
Theorem C03_transcript_ids_once_per_file : forall (sm se:list Z) chrs mls els,
  Forall2 (fun c ls => models_part c = Ok ls) chrs mls -> Forall2 (fun c ls => extended_part c = Ok ls) chrs els ->
  (NoDup (map t_id (all_refs chrs ++ all_novel chrs)) <-> NoDup (tids (merged se chrs els))) /\
  (NoDup (map t_id (all_known_printed chrs ++ all_novel chrs)) -> NoDup (tids (merged sm chrs mls))).
Proof. intros sm se chrs mls els FM FE. destruct (transcript_ids_once_per_file sm se chrs mls els FM FE) as (A & B).
  split; [split; [exact A|exact (transcript_ids_once_per_file_converse sm se chrs mls els FM FE)]|exact B]. Qed.
Print Assumptions C03_transcript_ids_once_per_file.
Theorem C03_transcript_ids_once_per_printer : forall calls p ls, dumps [] calls = Ok (p, ls) ->
  NoDup (map t_id (filter valid (all_models calls))) -> NoDup (tids ls).
Proof. exact transcript_ids_once_per_printer. Qed.
Print Assumptions C03_transcript_ids_once_per_printer.

(* ---- instances *)
(* the recorded finding as an instance of the right-hand side failing: the later region's model (70001-81000) is outside the
   first-call range (10001-80000), and the count says 1 of 2 *)
Example C03_gene_line_first_dump_instance :
  let gi := mkG 0 false [(7, (10001, 80000))] in
  let known := mkT 0 0 1 7 true [(10001,10300);(12001,12300);(14001,14500)] [] in
  let late := mkT 0 0 2 7 false [(70001,70300);(72001,72300);(79501,81000)] [] in
  call_range gi 7 (valid_of 7 [known]) = (10001, 80000) /\ valid_of 7 [late] = [late] /\
  tregion (t_exons late) = (70001, 81000) /\ ~ contains (10001, 80000) (tregion (t_exons late)) /\
  (exists p ls, dumps [] [(gi, [known]); (gi, [late])] = Ok (p, ls) /\ In (GeneL 0 10001 80000 0 7 1) ls /\ trcount 7 ls = 2).
Proof. exact finding24_instance. Qed.
(* two regions, the later model inside the first-call range: contained, but the count is still that of the first call *)
Example C03_two_calls_contained_example :
  let gi := mkG 0 false [(7, (10001, 80000))] in
  let known := mkT 0 0 1 7 true [(10001,10300);(12001,12300);(14001,14500)] [] in
  let late := mkT 0 0 2 7 false [(70001,70300);(72001,72300);(79501,79900)] [] in
  exists p ls, dumps [] [(gi, [known]); (gi, [late])] = Ok (p, ls) /\ In (GeneL 0 10001 80000 0 7 1) ls /\
    In (TrL 0 70001 79900 0 7 2) ls /\ contains (10001, 80000) (tregion (t_exons late)) /\ trcount 7 ls = 2.
Proof. exact two_calls_contained. Qed.
(* two chromosomes, "chr10" given first and sorted after "chr2": 2 annotated isoforms + 2 novel models, each once *)
Example C03_two_chromosomes_example :
  exists mls els, Forall2 (fun c ls => models_part c = Ok ls) [ex_c10; ex_c2] mls /\ Forall2 (fun c ls => extended_part c = Ok ls) [ex_c10; ex_c2] els /\
    tids (merged sfx_extended [ex_c10; ex_c2] els) = [51; 1; 2; 50] /\ tids (merged sfx_models [ex_c10; ex_c2] mls) = [51; 1; 50] /\
    map t_id (all_refs [ex_c10; ex_c2] ++ all_novel [ex_c10; ex_c2]) = [1; 2; 50; 51].
Proof. exact two_chromosomes_example. Qed.

(* the decidable form of C03_gene_contains_all_transcripts_iff that the check evaluates on the implementation's files
   (GffMultiSpec.printer_life_ok, correspondence "files") holds of the model's own output *)
From IQ Require Import GffMultiSpec.
Theorem C03_printer_life_ok_model : forall calls p ls, dumps [] calls = Ok (p, ls) -> printer_life_ok calls ls = true.
Proof. exact printer_life_ok_model. Qed.
Print Assumptions C03_printer_life_ok_model.
