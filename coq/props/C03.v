(* C03 — output annotations are well-formed and reproduce reference transcripts verbatim.
   Property theorems only; the model is Gff.v (validate_exons, GFFPrinter.dump, from_reference_transcript,
   create_extended_storage, correct_novel_transcript_ends, TranscriptToGeneJoiner, merge_files), proofs are in GffThm.v and Exons.v.
   The end-to-end statement over both output files is evaluated by the check on real runs (Gff.gtf_tr_ok, Gff.extended_ok);
   the theorems below are the per-mechanism facts it rests on.  Strands: 0 '+', 1 '-', 2 '.'; feature type 2 = exon. *)
From Coq Require Import ZArith List Bool Permutation.
From IQ Require Import CorrSupport Exons Gff GffThm.
Import ListNotations. Open Scope Z_scope.

(* what validate_exons guarantees: tuple-order sortedness and 0 < start <= end — nothing more *)
Theorem C03_validate_exons_spec : forall l, validate_exons l = true <-> lex_sorted l /\ coords_ok l.
Proof. exact validate_exons_spec. Qed.
Print Assumptions C03_validate_exons_spec.

(* every transcript / feature line of a dump call belongs to a model of the storage that passed validate_exons; the transcript
   line is (first start, last end) of its exon list; the exon lines are exons of the model *)
Theorem C03_printed_transcripts_valid : forall printed gi storage p ls, dump printed gi storage = Ok (p, ls) ->
  forall l, In l ls -> ~ is_gene_line l ->
  exists m, In m storage /\ lex_sorted (t_exons m) /\ coords_ok (t_exons m) /\ t_exons m <> [] /\
    (l = TrL (t_chr m) (fst (tregion (t_exons m))) (snd (tregion (t_exons m))) (t_strand m) (t_gene m) (t_id m) \/
     exists k s e ty, l = FeatL (t_chr m) ty s e (t_strand m) (t_gene m) (t_id m) k /\
        (In (s, e, ty) (t_other m) \/ (ty = 2 /\ In (s, e) (t_exons m)))).
Proof. exact printed_transcripts_valid. Qed.
Print Assumptions C03_printed_transcripts_valid.

(* sortedness alone does not give disjointness: that comes from how novel exon lists are made — get_exons on an intron path
   ordered by start inside the transcript range, followed by end correction *)
Theorem C03_novel_exons_disjoint : forall r introns apa reads, mono introns ->
  Forall (fun i => fst r - 1 <= fst i /\ fst i <= snd r + 1) introns -> fst r <= snd r + 2 ->
  sd (correct_ends apa (get_exons r introns) reads).
Proof. exact novel_exons_disjoint. Qed.
Print Assumptions C03_novel_exons_disjoint.

Theorem C03_novel_exons_pass_validation : forall r introns apa reads, mono introns ->
  Forall (fun i => fst r - 1 <= fst i /\ fst i <= snd r + 1) introns -> fst r <= snd r + 2 -> 0 < fst r ->
  get_exons r introns <> [] ->
  validate_exons (correct_ends apa (get_exons r introns) reads) = true.
Proof. exact novel_exons_validate. Qed.
Print Assumptions C03_novel_exons_pass_validation.

(* end correction keeps disjoint exons disjoint, keeps every intron and the exon count, and moves the outer ends inwards only *)
Theorem C03_end_correction_preserves_wf : forall apa ex reads, sd ex ->
  let ex' := correct_ends apa ex reads in
  sd ex' /\ jfb ex' = jfb ex /\ length ex' = length ex /\
  fst (hd (0,0) ex) <= fst (hd (0,0) ex') /\ snd (last ex' (0,0)) <= snd (last ex (0,0)).
Proof. exact end_correction_preserves_wf. Qed.
Print Assumptions C03_end_correction_preserves_wf.

(* the printed transcript line (first start, last end) is the hull of the exons when they are disjoint and increasing *)
Theorem C03_transcript_spans_exons : forall ex, sd ex -> ex <> [] -> tregion ex = hull ex.
Proof. exact transcript_spans_exons. Qed.
Print Assumptions C03_transcript_spans_exons.

(* per dump call: the gene line contains every transcript line of that gene written by the call, on the same chromosome, and
   the annotated range of the gene; it is never written for a gene the printer has already printed *)
Theorem C03_gene_range_contains_transcripts : forall printed gi storage p ls, dump printed gi storage = Ok (p, ls) ->
  forall c s e st g n, In (GeneL c s e st g n) ls ->
  (forall c' s' e' st' t, In (TrL c' s' e' st' g t) ls -> c' = c /\ s <= s' /\ e' <= e) /\
  (g_empty gi = false -> forall rg, assoc g (g_regions gi) = Some rg -> s <= fst rg /\ snd rg <= e) /\
  ~ In g printed.
Proof. exact gene_range_contains_transcripts. Qed.
Print Assumptions C03_gene_range_contains_transcripts.

(* over the whole life of a printer (any sequence of dump calls) no gene gets two gene lines *)
Theorem C03_gene_once_per_printer : forall calls p ls, dumps [] calls = Ok (p, ls) -> NoDup (glines ls).
Proof. intros calls p ls H. exact (proj1 (gene_once_per_printer calls [] p ls H)). Qed.
Print Assumptions C03_gene_once_per_printer.

(* reference models: from_reference_transcript copies exons, strand, gene and features; such models are `known` and the
   end-correction step passes known models through untouched *)
Theorem C03_reference_models_verbatim : forall ri tid m, from_reference_transcript ri tid = Some m ->
  exists i, In i (ri_isoforms ri) /\ i_id i = tid /\ t_id m = tid /\
    t_exons m = i_exons i /\ t_strand m = i_strand i /\ t_gene m = i_gene i /\ t_other m = i_other i /\ t_chr m = ri_chr ri /\ t_known m = true.
Proof. exact reference_models_verbatim. Qed.
Print Assumptions C03_reference_models_verbatim.

Theorem C03_known_models_not_corrected : forall apa reads_of m, t_known m = true -> correct_model apa reads_of m = m.
Proof. exact known_models_not_corrected. Qed.
Print Assumptions C03_known_models_not_corrected.

(* the gene joiner never moves a known model to another gene, whatever it merges: its id is a transcript of the annotation and
   no novel model carries that id *)
Theorem C03_joiner_keeps_reference_gene : forall ref_genes ref_tr storage out m g0 ins,
  join_transcripts ref_genes ref_tr storage = Ok out ->
  NoDup (map fst ref_tr) -> assoc (t_id m) ref_tr = Some (g0, ins) -> In g0 (map fst ref_genes) ->
  (forall m', In m' storage -> t_known m' = false -> t_id m' <> t_id m) ->
  In m storage -> In (set_gene m g0) out.
Proof. exact joiner_keeps_reference_gene. Qed.
Print Assumptions C03_joiner_keeps_reference_gene.

(* the storage of the extended annotation is every annotated isoform (in order, verbatim) followed by exactly the novel models *)
Theorem C03_extended_is_reference_plus_novel : forall ri novel,
  create_extended_storage (Some ri) novel = map (model_of_iso (ri_chr ri)) (ri_isoforms ri) ++ novel /\
  create_extended_storage None novel = novel /\
  (forall m, In m (create_extended_storage (Some ri) novel) <->
     (exists i, In i (ri_isoforms ri) /\ m = model_of_iso (ri_chr ri) i) \/ In m novel) /\
  (forall i, In i (ri_isoforms ri) -> from_reference_transcript ri (i_id i) <> None).
Proof. exact extended_is_reference_plus_novel. Qed.
Print Assumptions C03_extended_is_reference_plus_novel.

(* merging the per-chromosome parts loses and duplicates nothing *)
Theorem C03_merge_files_no_loss : forall parts,
  Permutation (merge_files false parts) (flat_map (fun p => if p_exists p then drop_header (p_lines p) else []) parts).
Proof. exact merge_files_no_loss. Qed.
Print Assumptions C03_merge_files_no_loss.

(* ---- where the faithful model does NOT give the property *)
(* validate_exons accepts sorted but nested exons; the transcript line is then not their hull *)
Example C03_validation_alone_refuted :
  validate_exons [(1,10);(2,3)] = true /\ tregion [(1,10);(2,3)] = (1,3) /\ hull [(1,10);(2,3)] = (1,10) /\ ~ sd [(1,10);(2,3)].
Proof. exact transcript_spans_exons_needs_disjointness. Qed.
(* an intron path that is not ordered by start yields overlapping exons that still pass the validation *)
Example C03_unordered_introns_refuted :
  get_exons (1, 100) [(30, 40); (20, 25)] = [(1, 29); (26, 100)] /\ validate_exons [(1, 29); (26, 100)] = true /\ ~ sd [(1, 29); (26, 100)].
Proof. exact unordered_introns_overlap. Qed.
(* finding #24: across dump calls the gene line comes from the first call only and does not contain a later transcript *)
Example C03_gene_contains_all_transcripts_refuted :
  let gi := mkG 0 false [(7, (10001, 80000))] in
  let known := mkT 0 0 1 7 true [(10001,10300);(12001,12300);(14001,14500)] [] in
  let late := mkT 0 0 2 7 false [(70001,70300);(72001,72300);(79501,81000)] [] in
  exists p ls, dumps [] [(gi, [known]); (gi, [late])] = Ok (p, ls) /\
    In (GeneL 0 10001 80000 0 7 1) ls /\ In (TrL 0 70001 81000 0 7 2) ls /\ glines ls = [7].
Proof. exact gene_line_first_dump_refuted. Qed.
(* the empty exon list passes validate_exons and dump then fails with IndexError (Raises 1) *)
Example C03_empty_exon_list_raises : validate_exons [] = true /\ dump [] (mkG 0 true []) [mkT 0 0 1 1 false [] []] = Raises 1.
Proof. split; vm_compute; reflexivity. Qed.

(* ---- hypotheses are satisfiable *)
Example C03_novel_example :
  get_exons (100, 900) [(201, 299); (401, 499)] = [(100, 200); (300, 400); (500, 900)] /\
  correct_ends 10 [(100, 200); (300, 400); (500, 900)] [(150, 700); (160, 650)] = [(150, 200); (300, 400); (500, 700)].
Proof. split; vm_compute; reflexivity. Qed.
Example C03_dump_example :
  dump [] (mkG 0 false [(7, (90, 950))]) [mkT 0 1 1 7 false [(100, 200); (300, 400)] []] =
  Ok ([7], [GeneL 0 90 950 1 7 1; TrL 0 100 400 1 7 1; FeatL 0 2 300 400 1 7 1 1; FeatL 0 2 100 200 1 7 1 2]).
Proof. vm_compute. reflexivity. Qed.
(* the joiner moves a novel model that shares an intron and most of its range with an annotated gene into that gene ... *)
Example C03_joiner_example :
  option_map (map t_gene) (match join_transcripts [(5, (0, (100, 900)))] [(1, (5, [(201, 299)]))]
     [mkT 0 0 1 5 true [(100,200);(300,900)] []; mkT 0 0 2 8 false [(100,200);(300,700)] []; mkT 0 0 3 9 false [(2000,2100);(2300,2400)] []]
     with Ok l => Some l | Raises _ => None end) = Some [5; 5; 9].
Proof. vm_compute. reflexivity. Qed.
(* ... but not when that pair is the only candidate pair (`while len(self.scores) > 1`): the same model keeps its own gene *)
Example C03_joiner_single_pair_not_merged :
  option_map (map t_gene) (match join_transcripts [(5, (0, (100, 900)))] [(1, (5, [(201, 299)]))]
     [mkT 0 0 1 5 true [(100,200);(300,900)] []; mkT 0 0 2 8 false [(100,200);(300,700)] []]
     with Ok l => Some l | Raises _ => None end) = Some [5; 8].
Proof. vm_compute. reflexivity. Qed.
