(* C16: the scans of count_polya_exons / count_polyt_exons as folds with a `stopped` flag over the exon list, against PolyA.cpa_rev / cpt. *)
From Coq Require Import ZArith List Bool Lia ZifyBool.
From IQ.gen Require Import Prims Loops.
From IQ Require Import Cigar PolyA PolyA2 LoopsSupport LoopsIndexSupport.
Import ListNotations. Open Scope Z_scope.

Definition ga (mf pos:Z) (st:bool * Z) (e:iv) : bool * Z :=
  let '(stop, c) := st in if stop then st else if snd e <=? pos then (true, c) else if is_polya_exon mf pos e then (false, c + 1) else (false, c).
Definition gt (mf pos:Z) (st:bool * Z) (e:iv) : bool * Z :=
  let '(stop, c) := st in if stop then st else if fst e >=? pos then (true, c) else if is_polyt_exon mf pos e then (false, c + 1) else (false, c).

Lemma fold_stopped {A} (g : bool * Z -> A -> bool * Z) (Hg: forall c x, g (true, c) x = (true, c)) l c : fold_left g l (true, c) = (true, c).
Proof. induction l as [|x t IH]; [reflexivity|]. cbn [fold_left]. rewrite Hg. exact IH. Qed.
Lemma ga_fold mf pos : forall l c, snd (fold_left (ga mf pos) l (false, c)) = c + Z.of_nat (cpa_rev mf pos l).
Proof. induction l as [|e t IH]; intros c; cbn [fold_left cpa_rev]; [cbn; lia|]. unfold ga at 2.
  destruct (snd e <=? pos); [rewrite fold_stopped by reflexivity; cbn; lia|]. destruct (is_polya_exon mf pos e); rewrite IH; lia. Qed.
Lemma gt_fold mf pos : forall l c, snd (fold_left (gt mf pos) l (false, c)) = c + Z.of_nat (cpt mf pos l).
Proof. induction l as [|e t IH]; intros c; cbn [fold_left cpt]; [cbn; lia|]. unfold gt at 2.
  destruct (fst e >=? pos); [rewrite fold_stopped by reflexivity; cbn; lia|]. destruct (is_polyt_exon mf pos e); rewrite IH; lia. Qed.

Lemma fold_left_ext_in {S A} (f g : S -> A -> S) l : (forall a, In a l -> forall s, f s a = g s a) -> forall s, fold_left f l s = fold_left g l s.
Proof. induction l as [|x t IH]; intros H s; [reflexivity|]. cbn [fold_left]. rewrite H by (left; reflexivity). apply IH. intros a Ha. apply H. right. exact Ha. Qed.

