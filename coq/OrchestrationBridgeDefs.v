(* C10: name correspondence between the polyA-requirement strategies of the hand-written model Orchestration.v and
   PolyAUsageStrategies of src/dataset_processor.py (gen/Extra.v).  Definitions only; the statements are in OrchestrationBridge.v. *)
From Coq Require Import ZArith List Bool.
From IQ Require Import Orchestration.
From IQ.gen Require Import Extra.

(* name correspondence: model constructor -> member of PolyAUsageStrategies *)
Definition pus_of (st:polya_strategy) : PUS := match st with PAuto => PUS_auto | PNever => PUS_never | PAlways => PUS_always end.

