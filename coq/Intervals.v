(* C19: executable models of the interval utilities of src/common.py, GeneInfo.split_exons, FeatureProfiles.set_profiles
   and the two read-profile constructors of src/long_read_profiles.py.  The loop-free predicates are the TRANSLATED ones
   (gen/Prims.v, regenerated from the source on every check).  Proofs are in IntervalsProofs.v / ProfilesProofs.v. *)
From Coq Require Import ZArith NArith List Bool Lia ZifyBool.
From IQ.gen Require Import Prims.
From IQ Require Import CorrSupport.
Import ListNotations. Open Scope Z_scope.
Notation iv := (Z*Z)%type.

(* exception classes used by the correspondence *)
Definition IndexError : N := 1%N.
Definition AssertionError : N := 3%N.
Definition ZeroDivisionError : N := 4%N.

Definition ilen (a:iv) := snd a - fst a + 1.
Fixpoint total (l:list iv) : Z := match l with [] => 0 | a::t => py_interval_len a + total t end.   (* intervals_total_length *)

(* ---------- sum_intervals_to_point / sum_intervals_from_point ---------- *)
Fixpoint sitp_loop (l:list iv) (pos:Z) : Z :=
  match l with
  | [] => 0
  | a::t => if fst a <? pos
            then (if (fst a <=? pos) && (pos <=? snd a) then pos - fst a else snd a - fst a + 1) + sitp_loop t pos
            else 0
  end.
Definition sum_to_point (l:list iv) (pos:Z) : outcome Z :=
  match l with
  | [] => Raises IndexError
  | a::_ => Ok (if pos <=? fst a then 0 else if pos >? snd (last l a) then total l else sitp_loop l pos)
  end.
(* the loop of sum_intervals_from_point walks from the right end *)
Fixpoint sifp_loop (rl:list iv) (pos:Z) : Z :=
  match rl with
  | [] => 0
  | a::t => if snd a >? pos
            then (if (fst a <=? pos) && (pos <=? snd a) then snd a - pos else snd a - fst a + 1) + sifp_loop t pos
            else 0
  end.
Definition sum_from_point (l:list iv) (pos:Z) : outcome Z :=
  match l with
  | [] => Raises IndexError
  | a::_ => Ok (if pos <? fst a then total l else if pos >? snd (last l a) then 0 else sifp_loop (rev l) pos)
  end.

(* ---------- jaccard_similarity: the (intersection, union) accumulators; None = the assert on the flags fails ---------- *)
Definition rest (inc:bool) (l:list iv) : Z := if inc then total (tl l) else total l.
Fixpoint jac_f (n:nat) (A B:list iv) (i1 i2:bool) : option (Z*Z) :=
  match n with O => None | Datatypes.S n' =>
    match A, B with
    | [], _ => Some (0, rest i2 B)
    | _, [] => Some (0, rest i1 A)
    | a::A', b::B' =>
      if py_overlaps a b then
        if i1 && i2 then None else
        let di := Z.min (snd a) (snd b) - Z.max (fst a) (fst b) + 1 in
        let du := if negb i1 && negb i2 then Z.max (snd a) (snd b) - Z.min (fst a) (fst b) + 1
                  else if i2 then Z.max 0 (snd a - snd b) else Z.max 0 (snd b - snd a) in
        match (if snd b <? snd a then jac_f n' A B' true false else jac_f n' A' B false true) with
        | Some (i, u) => Some (di + i, du + u) | None => None end
      else if py_left_of b a then
        match jac_f n' A B' i1 false with Some (i, u) => Some (i, (if i2 then 0 else ilen b) + u) | None => None end
      else
        match jac_f n' A' B false i2 with Some (i, u) => Some (i, (if i1 then 0 else ilen a) + u) | None => None end
    end end.
Definition jaccard (A B:list iv) : outcome (Z*Z) :=
  match jac_f (Datatypes.S (length A + length B)) A B false false with
  | None => Raises AssertionError
  | Some (i, u) => if u =? 0 then Raises AssertionError else Ok (i, u)
  end.

(* ---------- read_coverage_fraction: intersection accumulator over the read length ---------- *)
Fixpoint inter_f (n:nat) (A B:list iv) : Z :=
  match n with O => 0 | Datatypes.S n' =>
    match A, B with
    | [], _ => 0 | _, [] => 0
    | a::A', b::B' =>
      if py_overlaps a b then
        (Z.min (snd a) (snd b) - Z.max (fst a) (fst b) + 1) +
        (if snd b <? snd a then inter_f n' A B' else inter_f n' A' B)
      else if py_left_of b a then inter_f n' A B' else inter_f n' A' B
    end end.
Definition coverage_fraction (R I:list iv) : outcome (Z*Z) :=
  let t := total R in if t =? 0 then Raises ZeroDivisionError else Ok (inter_f (length R + length I) R I, t).

(* extra_exon_percentage *)
Definition extra_exon_pair (reg:iv) (ex:list iv) : outcome (Z*Z) :=
  let outside := fold_left (fun acc e => acc + (if fst e <? fst reg then Z.min (snd e) (fst reg - 1) - fst e + 1 else 0)
                                             + (if snd e >? snd reg then snd e - Z.max (fst e) (snd reg + 1) + 1 else 0)) ex 0 in
  let t := fold_left (fun acc e => acc + (snd e - fst e + 1)) ex 0 in
  if t =? 0 then Raises ZeroDivisionError else Ok (outside, t).

(* ---------- merge_ranges ---------- *)
Definition upd_last (acc:list iv) (e:Z) : list iv :=     (* acc is reversed: head = union[-1] *)
  match acc with last :: r => (fst last, Z.max (snd last) e) :: r | [] => [] end.
Fixpoint mr_f (n:nat) (A B:list iv) (i1 i2:bool) (acc:list iv) : option (list iv) :=
  match n with O => None | Datatypes.S n' =>
    match A, B with
    | [], _ => Some (rev acc ++ (if i2 then tl B else B))
    | _, [] => Some (rev acc ++ (if i1 then tl A else A))
    | a::A', b::B' =>
      if py_overlaps a b then
        if i1 && i2 then None else
        let acc' := if negb i1 && negb i2 then (Z.min (fst a) (fst b), Z.max (snd a) (snd b)) :: acc
                    else if i2 then upd_last acc (snd a) else upd_last acc (snd b) in
        if snd b <? snd a then mr_f n' A B' true false acc' else mr_f n' A' B false true acc'
      else if py_left_of b a then mr_f n' A B' i1 false (if i2 then acc else b :: acc)
      else mr_f n' A' B false i2 (if i1 then acc else a :: acc)
    end end.
Definition merge_ranges (A B:list iv) : outcome (list iv) :=
  match mr_f (Datatypes.S (length A + length B)) A B false false [] with
  | None => Raises AssertionError
  | Some [] => Raises AssertionError
  | Some l => Ok l
  end.

(* ---------- junctions / exons ---------- *)
Fixpoint jfb (l:list iv) : list iv :=           (* junctions_from_blocks *)
  match l with
  | a :: ((b :: _) as t) => (if snd a + 1 <? fst b then [(snd a + 1, fst b - 1)] else []) ++ jfb t
  | _ => []
  end.
(* get_exons: the two infinite sentinels contribute one coordinate each *)
Definition get_exons (r:iv) (introns:list iv) : list iv := jfb ((fst r - 1, fst r - 1) :: introns ++ [(snd r + 1, snd r + 1)]).

Definition nthz {A} (l:list A) (i:Z) (d:A) : A := nth (Z.to_nat i) l d.
(* Python indexing with negative wrap-around; None = IndexError *)
Definition pyidx {A} (l:list A) (i:Z) : option A :=
  let n := Z.of_nat (length l) in
  if (0 <=? i) && (i <? n) then nth_error l (Z.to_nat i)
  else if (i <? 0) && (- n <=? i) then nth_error l (Z.to_nat (n + i)) else None.

(* get_exon(region, junctions, position) *)
Definition get_exon (reg:iv) (J:list iv) (p0:Z) : outcome iv :=
  let n := Z.of_nat (length J) in
  if negb (p0 <=? n) then Raises AssertionError else
  let p := if p0 <? 0 then n + p0 + 1 else p0 in
  if p =? 0 then match pyidx J 0 with Some j => Ok (fst reg, fst j - 1) | None => Raises IndexError end
  else if p =? n then match pyidx J (-1) with Some j => Ok (snd j + 1, snd reg) | None => Raises IndexError end
  else match pyidx J (p - 1), pyidx J p with Some j1, Some j2 => Ok (snd j1 + 1, fst j2 - 1) | _, _ => Raises IndexError end.

Definition following_exon (reg:iv) (J:list iv) (p:Z) : outcome iv :=
  let n := Z.of_nat (length J) in
  match (if (p =? n - 1) || (p =? -1) then Some (snd reg) else match pyidx J (p + 1) with Some j => Some (fst j - 1) | None => None end), pyidx J p with
  | Some e, Some j => Ok (snd j + 1, e)
  | _, _ => Raises IndexError
  end.
Definition preceding_exon (reg:iv) (J:list iv) (p:Z) : outcome iv :=
  let n := Z.of_nat (length J) in
  if negb (p <=? n) then Raises AssertionError else
  match (if p =? 0 then Some (fst reg) else match pyidx J (p - 1) with Some j => Some (snd j + 1) | None => None end) with
  | None => Raises IndexError
  | Some s => if p =? n then Ok (s, snd reg) else match pyidx J p with Some j => Ok (s, fst j - 1) | None => Raises IndexError end
  end.

(* ---------- binary searches (fuel; None = out of fuel or index outside the list) ---------- *)
Fixpoint bs_loop (fuel:nat) (l:list iv) (pos ind step:Z) : option Z :=
  match fuel with O => None | Datatypes.S f =>
    match pyidx l ind, pyidx l (ind + 1) with
    | Some a, Some b =>
      if (fst a <=? pos) && (pos <? fst b) then Some ind
      else let step' := Z.max 1 (step / 2) in
           if pos <? fst a then bs_loop f l pos (ind - step') step' else bs_loop f l pos (ind + step') step'
    | _, _ => None
    end end.
Definition bin_search (l:list iv) (pos:Z) : outcome (option Z) :=
  match l with
  | [] => Raises IndexError
  | a :: _ => let z := last l a in
    if (pos >? snd z) || (pos <? fst a) then Ok (Some (-1))
    else let s := Z.of_nat (length l) - 1 in
         if pos >=? fst z then Ok (Some s) else Ok (bs_loop (2 * length l + 2) l pos (s / 2) (s / 2))
  end.
Fixpoint bsr_loop (fuel:nat) (l:list iv) (pos ind step:Z) : option Z :=
  match fuel with O => None | Datatypes.S f =>
    match pyidx l (ind - 1), pyidx l ind with
    | Some a, Some b =>
      if (snd a <? pos) && (pos <=? snd b) then Some ind
      else let step' := Z.max 1 (step / 2) in
           if pos >? snd b then bsr_loop f l pos (ind + step') step' else bsr_loop f l pos (ind - step') step'
    | _, _ => None
    end end.
Definition bin_search_rev (l:list iv) (pos:Z) : outcome (option Z) :=
  match l with
  | [] => Raises IndexError
  | a :: _ => let z := last l a in
    if (pos >? snd z) || (pos <? fst a) then Ok (Some (-1))
    else if pos <=? snd a then Ok (Some 0)
    else let s := Z.of_nat (length l) - 1 in Ok (bsr_loop (2 * length l + 2) l pos (s / 2) (s / 2))
  end.

(* ---------- GeneInfo.split_exons ---------- *)
Fixpoint zinsert (x:Z) (l:list Z) : list Z := match l with [] => [x] | y::t => if x <=? y then x :: l else y :: zinsert x t end.
Fixpoint zsort (l:list Z) : list Z := match l with [] => [] | x::t => zinsert x (zsort t) end.

Definition newer (prev:option Z) (x:Z) : bool := match prev with None => true | Some p => p <? x end.
Fixpoint se_drain (E:list Z) (pe:option Z) (last:Z) (acc:list iv) : list iv :=
  match E with
  | [] => acc
  | e :: E' => if newer pe e then se_drain E' (Some e) (e + 1) (acc ++ [(last, e)]) else se_drain E' (Some e) last acc
  end.
Fixpoint se_loop (fuel:nat) (St E:list Z) (ps pe:option Z) (state last:Z) (acc:list iv) : option (list iv) :=
  match fuel with O => None | Datatypes.S f =>
    match St with
    | [] => Some (se_drain E pe last acc)
    | s :: St' =>
      match E with
      | [] => None                                   (* IndexError: more starts than ends *)
      | e :: E' =>
        if s <=? e then
          let nb := newer ps s in
          let acc' := if nb && negb (last =? -1) && (0 <? state) && (last <? s) then acc ++ [(last, s - 1)] else acc in
          se_loop f St' E (Some s) pe (state + 1) (if nb then s else last) acc'
        else
          let nb := newer pe e in
          se_loop f St E' ps (Some e) (state - 1) (if nb then e + 1 else last) (if nb then acc ++ [(last, e)] else acc)
      end
    end end.
Definition split_exons (exons:list iv) : option (list iv) :=
  se_loop (2 * length exons + 1) (zsort (map fst exons)) (zsort (map snd exons)) None None 0 (-1) [].

(* ---------- FeatureProfiles.set_profiles ---------- *)
Section SetProfiles.
Variable cmp : iv -> iv -> bool.       (* comparator(transcript_feature, known_feature) *)
Fixpoint sp_mark (f:iv) (K:list iv) (init:list Z) (acc:list Z) : list Z * list iv * list Z :=
  match K, init with
  | k :: K', v :: init' => if cmp f k then sp_mark f K' init' (1 :: acc) else (acc, K, init)
  | _, _ => (acc, K, init)
  end.
Fixpoint sp_skip (f:iv) (K:list iv) (init:list Z) (acc:list Z) : list Z * list iv * list Z :=
  match K, init with
  | k :: K', v :: init' => if cmp f k then sp_mark f K init acc else sp_skip f K' init' (v :: acc)
  | _, _ => (acc, K, init)
  end.
Fixpoint sp_feats (F:list iv) (K:list iv) (init:list Z) (acc:list Z) : list Z :=
  match F with
  | [] => rev acc ++ init
  | f :: F' => let '(acc', K', init') := sp_skip f K init acc in sp_feats F' K' init' acc'
  end.
Definition isoform_profile (K:list iv) (F:list iv) (region:iv) : list Z :=
  sp_feats F K (map (fun k => if py_overlaps k region then -1 else -2) K) [].
End SetProfiles.
Fixpoint lead_lt1 (l:list Z) : Z := match l with v :: t => if v <? 1 then 1 + lead_lt1 t else 0 | [] => 0 end.
Definition profile_range_lt1 (p:list Z) : iv := (lead_lt1 p, Z.of_nat (length p) - lead_lt1 (rev p)).
Fixpoint lead_zero (l:list Z) : Z := match l with v :: t => if v =? 0 then 1 + lead_zero t else 0 | [] => 0 end.
Definition profile_range_zero (p:list Z) : iv := (lead_zero p, Z.of_nat (length p) - lead_zero (rev p)).

(* ---------- OverlappingFeaturesProfileConstructor.construct_profile_for_features ---------- *)
Section Overlapping.
Variable cmp : iv -> iv -> bool.          (* comparator(read_feature, known_feature) *)
Variable absent : iv -> iv -> bool.       (* absence_condition(region, feature) *)
Variable delta : Z.

Fixpoint ovs (fuel:nat) (mapped:iv) (K:list iv) (kv:list Z) (gpos:Z) (R:list iv) (rv:list Z) (rpos:Z) (gacc racc:list Z) (m:list (Z*Z))
  : option (list Z * list Z * list (Z*Z)) :=
  match fuel with O => None | Datatypes.S f =>
    match K, kv, R, rv with
    | k :: K', kvh :: kv', r :: R', rvh :: rv' =>
      if snd r <? fst k then ovs f mapped K kv gpos R' rv' (rpos + 1) gacc ((if (rvh =? 0) && (0 <? gpos) then -1 else rvh) :: racc) m
      else if snd k <? fst r then ovs f mapped K' kv' (gpos + 1) R rv rpos ((if 0 <? rpos then -1 else kvh) :: gacc) racc m
      else if cmp r k then ovs f mapped K' kv' (gpos + 1) R (1 :: rv') rpos (1 :: gacc) racc (m ++ [(rpos, gpos)])
      else ovs f mapped K' kv' (gpos + 1) R rv rpos ((if absent mapped k then -1 else kvh) :: gacc) racc m
    | _, _, _, _ => Some (rev gacc ++ kv, rev racc ++ rv, m)
    end end.

Definition match_delta (a b:iv) : Z := Z.abs (fst a - fst b) + Z.abs (snd a - snd b).
Fixpoint setz (l:list Z) (i:nat) (v:Z) : list Z := match l, i with [], _ => [] | _ :: t, O => v :: t | x :: t, Datatypes.S j => x :: setz t j v end.

(* eliminate non-unique matches: among the known features matched by one read feature only the closest keep their 1 *)
Definition elim (K R:list iv) (m:list (Z*Z)) (gp:list Z) : list Z :=
  fold_left (fun g e =>
    let grp := filter (fun e' => fst e' =? fst e) m in
    let d x := match_delta (nthz R (fst x) (0,0)) (nthz K (snd x) (0,0)) in
    let best := fold_left (fun b x => Z.min b (d x)) grp (d e) in
    if (1 <? Z.of_nat (length grp)) && (best <? d e) then setz g (Z.to_nat (snd e)) (-1) else g) m gp.

Definition mark_polya (K:list iv) (gp:list Z) (polya polyt:Z) : list Z :=
  map (fun kg => let '(k, g) := kg in
         let g1 := if negb (polya =? -1) && (fst k >? polya + delta) then -2 else g in
         if negb (polyt =? -1) && (snd k <? polyt - delta) then -2 else g1) (combine K gp).

Definition overlapping_profile (K:list iv) (gene_region:iv) (R:list iv) (mapped_region:iv) (polya polyt:Z)
  : option (list Z * list Z * iv) :=
  let kv := map (fun k => if absent mapped_region k then -1 else 0) K in
  let rv := map (fun r => if absent gene_region r then -1 else 0) R in
  match ovs (Datatypes.S (length K + length R)) mapped_region K kv 0 R rv 0 [] [] [] with
  | None => None
  | Some (gp, rp, m) => let gp2 := mark_polya K (elim K R m gp) polya polyt in Some (gp2, rp, profile_range_zero gp2)
  end.
End Overlapping.

(* ---------- NonOverlappingFeaturesProfileConstructor.construct_profile ---------- *)
Section NonOverlapping.
Variable cmp : iv -> iv -> bool.          (* comparator(read_exon, gene_exon) *)
Variable delta : Z.
Definition hdz (l:list Z) := hd 0 l.
Fixpoint nos (fuel:nat) (K:list iv) (kv:list Z) (gpos:Z) (R:list iv) (rv:list Z) (rpos:Z) (gacc racc:list Z) : option (list Z * list Z) :=
  match fuel with O => None | Datatypes.S f =>
    match K, kv, R, rv with
    | k :: K', kvh :: kv', r :: R', rvh :: rv' =>
      if snd r <? fst k then nos f K kv gpos R' rv' (rpos + 1) gacc ((if (0 <? gpos) && (rvh =? 0) then -1 else rvh) :: racc)
      else if snd k <? fst r then nos f K' kv' (gpos + 1) R rv rpos ((if (0 <? rpos) && (kvh =? 0) then -1 else kvh) :: gacc) racc
      else
        let hit := cmp r k in
        let kvh' := if hit then 1 else kvh in let rvh' := if hit then 1 else rvh in
        if snd r <? snd k then nos f K (kvh' :: kv') gpos R' rv' (rpos + 1) gacc (rvh' :: racc)
        else nos f K' kv' (gpos + 1) R (rvh' :: rv') rpos (kvh' :: gacc) racc
    | _, _, _, _ => Some (rev gacc ++ kv, rev racc ++ rv)
    end end.
Fixpoint mark_from (i:Z) (cond:Z -> bool) (l:list Z) : list Z := match l with [] => [] | v :: t => (if cond i then -2 else v) :: mark_from (i + 1) cond t end.
Definition nonoverlapping_profile (K R:list iv) (polya polyt:Z) : outcome (list Z * list Z * iv) :=
  match nos (Datatypes.S (length K + length R)) K (map (fun _ => 0) K) 0 R (map (fun _ => 0) R) 0 [] [] with
  | None => Raises 9%N
  | Some (gp, rp) =>
    let after_a :=
      if polya =? -1 then Ok gp else
      match bin_search K (polya + delta) with
      | Raises e => Raises e
      | Ok None => Raises 9%N
      | Ok (Some idx) => Ok (if idx =? -1 then gp else mark_from 0 (fun i => idx <? i) gp)
      end in
    match after_a with
    | Raises e => Raises e
    | Ok gp1 =>
      let after_t :=
        if polyt =? -1 then Ok gp1 else
        match bin_search_rev K (polyt - delta) with
        | Raises e => Raises e
        | Ok None => Raises 9%N
        | Ok (Some idx) => Ok (if idx =? -1 then gp1 else mark_from 0 (fun i => i <? idx) gp1)
        end in
      match after_t with
      | Raises e => Raises e
      | Ok gp2 => Ok (gp2, rp, profile_range_zero gp2)
      end
    end
  end.
End NonOverlapping.

(* ---------- truncate_read_to_polya (unused by the pipeline; Python slice semantics included) ---------- *)
Definition pyslice {A} (l:list A) (a b:Z) : list A :=
  let n := Z.of_nat (length l) in
  let norm i := if i <? 0 then Z.max 0 (n + i) else Z.min i n in
  let a' := norm a in let b' := norm b in
  if a' <? b' then firstn (Z.to_nat (b' - a')) (skipn (Z.to_nat a') l) else [].
Fixpoint tr_end (fuel:nat) (l:list iv) (idx polya:Z) : Z :=
  match fuel with O => idx | Datatypes.S f =>
    if 0 <=? idx then match pyidx l idx with Some e => if fst e <? polya then idx else tr_end f l (idx - 1) polya | None => idx end else idx end.
Fixpoint tr_start (fuel:nat) (l:list iv) (idx endi polyt:Z) : Z :=
  match fuel with O => idx | Datatypes.S f =>
    if idx <=? endi then match pyidx l idx with Some e => if snd e >? polyt then idx else tr_start f l (idx + 1) endi polyt | None => idx end else idx end.
Definition truncate_to_polya (l:list iv) (polya polyt:Z) : outcome (list iv) :=
  match l with
  | [] => Raises IndexError
  | first :: _ =>
    let lst := last l first in
    let n := Z.of_nat (length l) in
    let endi := if polya =? -1 then n - 1 else tr_end (Datatypes.S (length l)) l (n - 1) polya in
    let endp := if polya =? -1 then snd lst else polya in
    let starti := if polyt =? -1 then 0 else tr_start (Datatypes.S (Datatypes.S (length l))) l 0 endi polyt in
    let startp := if polyt =? -1 then fst first else polyt in
    if (startp =? fst first) && (endp =? snd lst) then Ok l
    else if starti =? endi then Ok [(startp, endp)]
    else match pyidx l starti, pyidx l endi with
         | Some es, Some ee => Ok ((startp, snd es) :: pyslice l (starti + 1) endi ++ [(fst ee, endp)])
         | _, _ => Raises IndexError
         end
  end.
