(* C09, the table grouper end to end: --read_group file:FILE[:READ_COL:GROUP_COL[:DELIM]] (src/read_groups.py get_file_grouping_properties),
   prepare_read_groups / split_read_group_table (the user's table is parsed with the user's layout and re-written per chromosome as
   "read<TAB>group" lines, one per read of that chromosome that has a row, first alignment wins the place, last row wins the group),
   create_read_grouper (the per-chromosome file is parsed with the FIXED layout 0, 1, TAB) and ReadTableGrouper.get_group_id.
   Strings are lists of code points (GroupedGroupers.v: split, strip, parse_line, load_table, lookup_last). *)
From Coq Require Import ZArith List Bool Lia.
From IQ Require Import GroupedGroupers GroupedUniverse.
Import ListNotations.
Open Scope Z_scope.

(* ---------------------------------------------------------------- the option string *)
Fixpoint parse_nat_go (s:str) (acc:nat) : option nat :=
  match s with [] => Some acc | c :: t => if (48 <=? c) && (c <=? 57) then parse_nat_go t (10 * acc + Z.to_nat (c - 48)) else None end.
(* int() on a plain decimal numeral (signs, blanks and underscores, which int() also accepts, are outside the documented use) *)
Definition parse_nat (s:str) : option nat := match s with [] => None | _ => parse_nat_go s 0 end.
(* values = option.split(':'); get_file_grouping_properties(values): (file, read column, group column, delimiter); None = ValueError *)
Definition layout_of (values:list str) : option (str * nat * nat * str) :=
  match values with
  | _ :: f :: rc :: gc :: rest =>
      match parse_nat rc, parse_nat gc with
      | Some a, Some b => Some (f, a, b, match rest with d :: _ => d | [] => [9] end)
      | _, _ => None end
  | _ :: f :: _ => Some (f, O, 1%nat, [9])
  | _ => None
  end.
Definition option_layout (opt:str) : option (str * nat * nat * str) := layout_of (split [58] opt).

(* ---------------------------------------------------------------- split_read_group_table, one chromosome *)
(* reads: query names of the alignments whose reference is this chromosome, over the BAM files in order; seen: processed_reads[chr] *)
Fixpoint split_pairs (tbl:list (str * str)) (reads seen:list str) : list (str * str) :=
  match reads with
  | [] => []
  | n :: t => match lookup_last tbl n with
              | Some g => if mem_str n seen then split_pairs tbl t seen else (n, g) :: split_pairs tbl t (n :: seen)
              | None => split_pairs tbl t seen
              end
  end.
Definition render (p:str * str) : str := fst p ++ [9] ++ snd p.                         (* "%s\t%s\n" *)
Definition split_file (rc gc:nat) (delim:str) (lines reads:list str) : list str :=
  map render (split_pairs (load_table rc gc delim lines) reads []).
(* load_table(file, rc, gc, delim, skip_comments): lines starting with '#' are comments only when skip_comments is set *)
Definition parse_line_s (skip:bool) (rc gc:nat) (delim line:str) : option (str * str) :=
  let l := strip line in
  match l with
  | [] => None
  | c :: _ => if skip && (c =? 35) then None
              else let cols := split delim l in
                   if Nat.leb (length cols) (Nat.max rc gc) then None else Some (nth rc cols [], nth gc cols [])
  end.
Definition load_table_s (skip:bool) (rc gc:nat) (delim:str) (lines:list str) : list (str * str) :=
  flat_map (fun l => match parse_line_s skip rc gc delim l with Some p => [p] | None => [] end) lines.
Lemma parse_line_s_true rc gc delim line : parse_line_s true rc gc delim line = parse_line rc gc delim line.
Proof. unfold parse_line_s, parse_line. destruct (strip line); reflexivity. Qed.
Lemma load_table_s_true rc gc delim lines : load_table_s true rc gc delim lines = load_table rc gc delim lines.
Proof. unfold load_table_s, load_table. induction lines as [|l t IH]; [reflexivity|]. cbn [flat_map]. rewrite parse_line_s_true, IH. reflexivity. Qed.
(* create_read_grouper: ReadTableGrouper(<split file of the chromosome>, 0, 1, '\t', skip_comments=False) (repaired, commit 614fc16; the user's table is
   still read with comments); get_group_id.  Before the repair the split file was read with skip_comments as well *)
Definition table_group_split_gen (skip:bool) (rc gc:nat) (delim:str) (lines reads:list str) (name:str) : str :=
  match lookup_last (load_table_s skip 0 1 [9] (split_file rc gc delim lines reads)) name with Some g => g | None => NA end.
Definition table_group_split := table_group_split_gen false.
Definition table_group_split_unrepaired := table_group_split_gen true.
(* the variant that reads the split file with the layout of the command line *)
Definition table_group_split_user_layout (rc gc:nat) (delim:str) (lines reads:list str) (name:str) : str :=
  match lookup_last (load_table rc gc delim (split_file rc gc delim lines reads)) name with Some g => g | None => NA end.
(* one read, its line of the split file alone (the shape of GroupedGroupers.table_group, which describes the code before the repair) *)
Definition table_group_repaired (rc gc:nat) (delim:str) (lines:list str) (name:str) : str :=
  match lookup_last (load_table rc gc delim lines) name with
  | None => NA
  | Some g => match parse_line_s false 0 1 [9] (name ++ [9] ++ g) with
              | Some (n', g') => if str_eqb n' name then g' else NA
              | None => NA
              end
  end.

(* names and groups that survive the re-writing: a read name as SAM allows it ([!-?A-~]+; before the repair: that does not start with '#');
   a non-empty group without TAB whose last character is not white space *)
Definition name_ok (skip:bool) (n:str) : bool :=
  match n with c :: _ => negb (skip && (c =? 35)) | [] => false end && forallb (fun c => negb (is_ws c)) n.
Definition clean_name := name_ok false.
Definition clean_name_unrepaired := name_ok true.
Definition safe_group (g:str) : bool :=
  negb (occurs [9] g) && match rev g with c :: _ => negb (is_ws c) | [] => false end.

(* ---------------------------------------------------------------- dictionaries *)
Lemma lookup_last_None tbl n : lookup_last tbl n = None <-> ~ In n (map fst tbl).
Proof. induction tbl as [|p t IH]; cbn [lookup_last map In]; [tauto|]. destruct (lookup_last t n) as [g|] eqn:E.
  - split; [discriminate|]. intros H. exfalso. destruct IH as [_ IH]. assert (X: ~ In n (map fst t)) by tauto. apply IH in X. discriminate.
  - destruct (str_eqb (fst p) n) eqn:Q.
    + apply str_eqb_eq in Q. split; [discriminate|]. intros H. exfalso. apply H. left. exact Q.
    + split; [|reflexivity]. intros _ [H|H]; [subst; assert (str_eqb (fst p) (fst p) = true) by (apply str_eqb_eq; reflexivity); congruence|].
      apply (proj1 IH eq_refl H). Qed.
Lemma lookup_last_unique tbl n g : NoDup (map fst tbl) -> In (n, g) tbl -> lookup_last tbl n = Some g.
Proof. induction tbl as [|p t IH]; cbn [lookup_last map In]; [intros _ []|]. intros N H. inversion N as [|a b Hn Hd]; subst. destruct H as [H|H].
  - subst p. cbn [fst snd] in *. assert (L: lookup_last t n = None) by (apply lookup_last_None; exact Hn). rewrite L.
    assert (Q: str_eqb n n = true) by (apply str_eqb_eq; reflexivity). rewrite Q. reflexivity.
  - rewrite (IH Hd H). reflexivity. Qed.

(* ---------------------------------------------------------------- the split file *)
Lemma split_pairs_spec tbl : forall reads seen n g,
  In (n, g) (split_pairs tbl reads seen) <-> In n reads /\ ~ In n seen /\ lookup_last tbl n = Some g.
Proof. induction reads as [|x t IH]; intros seen n g; cbn [split_pairs In]; [tauto|]. destruct (lookup_last tbl x) as [gx|] eqn:L.
  - destruct (mem_str x seen) eqn:M.
    + apply mem_str_In in M. rewrite IH. split.
      * intros [A [B C]]. auto.
      * intros [[A|A] [B C]]; [subst; contradiction|auto].
    + assert (NM: ~ In x seen) by (intros H; apply mem_str_In in H; congruence). cbn [In]. rewrite IH. cbn [In]. split.
      * intros [H|[A [B C]]]; [inversion H; subst; auto|]. split; [right; exact A|]. split; [intros H; apply B; right; exact H|exact C].
      * intros [[A|A] [B C]]; [subst; left; congruence|]. destruct (str_eqb x n) eqn:Q.
        -- apply str_eqb_eq in Q. subst. left. congruence.
        -- right. split; [exact A|]. split; [|exact C]. intros [H|H]; [subst; assert (str_eqb n n = true) by (apply str_eqb_eq; reflexivity); congruence|contradiction].
  - rewrite IH. split.
    + intros [A [B C]]. auto.
    + intros [[A|A] [B C]]; [subst; congruence|auto]. Qed.
Lemma split_pairs_NoDup tbl : forall reads seen, NoDup (map fst (split_pairs tbl reads seen)).
Proof. induction reads as [|x t IH]; intros seen; cbn [split_pairs]; [constructor|]. destruct (lookup_last tbl x) as [gx|]; [|apply IH].
  destruct (mem_str x seen); [apply IH|]. cbn [map fst]. constructor; [|apply IH]. intros H. apply in_map_iff in H. destruct H as [[n g] [E H]].
  cbn [fst] in E. subst n. apply split_pairs_spec in H. destruct H as [_ [H _]]. apply H. left. reflexivity. Qed.
(* every read of the chromosome that has a row is in the chromosome's split file, once, with the group of its LAST row; nothing else is *)
Theorem split_preserves_rows rc gc delim lines reads n g : In n reads -> lookup_last (load_table rc gc delim lines) n = Some g ->
  In (n ++ [9] ++ g) (split_file rc gc delim lines reads).
Proof. intros H L. unfold split_file. apply (in_map render _ (n, g)). apply split_pairs_spec. split; [exact H|]. split; [intros []|exact L]. Qed.
Theorem split_rows_are_table_rows rc gc delim lines reads l : In l (split_file rc gc delim lines reads) ->
  exists n g, l = n ++ [9] ++ g /\ In n reads /\ lookup_last (load_table rc gc delim lines) n = Some g.
Proof. unfold split_file. intros H. apply in_map_iff in H. destruct H as [[n g] [E H]]. apply split_pairs_spec in H. destruct H as [A [_ C]].
  exists n, g. split; [symmetry; exact E|]. split; assumption. Qed.

(* ---------------------------------------------------------------- reading a re-written line with the fixed layout *)
Lemma ws_not_tab c : is_ws c = false -> (9 =? c) = false.
Proof. intros H. destruct (9 =? c) eqn:E; [|reflexivity]. apply Z.eqb_eq in E. subst c. discriminate. Qed.
Lemma split_go_tab_prefix : forall n fuel rest cur acc, forallb (fun c => negb (is_ws c)) n = true -> (length n + length rest + 1 < fuel)%nat ->
  split_go fuel [9] (n ++ 9 :: rest) cur acc = split_go (fuel - length n - 1) [9] rest [] (rev (rev n ++ cur) :: acc).
Proof. induction n as [|c t IH]; intros fuel rest cur acc C L; destruct fuel as [|f]; try (cbn [length] in L; lia).
  - cbn [app split_go is_prefix length rev]. rewrite Z.eqb_refl. cbn [andb skipn]. replace (Datatypes.S f - 0 - 1)%nat with f by lia. reflexivity.
  - cbn [forallb] in C. apply andb_true_iff in C. destruct C as [C1 C2]. apply negb_true_iff in C1.
    cbn [app split_go is_prefix]. rewrite (ws_not_tab c C1). cbn [andb]. rewrite IH by (try exact C2; cbn [length] in L; lia).
    cbn [length rev]. rewrite <- app_assoc. cbn [app]. replace (Datatypes.S f - Datatypes.S (length t) - 1)%nat with (f - length t - 1)%nat by lia. reflexivity. Qed.
Lemma split_tab_pair n g : forallb (fun c => negb (is_ws c)) n = true -> occurs [9] g = false -> split [9] (n ++ 9 :: g) = [n; g].
Proof. intros C O. unfold split. rewrite split_go_tab_prefix by (try exact C; rewrite app_length; cbn [length]; lia).
  rewrite split_go_nooccur by (try exact O; rewrite app_length; cbn [length]; lia). rewrite app_nil_r, rev_involutive. reflexivity. Qed.
Lemma lstrip_head c t : is_ws c = false -> lstrip (c :: t) = c :: t.
Proof. intros H. cbn [lstrip]. rewrite H. reflexivity. Qed.
Lemma strip_edges s c t z r : s = c :: t -> rev s = z :: r -> is_ws c = false -> is_ws z = false -> strip s = s.
Proof. intros E R Wc Wz. subst s. unfold strip. rewrite (lstrip_head c t Wc), R, (lstrip_head z r Wz), <- R. apply rev_involutive. Qed.
Lemma parse_rendered skip n g : name_ok skip n = true -> safe_group g = true -> parse_line_s skip 0 1 [9] (render (n, g)) = Some (n, g).
Proof. unfold name_ok, safe_group, render. cbn [fst snd]. intros Cn Cg. destruct n as [|c0 tn]; [discriminate|].
  apply andb_true_iff in Cn. destruct Cn as [C35 Cws]. apply negb_true_iff in C35.
  apply andb_true_iff in Cg. destruct Cg as [Ctab Clast]. apply negb_true_iff in Ctab.
  assert (W0: is_ws c0 = false) by (cbn [forallb] in Cws; apply andb_true_iff in Cws; destruct Cws as [X _]; apply negb_true_iff in X; exact X).
  destruct (rev g) as [|z rg] eqn:RG; [discriminate|]. apply negb_true_iff in Clast.
  assert (S: strip ((c0 :: tn) ++ [9] ++ g) = (c0 :: tn) ++ [9] ++ g).
  { apply (strip_edges _ c0 (tn ++ [9] ++ g) z ((rg ++ [9]) ++ rev (c0 :: tn))); [reflexivity| |exact W0|exact Clast].
    rewrite rev_app_distr. change (rev ([9] ++ g)) with (rev g ++ [9]). rewrite RG. reflexivity. }
  unfold parse_line_s. rewrite S. cbn [app]. rewrite C35. change (c0 :: tn ++ 9 :: g) with ((c0 :: tn) ++ 9 :: g).
  rewrite (split_tab_pair (c0 :: tn) g Cws Ctab). reflexivity. Qed.
Lemma load_rendered skip (pairs:list (str * str)) : (forall p, In p pairs -> name_ok skip (fst p) = true /\ safe_group (snd p) = true) ->
  load_table_s skip 0 1 [9] (map render pairs) = pairs.
Proof. induction pairs as [|p t IH]; intros H; [reflexivity|]. unfold load_table_s in *. cbn [map flat_map]. destruct p as [n g].
  destruct (H (n, g) (or_introl eq_refl)) as [A B]. cbn [fst snd] in A, B. rewrite (parse_rendered skip n g A B). cbn [app]. f_equal.
  apply IH. intros q Hq. apply H. right. exact Hq. Qed.

(* a read of the chromosome that is listed in the table gets exactly the group of its (last) row, whatever column layout and delimiter
   the table has on the command line; hypotheses: the reads of the chromosome have clean names and the groups of those among them that
   are listed survive the re-writing *)
Section Table.
Variable skip : bool.
Variables (rc gc:nat) (delim:str) (lines reads:list str).
Hypothesis names_clean : forall n, In n reads -> name_ok skip n = true.
Hypothesis groups_safe : forall n g, In n reads -> lookup_last (load_table rc gc delim lines) n = Some g -> safe_group g = true.
Lemma split_file_loaded : load_table_s skip 0 1 [9] (split_file rc gc delim lines reads) = split_pairs (load_table rc gc delim lines) reads [].
Proof. unfold split_file. apply load_rendered. intros [n g] H. apply split_pairs_spec in H. destruct H as [A [_ C]]. cbn [fst snd].
  split; [apply names_clean, A|apply (groups_safe n g A C)]. Qed.
Lemma table_group_gen_row name g : In name reads -> lookup_last (load_table rc gc delim lines) name = Some g ->
  table_group_split_gen skip rc gc delim lines reads name = g.
Proof. intros H L. unfold table_group_split_gen. rewrite split_file_loaded.
  rewrite (lookup_last_unique _ name g (split_pairs_NoDup _ reads [])); [reflexivity|]. apply split_pairs_spec. split; [exact H|]. split; [intros []|exact L]. Qed.
Lemma table_group_gen_missing name : lookup_last (load_table rc gc delim lines) name = None -> table_group_split_gen skip rc gc delim lines reads name = NA.
Proof. intros L. unfold table_group_split_gen. rewrite split_file_loaded.
  assert (X: lookup_last (split_pairs (load_table rc gc delim lines) reads []) name = None).
  { apply lookup_last_None. intros H. apply in_map_iff in H. destruct H as [[n g] [E H]]. cbn [fst] in E. subst n. apply split_pairs_spec in H.
    destruct H as [_ [_ C]]. congruence. }
  rewrite X. reflexivity. Qed.
End Table.
(* repaired code: clean read names (SAM), no condition on their first character *)
Theorem table_group_is_the_row_entry rc gc delim lines reads : (forall n, In n reads -> clean_name n = true) ->
  (forall n g, In n reads -> lookup_last (load_table rc gc delim lines) n = Some g -> safe_group g = true) ->
  forall name g, In name reads -> lookup_last (load_table rc gc delim lines) name = Some g -> table_group_split rc gc delim lines reads name = g.
Proof. intros A B. apply (table_group_gen_row false rc gc delim lines reads A B). Qed.
Theorem table_missing_row_is_NA rc gc delim lines reads : (forall n, In n reads -> clean_name n = true) ->
  (forall n g, In n reads -> lookup_last (load_table rc gc delim lines) n = Some g -> safe_group g = true) ->
  forall name, lookup_last (load_table rc gc delim lines) name = None -> table_group_split rc gc delim lines reads name = NA.
Proof. intros A B. apply (table_group_gen_missing false rc gc delim lines reads A B). Qed.
(* the code before the repair: additionally no read id of the chromosome starts with '#' *)
Theorem table_group_is_the_row_entry_unrepaired rc gc delim lines reads : (forall n, In n reads -> clean_name_unrepaired n = true) ->
  (forall n g, In n reads -> lookup_last (load_table rc gc delim lines) n = Some g -> safe_group g = true) ->
  forall name g, In name reads -> lookup_last (load_table rc gc delim lines) name = Some g -> table_group_split_unrepaired rc gc delim lines reads name = g.
Proof. intros A B. apply (table_group_gen_row true rc gc delim lines reads A B). Qed.

(* ---------------------------------------------------------------- witnesses *)
(* the split file read with the layout of the command line (read column 1, group column 0): the listed read falls into NA *)
Example table_group_user_layout_refuted :
  let lines := [[103; 49; 9; 114; 49]] in      (* "g1<TAB>r1" *)
  lookup_last (load_table 1 0 [9] lines) [114; 49] = Some [103; 49] /\ split_file 1 0 [9] lines [[114; 49]] = [[114; 49; 9; 103; 49]] /\
  table_group_split 1 0 [9] lines [[114; 49]] [114; 49] = [103; 49] /\ table_group_split_user_layout 1 0 [9] lines [[114; 49]] [114; 49] = NA.
Proof. vm_compute. repeat split; reflexivity. Qed.
(* Before the repair a read id that starts with '#' (allowed by SAM) listed in a table whose read column is not the first was lost: its line of the
   split file starts with '#' and was skipped as a comment. The hypothesis on the groups is needed: a group that ends in white space is trimmed (an empty group loses its row) *)
Example table_group_hash_read_id_refuted :
  let lines := [[103; 49; 9; 35; 114]] in      (* "g1<TAB>#r" *)
  lookup_last (load_table 1 0 [9] lines) [35; 114] = Some [103; 49] /\ table_group_split_unrepaired 1 0 [9] lines [[35; 114]] [35; 114] = NA /\
  table_group_split 1 0 [9] lines [[35; 114]] [35; 114] = [103; 49].
Proof. vm_compute. repeat split; reflexivity. Qed.
Example table_group_padded_group_refuted :
  let lines := [[114; 49; 44; 103; 49; 32; 44; 120]] in (* "r1,g1 ,x" with delimiter ',' *)
  lookup_last (load_table 0 1 [44] lines) [114; 49] = Some [103; 49; 32] /\ table_group_split 0 1 [44] lines [[114; 49]] [114; 49] = [103; 49].
Proof. vm_compute. split; reflexivity. Qed.
Example option_layout_examples :
  option_layout [102; 105; 108; 101; 58; 116] = Some ([116], O, 1%nat, [9]) /\                                  (* file:t *)
  option_layout [102; 105; 108; 101; 58; 116; 58; 50; 58; 48] = Some ([116], 2%nat, O, [9]) /\                  (* file:t:2:0 *)
  option_layout [102; 105; 108; 101; 58; 116; 58; 48; 58; 49; 58; 44] = Some ([116], O, 1%nat, [44]) /\         (* file:t:0:1:, *)
  option_layout [102; 105; 108; 101; 58; 116; 58; 120; 58; 49] = None.                                          (* file:t:x:1 -> ValueError *)
Proof. vm_compute. repeat split; reflexivity. Qed.
