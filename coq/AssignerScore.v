(* C01: LongReadAssigner.select_best_among_inconsistent - penalty scores are sums of float products compared with == and min, so the
   model uses primitive floats (bit-exact); used by the unit correspondence only (nothing in props/ depends on this file).
   The nucleotide-score tie-break (resolve_by_nucleotide_score) is applied afterwards by the code; the model stops before it. *)
From Coq Require Import ZArith NArith QArith List Bool Floats Uint63.
From IQ Require Import CorrSupport Intervals Junctions AssignerDefs.
From IQ.gen Require Import Tables Prims.
Import ListNotations. Open Scope Z_scope.

Record sev := mks { s_type : MES; s_iso : iv; s_read : iv; s_info : Z }.       (* MatchEvent with event_info *)

Definition zf (z:Z) : float := if z <? 0 then PrimFloat.opp (PrimFloat.of_uint63 (Uint63.of_Z (- z))) else PrimFloat.of_uint63 (Uint63.of_Z z).
(* a decimal literal of the source: the correctly rounded quotient is the double the Python parser produces *)
Definition qf (q:Q) : float := PrimFloat.div (zf (Qnum q)) (zf (Zpos (Qden q))).
Definition cost_f (t:MES) : option float := match MES_cost t with Some q => Some (qf q) | None => None end.

Definition is_in (t:MES) (l:list MES) : bool := existsb (MES_eqb t) l.
Definition has_absent (r:iv) : bool := (fst r =? absent) || (snd r =? absent).

(* number of introns an event stands for *)
Definition event_count (e:sev) : Z :=
  if negb (iv_eqb (s_iso e) undefined_region) && negb (has_absent (s_iso e)) && is_in (s_type e) [MES_exon_skipping_known; MES_exon_skipping_novel]
  then snd (s_iso e) - fst (s_iso e) + 1
  else if negb (iv_eqb (s_read e) undefined_region) && negb (has_absent (s_read e)) then
    let c := snd (s_read e) - fst (s_read e) + 1 in
    if is_in (s_type e) [MES_exon_gain_novel; MES_exon_gain_known; MES_mutually_exclusive_exons_novel; MES_mutually_exclusive_exons_known;
                         MES_exon_detach_known; MES_exon_detach_novel] then c - 1
    else if is_in (s_type e) [MES_intron_retention; MES_unspliced_intron_retention; MES_fake_micro_intron_retention;
                              MES_incomplete_intron_retention_left; MES_incomplete_intron_retention_right] then 1
    else c
  else 1.

(* isoform_assignment.elongation_cost *)
Definition elongation_cost (P:params) (len:Z) : option float :=
  match cost_f MES_exon_elongation_left, cost_f MES_major_exon_elongation_left with
  | Some mn, Some mx =>
    if len <=? p_minor_ext P then Some mn
    else if p_major_ext P <=? len then Some mx
    else Some (PrimFloat.add mn (PrimFloat.div (PrimFloat.mul (PrimFloat.sub mx mn) (zf (len - p_minor_ext P))) (zf (p_major_ext P - p_minor_ext P))))
  | _, _ => None
  end.

(* None = KeyError (an event type without a cost) *)
Definition event_penalty (P:params) (e:sev) : option float :=
  let c := if is_in (s_type e) [MES_major_exon_elongation_left; MES_major_exon_elongation_right; MES_exon_elongation_right; MES_exon_elongation_left]
           then (match cost_f (s_type e) with Some _ => elongation_cost P (s_info e) | None => None end) else cost_f (s_type e) in
  match c with Some c => Some (PrimFloat.mul c (zf (event_count e))) | None => None end.
Fixpoint penalty (P:params) (evs:list sev) (acc:float) : option float :=
  match evs with
  | [] => Some acc
  | e :: t => match event_penalty P e with Some p => penalty P t (PrimFloat.add acc p) | None => None end
  end.

Fixpoint scores (P:params) (ms:list (Z * list sev)) : option (list (Z * float)) :=
  match ms with
  | [] => Some []
  | (id, evs) :: t => match penalty P evs 0%float, scores P t with Some p, Some r => Some ((id, p) :: r) | _, _ => None end
  end.
(* min(..., key) keeps the first minimum *)
Definition min_score (l:list (Z * float)) : float :=
  match l with [] => 0%float | (_, p) :: t => fold_left (fun m x => if PrimFloat.ltb (snd x) m then snd x else m) t p end.
(* (best isoforms before the nucleotide tie-break, minimal penalty) *)
Definition select_best (P:params) (ms:list (Z * list sev)) : option (list Z * float) :=
  match scores P ms with
  | Some sc => let m := min_score sc in Some (map fst (filter (fun x => PrimFloat.eqb (snd x) m) sc), m)
  | None => None
  end.

(* exact rational penalty, for the specification *)
Definition event_penalty_q (P:params) (e:sev) : Q :=
  let c := match MES_cost (s_type e) with Some q => q | None => 0%Q end in
  let c := if is_in (s_type e) [MES_major_exon_elongation_left; MES_major_exon_elongation_right; MES_exon_elongation_right; MES_exon_elongation_left] then
             match MES_cost MES_exon_elongation_left, MES_cost MES_major_exon_elongation_left with
             | Some mn, Some mx => if s_info e <=? p_minor_ext P then mn else if p_major_ext P <=? s_info e then mx
                                   else (mn + (mx - mn) * inject_Z (s_info e - p_minor_ext P) / inject_Z (p_major_ext P - p_minor_ext P))%Q
             | _, _ => c end
           else c in
  (c * inject_Z (event_count e))%Q.
Definition penalty_q (P:params) (evs:list sev) : Q := fold_left (fun a e => (a + event_penalty_q P e)%Q) evs 0%Q.
(* every selected isoform has (up to 1e-9) the least exact penalty.  The converse (every isoform with the least exact penalty is
   selected) does NOT hold of the code: penalties are float sums compared with ==, so two isoforms with the same multiset of events
   in a different order, or 0.7 + 0.1 against 0.8, are not tied - select_complete records where that happens *)
Definition select_spec (P:params) (ms:list (Z * list sev)) (sel:list Z) : bool :=
  let eps := (1 # 1000000000)%Q in
  negb (length sel =? 0)%nat &&
  forallb (fun s => match find (fun m => fst m =? s) ms with
                    | Some m => forallb (fun c => Qle_bool (penalty_q P (snd m)) (penalty_q P (snd c) + eps)) ms
                    | None => false end) sel.
Definition select_complete (P:params) (ms:list (Z * list sev)) (sel:list Z) : bool :=
  let eps := (1 # 1000000000)%Q in
  forallb (fun c => existsb (Z.eqb (fst c)) sel || existsb (fun o => Qle_bool (penalty_q P (snd o) + eps) (penalty_q P (snd c))) ms) ms.
