(* py_index of gen/Loops.v (fixed support text of tools/translate_loops.py) at non-negative indices and at indices counted from the end *)
From Coq Require Import ZArith List Bool Lia ZifyBool.
From IQ.gen Require Import Prims Loops.
From IQ Require Import LoopsSupport.
Import ListNotations. Open Scope Z_scope.

Lemma py_index_nonneg {A} (l:list A) (i:nat) d : py_index l (Z.of_nat i) d = nth i l d.
Proof. unfold py_index. replace (Z.of_nat i <? 0) with false by lia. rewrite Nat2Z.id. reflexivity. Qed.
Lemma py_index_from_end {A} (l:list A) (i:nat) d : (i < length l)%nat -> py_index l (- Z.of_nat i - 1) d = nth i (rev l) d.
Proof. intros H. unfold py_index. replace (- Z.of_nat i - 1 <? 0) with true by lia.
  replace (Z.to_nat (Z.of_nat (length l) + (- Z.of_nat i - 1))) with (length l - 1 - i)%nat by lia. apply nth_rev_index, H. Qed.

