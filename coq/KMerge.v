From Coq Require Import ZArith List Bool Lia ZifyBool Permutation Sorted.
Import ListNotations. Open Scope Z_scope.

(* records are (start, end, payload id); files are lists sorted by (start, end) *)
Notation rec := (Z * Z * Z)%type.
Definition kle (a b:rec) : bool := let '(s1,e1,_) := a in let '(s2,e2,_) := b in (s1 <? s2) || ((s1 =? s2) && (e1 <=? e2)).
Definition kleP (a b:rec) : Prop := kle a b = true.

(* BAMOnlineMerger: repeatedly take the smallest head; ties between files go to the lower file index (first in the list) *)
Fixpoint min_head (fs:list (list rec)) : option rec :=
  match fs with
  | [] => None
  | []::t => min_head t
  | (h::_)::t => match min_head t with None => Some h | Some m => if kle h m then Some h else Some m end
  end.
(* remove the first occurrence of that head *)
Fixpoint pop (m:rec) (fs:list (list rec)) : list (list rec) :=
  match fs with
  | [] => []
  | []::t => [] :: pop m t
  | (h::r)::t => match min_head t with
                 | None => r :: t
                 | Some m' => if kle h m' then r :: t else (h::r) :: pop m t
                 end
  end.
Fixpoint merge (fuel:nat) (fs:list (list rec)) : list rec :=
  match fuel with O => [] | S n => match min_head fs with None => [] | Some m => m :: merge n (pop m fs) end end.
Definition total (fs:list (list rec)) : nat := length (concat fs).
Definition kmerge (fs:list (list rec)) : list rec := merge (total fs) fs.

Lemma min_head_none fs : min_head fs = None -> concat fs = [].
Proof. induction fs as [|f t IH]; [reflexivity|]. destruct f as [|h r]; simpl; [exact IH|]. destruct (min_head t) as [m'|]; [destruct (kle h m')|]; discriminate. Qed.

(* popping the minimum removes exactly that record: the multiset is preserved *)
Lemma pop_perm : forall fs m, min_head fs = Some m -> Permutation (concat fs) (m :: concat (pop m fs)).
Proof. induction fs as [|f t IH]; intros m H; [discriminate|]. destruct f as [|h r]; cbn [min_head pop concat app] in *.
  - apply IH, H.
  - destruct (min_head t) as [m'|] eqn:E.
    + destruct (kle h m') eqn:K; inversion H; subst.
      * cbn [concat]. apply Permutation_refl.
      * cbn [concat app]. specialize (IH m eq_refl).
        eapply perm_trans; [apply perm_skip, Permutation_app_head, IH|].
        eapply perm_trans; [apply perm_skip, Permutation_sym, Permutation_middle|]. apply perm_swap.
    + inversion H; subst. cbn [concat]. apply Permutation_refl. Qed.

Lemma pop_total fs m : min_head fs = Some m -> total fs = S (total (pop m fs)).
Proof. intros H. unfold total. rewrite (Permutation_length (pop_perm fs m H)). reflexivity. Qed.

(* the merged stream is a permutation of all records of all files: nothing lost, nothing duplicated *)
Theorem merge_perm : forall n fs, total fs = n -> Permutation (concat fs) (merge n fs).
Proof. induction n as [|n IH]; intros fs H.
  - unfold total in H. apply length_zero_iff_nil in H. rewrite H. simpl. constructor.
  - cbn [merge]. destruct (min_head fs) as [m|] eqn:E.
    + eapply perm_trans; [apply pop_perm, E|]. apply perm_skip, IH. rewrite (pop_total fs m E) in H. lia.
    + apply min_head_none in E. unfold total in H. rewrite E in H. discriminate. Qed.
Corollary kmerge_perm fs : Permutation (concat fs) (kmerge fs). Proof. apply merge_perm. reflexivity. Qed.

(* sortedness: the head taken is a lower bound of everything left, given each file is sorted *)
Lemma kle_trans a b c : kleP a b -> kleP b c -> kleP a c.
Proof. unfold kleP, kle. destruct a as [[s1 e1] p1], b as [[s2 e2] p2], c as [[s3 e3] p3]. lia. Qed.
Lemma kle_total a b : kle a b = false -> kleP b a.
Proof. unfold kleP, kle. destruct a as [[s1 e1] p1], b as [[s2 e2] p2]. lia. Qed.
Lemma kle_refl a : kleP a a. Proof. unfold kleP, kle. destruct a as [[s e] p]. lia. Qed.

Definition all_sorted (fs:list (list rec)) := Forall (fun f => StronglySorted kleP f) fs.
Lemma min_head_lower : forall fs m, all_sorted fs -> min_head fs = Some m -> Forall (kleP m) (concat fs).
Proof. induction fs as [|f t IH]; intros m S H; [discriminate|]. inversion S; subst. destruct f as [|h r]; cbn [min_head concat app] in *.
  - apply IH; assumption.
  - assert (Hr: Forall (kleP h) r) by (inversion H2; assumption).
    destruct (min_head t) as [m'|] eqn:E.
    + specialize (IH m' H3 eq_refl). destruct (kle h m') eqn:K; inversion H; subst.
      * constructor; [apply kle_refl|]. apply Forall_app. split; [exact Hr|]. eapply Forall_impl; [|exact IH]. intros x Hx. eapply kle_trans; eauto.
      * apply kle_total in K. constructor; [exact K|]. apply Forall_app. split; [|exact IH].
        eapply Forall_impl; [|exact Hr]. intros x Hx. eapply kle_trans; eauto.
    + inversion H; subst. apply min_head_none in E. rewrite E, app_nil_r. constructor; [apply kle_refl|exact Hr]. Qed.
Lemma pop_sorted : forall fs m, all_sorted fs -> all_sorted (pop m fs).
Proof. induction fs as [|f t IH]; intros m S; [constructor|]. inversion S; subst. destruct f as [|h r]; cbn [pop].
  - constructor; [constructor|apply IH, H2].
  - destruct (min_head t) as [m'|]; [destruct (kle h m')|]; try (constructor; [inversion H1; assumption|assumption]).
    constructor; [assumption|apply IH, H2]. Qed.

Theorem merge_sorted : forall n fs, total fs = n -> all_sorted fs -> StronglySorted kleP (merge n fs).
Proof. induction n as [|n IH]; intros fs Hn S; [constructor|]. cbn [merge]. destruct (min_head fs) as [m|] eqn:E; [|constructor].
  assert (Hn': total (pop m fs) = n) by (rewrite (pop_total fs m E) in Hn; lia).
  constructor; [apply IH; [exact Hn'|apply pop_sorted, S]|].
  pose proof (min_head_lower fs m S E) as L. pose proof (pop_perm fs m E) as P.
  apply Forall_forall. intros x Hx. rewrite Forall_forall in L. apply L.
  eapply Permutation_in; [apply Permutation_sym, P|]. right.
  eapply Permutation_in; [apply Permutation_sym, merge_perm, Hn'|exact Hx]. Qed.
Corollary kmerge_sorted fs : all_sorted fs -> StronglySorted kleP (kmerge fs). Proof. apply merge_sorted. reflexivity. Qed.
Print Assumptions kmerge_perm.
Print Assumptions kmerge_sorted.
