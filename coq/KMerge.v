(* C12 — the same alignments as one BAM or split over several BAM files of one experiment.

   Anchors: src/alignment_processor.py  make_alignment_tuple / BAMOnlineMerger._set / BAMOnlineMerger.get
            (queue.PriorityQueue of tuples (reference_start, reference_end, bam_index, alignment), one head per file:
             a tie on (start, end) is decided by the file index, the alignment object itself is never compared),
            AlignmentCollector.process (model `process` of Regions.v: clustering by overlap with the running hull).

   Records are (reference_start, reference_end, id) as in Regions.v; a file is a list of records in file order.
   `kmerge` = repeatedly take the smallest head by (start, end), the lowest file index among equals — what a priority
   queue keyed (start, end, index) with one entry per non-exhausted file yields.  The queue itself (heapq) is a library
   structure and is tied to this description by the correspondence on the real BAMOnlineMerger (harness/props/c12.py). *)
From Coq Require Import ZArith List Bool Lia ZifyBool Permutation Sorted Relation_Operators.
From IQ.gen Require Import Prims.
From IQ Require Import Regions.
Import ListNotations. Open Scope Z_scope.

Notation rec := (Z * Z * Z)%type.
Definition kle (a b : rec) : bool := let '(s1, e1, _) := a in let '(s2, e2, _) := b in (s1 <? s2) || ((s1 =? s2) && (e1 <=? e2)).
Definition kleP (a b : rec) : Prop := kle a b = true.
Definition key (a : rec) : Z * Z := (rs a, re a).

(* ================================================================== 1. the merge *)
Fixpoint min_head (fs : list (list rec)) : option rec :=
  match fs with
  | [] => None
  | [] :: t => min_head t
  | (h :: _) :: t => match min_head t with None => Some h | Some m => if kle h m then Some h else Some m end
  end.
(* remove that head from the file it came from (the first file whose head it is, scanning as min_head does) *)
Fixpoint pop (m : rec) (fs : list (list rec)) : list (list rec) :=
  match fs with
  | [] => []
  | [] :: t => [] :: pop m t
  | (h :: r) :: t => match min_head t with
                     | None => r :: t
                     | Some m' => if kle h m' then r :: t else (h :: r) :: pop m t
                     end
  end.
Fixpoint merge (fuel : nat) (fs : list (list rec)) : list rec :=
  match fuel with O => [] | S n => match min_head fs with None => [] | Some m => m :: merge n (pop m fs) end end.
Definition total (fs : list (list rec)) : nat := length (concat fs).
Definition kmerge (fs : list (list rec)) : list rec := merge (total fs) fs.

Lemma min_head_none fs : min_head fs = None -> concat fs = [].
Proof. induction fs as [|f t IH]; [reflexivity|]. destruct f as [|h r]; simpl; [exact IH|]. destruct (min_head t) as [m'|]; [destruct (kle h m')|]; discriminate. Qed.

Lemma pop_perm : forall fs m, min_head fs = Some m -> Permutation (concat fs) (m :: concat (pop m fs)).
Proof. induction fs as [|f t IH]; intros m H; [discriminate|]. destruct f as [|h r]; cbn [min_head pop concat app] in *.
  - apply IH, H.
  - destruct (min_head t) as [m'|] eqn:E.
    + destruct (kle h m') eqn:K; inversion H; subst.
      * cbn [concat]. apply Permutation_refl.
      * cbn [concat app]. specialize (IH m eq_refl).
        eapply perm_trans; [apply perm_skip, Permutation_app_head, IH|].
        eapply perm_trans; [apply perm_skip, Permutation_sym, Permutation_middle|]. apply perm_swap.
    + inversion H; subst. cbn [concat]. apply Permutation_refl. Qed.

Lemma pop_total fs m : min_head fs = Some m -> total fs = S (total (pop m fs)).
Proof. intros H. unfold total. rewrite (Permutation_length (pop_perm fs m H)). reflexivity. Qed.

(* nothing lost, nothing duplicated *)
Theorem merge_perm : forall n fs, total fs = n -> Permutation (concat fs) (merge n fs).
Proof. induction n as [|n IH]; intros fs H.
  - unfold total in H. apply length_zero_iff_nil in H. rewrite H. simpl. constructor.
  - cbn [merge]. destruct (min_head fs) as [m|] eqn:E.
    + eapply perm_trans; [apply pop_perm, E|]. apply perm_skip, IH. rewrite (pop_total fs m E) in H. lia.
    + apply min_head_none in E. unfold total in H. rewrite E in H. discriminate. Qed.
Corollary kmerge_perm fs : Permutation (concat fs) (kmerge fs). Proof. apply merge_perm. reflexivity. Qed.

Lemma kle_trans a b c : kleP a b -> kleP b c -> kleP a c.
Proof. unfold kleP, kle. destruct a as [[s1 e1] p1], b as [[s2 e2] p2], c as [[s3 e3] p3]. lia. Qed.
Lemma kle_total a b : kle a b = false -> kleP b a.
Proof. unfold kleP, kle. destruct a as [[s1 e1] p1], b as [[s2 e2] p2]. lia. Qed.
Lemma kle_refl a : kleP a a. Proof. unfold kleP, kle. destruct a as [[s e] p]. lia. Qed.
Lemma kle_antisym a b : kleP a b -> kleP b a -> key a = key b.
Proof. unfold kleP, kle, key, rs, re. destruct a as [[s1 e1] p1], b as [[s2 e2] p2]. cbn. intros H1 H2. f_equal; lia. Qed.
Lemma key_kle a b : key a = key b -> kleP a b.
Proof. unfold kleP, kle, key, rs, re. destruct a as [[s1 e1] p1], b as [[s2 e2] p2]. cbn. intro H. inversion H. lia. Qed.

Definition all_sorted (fs : list (list rec)) := Forall (fun f => StronglySorted kleP f) fs.
Lemma min_head_lower : forall fs m, all_sorted fs -> min_head fs = Some m -> Forall (kleP m) (concat fs).
Proof. induction fs as [|f t IH]; intros m S H; [discriminate|]. inversion S; subst. destruct f as [|h r]; cbn [min_head concat app] in *.
  - apply IH; assumption.
  - assert (Hr: Forall (kleP h) r) by (inversion H2; assumption).
    destruct (min_head t) as [m'|] eqn:E.
    + specialize (IH m' H3 eq_refl). destruct (kle h m') eqn:K; inversion H; subst.
      * constructor; [apply kle_refl|]. apply Forall_app. split; [exact Hr|]. eapply Forall_impl; [|exact IH]. intros x Hx. eapply kle_trans; eauto.
      * apply kle_total in K. constructor; [exact K|]. apply Forall_app. split; [|exact IH].
        eapply Forall_impl; [|exact Hr]. intros x Hx. eapply kle_trans; eauto.
    + inversion H; subst. apply min_head_none in E. rewrite E, app_nil_r. constructor; [apply kle_refl|exact Hr]. Qed.
Lemma pop_sorted : forall fs m, all_sorted fs -> all_sorted (pop m fs).
Proof. induction fs as [|f t IH]; intros m S; [constructor|]. inversion S; subst. destruct f as [|h r]; cbn [pop].
  - constructor; [constructor|apply IH, H2].
  - destruct (min_head t) as [m'|]; [destruct (kle h m')|]; try (constructor; [inversion H1; assumption|assumption]).
    constructor; [assumption|apply IH, H2]. Qed.

Theorem merge_sorted : forall n fs, total fs = n -> all_sorted fs -> StronglySorted kleP (merge n fs).
Proof. induction n as [|n IH]; intros fs Hn S; [constructor|]. cbn [merge]. destruct (min_head fs) as [m|] eqn:E; [|constructor].
  assert (Hn': total (pop m fs) = n) by (rewrite (pop_total fs m E) in Hn; lia).
  constructor; [apply IH; [exact Hn'|apply pop_sorted, S]|].
  pose proof (min_head_lower fs m S E) as L. pose proof (pop_perm fs m E) as P.
  apply Forall_forall. intros x Hx. rewrite Forall_forall in L. apply L.
  eapply Permutation_in; [apply Permutation_sym, P|]. right.
  eapply Permutation_in; [apply Permutation_sym, merge_perm, Hn'|exact Hx]. Qed.
Corollary kmerge_sorted fs : all_sorted fs -> StronglySorted kleP (kmerge fs). Proof. apply merge_sorted. reflexivity. Qed.

(* A coordinate-sorted BAM is sorted by reference_start only: records with one start come in any order of their ends.
   So two notions of order are kept: by start (`sleP`, what the files guarantee) and by (start, end) (`kleP`). *)
Definition sleP (a b : rec) : Prop := rs a <= rs b.
Definition all_sorted_s (fs : list (list rec)) := Forall (fun f => StronglySorted sleP f) fs.
Lemma kle_sle a b : kleP a b -> sleP a b.
Proof. unfold kleP, kle, sleP, rs. destruct a as [[s1 e1] p1], b as [[s2 e2] p2]. cbn. lia. Qed.

Lemma min_head_lower_s : forall fs m, all_sorted_s fs -> min_head fs = Some m -> Forall (sleP m) (concat fs).
Proof. induction fs as [|f t IH]; intros m S H; [discriminate|]. inversion S; subst. destruct f as [|h r]; cbn [min_head concat app] in *.
  - apply IH; assumption.
  - assert (Hr: Forall (sleP h) r) by (inversion H2; assumption).
    destruct (min_head t) as [m'|] eqn:E.
    + specialize (IH m' H3 eq_refl). destruct (kle h m') eqn:K; inversion H; subst.
      * apply kle_sle in K. constructor; [unfold sleP; lia|]. apply Forall_app. split; [exact Hr|]. eapply Forall_impl; [|exact IH]. unfold sleP in *. intros x Hx. lia.
      * apply kle_total, kle_sle in K. constructor; [exact K|]. apply Forall_app. split; [|exact IH].
        eapply Forall_impl; [|exact Hr]. unfold sleP in *. intros x Hx. lia.
    + inversion H; subst. apply min_head_none in E. rewrite E, app_nil_r. constructor; [unfold sleP; lia|exact Hr]. Qed.
Lemma pop_sorted_s : forall fs m, all_sorted_s fs -> all_sorted_s (pop m fs).
Proof. induction fs as [|f t IH]; intros m S; [constructor|]. inversion S; subst. destruct f as [|h r]; cbn [pop].
  - constructor; [constructor|apply IH, H2].
  - destruct (min_head t) as [m'|]; [destruct (kle h m')|]; try (constructor; [inversion H1; assumption|assumption]).
    constructor; [assumption|apply IH, H2]. Qed.
Theorem merge_sorted_s : forall n fs, total fs = n -> all_sorted_s fs -> StronglySorted sleP (merge n fs).
Proof. induction n as [|n IH]; intros fs Hn S; [constructor|]. cbn [merge]. destruct (min_head fs) as [m|] eqn:E; [|constructor].
  assert (Hn': total (pop m fs) = n) by (rewrite (pop_total fs m E) in Hn; lia).
  constructor; [apply IH; [exact Hn'|apply pop_sorted_s, S]|].
  pose proof (min_head_lower_s fs m S E) as L. pose proof (pop_perm fs m E) as P.
  apply Forall_forall. intros x Hx. rewrite Forall_forall in L. apply L.
  eapply Permutation_in; [apply Permutation_sym, P|]. right.
  eapply Permutation_in; [apply Permutation_sym, merge_perm, Hn'|exact Hx]. Qed.
Corollary kmerge_sorted_s fs : all_sorted_s fs -> StronglySorted sleP (kmerge fs). Proof. apply merge_sorted_s. reflexivity. Qed.

(* ================================================================== 2. equal up to the order inside ties *)
Section Ties.
  Variable tie : rec -> rec -> Prop.          (* "same start" or "same (start, end)" *)
  Variable le : rec -> rec -> Prop.
  Hypothesis tie_sym : forall a b, tie a b -> tie b a.
  Hypothesis le_refl : forall a, le a a.
  Hypothesis le_antisym : forall a b, le a b -> le b a -> tie a b.

  (* one exchange of two tied neighbours *)
  Inductive tieswap : list rec -> list rec -> Prop :=
  | tieswap_here a b s : tie a b -> tieswap (a :: b :: s) (b :: a :: s)
  | tieswap_skip x l m : tieswap l m -> tieswap (x :: l) (x :: m).
  Definition tie_equiv : list rec -> list rec -> Prop := clos_refl_trans _ tieswap.

  Lemma tieswap_sym l m : tieswap l m -> tieswap m l.
  Proof. induction 1; [apply tieswap_here, tie_sym; assumption|apply tieswap_skip; assumption]. Qed.
  Lemma tie_equiv_sym l m : tie_equiv l m -> tie_equiv m l.
  Proof. induction 1; [apply rt_step, tieswap_sym; assumption|apply rt_refl|eapply rt_trans; eassumption]. Qed.
  Lemma tie_equiv_cons x l m : tie_equiv l m -> tie_equiv (x :: l) (x :: m).
  Proof. induction 1; [apply rt_step, tieswap_skip; assumption|apply rt_refl|eapply rt_trans; eassumption]. Qed.
  Lemma tieswap_perm l m : tieswap l m -> Permutation l m.
  Proof. induction 1; [apply perm_swap|apply perm_skip; assumption]. Qed.
  Lemma tie_equiv_perm l m : tie_equiv l m -> Permutation l m.
  Proof. induction 1; [apply tieswap_perm; assumption|apply Permutation_refl|eapply perm_trans; eassumption]. Qed.

  (* a record tied with everything before it can be moved to the front *)
  Lemma bubble a : forall m1 m2, Forall (fun x => tie x a) m1 -> tie_equiv (m1 ++ a :: m2) (a :: m1 ++ m2).
  Proof. induction m1 as [|x m1 IH]; intros m2 H; [apply rt_refl|]. inversion H; subst. cbn [app].
    eapply rt_trans; [apply tie_equiv_cons, IH; assumption|]. apply rt_step, tieswap_here. assumption. Qed.

  Lemma sorted_remove_middle : forall p (a : rec) s, StronglySorted le (p ++ a :: s) -> StronglySorted le (p ++ s).
  Proof. induction p as [|x p IH]; intros a s H; cbn [app] in *; inversion H; subst; [assumption|].
    constructor; [eapply IH; eassumption|]. apply Forall_app in H3. destruct H3 as [H3 H4]. inversion H4; subst. apply Forall_app. split; assumption. Qed.

  (* two sorted lists with the same records differ only inside ties *)
  Theorem sorted_perm_tie_equiv : forall l m, StronglySorted le l -> StronglySorted le m -> Permutation l m -> tie_equiv l m.
  Proof.
    induction l as [|a t IH]; intros m Sl Sm P.
    - apply Permutation_nil in P. subst. apply rt_refl.
    - assert (Ia: In a m) by (eapply Permutation_in; [exact P|left; reflexivity]).
      apply in_split in Ia. destruct Ia as (m1 & m2 & ->).
      inversion Sl; subst.
      assert (K1: Forall (fun x => tie x a) m1).
      { apply Forall_forall. intros x Hx.
        assert (Hxa: le x a).
        { clear - Sm Hx. induction m1 as [|y m1 IHm]; [contradiction|]. cbn [app] in Sm. inversion Sm; subst. destruct Hx as [->|Hx].
          - rewrite Forall_forall in H2. apply H2. apply in_or_app. right. left. reflexivity.
          - apply IHm; assumption. }
        assert (Hax: le a x).
        { assert (In x (a :: t)) by (eapply Permutation_in; [apply Permutation_sym, P|apply in_or_app; left; exact Hx]).
          destruct H as [->|H]; [apply le_refl|]. rewrite Forall_forall in H2. apply H2, H. }
        apply le_antisym; assumption. }
      apply tie_equiv_sym. eapply rt_trans; [apply bubble, K1|]. apply tie_equiv_cons, tie_equiv_sym, IH.
      + assumption.
      + eapply sorted_remove_middle; eassumption.
      + eapply Permutation_cons_app_inv; eassumption. Qed.
End Ties.

Definition same_start (a b : rec) : Prop := rs a = rs b.
Definition same_key (a b : rec) : Prop := key a = key b.
Notation tie_equiv_s := (tie_equiv same_start).      (* up to the order among records with one start *)
Notation tie_equiv_k := (tie_equiv same_key).        (* up to the order among records with one (start, end) *)

Lemma same_key_start a b : same_key a b -> same_start a b.
Proof. unfold same_key, same_start, key. intro H. inversion H. reflexivity. Qed.
Lemma tieswap_k_s l m : tieswap same_key l m -> tieswap same_start l m.
Proof. induction 1; [apply tieswap_here, same_key_start; assumption|apply tieswap_skip; assumption]. Qed.
Lemma tie_equiv_k_s l m : tie_equiv_k l m -> tie_equiv_s l m.
Proof. induction 1; [apply rt_step, tieswap_k_s; assumption|apply rt_refl|eapply rt_trans; eassumption]. Qed.
Lemma sle_antisym a b : sleP a b -> sleP b a -> same_start a b. Proof. unfold sleP, same_start. lia. Qed.
Lemma sle_refl a : sleP a a. Proof. unfold sleP. lia. Qed.
Lemma same_start_sym a b : same_start a b -> same_start b a. Proof. unfold same_start. auto. Qed.
Lemma same_key_sym a b : same_key a b -> same_key b a. Proof. unfold same_key. auto. Qed.

Lemma tieswap_starts l m : tieswap same_start l m -> map rs l = map rs m.
Proof. induction 1; cbn [map]; [rewrite H; reflexivity|rewrite IHtieswap; reflexivity]. Qed.
Lemma tie_equiv_starts l m : tie_equiv_s l m -> map rs l = map rs m.
Proof. induction 1; [apply tieswap_starts; assumption|reflexivity|congruence]. Qed.
Lemma tieswap_keys l m : tieswap same_key l m -> map key l = map key m.
Proof. induction 1; cbn [map]; [rewrite H; reflexivity|rewrite IHtieswap; reflexivity]. Qed.
Lemma tie_equiv_keys l m : tie_equiv_k l m -> map key l = map key m.
Proof. induction 1; [apply tieswap_keys; assumption|reflexivity|congruence]. Qed.

(* For ALL partitions of a record list into k files: if the list and the files are sorted by start (coordinate-sorted BAMs)
   the merged stream is a start-sorted permutation of the union, equal to the list up to the order among records with one
   start; if they are sorted by (start, end) it is sorted by (start, end) and equal up to the order inside (start, end) ties. *)
Theorem merge_is_sorted_permutation : forall l fs, Permutation l (concat fs) ->
  Permutation l (kmerge fs) /\
  (StronglySorted sleP l -> all_sorted_s fs ->
     StronglySorted sleP (kmerge fs) /\ tie_equiv_s l (kmerge fs) /\ map rs (kmerge fs) = map rs l) /\
  (StronglySorted kleP l -> all_sorted fs ->
     StronglySorted kleP (kmerge fs) /\ tie_equiv_k l (kmerge fs) /\ map key (kmerge fs) = map key l).
Proof. intros l fs P.
  assert (P2: Permutation l (kmerge fs)) by (eapply perm_trans; [exact P|apply kmerge_perm]).
  split; [exact P2|]. split.
  - intros Sl Sf. assert (S2: StronglySorted sleP (kmerge fs)) by (apply kmerge_sorted_s; exact Sf).
    assert (T: tie_equiv_s l (kmerge fs)) by (apply (sorted_perm_tie_equiv same_start sleP same_start_sym sle_refl sle_antisym); assumption).
    repeat split; try assumption. symmetry. apply tie_equiv_starts, T.
  - intros Sl Sf. assert (S2: StronglySorted kleP (kmerge fs)) by (apply kmerge_sorted; exact Sf).
    assert (T: tie_equiv_k l (kmerge fs)) by (apply (sorted_perm_tie_equiv same_key kleP same_key_sym kle_refl kle_antisym); assumption).
    repeat split; try assumption. symmetry. apply tie_equiv_keys, T. Qed.

(* ================================================================== 3. clustering does not depend on the order inside ties *)
Definition positive (a : rec) : Prop := rs a < re a.          (* an alignment covers at least one reference base *)
(* the hull's left end is not right of the records still to come (true along a start-sorted stream) *)
Definition lo_ok (h : option iv) (l : list rec) : Prop := forall r, h = Some r -> Forall (fun x => fst r <= rs x) l.

Lemma same_start_adjacent h a b : same_start a b -> positive a -> positive b -> lo_ok h [a] ->
  not_adjacent h a = not_adjacent h b.
Proof. unfold same_start, positive, lo_ok, not_adjacent, py_overlaps, span. intros K Pa Pb L. destruct h as [[lo hi]|]; [|reflexivity].
  specialize (L _ eq_refl). inversion L; subst. cbn [fst snd] in *. lia. Qed.
Lemma same_start_hull2 h a b : hull_add (Some (hull_add h a)) b = hull_add (Some (hull_add h b)) a.
Proof. unfold hull_add, span. destruct h as [[lo hi]|]; cbn [fst snd]; f_equal; lia. Qed.
(* a record overlaps any hull a record with the same start has just been added to *)
Lemma adjacent_after_add h a b : same_start a b -> positive a -> positive b -> not_adjacent (Some (hull_add h a)) b = false.
Proof. unfold same_start, positive, not_adjacent, hull_add, span, py_overlaps. intros K Pa Pb.
  destruct h as [[lo hi]|]; cbn [fst snd]; lia. Qed.

(* the storage content matters only as a multiset *)
Lemma process_aux_perm_cur : forall s cur1 cur2 h, Permutation cur1 cur2 ->
  Forall2 (@Permutation rec) (process_aux cur1 h s) (process_aux cur2 h s).
Proof. induction s as [|a t IH]; intros cur1 cur2 h P; cbn [process_aux].
  - destruct h; constructor; [|constructor]. eapply perm_trans; [apply Permutation_sym, Permutation_rev|]. eapply perm_trans; [exact P|apply Permutation_rev].
  - destruct (not_adjacent h a).
    + constructor; [eapply perm_trans; [apply Permutation_sym, Permutation_rev|]; eapply perm_trans; [exact P|apply Permutation_rev]|].
      apply IH. apply Permutation_refl.
    + apply IH. apply perm_skip, P. Qed.

Lemma Forall2_perm_refl (l : list (list rec)) : Forall2 (@Permutation rec) l l.
Proof. induction l; constructor; [apply Permutation_refl|assumption]. Qed.
Lemma Forall2_perm_trans (l m n : list (list rec)) : Forall2 (@Permutation rec) l m -> Forall2 (@Permutation rec) m n -> Forall2 (@Permutation rec) l n.
Proof. intro H. revert n. induction H; intros n H2; inversion H2; subst; constructor; [eapply perm_trans; eassumption|apply IHForall2; assumption]. Qed.

Lemma process_aux_tieswap : forall l m, tieswap same_start l m -> Forall positive l -> StronglySorted sleP l -> forall cur h, lo_ok h l ->
  Forall2 (@Permutation rec) (process_aux cur h l) (process_aux cur h m).
Proof. induction 1 as [a b s K|x l m T IH]; intros Pos Srt cur h LO.
  - inversion Pos as [|? ? Pa Pos']; subst. inversion Pos' as [|? ? Pb Pos'']; subst.
    assert (LOa: lo_ok h [a]) by (intros r Hr; specialize (LO r Hr); inversion LO; subst; constructor; [assumption|constructor]).
    cbn [process_aux]. rewrite <- (same_start_adjacent h a b K Pa Pb LOa).
    destruct (not_adjacent h a) eqn:NA.
    + (* a new cluster starts with a (resp. b); the other joins it *)
      rewrite (adjacent_after_add None a b K Pa Pb). rewrite (adjacent_after_add None b a (eq_sym K) Pb Pa).
      constructor; [apply Permutation_refl|].
      rewrite (same_start_hull2 None a b). apply process_aux_perm_cur. apply perm_swap.
    + rewrite (adjacent_after_add h a b K Pa Pb). rewrite (adjacent_after_add h b a (eq_sym K) Pb Pa).
      rewrite (same_start_hull2 h a b). apply process_aux_perm_cur. apply perm_swap.
  - inversion Pos; subst. inversion Srt as [|? ? Srt' Hx]; subst. cbn [process_aux].
    assert (LO1: lo_ok (Some (hull_add None x)) l).
    { intros r Hr. inversion Hr; subst. cbn [hull_add span fst]. eapply Forall_impl; [|exact Hx]. unfold sleP. intros y Hy. exact Hy. }
    assert (LO2: lo_ok (Some (hull_add h x)) l).
    { intros r Hr. inversion Hr; subst. destruct h as [[lo hi]|]; [|exact (LO1 _ eq_refl)].
      specialize (LO _ eq_refl). inversion LO as [|? ? Hhd Htl]; subst. cbn [hull_add fst snd] in *. eapply Forall_impl; [|exact Htl]. cbn. intros y Hy. lia. }
    destruct (not_adjacent h x).
    + constructor; [apply Permutation_refl|apply IH; assumption].
    + apply IH; assumption. Qed.

Lemma sorted_s_starts l m : map rs l = map rs m -> StronglySorted sleP l -> StronglySorted sleP m.
Proof. revert m. induction l as [|a t IH]; intros m E S; destruct m as [|b u]; try discriminate; [constructor|].
  cbn [map] in E. inversion E. inversion S; subst. constructor; [apply IH; assumption|].
  clear - H1 H4 H0. revert u H1. induction t as [|c t IHt]; intros u E; destruct u as [|d u]; try discriminate; constructor.
  - cbn [map] in E. inversion E. inversion H4; subst. unfold sleP in *. lia.
  - cbn [map] in E. inversion E. inversion H4; subst. apply IHt; assumption. Qed.

Lemma process_tie_equiv : forall l m, tie_equiv_s l m -> Forall positive l -> StronglySorted sleP l ->
  Forall2 (@Permutation rec) (process l) (process m).
Proof. induction 1 as [l m T| l |l m n T1 IH1 T2 IH2]; intros Pos Srt.
  - apply process_aux_tieswap; try assumption. intros r Hr; discriminate.
  - apply Forall2_perm_refl.
  - eapply Forall2_perm_trans; [apply IH1; assumption|apply IH2].
    + rewrite Forall_forall in *. intros x Hx. apply Pos. eapply Permutation_in; [apply Permutation_sym, (tie_equiv_perm _ _ _ T1)|exact Hx].
    + eapply sorted_s_starts; [apply tie_equiv_starts, T1|exact Srt]. Qed.

(* the clusters AlignmentCollector.process forms are the same multisets of alignments, cluster by cluster, whatever the
   order among records with one start (hence also whatever the order inside (start, end) ties) *)
Theorem clusters_invariant_under_tie_order : forall l m,
  StronglySorted sleP l -> StronglySorted sleP m -> Permutation l m -> Forall positive l ->
  Forall2 (@Permutation rec) (process l) (process m).
Proof. intros l m Sl Sm P Pos. apply process_tie_equiv; [|exact Pos|exact Sl].
  apply (sorted_perm_tie_equiv same_start sleP same_start_sym sle_refl sle_antisym); assumption. Qed.

(* one BAM or several: any two ways of distributing the same records over coordinate-sorted files give, cluster by
   cluster, the same multisets of alignments *)
Theorem split_over_files_same_clusters : forall fs1 fs2,
  all_sorted_s fs1 -> all_sorted_s fs2 -> Permutation (concat fs1) (concat fs2) -> Forall positive (concat fs1) ->
  Forall2 (@Permutation rec) (process (kmerge fs1)) (process (kmerge fs2)).
Proof. intros fs1 fs2 S1 S2 P Pos. apply clusters_invariant_under_tie_order.
  - apply kmerge_sorted_s, S1.
  - apply kmerge_sorted_s, S2.
  - eapply perm_trans; [apply Permutation_sym, kmerge_perm|]. eapply perm_trans; [exact P|apply kmerge_perm].
  - rewrite Forall_forall in *. intros x Hx. apply Pos. eapply Permutation_in; [apply Permutation_sym, kmerge_perm|exact Hx]. Qed.

(* without the hypothesis that every alignment covers a base the statement fails: two zero-length records at one position
   do not "overlap" each other, so the cut falls between them and the clusters depend on which comes first *)
Example clusters_need_positive_length_refuted :
  process [(5, 5, 1); (5, 5, 2)] = [[(5, 5, 1)]; [(5, 5, 2)]] /\ process [(5, 5, 2); (5, 5, 1)] = [[(5, 5, 2)]; [(5, 5, 1)]].
Proof. vm_compute. split; reflexivity. Qed.

(* ---------- decidable comparisons for the correspondence (harness/props/c12.py) *)
Definition rec_eqb (a b : rec) : bool := (rs a =? rs b) && (re a =? re b) && (snd a =? snd b).
Fixpoint list_eqb_rec (x y : list rec) : bool := match x, y with [], [] => true | a :: s, b :: t => rec_eqb a b && list_eqb_rec s t | _, _ => false end.
Fixpoint sortedb (l : list rec) : bool := match l with a :: ((b :: _) as t) => (rs a <=? rs b) && sortedb t | _ => true end.
(* (files, what the real merger yielded) *)
Definition merge_check (c : list (list rec) * list rec) : bool := list_eqb_rec (kmerge (fst c)) (snd c).
Fixpoint remove1 (a : rec) (l : list rec) : option (list rec) :=
  match l with [] => None | b :: t => if rec_eqb a b then Some t else match remove1 a t with Some t' => Some (b :: t') | None => None end end.
Fixpoint permb (l m : list rec) : bool := match l with [] => match m with [] => true | _ => false end | a :: t => match remove1 a m with Some m' => permb t m' | None => false end end.
Definition merge_prop (c : list (list rec) * list rec) : bool := sortedb (snd c) && permb (concat (fst c)) (snd c).
