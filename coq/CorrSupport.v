(* Support definitions for the generated correspondence files (cases_k.v). *)
From Coq Require Export ZArith NArith List Bool.
Export ListNotations.

Inductive result := Result (mismatch : list nat) (violation : list nat).

Fixpoint find_idx {A} (f : A -> bool) (l : list A) (i : nat) : list nat :=
  match l with [] => [] | x :: t => (if f x then [i] else []) ++ find_idx f t (Datatypes.S i) end.

Definition iv_eqb (a b : Z * Z) : bool := (fst a =? fst b)%Z && (snd a =? snd b)%Z.
Fixpoint list_eqb {A} (e : A -> A -> bool) (x y : list A) : bool :=
  match x, y with [], [] => true | a :: s, b :: t => e a b && list_eqb e s t | _, _ => false end.
Definition opt_eqb {A} (e : A -> A -> bool) (x y : option A) : bool :=
  match x, y with None, None => true | Some a, Some b => e a b | _, _ => false end.
Definition pair_eqb {A B} (ea : A -> A -> bool) (eb : B -> B -> bool) (x y : A * B) : bool :=
  ea (fst x) (fst y) && eb (snd x) (snd y).
Definition ivs_eqb := list_eqb iv_eqb.
Definition zs_eqb := list_eqb Z.eqb.
Definition ns_eqb := list_eqb N.eqb.
Definition nats_eqb := list_eqb Nat.eqb.

(* outcome of running the implementation: a value or an exception class *)
Inductive outcome (A : Type) := Ok (a : A) | Raises (kind : N).
Arguments Ok {A}. Arguments Raises {A}.
Definition outcome_eqb {A} (e : A -> A -> bool) (x y : outcome A) : bool :=
  match x, y with Ok a, Ok b => e a b | Raises k, Raises k' => N.eqb k k' | _, _ => false end.
