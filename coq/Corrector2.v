(* C14: lemmas and theorems about the corrector models of Corrector.v *)
From Coq Require Import ZArith NArith List Bool Lia ZifyBool.
From IQ Require Import CorrSupport Exons Corrector.
From IQ.gen Require Import Tables Prims.
Import ListNotations. Open Scope Z_scope.

(* ---------------------------------------------------------------- reflection of the decidable predicates *)
Lemma mono_b_spec l : mono_b l = true <-> mono l.
Proof. induction l as [|a t IH]; [simpl; tauto|]. cbn [mono_b mono]. rewrite !andb_true_iff, IH.
  destruct t as [|b t']; [intuition lia|]. intuition lia. Qed.
Lemma sd_b_spec l : sd_b l = true <-> sd l.
Proof. induction l as [|a t IH]; [simpl; tauto|]. cbn [sd_b sd]. rewrite !andb_true_iff, IH.
  destruct t as [|b t']; [intuition lia|]. intuition lia. Qed.
Lemma sdg_b_sd l : sdg_b l = true -> sd l.
Proof. induction l as [|a t IH]; [simpl; tauto|]. cbn [sdg_b sd]. rewrite !andb_true_iff.
  destruct t as [|b t']; [intuition lia|]. intros ((H1 & H2) & H3). specialize (IH H3). intuition lia. Qed.
Lemma forallb_Forall {A} (f:A -> bool) l : forallb f l = true <-> Forall (fun x => f x = true) l.
Proof. rewrite forallb_forall, Forall_forall. tauto. Qed.

(* ---------------------------------------------------------------- build_exons = get_exons when the introns are inside the region *)
Lemma jfb_snoc (l:list iv) (d s:iv) : l <> [] ->
  jfb (l ++ [s]) = jfb l ++ (if snd (last l d) + 1 <? fst s then [(snd (last l d) + 1, fst s - 1)] else []).
Proof. induction l as [|a t IH]; [congruence|]. intros _. destruct t as [|b t'].
  - cbn [app jfb last]. now rewrite app_nil_r.
  - change ((a :: b :: t') ++ [s]) with (a :: (b :: t') ++ [s]).
    change (last (a :: b :: t') d) with (last (b :: t') d).
    assert (E: forall u, jfb (a :: (b :: t') ++ u) = (if snd a + 1 <? fst b then [(snd a + 1, fst b - 1)] else []) ++ jfb ((b :: t') ++ u)) by reflexivity.
    rewrite E, IH by discriminate. rewrite app_assoc. reflexivity. Qed.

Lemma last_In {A} (l:list A) d : l <> [] -> In (last l d) l.
Proof. induction l as [|a t IH]; [congruence|]. intros _. destruct t; [left; reflexivity|]. right. apply IH. discriminate. Qed.

Lemma build_exons_get_exons reg new : new <> [] ->
  Forall (fun x => fst reg < fst x /\ snd x < snd reg) new -> build_exons reg new = get_exons reg new.
Proof. intros Hne Hin. destruct new as [|f t]; [congruence|]. unfold build_exons, get_exons.
  change ((fst reg - 1, fst reg - 1) :: (f :: t) ++ [(snd reg + 1, snd reg + 1)])
    with ((fst reg - 1, fst reg - 1) :: f :: (t ++ [(snd reg + 1, snd reg + 1)])).
  assert (Hf: fst reg < fst f) by (inversion Hin; tauto).
  assert (E: forall u, jfb ((fst reg - 1, fst reg - 1) :: f :: u) =
             (if snd (fst reg - 1, fst reg - 1) + 1 <? fst f then [(snd (fst reg - 1, fst reg - 1) + 1, fst f - 1)] else []) ++ jfb (f :: u)) by reflexivity.
  rewrite E. cbn [snd]. replace (fst reg - 1 + 1) with (fst reg) by lia.
  destruct (fst reg <? fst f) eqn:C; [|lia]. cbn [app]. f_equal.
  change (f :: t ++ [(snd reg + 1, snd reg + 1)]) with ((f :: t) ++ [(snd reg + 1, snd reg + 1)]).
  rewrite (jfb_snoc (f :: t) f) by discriminate. cbn [fst].
  assert (Hl: snd (last (f :: t) f) < snd reg).
  { pose proof (last_In (f :: t) f ltac:(discriminate)) as HI. rewrite Forall_forall in Hin. apply Hin in HI. tauto. }
  destruct (snd (last (f :: t) f) + 1 <? snd reg + 1) eqn:C2; [|lia].
  replace (snd reg + 1 - 1) with (snd reg) by lia. reflexivity. Qed.

Lemma mono_starts l : mono l -> forall d, l <> [] -> Forall (fun x => fst (hd d l) <= fst x /\ fst x <= snd (last l d)) l.
Proof. induction l as [|a t IH]; intros Hm d Hne; [congruence|]. destruct t as [|b t'].
  - constructor; [|constructor]. simpl in *. lia.
  - assert (Hm': mono (b :: t')) by (simpl in Hm; simpl; tauto).
    specialize (IH Hm' d ltac:(discriminate)).
    assert (Hab: fst a <= fst b) by (simpl in Hm; tauto).
    assert (Ha: fst a <= snd a) by (simpl in Hm; tauto).
    change (last (a :: b :: t') d) with (last (b :: t') d). cbn [hd] in *.
    constructor.
    + split; [lia|]. inversion IH; subst. lia.
    + eapply Forall_impl; [|exact IH]. simpl. intros; lia. Qed.

(* the exons the corrector builds from start-ordered introns strictly inside the corrected region are well-formed *)
Theorem build_exons_sd reg new : mono new -> Forall (fun x => fst reg < fst x /\ snd x < snd reg) new -> fst reg <= snd reg ->
  sd (build_exons reg new).
Proof. intros Hm Hin Hr. destruct new as [|f t] eqn:En.
  - simpl. lia.
  - rewrite <- En in *. assert (Hne: new <> []) by (rewrite En; discriminate).
    rewrite build_exons_get_exons by assumption. apply get_exons_wf; [exact Hm| |lia].
    pose proof (mono_starts new Hm f Hne) as Hs.
    pose proof (last_In new f Hne) as HI. rewrite Forall_forall in Hin, Hs |- *.
    intros x Hx. specialize (Hs x Hx). pose proof (Hin x Hx). pose proof (Hin _ HI). lia. Qed.

Lemma build_exons_ends reg new : fst (hd (0,0) (build_exons reg new)) = fst reg /\ snd (last (build_exons reg new) (0,0)) = snd reg /\ build_exons reg new <> [].
Proof. unfold build_exons. destruct new as [|f t]; [simpl; repeat split; discriminate|].
  split; [reflexivity|]. split; [|discriminate].
  change (last ((fst reg, fst f - 1) :: jfb (f :: t) ++ [(snd (last (f :: t) f) + 1, snd reg)]) (0,0))
    with (last (((fst reg, fst f - 1) :: jfb (f :: t)) ++ [(snd (last (f :: t) f) + 1, snd reg)]) (0,0)).
  rewrite last_last. reflexivity. Qed.

(* ---------------------------------------------------------------- corrected_exons_wf *)
(* for both variants of the code (before / after the repairs of process_events) *)
Theorem corrected_exons_wf_v vr fl c ex : events_wf_v vr fl c = true -> correct_assigned_read_v vr fl c = Ok ex -> sd ex.
Proof. unfold events_wf_v, correct_assigned_read_v, process_events_v. rewrite !andb_true_iff. intros ((Hsd & _) & H) Hc.
  destruct (early_return c).
  - inversion Hc; subst. now apply sdg_b_sd.
  - cbn [orb] in H. destruct (c_blocks_v vr fl c) as [bs|k]; [|discriminate]. inversion Hc; subst. clear Hc.
    cbv zeta in H. rewrite !andb_true_iff in H. destruct H as (((_ & Hm) & Hr) & Hin).
    apply build_exons_sd; [now apply mono_b_spec| |lia].
    apply forallb_Forall in Hin. eapply Forall_impl; [|exact Hin]. unfold inside. intros; lia. Qed.
Theorem corrected_exons_wf fl c ex : events_wf fl c = true -> correct_assigned_read fl c = Ok ex -> sd ex.
Proof. exact (corrected_exons_wf_v repaired fl c ex). Qed.

Theorem events_wf_returns_v vr fl c : events_wf_v vr fl c = true -> exists ex, correct_assigned_read_v vr fl c = Ok ex.
Proof. unfold events_wf_v, correct_assigned_read_v, process_events_v. rewrite !andb_true_iff. intros (_ & H).
  destruct (early_return c); [eexists; reflexivity|]. cbn [orb] in H.
  destruct (c_blocks_v vr fl c); [eexists; reflexivity|discriminate]. Qed.
Theorem events_wf_returns fl c : events_wf fl c = true -> exists ex, correct_assigned_read fl c = Ok ex.
Proof. exact (events_wf_returns_v repaired fl c). Qed.

(* ---------------------------------------------------------------- Python list access *)
Lemma py_nth_In {A} (l:list A) i x : py_nth l i = Some x -> In x l.
Proof. unfold py_nth. destruct (_ && _); [apply nth_error_In|]. destruct (_ && _); [apply nth_error_In|discriminate]. Qed.
Lemma all_some_In {A B} (f:A -> option B) xs r : all_some (map f xs) = Some r -> Forall (fun y => exists x, f x = Some y) r.
Proof. revert r; induction xs as [|x xs IH]; intros r H; simpl in H.
  - inversion H; constructor.
  - destruct (f x) eqn:E; [|discriminate]. destruct (all_some (map f xs)) eqn:E2; [|discriminate].
    inversion H; subst. constructor; [eauto|apply IH; reflexivity]. Qed.
Lemma py_slice_In {A} (l:list A) a b r : py_slice l a b = Some r -> Forall (fun y => In y l) r.
Proof. unfold py_slice. destruct (_ <? _); [discriminate|]. intros H. apply all_some_In in H.
  eapply Forall_impl; [|exact H]. intros y [k Hk]. eapply py_nth_In; eauto. Qed.

(* ---------------------------------------------------------------- the event map *)
Definition entry_ok (fl:flags) (evs:list event) (p:Z*event) : Prop :=
  In (snd p) evs /\
  ((fst p = fst (e_read (snd p)) /\ fst (e_read (snd p)) <> absent_position) \/
   (fst p = - snd (e_read (snd p)) - 1 /\ fst (e_read (snd p)) = absent_position /\ f_microintron fl = true)).
Lemma build_map_entries fl evs : Forall (entry_ok fl evs) (build_map fl evs).
Proof. unfold build_map.
  assert (G: forall evs0 m, Forall (entry_ok fl evs) m -> incl evs0 evs ->
             Forall (entry_ok fl evs) (fold_left (fun m e =>
               if iv_eqb (e_read e) (undefined_position, undefined_position) then m
               else if fst (e_read e) =? absent_position then
                 (if is_type e MES_fake_micro_intron_retention && f_microintron fl then (- snd (e_read e) - 1, e) :: m else m)
               else (fst (e_read e), e) :: m) evs0 m)).
  { induction evs0 as [|e t IH]; intros m Hm Hi; [exact Hm|]. cbn [fold_left]. apply IH; [|intros x Hx; apply Hi; right; exact Hx].
    assert (He: In e evs) by (apply Hi; left; reflexivity).
    destruct (iv_eqb _ _); [exact Hm|]. destruct (fst (e_read e) =? absent_position) eqn:Ea.
    - destruct (is_type e MES_fake_micro_intron_retention && f_microintron fl) eqn:Ef; [|exact Hm].
      constructor; [|exact Hm]. split; [exact He|]. right. cbn [fst snd]. apply andb_true_iff in Ef. repeat split; [lia|tauto].
    - constructor; [|exact Hm]. split; [exact He|]. left. cbn [fst snd]. split; [reflexivity|lia]. }
  apply G; [constructor|apply incl_refl]. Qed.
Lemma lookup_In m k e : lookup m k = Some e -> In (k, e) m.
Proof. unfold lookup. destruct (find _ m) as [p|] eqn:F; [|discriminate]. intros H; inversion H; subst.
  apply find_some in F. destruct F as (Hin & Hk). destruct p as (k', e'). cbn [fst snd] in *. replace k with k' by lia. exact Hin. Qed.

Lemma lookup_entry fl evs k e : lookup (build_map fl evs) k = Some e -> entry_ok fl evs (k, e).
Proof. intros H. apply lookup_In in H. pose proof (build_map_entries fl evs) as F. rewrite Forall_forall in F. exact (F _ H). Qed.

Lemma regions_ordered_In evs e : regions_ordered evs = true -> In e evs ->
  (fst (e_read e) = absent_position /\ 0 <= snd (e_read e)) \/ (fst (e_read e) <> absent_position /\ 0 <= fst (e_read e) <= snd (e_read e)).
Proof. unfold regions_ordered. rewrite forallb_forall. intros H Hin. specialize (H e Hin).
  destruct (fst (e_read e) =? absent_position) eqn:E; [left|right]; lia. Qed.

(* ---------------------------------------------------------------- one loop iteration *)
Section StepFacts.
Variables (vr:variant) (fl:flags) (delta:Z) (rr:iv) (RI CI:list iv) (isoreg:iv) (II:list iv) (evs:list event).
Hypothesis Hord : regions_ordered evs = true.

Definition src_ok (x:iv) : Prop := In x RI \/ In x CI \/ (isoform_flags fl = true /\ In x II).
Definition upd_ok (u:regupd) : Prop :=
  match u with
  | NoUpd => True
  | SetStart _ => exists e, In e evs /\ left_terminal_enabled fl e = true
  | SetEnd _ => exists e, In e evs /\ right_terminal_enabled fl e = true
  | DropStart _ => exists e, In e evs /\ left_terminal_enabled fl e = true
  end.

Lemma step_facts_v i b : 0 <= i -> step_v vr fl delta rr RI CI isoreg II (build_map fl evs) i = Ok b ->
  b_i b = i /\ i < b_next b /\ Forall src_ok (b_all b) /\ upd_ok (b_upd b).
Proof. intros Hi. unfold step_v, opt_block, b_all.
  (* the fake-IR part *)
  assert (HF: forall fk, (match lookup (build_map fl evs) (- i - 1) with
                          | Some e => match py_nth II (fst (e_iso e)) with Some x => Ok [x] | None => Raises 1 end
                          | None => Ok [] end) = Ok fk -> Forall src_ok fk).
  { intros fk. destruct (lookup (build_map fl evs) (- i - 1)) as [e|] eqn:L; [|intros H; inversion H; constructor].
    apply lookup_entry in L. destruct L as (Hin & [(Hk & Hna)|(Hk & Ha & Hm)]); cbn [fst snd] in *.
    - destruct (regions_ordered_In evs e Hord Hin); lia.
    - destruct (py_nth II (fst (e_iso e))) eqn:P; [|discriminate]. intros H; inversion H; subst.
      constructor; [|constructor]. right; right. split; [unfold isoform_flags; rewrite Hm; now rewrite !orb_true_r|eapply py_nth_In; eauto]. }
  destruct (match lookup (build_map fl evs) (- i - 1) with
            | Some e => match py_nth II (fst (e_iso e)) with Some x => Ok [x] | None => Raises 1 end
            | None => Ok [] end) as [fk|] eqn:EF; [|discriminate]. specialize (HF fk eq_refl).
  destruct (lookup (build_map fl evs) i) as [e|] eqn:L.
  - apply lookup_entry in L. destruct L as (Hin & [(Hk & Hna)|(Hk & Ha & Hm)]); cbn [fst snd] in *;
      [|destruct (regions_ordered_In evs e Hord Hin); lia].
    destruct (regions_ordered_In evs e Hord Hin) as [?|(_ & Hab)]; [tauto|].
    assert (Hiso: forall x, In x II -> isoform_flags fl = true -> src_ok x) by (intros; right; right; tauto).
    destruct (is_type e MES_fake_terminal_exon_left && f_fake_terminal fl) eqn:B1.
    { destruct (negb _); [discriminate|]. destruct (py_nth RI _); [|discriminate].
      destruct (v_fake vr); intros H; inversion H; subst; cbn;
        (repeat split; [lia|first [constructor|rewrite app_nil_r; exact HF]|]); exists e; (split; [exact Hin|unfold left_terminal_enabled; rewrite B1; reflexivity]). }
    destruct (is_type e MES_fake_terminal_exon_right && f_fake_terminal fl) eqn:B2.
    { destruct (negb _); [discriminate|]. destruct (py_nth RI _); [|discriminate]. intros H; inversion H; subst; cbn.
      repeat split; [lia|rewrite app_nil_r; exact HF|]. exists e. split; [exact Hin|unfold right_terminal_enabled; rewrite B2; reflexivity]. }
    destruct (is_type e MES_terminal_exon_misalignment_left && f_terminal fl) eqn:B3.
    { destruct (py_nth II _) eqn:P; [|discriminate]. intros H; inversion H; subst; cbn.
      repeat split; [lia| |].
      - apply Forall_app; split; [exact HF|]. constructor; [|constructor]. apply Hiso; [eapply py_nth_In; eauto|].
        apply andb_true_iff in B3. unfold isoform_flags. destruct B3 as (_ & ->). now rewrite !orb_true_r.
      - exists e. split; [exact Hin|unfold left_terminal_enabled; rewrite B3; now rewrite orb_true_r]. }
    destruct (is_type e MES_terminal_exon_misalignment_right && f_terminal fl) eqn:B4.
    { destruct (py_nth II _) eqn:P; [|discriminate]. intros H; inversion H; subst; cbn.
      repeat split; [lia| |].
      - apply Forall_app; split; [exact HF|]. constructor; [|constructor]. apply Hiso; [eapply py_nth_In; eauto|].
        apply andb_true_iff in B4. unfold isoform_flags. destruct B4 as (_ & ->). now rewrite !orb_true_r.
      - exists e. split; [exact Hin|unfold right_terminal_enabled; rewrite B4; now rewrite orb_true_r]. }
    destruct (in_misalignment_set fl e) eqn:B5.
    { destruct (py_nth II (fst (e_iso e))); [|discriminate]. destruct (py_nth II (snd (e_iso e))); [|discriminate].
      assert (Hfl: isoform_flags fl = true).
      { unfold in_misalignment_set in B5. unfold isoform_flags. destruct (f_shifts fl); [reflexivity|]. destruct (f_skipped fl); [reflexivity|]. discriminate. }
      destruct (py_contains_well_inside _ _ _).
      - destruct (negb _); [discriminate|]. destruct (py_slice II _ _) eqn:P; [|discriminate]. intros H; inversion H; subst; cbn.
        repeat split; [lia|]. apply Forall_app; split; [exact HF|]. apply py_slice_In in P. eapply Forall_impl; [|exact P]. intros; now apply Hiso.
      - destruct (mes_mem _ _).
        + destruct (py_slice CI _ _) eqn:P; [|discriminate]. intros H; inversion H; subst; cbn.
          repeat split; [lia|]. apply Forall_app; split; [exact HF|]. apply py_slice_In in P. eapply Forall_impl; [|exact P]. intros; right; left; assumption.
        + destruct (py_slice RI _ _) eqn:P; [|discriminate]. intros H; inversion H; subst; cbn.
          repeat split; [lia|]. apply Forall_app; split; [exact HF|]. apply py_slice_In in P. eapply Forall_impl; [|exact P]. intros; left; assumption. }
    destruct (mes_mem _ _).
    + destruct (py_slice CI _ _) eqn:P; [|discriminate]. intros H; inversion H; subst; cbn.
      repeat split; [lia|]. apply Forall_app; split; [exact HF|]. apply py_slice_In in P. eapply Forall_impl; [|exact P]. intros; right; left; assumption.
    + destruct (py_slice RI _ _) eqn:P; [|discriminate]. intros H; inversion H; subst; cbn.
      repeat split; [lia|]. apply Forall_app; split; [exact HF|]. apply py_slice_In in P. eapply Forall_impl; [|exact P]. intros; left; assumption.
  - destruct (py_nth CI i) eqn:P; [|discriminate]. intros H; inversion H; subst; cbn.
    repeat split; [lia|]. apply Forall_app; split; [exact HF|]. constructor; [|constructor]. right; left. eapply py_nth_In; eauto.
Qed.

Lemma loop_facts_v fuel : forall i bs, 0 <= i -> loop_v vr fl delta rr RI CI isoreg II (build_map fl evs) fuel i = Ok bs ->
  Forall (fun b => Forall src_ok (b_all b) /\ upd_ok (b_upd b)) bs.
Proof. induction fuel as [|f IH]; intros i bs Hi; cbn [loop_v].
  - destruct (i <? _); [discriminate|]. intros H; inversion H; constructor.
  - destruct (i <? _); [|intros H; inversion H; constructor].
    destruct (step_v _ _ _ _ _ _ _ _ _ i) as [b|] eqn:S; [|discriminate].
    destruct (loop_v _ _ _ _ _ _ _ _ _ f (b_next b)) as [bs'|] eqn:L; [|discriminate]. intros H; inversion H; subst.
    pose proof (step_facts_v i b Hi S) as (_ & Hn & Hs & Hu). constructor; [tauto|]. apply (IH (b_next b)); [lia|exact L]. Qed.
End StepFacts.
(* the instances for the repaired code *)
Definition step_facts := step_facts_v repaired.
Definition loop_facts := loop_facts_v repaired.

(* ---------------------------------------------------------------- ends *)
Lemma final_region_start rr bs : fst (final_region rr bs) = fst rr \/ exists b z, In b bs /\ (b_upd b = SetStart z \/ b_upd b = DropStart z).
Proof. unfold final_region. revert rr. induction bs as [|b t IH]; intros rr; [left; reflexivity|]. cbn [fold_left].
  destruct (IH (apply_upd rr (b_upd b))) as [E|(b' & z & Hin & Hu)]; [|right; exists b', z; split; [right; exact Hin|exact Hu]].
  rewrite E. destruct (b_upd b) eqn:U; cbn;
    [left; reflexivity|right; exists b, z; split; [left; reflexivity|left; exact U]|left; reflexivity|right; exists b, z; split; [left; reflexivity|right; exact U]]. Qed.
Lemma final_region_end rr bs : snd (final_region rr bs) = snd rr \/ exists b z, In b bs /\ b_upd b = SetEnd z.
Proof. unfold final_region. revert rr. induction bs as [|b t IH]; intros rr; [left; reflexivity|]. cbn [fold_left].
  destruct (IH (apply_upd rr (b_upd b))) as [E|(b' & z & Hin & Hu)]; [|right; exists b', z; split; [right; exact Hin|exact Hu]].
  rewrite E. destruct (b_upd b) eqn:U; cbn; [left; reflexivity|left; reflexivity|right; exists b, z; split; [left; reflexivity|exact U]|left; reflexivity]. Qed.

Lemma c_blocks_facts_v vr fl c bs : regions_ordered (c_events c) = true -> c_blocks_v vr fl c = Ok bs ->
  Forall (fun b => Forall (src_ok fl (c_introns c) (corrected_introns_v vr fl c) (c_isointrons c)) (b_all b) /\ upd_ok fl (c_events c) (b_upd b)) bs.
Proof. unfold c_blocks_v, blocks_v. intros Ho H. eapply loop_facts_v; [exact Ho| |exact H]. lia. Qed.
Lemma c_blocks_facts fl c bs : regions_ordered (c_events c) = true -> c_blocks fl c = Ok bs ->
  Forall (fun b => Forall (src_ok fl (c_introns c) (corrected_introns fl c) (c_isointrons c)) (b_all b) /\ upd_ok fl (c_events c) (b_upd b)) bs.
Proof. exact (c_blocks_facts_v repaired fl c bs). Qed.

(* a corrected read keeps its start (end) unless an event of a left (right) terminal-exon kind is present and its correction is enabled *)
Theorem ends_preserved_unless_terminal_flag_v vr fl c ex : regions_ordered (c_events c) = true -> c_exons c <> [] ->
  correct_assigned_read_v vr fl c = Ok ex -> ends_ok fl c ex = true.
Proof. intros Ho Hne. unfold correct_assigned_read_v, process_events_v, ends_ok.
  destruct (early_return c) eqn:Ee.
  - intros H; inversion H; subst. unfold c_region, hull. rewrite !Z.eqb_refl. cbn [orb andb].
    destruct (c_exons c); [congruence|reflexivity].
  - destruct (c_blocks_v vr fl c) as [bs|] eqn:B; [|discriminate]. intros H; inversion H; subst. clear H.
    pose proof (build_exons_ends (final_region (c_region c) bs) (emitted bs)) as (E1 & E2 & E3). rewrite E1, E2.
    pose proof (c_blocks_facts_v vr fl c bs Ho B) as F. rewrite Forall_forall in F. cbn [negb andb].
    apply andb_true_iff; split; [apply andb_true_iff; split|].
    + destruct (build_exons _ _); [congruence|reflexivity].
    + destruct (final_region_start (c_region c) bs) as [E|(b & z & Hin & Hu)]; [rewrite E, Z.eqb_refl; reflexivity|].
      destruct (F b Hin) as (_ & Hup). assert (Hup': exists e, In e (c_events c) /\ left_terminal_enabled fl e = true) by (destruct Hu as [Hu|Hu]; rewrite Hu in Hup; exact Hup).
      destruct Hup' as (e & He & Hl).
      apply orb_true_iff; right. apply existsb_exists. exists e; tauto.
    + destruct (final_region_end (c_region c) bs) as [E|(b & z & Hin & Hu)]; [rewrite E, Z.eqb_refl; reflexivity|].
      destruct (F b Hin) as (_ & Hup). rewrite Hu in Hup. destruct Hup as (e & He & Hl).
      apply orb_true_iff; right. apply existsb_exists. exists e; tauto. Qed.
Theorem ends_preserved_unless_terminal_flag fl c ex : regions_ordered (c_events c) = true -> c_exons c <> [] ->
  correct_assigned_read fl c = Ok ex -> ends_ok fl c ex = true.
Proof. exact (ends_preserved_unless_terminal_flag_v repaired fl c ex). Qed.

(* ---------------------------------------------------------------- where selected introns come from *)
Definition matched_to (delta:Z) (known:list iv) (r k:iv) : Prop := In k known /\ py_equal_ranges r k delta = true.

Lemma sweep_nil_tail {A} (P:iv -> list A -> Prop) rs : (forall r, P r []) -> Forall2 P rs (map (fun _ => []) rs).
Proof. intros H. induction rs; constructor; auto. Qed.

Lemma mgf_sweep_spec delta known fuel : forall known' reads cur, incl known' known ->
  (forall r, hd_error reads = Some r -> Forall (matched_to delta known r) cur) ->
  Forall2 (fun r ms => Forall (matched_to delta known r) ms) reads (mgf_sweep fuel delta known' reads cur).
Proof. induction fuel as [|f IH]; intros known' reads cur Hi Hc.
  - destruct reads as [|r rs]; [constructor|]. cbn [mgf_sweep].
    assert (E: match known' with [] => rev cur :: map (fun _ => []) rs | _ :: _ => rev cur :: map (fun _ => []) rs end = rev cur :: map (fun _ => []) rs) by (destruct known'; reflexivity).
    rewrite E. constructor; [apply Forall_rev; apply Hc; reflexivity|apply sweep_nil_tail; constructor].
  - destruct reads as [|r rs]; [constructor|]. cbn [mgf_sweep]. destruct known' as [|k ks].
    + constructor; [apply Forall_rev; apply Hc; reflexivity|apply sweep_nil_tail; constructor].
    + assert (Hks: incl ks known) by (intros x Hx; apply Hi; right; exact Hx).
      destruct (py_equal_ranges r k delta) eqn:E1.
      * apply IH; [exact Hks|]. intros r' Hr'. inversion Hr'; subst. constructor; [split; [apply Hi; left; reflexivity|exact E1]|apply Hc; reflexivity].
      * destruct (py_overlaps r k); [apply IH; assumption|].
        destruct (py_left_of r k); [|apply IH; assumption].
        constructor; [apply Forall_rev; apply Hc; reflexivity|]. apply IH; [exact Hi|intros; constructor]. Qed.

Lemma best_match_In r ms k : best_match r ms = Some k -> In k ms.
Proof. unfold best_match. destruct ms as [|m t]; [discriminate|]. intros H. apply find_some in H. tauto. Qed.

Lemma choose_features_spec (P:iv -> iv -> Prop) reads : forall mss,
  Forall2 (fun r ms => Forall (P r) ms) reads mss -> Forall2 (fun r k => k = r \/ P r k) reads (choose_features reads mss).
Proof. induction reads as [|r rs IH]; intros mss H; [constructor|]. inversion H; subst. cbn [choose_features hd tl]. constructor; [|apply IH; assumption].
  destruct (best_match r y) as [k|] eqn:B; [|left; reflexivity]. right. apply best_match_In in B. rewrite Forall_forall in H2. auto. Qed.

Lemma potentials_spec delta known reads :
  Forall2 (fun r k => k = r \/ matched_to delta known r k) reads (match_genomic_features delta known reads).
Proof. unfold match_genomic_features. apply choose_features_spec. apply mgf_sweep_spec; [apply incl_refl|intros; constructor]. Qed.

Lemma fuzzy_unrepaired_In (P:iv -> iv -> Prop) reads pots : Forall2 P reads pots -> forall orc x, In x (fuzzy_unrepaired reads pots orc) ->
  exists r k, In r reads /\ P r k /\ (fst x = fst r \/ fst x = fst k) /\ (snd x = snd r \/ snd x = snd k).
Proof. induction 1 as [|r k rs ks Hrk H IH]; intros orc x Hx; [destruct Hx|]. cbn [fuzzy_unrepaired] in Hx. destruct Hx as [Hx|Hx].
  - exists r, k. split; [left; reflexivity|]. split; [exact Hrk|]. subst x. cbn [fst snd].
    split; [destruct (fst r =? fst k); [left; reflexivity|destruct (keep_read_site _); [left|right]; reflexivity]
           |destruct (snd r =? snd k); [left; reflexivity|destruct (keep_read_site _); [left|right]; reflexivity]].
  - destruct (IH _ _ Hx) as (r' & k' & Hin & HP & Hs). exists r', k'. split; [right; exact Hin|tauto]. Qed.
(* the repaired choice: the fallbacks only go back to the read's own sites *)
Lemma fuzzy_In (P:iv -> iv -> Prop) region reads pots : Forall2 P reads pots -> forall pe orc x, In x (fuzzy region pe reads pots orc) ->
  exists r k, In r reads /\ P r k /\ (fst x = fst r \/ fst x = fst k) /\ (snd x = snd r \/ snd x = snd k).
Proof. induction 1 as [|r k rs ks Hrk H IH]; intros pe orc x Hx; [destruct Hx|]. cbn [fuzzy] in Hx. cbv zeta in Hx. destruct Hx as [Hx|Hx].
  - exists r, k. split; [left; reflexivity|]. split; [exact Hrk|]. subst x.
    destruct (_ <? _); [split; left; reflexivity|]. cbn [fst snd]. split.
    + destruct (_ <=? _); [left; reflexivity|]. destruct (fst r =? fst k); [left; reflexivity|destruct (keep_read_site _); [left|right]; reflexivity].
    + destruct (_ <=? _); [left; reflexivity|]. destruct (snd r =? snd k); [left; reflexivity|destruct (keep_read_site _); [left|right]; reflexivity].
  - destruct (IH _ _ _ Hx) as (r' & k' & Hin & HP & Hs). exists r', k'. split; [right; exact Hin|tauto]. Qed.

Lemma site_allowed_own fl c left r : In r (c_introns c) -> site_allowed fl c left (side left r) = true.
Proof. intros H. unfold site_allowed. apply orb_true_iff; left. apply orb_true_iff; left. apply existsb_exists. exists r. split; [exact H|lia]. Qed.
Lemma site_allowed_known fl c left r k : f_fuzzy fl = true -> In r (c_introns c) -> matched_to (c_delta c) (c_known c) r k ->
  site_allowed fl c left (side left k) = true.
Proof. intros Hf Hr (Hk & He). unfold site_allowed. apply orb_true_iff; left. apply orb_true_iff; right. rewrite Hf. cbn [andb].
  apply existsb_exists. exists r. split; [exact Hr|]. apply existsb_exists. exists k. split; [exact Hk|]. rewrite He. cbn [andb]. lia. Qed.
Lemma site_allowed_iso fl c left x : isoform_flags fl = true -> early_return c = false -> In x (c_isointrons c) ->
  site_allowed fl c left (side left x) = true.
Proof. intros Hf He Hx. unfold site_allowed. apply orb_true_iff; right. rewrite Hf, He. cbn [andb negb].
  apply existsb_exists. exists x. split; [exact Hx|lia]. Qed.

Lemma src_site_allowed vr fl c x : early_return c = false ->
  src_ok fl (c_introns c) (corrected_introns_v vr fl c) (c_isointrons c) x ->
  site_allowed fl c true (fst x) = true /\ site_allowed fl c false (snd x) = true.
Proof. intros He [H|[H|(Hf & H)]].
  - split; [exact (site_allowed_own fl c true x H)|exact (site_allowed_own fl c false x H)].
  - unfold corrected_introns_v in H. destruct (f_fuzzy fl) eqn:Ff;
      [|split; [exact (site_allowed_own fl c true x H)|exact (site_allowed_own fl c false x H)]].
    assert (HI: exists r k, In r (c_introns c) /\ (k = r \/ matched_to (c_delta c) (c_known c) r k) /\
                            (fst x = fst r \/ fst x = fst k) /\ (snd x = snd r \/ snd x = snd k)).
    { destruct (v_fuzzy vr).
      - exact (fuzzy_In _ _ _ _ (potentials_spec (c_delta c) (c_known c) (c_introns c)) _ _ _ H).
      - exact (fuzzy_unrepaired_In _ _ _ (potentials_spec (c_delta c) (c_known c) (c_introns c)) _ _ H). }
    destruct HI as (r & k & Hr & Hk & Hs1 & Hs2).
    assert (A: forall left, site_allowed fl c left (side left r) = true) by (intros; now apply site_allowed_own).
    assert (B: forall left, site_allowed fl c left (side left k) = true).
    { intros left. destruct Hk as [->|Hk]; [apply A|]. eapply site_allowed_known; eauto. }
    split.
    + destruct Hs1 as [-> | ->]; [exact (A true)|exact (B true)].
    + destruct Hs2 as [-> | ->]; [exact (A false)|exact (B false)].
  - split; [exact (site_allowed_iso fl c true x Hf He H)|exact (site_allowed_iso fl c false x Hf He H)]. Qed.

(* introns of the exons built from `new`: starts and ends are starts and ends of introns of `new` *)
Lemma jfb_pairs (L:list iv) : Forall (fun j => exists a b, In a (removelast L) /\ In b (tl L) /\ j = (snd a + 1, fst b - 1)) (jfb L).
Proof. induction L as [|a t IH]; [constructor|]. destruct t as [|b t']; [constructor|].
  assert (E: jfb (a :: b :: t') = (if snd a + 1 <? fst b then [(snd a + 1, fst b - 1)] else []) ++ jfb (b :: t')) by reflexivity.
  rewrite E. apply Forall_app. split.
  - destruct (snd a + 1 <? fst b); constructor; [|constructor]. exists a, b. split; [left; reflexivity|]. split; [left; reflexivity|reflexivity].
  - eapply Forall_impl; [|exact IH]. intros j (a' & b' & Ha & Hb & Hj). exists a', b'.
    split; [change (removelast (a :: b :: t')) with (a :: removelast (b :: t')); right; exact Ha|].
    split; [cbn [tl] in *; right; exact Hb|exact Hj]. Qed.

Lemma In_removelast {A} (l:list A) a : In a (removelast l) -> In a l.
Proof. induction l as [|u v IH]; [intros []|]. destruct v as [|w v']; [intros []|].
  change (removelast (u :: w :: v')) with (u :: removelast (w :: v')). intros [->|H]; [left; reflexivity|right; apply IH; exact H]. Qed.

Lemma removelast_snoc {A} (l:list A) x : removelast (l ++ [x]) = l.
Proof. apply removelast_last. Qed.

Lemma build_exons_introns reg new :
  Forall (fun j => (exists x, In x new /\ fst j = fst x) /\ (exists y, In y new /\ snd j = snd y)) (jfb (build_exons reg new)).
Proof. unfold build_exons. destruct new as [|f t]; [constructor|]. set (new := f :: t).
  pose proof (jfb_pairs new) as Hmid.
  assert (Hmid': Forall (fun e => (exists x, In x new /\ snd e = fst x - 1) /\ (exists y, In y new /\ fst e = snd y + 1)) (jfb new)).
  { eapply Forall_impl; [|exact Hmid]. intros e (a & b & Ha & Hb & ->). cbn [fst snd]. split.
    - exists b. split; [|reflexivity]. subst new. cbn [tl] in Hb. right; exact Hb.
    - exists a. split; [|reflexivity]. now apply In_removelast. }
  set (L := (fst reg, fst f - 1) :: jfb new ++ [(snd (last new f) + 1, snd reg)]).
  pose proof (jfb_pairs L) as HL. eapply Forall_impl; [|exact HL]. intros j (a & b & Ha & Hb & ->). cbn [fst snd].
  assert (RL: removelast L = (fst reg, fst f - 1) :: jfb new).
  { subst L. change ((fst reg, fst f - 1) :: jfb new ++ [(snd (last new f) + 1, snd reg)]) with (((fst reg, fst f - 1) :: jfb new) ++ [(snd (last new f) + 1, snd reg)]).
    apply removelast_last. }
  rewrite RL in Ha. subst L. cbn [tl] in Hb. rewrite Forall_forall in Hmid'. split.
  - destruct Ha as [<-|Ha].
    + exists f. split; [left; reflexivity|cbn [snd]; lia].
    + destruct (Hmid' a Ha) as ((x & Hx & E) & _). exists x. split; [exact Hx|lia].
  - apply in_app_or in Hb. destruct Hb as [Hb|[<-|[]]].
    + destruct (Hmid' b Hb) as (_ & (y & Hy & E)). exists y. split; [exact Hy|lia].
    + exists (last new f). split; [apply last_In; discriminate|cbn [fst]; lia]. Qed.

Notation emit_step := (fun acc b => match b_upd b with DropStart _ => [] | _ => acc ++ b_all b end).
Lemma emitted_acc_In bs : forall acc x, In x (fold_left emit_step bs acc) -> In x acc \/ exists b, In b bs /\ In x (b_all b).
Proof. induction bs as [|b t IH]; intros acc x Hx; [left; exact Hx|]. cbn [fold_left] in Hx.
  destruct (IH _ _ Hx) as [H|(b' & Hb' & H)]; [|right; exists b'; split; [right; exact Hb'|exact H]].
  assert (H': In x (acc ++ b_all b)) by (destruct (b_upd b); solve [exact H|destruct H]).
  apply in_app_or in H'. destruct H' as [H'|H']; [left; exact H'|right; exists b; split; [left; reflexivity|exact H']]. Qed.
Lemma emitted_In bs x : In x (emitted bs) -> exists b, In b bs /\ In x (b_all b).
Proof. unfold emitted. intros H. destruct (emitted_acc_In bs [] x H) as [[]|H']; exact H'. Qed.
(* when no block discards, the emitted introns are the blocks' introns in order *)
Lemma emitted_acc_nodrop bs : Forall (fun b => b_upd b = NoUpd) bs -> forall acc, fold_left emit_step bs acc = acc ++ flat_map b_all bs.
Proof. induction 1 as [|b t Hb Ht IH]; intros acc; [cbn; now rewrite app_nil_r|]. cbn [fold_left flat_map]. rewrite Hb, IH, app_assoc. reflexivity. Qed.
Lemma emitted_nodrop bs : Forall (fun b => b_upd b = NoUpd) bs -> emitted bs = flat_map b_all bs.
Proof. intros H. unfold emitted. now rewrite (emitted_acc_nodrop bs H []). Qed.
Lemma final_region_noupd rr bs : Forall (fun b => b_upd b = NoUpd) bs -> final_region rr bs = rr.
Proof. unfold final_region. induction 1 as [|b t Hb Ht IH]; [reflexivity|]. cbn [fold_left]. rewrite Hb. exact IH. Qed.

(* every splice site of the corrected alignment is the read's own, or the corresponding site of an annotated intron within
   delta of a read intron (fuzzy-junction flag), or a site of an intron of the assigned isoform (a flag inserting / restoring them) *)
Theorem sites_from_allowed_sources_v vr fl c ex : regions_ordered (c_events c) = true ->
  correct_assigned_read_v vr fl c = Ok ex -> sites_ok fl c ex = true.
Proof. intros Ho. unfold correct_assigned_read_v, process_events_v, sites_ok.
  destruct (early_return c) eqn:Ee.
  - intros H; inversion H; subst. apply forallb_forall. intros j Hj. fold (c_introns c) in Hj.
    rewrite (site_allowed_own fl c true j Hj : site_allowed fl c true (fst j) = true).
    rewrite (site_allowed_own fl c false j Hj : site_allowed fl c false (snd j) = true). reflexivity.
  - destruct (c_blocks_v vr fl c) as [bs|] eqn:B; [|discriminate]. intros H; inversion H; subst. clear H.
    pose proof (c_blocks_facts_v vr fl c bs Ho B) as F. rewrite Forall_forall in F.
    assert (S: forall x, In x (emitted bs) -> site_allowed fl c true (fst x) = true /\ site_allowed fl c false (snd x) = true).
    { intros x Hx. destruct (emitted_In bs x Hx) as (b & Hb & Hxb). destruct (F b Hb) as (Hs & _). rewrite Forall_forall in Hs.
      apply (src_site_allowed vr); [exact Ee|auto]. }
    pose proof (build_exons_introns (final_region (c_region c) bs) (emitted bs)) as I. rewrite Forall_forall in I.
    apply forallb_forall. intros j Hj. destruct (I j Hj) as ((x & Hx & E1) & (y & Hy & E2)). rewrite E1, E2.
    destruct (S x Hx) as (-> & _). destruct (S y Hy) as (_ & ->). reflexivity. Qed.
Theorem sites_from_allowed_sources fl c ex : regions_ordered (c_events c) = true ->
  correct_assigned_read fl c = Ok ex -> sites_ok fl c ex = true.
Proof. exact (sites_from_allowed_sources_v repaired fl c ex). Qed.

(* ---------------------------------------------------------------- strategy none: identity *)
Lemma nth_error_skipn {A} (l:list A) : forall k x, nth_error l k = Some x -> skipn k l = x :: skipn (Datatypes.S k) l.
Proof. induction l as [|a t IH]; intros k x H; [destruct k; discriminate|]. destruct k as [|k]; [inversion H; reflexivity|].
  cbn [nth_error] in H. change (skipn (Datatypes.S k) (a :: t)) with (skipn k t). rewrite (IH k x H). reflexivity. Qed.

Lemma py_nth_nonneg {A} (l:list A) a x : 0 <= a -> py_nth l a = Some x -> nth_error l (Z.to_nat a) = Some x /\ a < Z.of_nat (length l).
Proof. intros Ha. unfold py_nth. destruct ((0 <=? a) && (a <? Z.of_nat (length l))) eqn:E; [intros H; split; [exact H|lia]|].
  destruct ((a <? 0) && _) eqn:E2; [lia|discriminate]. Qed.

Lemma slice_n {A} (l:list A) : forall m a r, 0 <= a -> all_some (map (py_nth l) (zrange_n a m)) = Some r ->
  r = firstn m (skipn (Z.to_nat a) l) /\ (m <> O -> a + Z.of_nat m <= Z.of_nat (length l)).
Proof. induction m as [|m IH]; intros a r Ha H.
  - cbn in H. inversion H. split; [reflexivity|congruence].
  - cbn [zrange_n map all_some] in H. destruct (py_nth l a) as [x|] eqn:P; [|discriminate].
    destruct (all_some (map (py_nth l) (zrange_n (a + 1) m))) as [r'|] eqn:R; [|discriminate]. inversion H; subst. clear H.
    destruct (py_nth_nonneg l a x Ha P) as (N & Hlt). destruct (IH (a + 1) r' ltac:(lia) R) as (-> & Hb).
    rewrite (nth_error_skipn l _ x N). cbn [firstn]. replace (Z.to_nat (a + 1)) with (Datatypes.S (Z.to_nat a)) by lia.
    split; [reflexivity|]. intros _. destruct m; [lia|]. specialize (Hb ltac:(discriminate)). lia. Qed.

Lemma py_slice_nonneg {A} (l:list A) a b r : 0 <= a <= b -> py_slice l a b = Some r ->
  r = firstn (Z.to_nat (b + 1 - a)) (skipn (Z.to_nat a) l) /\ b + 1 <= Z.of_nat (length l).
Proof. intros Hab. unfold py_slice, zrange. destruct (_ <? _); [discriminate|]. intros H.
  destruct (slice_n l _ a r ltac:(lia) H) as (-> & Hb). split; [reflexivity|].
  assert (Z.to_nat (b + 1 - a) <> O) by lia. specialize (Hb H0). lia. Qed.

Lemma skipn_add {A} (l:list A) : forall i k, skipn (i + k) l = skipn k (skipn i l).
Proof. induction l as [|a t IH]; intros i k; [now rewrite !skipn_nil|]. destruct i as [|i]; [reflexivity|]. cbn [Nat.add skipn]. apply IH. Qed.
Lemma firstn_skipn_glue {A} (l:list A) i k : firstn k (skipn i l) ++ skipn (i + k) l = skipn i l.
Proof. rewrite skipn_add. apply firstn_skipn. Qed.

Lemma build_map_none_keys evs k e : lookup (build_map no_flags evs) k = Some e -> k = fst (e_read e) /\ fst (e_read e) <> absent_position /\ In e evs.
Proof. intros H. apply lookup_entry in H. destruct H as (Hin & [(Hk & Hna)|(_ & _ & Hm)]); cbn [fst snd] in *; [tauto|discriminate]. Qed.

Section NoneFacts.
Variables (vr:variant) (delta:Z) (rr:iv) (RI:list iv) (isoreg:iv) (II:list iv) (evs:list event).
Hypothesis Hord : regions_ordered evs = true.
Let n := Z.of_nat (length RI).

Lemma step_none i b : 0 <= i -> step_v vr no_flags delta rr RI RI isoreg II (build_map no_flags evs) i = Ok b ->
  b_i b = i /\ i < b_next b <= n /\ b_upd b = NoUpd /\ b_all b = firstn (Z.to_nat (b_next b - i)) (skipn (Z.to_nat i) RI).
Proof. intros Hi. unfold step_v, opt_block, b_all.
  destruct (lookup (build_map no_flags evs) (- i - 1)) as [e|] eqn:L1.
  { apply build_map_none_keys in L1. destruct L1 as (Hk & Hna & Hin). destruct (regions_ordered_In evs e Hord Hin); lia. }
  destruct (lookup (build_map no_flags evs) i) as [e|] eqn:L.
  - apply build_map_none_keys in L. destruct L as (Hk & Hna & Hin).
    destruct (regions_ordered_In evs e Hord Hin) as [?|(_ & Hab)]; [tauto|].
    unfold in_misalignment_set. cbn [no_flags f_fake_terminal f_terminal f_shifts f_skipped andb orb]. rewrite !andb_false_r.
    assert (G: forall l, py_slice RI (fst (e_read e)) (snd (e_read e)) = Some l ->
               i < snd (e_read e) + 1 <= n /\ [] ++ l = firstn (Z.to_nat (snd (e_read e) + 1 - i)) (skipn (Z.to_nat i) RI)).
    { intros l P. assert (Hr: 0 <= fst (e_read e) <= snd (e_read e)) by lia.
      destruct (py_slice_nonneg RI _ _ l Hr P) as (-> & Hb). subst n. rewrite <- Hk in *. split; [lia|reflexivity]. }
    destruct (mes_mem _ _); (destruct (py_slice RI _ _) as [l|] eqn:P; [|discriminate]); intros H; inversion H; subst b; cbn;
      destruct (G l eq_refl) as (G1 & G2); (repeat split; [lia|lia|exact G2]).
  - destruct (py_nth RI i) as [x|] eqn:P; [|discriminate]. intros H; inversion H; subst b; cbn.
    destruct (py_nth_nonneg RI i x Hi P) as (N & Hlt). subst n. repeat split; [lia|lia|].
    replace (Z.to_nat (i + 1 - i)) with 1%nat by lia. rewrite (nth_error_skipn RI _ x N). reflexivity. Qed.

Lemma loop_none_blocks fuel : forall i bs, 0 <= i <= n -> loop_v vr no_flags delta rr RI RI isoreg II (build_map no_flags evs) fuel i = Ok bs ->
  Forall (fun b => b_upd b = NoUpd) bs /\ flat_map b_all bs = skipn (Z.to_nat i) RI.
Proof. induction fuel as [|f IH]; intros i bs Hi; cbn [loop_v]; unfold n_introns; fold n.
  - destruct (i <? n) eqn:E; [discriminate|]. intros H; inversion H. split; [constructor|].
    cbn. symmetry. apply skipn_all2. subst n. lia.
  - destruct (i <? n) eqn:E.
    + destruct (step_v _ _ _ _ _ _ _ _ _ i) as [b|] eqn:S; [|discriminate].
      destruct (loop_v _ _ _ _ _ _ _ _ _ f (b_next b)) as [bs'|] eqn:L; [|discriminate]. intros H; inversion H; subst. clear H.
      destruct (step_none i b ltac:(lia) S) as (_ & Hn & Hu & Ha). destruct (IH (b_next b) bs' ltac:(lia) L) as (E1 & E2).
      split; [constructor; assumption|].
      cbn [flat_map]. rewrite E2, Ha.
      replace (Z.to_nat (b_next b)) with (Z.to_nat i + Z.to_nat (b_next b - i))%nat by lia. apply firstn_skipn_glue.
    + intros H; inversion H. split; [constructor|]. cbn. symmetry. apply skipn_all2. subst n. lia. Qed.
Lemma loop_none fuel : forall i bs, 0 <= i <= n -> loop_v vr no_flags delta rr RI RI isoreg II (build_map no_flags evs) fuel i = Ok bs ->
  emitted bs = skipn (Z.to_nat i) RI /\ final_region rr bs = rr.
Proof. intros i bs Hi H. destruct (loop_none_blocks fuel i bs Hi H) as (F & E).
  split; [rewrite (emitted_nodrop bs F); exact E|exact (final_region_noupd rr bs F)]. Qed.
End NoneFacts.

(* exons with a gap between consecutive ones are rebuilt exactly from their hull and their introns *)
Lemma rebuild_tail : forall l a b d d', sdg_b (a :: b :: l) = true ->
  jfb (jfb (a :: b :: l)) ++ [(snd (last (jfb (a :: b :: l)) d) + 1, snd (last (a :: b :: l) d'))] = b :: l.
Proof. induction l as [|c t IH]; intros a b d d' H.
  - cbn [sdg_b] in H. cbn [jfb]. destruct (snd a + 1 <? fst b) eqn:E; [|lia]. cbn [app jfb last fst snd].
    replace (fst b - 1 + 1) with (fst b) by lia. destruct b; reflexivity.
  - assert (H': sdg_b (b :: c :: t) = true) by (cbn [sdg_b] in H |- *; lia).
    specialize (IH b c d d' H').
    assert (E1: jfb (a :: b :: c :: t) = (snd a + 1, fst b - 1) :: jfb (b :: c :: t)).
    { change (jfb (a :: b :: c :: t)) with ((if snd a + 1 <? fst b then [(snd a + 1, fst b - 1)] else []) ++ jfb (b :: c :: t)).
      cbn [sdg_b] in H. destruct (snd a + 1 <? fst b) eqn:E; [reflexivity|lia]. }
    assert (E2: jfb (b :: c :: t) = (snd b + 1, fst c - 1) :: jfb (c :: t)).
    { change (jfb (b :: c :: t)) with ((if snd b + 1 <? fst c then [(snd b + 1, fst c - 1)] else []) ++ jfb (c :: t)).
      cbn [sdg_b] in H. destruct (snd b + 1 <? fst c) eqn:E; [reflexivity|lia]. }
    rewrite E1. rewrite E2 in *.
    change (last ((snd a + 1, fst b - 1) :: (snd b + 1, fst c - 1) :: jfb (c :: t)) d) with (last ((snd b + 1, fst c - 1) :: jfb (c :: t)) d).
    change (last (a :: b :: c :: t) d') with (last (b :: c :: t) d').
    change (jfb ((snd a + 1, fst b - 1) :: (snd b + 1, fst c - 1) :: jfb (c :: t)))
      with ((if snd (snd a + 1, fst b - 1) + 1 <? fst (snd b + 1, fst c - 1) then [(snd (snd a + 1, fst b - 1) + 1, fst (snd b + 1, fst c - 1) - 1)] else [])
            ++ jfb ((snd b + 1, fst c - 1) :: jfb (c :: t))).
    cbn [fst snd]. cbn [sdg_b] in H. destruct (fst b - 1 + 1 <? snd b + 1) eqn:E; [|lia].
    cbn [app]. rewrite IH.
    replace (fst b - 1 + 1) with (fst b) by lia. replace (snd b + 1 - 1) with (snd b) by lia. destruct b; reflexivity. Qed.

Lemma rebuild_exons ex : sdg_b ex = true -> ex <> [] -> build_exons (hull ex) (jfb ex) = ex.
Proof. intros H Hne. destruct ex as [|a t]; [congruence|]. destruct t as [|b t].
  - cbn. destruct a; reflexivity.
  - unfold build_exons. destruct (jfb (a :: b :: t)) as [|f r] eqn:J.
    + exfalso. change (jfb (a :: b :: t)) with ((if snd a + 1 <? fst b then [(snd a + 1, fst b - 1)] else []) ++ jfb (b :: t)) in J.
      cbn [sdg_b] in H. destruct (snd a + 1 <? fst b) eqn:E; [discriminate|lia].
    + rewrite <- J. pose proof (rebuild_tail t a b f (0,0) H) as R. unfold hull. cbn [fst snd hd]. rewrite R.
      assert (Ef: f = (snd a + 1, fst b - 1)).
      { change (jfb (a :: b :: t)) with ((if snd a + 1 <? fst b then [(snd a + 1, fst b - 1)] else []) ++ jfb (b :: t)) in J.
        cbn [sdg_b] in H. destruct (snd a + 1 <? fst b) eqn:E; [inversion J; reflexivity|lia]. }
      rewrite Ef. cbn [fst]. replace (snd a + 1 - 1) with (snd a) by lia. destruct a; reflexivity. Qed.

(* with --splice_correction_strategy none the corrected exons are the input exons *)
Theorem strategy_none_identity_v vr c ex : sdg_b (c_exons c) = true -> c_exons c <> [] -> regions_ordered (c_events c) = true ->
  correct_assigned_read_v vr (strategy_flags St_none) c = Ok ex -> ex = c_exons c.
Proof. intros Hs Hne Ho. change (strategy_flags St_none) with no_flags. unfold correct_assigned_read_v, process_events_v.
  destruct (early_return c); [intros H; inversion H; reflexivity|].
  destruct (c_blocks_v vr no_flags c) as [bs|] eqn:B; [|discriminate]. intros H; inversion H; subst. clear H.
  unfold c_blocks_v, blocks_v in B. change (corrected_introns_v vr no_flags c) with (c_introns c) in B.
  destruct (loop_none vr (c_delta c) (c_region c) (c_introns c) (c_isoreg c) (c_isointrons c) (c_events c) Ho _ 0 bs ltac:(lia) B) as (E1 & E2).
  rewrite E1, E2. cbn [Z.to_nat skipn]. apply rebuild_exons; assumption. Qed.
Theorem strategy_none_identity c ex : sdg_b (c_exons c) = true -> c_exons c <> [] -> regions_ordered (c_events c) = true ->
  correct_assigned_read (strategy_flags St_none) c = Ok ex -> ex = c_exons c.
Proof. exact (strategy_none_identity_v repaired c ex). Qed.

(* ---------------------------------------------------------------- Illumina corrector *)
Lemma sd_hull l d : sd l -> l <> [] -> fst (hd d l) <= snd (last l d).
Proof. induction l as [|a t IH]; intros Hs Hne; [congruence|]. destruct t as [|b t'].
  - simpl in *. lia.
  - assert (Hs': sd (b :: t')) by (simpl in Hs; simpl; tauto). specialize (IH Hs' ltac:(discriminate)).
    change (last (a :: b :: t') d) with (last (b :: t') d). cbn [hd] in *. simpl in Hs. lia. Qed.

Lemma get_exons_build reg sel : Forall (fun x => fst reg < fst x /\ snd x < snd reg) sel -> fst reg <= snd reg ->
  get_exons reg sel = build_exons reg sel.
Proof. intros Hin Hr. destruct sel as [|f t] eqn:E.
  - unfold get_exons, build_exons. cbn [app jfb fst snd]. destruct (fst reg - 1 + 1 <? snd reg + 1) eqn:C; [|lia].
    cbn [app]. replace (fst reg - 1 + 1) with (fst reg) by lia. replace (snd reg + 1 - 1) with (snd reg) by lia. destruct reg; reflexivity.
  - rewrite <- E in *. symmetry. apply build_exons_get_exons; [rewrite E; discriminate|exact Hin]. Qed.

(* current code: under the hypothesis on the selected introns the exons are well-formed and the read keeps its ends (from get_exons_wf) *)
Theorem illumina_unrepaired_wf short exons : illumina_wf short exons = true ->
  sd (illumina_correct_exons_unrepaired short exons) /\ illumina_correct_exons_unrepaired short exons <> [] /\
  hull (illumina_correct_exons_unrepaired short exons) = hull exons.
Proof. unfold illumina_wf, illumina_correct_exons_unrepaired. rewrite !andb_true_iff. intros ((Hs & Hne) & (Hm & Hin)).
  assert (Hex: exons <> []) by (destruct exons; [discriminate|discriminate]).
  assert (Hr: fst (hull exons) <= snd (hull exons)) by (unfold hull; cbn [fst snd]; apply sd_hull; [now apply sdg_b_sd|exact Hex]).
  assert (Hin': Forall (fun x => fst (hull exons) < fst x /\ snd x < snd (hull exons)) (ill_corrected_introns short exons)).
  { apply forallb_Forall in Hin. eapply Forall_impl; [|exact Hin]. unfold inside. intros; lia. }
  rewrite (get_exons_build _ _ Hin' Hr).
  pose proof (build_exons_ends (hull exons) (ill_corrected_introns short exons)) as (E1 & E2 & E3).
  split; [apply build_exons_sd; [now apply mono_b_spec|exact Hin'|exact Hr]|]. split; [exact E3|].
  unfold hull at 1. rewrite E1, E2. destruct (hull exons); reflexivity. Qed.

(* ... and then the guard of the repair accepts the correction: the repair changes nothing on such inputs *)
Theorem illumina_repair_conservative short exons : illumina_wf short exons = true ->
  illumina_correct_exons short exons = illumina_correct_exons_unrepaired short exons.
Proof. intros H. destruct (illumina_unrepaired_wf short exons H) as (Hs & Hne & Hh). unfold illumina_correct_exons.
  assert (V: valid_correction exons (illumina_correct_exons_unrepaired short exons) = true); [|now rewrite V].
  unfold valid_correction. unfold hull in Hh. inversion Hh as [[E1 E2]]. rewrite E1, E2, !Z.eqb_refl.
  apply sd_b_spec in Hs. rewrite Hs. destruct (illumina_correct_exons_unrepaired short exons); [congruence|reflexivity]. Qed.

(* repaired code (fixes/C14_illumina_read_span.diff): for EVERY set of short-read introns the result is well-formed and keeps the read's ends *)
Theorem illumina_exons_wf short exons : sd exons -> exons <> [] ->
  sd (illumina_correct_exons short exons) /\ illumina_correct_exons short exons <> [] /\
  hull (illumina_correct_exons short exons) = hull exons.
Proof. intros Hs Hne. unfold illumina_correct_exons. destruct (valid_correction _ _) eqn:V; [|repeat split; assumption].
  unfold valid_correction in V. rewrite !andb_true_iff in V. destruct V as (((V1 & V2) & V3) & V4).
  split; [now apply sd_b_spec|]. split; [destruct (illumina_correct_exons_unrepaired short exons); [discriminate|discriminate]|].
  unfold hull. f_equal; lia. Qed.

(* ---------------------------------------------------------------- BED12 *)
Lemma asc_b_spec starts sizes : ascending_blocks starts sizes -> asc_b starts sizes = true.
Proof. revert sizes. induction starts as [|s1 st IH]; intros sizes H; [reflexivity|]. destruct st as [|s2 st']; [destruct sizes; reflexivity|].
  destruct sizes as [|z1 zt]; [reflexivity|]. cbn [asc_b ascending_blocks] in *. destruct H as (H1 & H2). rewrite (IH zt H2). lia. Qed.

Theorem bed_row_valid_b ex : sd ex -> ex <> [] -> 0 < fst (hd (0,0) ex) -> bed_valid_b (bed_row ex) = true.
Proof. intros Hs Hne Hp. destruct (bed_row_valid ex Hs Hne) as (H1 & H2 & H3 & H4).
  pose proof (sd_hull ex (0,0) Hs Hne) as Hh.
  unfold bed_valid_b, bed_row. cbn [chromStart chromEnd thickStart thickEnd blockCount blockSizes blockStarts].
  assert (L1: length (bed_sizes ex) = length ex) by (unfold bed_sizes; apply map_length).
  assert (L2: length (bed_starts ex) = length ex) by (unfold bed_starts; destruct ex; [reflexivity|apply map_length]).
  rewrite L1, L2, !Z.eqb_refl. rewrite (asc_b_spec _ _ H3).
  assert (F: forallb (fun z => 0 <? z) (bed_sizes ex) = true).
  { apply forallb_forall. rewrite Forall_forall in H1. intros z Hz. specialize (H1 z Hz). lia. }
  rewrite F. assert (Hl: 0 < Z.of_nat (length ex)) by (destruct ex; [congruence|cbn [length]; lia]).
  assert (Hd: hd (-1) (bed_starts ex) = 0).
  { unfold bed_starts in *. destruct ex; [congruence|]. cbn [map hd] in *. lia. }
  rewrite Hd. cbn [andb]. rewrite !andb_true_iff. repeat split; lia. Qed.

(* ---------------------------------------------------------------- the repaired fuzzy-junction choice (fixes/C01_fuzzy_junction_keeps_exons.diff) *)
Lemma sdg_b_mono_b l : sdg_b l = true -> mono_b l = true.
Proof. induction l as [|a t IH]; [reflexivity|]. cbn [sdg_b mono_b]. rewrite !andb_true_iff. intros ((H1 & H2) & H3).
  split; [split; [exact H1|]|exact (IH H3)]. destruct t as [|b t']; [reflexivity|]. lia. Qed.

(* the position a corrected intron has to start after: the base after the previous corrected intron, or the read start *)
Definition lower_of (region:iv) (prev_end:option Z) : Z := match prev_end with Some e => e + 1 | None => fst region end.

(* the invariant of the loop over the read introns: the next read intron starts after `lower_of region prev_end` *)
Theorem fuzzy_wf_prev region : forall reads prev_end pots orc,
  sdg_b reads = true -> Forall (fun r => snd r < snd region) reads ->
  (forall r, hd_error reads = Some r -> lower_of region prev_end < fst r) ->
  let cs := fuzzy region prev_end reads pots orc in
  length cs = Nat.min (length reads) (length pots) /\
  sdg_b cs = true /\
  Forall (fun c => lower_of region prev_end < fst c /\ snd c < snd region) cs /\
  (forall k c r', nth_error cs k = Some c -> nth_error reads (Datatypes.S k) = Some r' -> snd c + 1 < fst r').
Proof. induction reads as [|r rs IH]; intros prev_end pots orc Hs Hin Hlo; cbv zeta.
  - cbn. repeat split; [constructor|]. intros k c r' H. destruct k; discriminate.
  - destruct pots as [|k ks].
    { cbn. repeat split; [constructor|]. intros k c r' H. destruct k; discriminate. }
    cbn [fuzzy]. cbv zeta. change (match prev_end with Some e => e + 1 | None => fst region end) with (lower_of region prev_end).
    set (lo := lower_of region prev_end).
    set (l0 := if fst r =? fst k then fst r else if keep_read_site (fst (hd (0, 0, (0, 0)) orc)) then fst r else fst k).
    set (r0 := if snd r =? snd k then snd r else if keep_read_site (snd (hd (0, 0, (0, 0)) orc)) then snd r else snd k).
    set (upper := match rs with r' :: _ => fst r' - 1 | [] => snd region end).
    set (c := if (if upper <=? r0 then snd r else r0) <? (if l0 <=? lo then fst r else l0) then r else (if l0 <=? lo then fst r else l0, if upper <=? r0 then snd r else r0)).
    assert (Hlr: lo < fst r) by (apply Hlo; reflexivity).
    cbn [sdg_b] in Hs. rewrite !andb_true_iff in Hs. destruct Hs as ((Hr & Hnext) & Hs').
    assert (Hrs: Forall (fun r => snd r < snd region) rs) by (inversion Hin; assumption).
    assert (Hrr: snd r < snd region) by (inversion Hin; assumption).
    assert (Hup: snd r < upper /\ upper <= snd region).
    { subst upper. destruct rs as [|r' rs']; [lia|]. inversion Hrs; subst. cbn [sdg_b] in Hs'. rewrite !andb_true_iff in Hs'. lia. }
    assert (Hc: lo < fst c /\ fst c <= snd c /\ snd c < upper).
    { subst c. destruct (upper <=? r0) eqn:E1; destruct (l0 <=? lo) eqn:E2;
        match goal with |- context [if ?a <? ?b then _ else _] => destruct (a <? b) eqn:E3 end; cbn [fst snd]; lia. }
    specialize (IH (Some (snd c)) ks (tl orc) Hs' Hrs).
    assert (Hhd: forall r0, hd_error rs = Some r0 -> lower_of region (Some (snd c)) < fst r0).
    { intros r1 H1. destruct rs as [|r' rs']; [discriminate|]. inversion H1; subst r1. subst upper. cbn [lower_of]. lia. }
    specialize (IH Hhd). cbv zeta in IH. cbn [lower_of] in IH. destruct IH as (L & S & F & N).
    split; [cbn [length Nat.min]; now rewrite L|]. split; [|split].
    + cbn [sdg_b]. rewrite S. rewrite !andb_true_iff. split; [split; [lia|]|reflexivity].
      destruct (fuzzy region (Some (snd c)) rs ks (tl orc)) as [|c' t']; [reflexivity|]. inversion F; subst. lia.
    + constructor; [lia|]. eapply Forall_impl; [|exact F]. cbv beta. intros; lia.
    + intros j c0 r' H1 H2. destruct j as [|j].
      * cbn in H1, H2. inversion H1; subst c0. destruct rs as [|r1 rs']; [discriminate|]. inversion H2; subst r1. subst upper. lia.
      * cbn [nth_error] in H1. change (nth_error (r :: rs) (Datatypes.S (Datatypes.S j))) with (nth_error rs (Datatypes.S j)) in H2. exact (N j c0 r' H1 H2). Qed.

(* for read introns that are well-formed, separated by at least one base and strictly inside the read region, and ANY potential
   introns and ANY answers of get_error_count: the corrected introns are as many as min(reads, potentials), well-formed, separated by at
   least one base (so the exons between them are non-empty), strictly inside the read region, and each ends before the next read intron *)
Theorem fuzzy_wf region reads pots orc : sdg_b reads = true -> forallb (inside region) reads = true ->
  let cs := fuzzy region None reads pots orc in
  length cs = Nat.min (length reads) (length pots) /\ sdg_b cs = true /\ forallb (inside region) cs = true /\
  (forall k c r', nth_error cs k = Some c -> nth_error reads (Datatypes.S k) = Some r' -> snd c + 1 < fst r').
Proof. intros Hs Hin. apply forallb_Forall in Hin.
  assert (H1: Forall (fun r => snd r < snd region) reads) by (eapply Forall_impl; [|exact Hin]; unfold inside; intros; lia).
  assert (H2: forall r, hd_error reads = Some r -> lower_of region None < fst r).
  { intros r Hr. destruct reads as [|r' t]; [discriminate|]. inversion Hr; subst r'. inversion Hin; subst. unfold inside in *. cbn [lower_of]. lia. }
  destruct (fuzzy_wf_prev region reads None pots orc Hs H1 H2) as (L & S & F & N). cbv zeta.
  split; [exact L|]. split; [exact S|]. split; [|exact N].
  apply forallb_Forall. eapply Forall_impl; [|exact F]. unfold inside. cbn [lower_of]. intros; lia. Qed.

(* the code before the repair: a reference end beyond the read end is taken; the repaired choice keeps the read's own site *)
Example fuzzy_unrepaired_inverted_refuted :
  fuzzy_unrepaired [(1101,1299)] [(1101,1305)] [((0,0),(1,0))] = [(1101,1305)] /\
  fuzzy (1000,1304) None [(1101,1299)] [(1101,1305)] [((0,0),(1,0))] = [(1101,1299)].
Proof. vm_compute. split; reflexivity. Qed.

(* ---------------------------------------------------------------- no event with a read region: events_wf holds by itself (repaired fuzzy choice) *)
Lemma choose_features_length reads : forall ms, length (choose_features reads ms) = length reads.
Proof. induction reads as [|r rs IH]; intros ms; [reflexivity|]. cbn [choose_features length]. now rewrite IH. Qed.
Lemma potentials_length c : length (potentials c) = length (c_introns c).
Proof. unfold potentials, match_genomic_features. apply choose_features_length. Qed.

Lemma build_map_undefined fl evs : Forall (fun e => e_read e = (undefined_position, undefined_position)) evs -> build_map fl evs = [].
Proof. unfold build_map. intros H. generalize (@nil (Z * event)). induction H as [|e t He Ht IH]; intros m; [reflexivity|]. cbn [fold_left]. rewrite He.
  change (iv_eqb (undefined_position, undefined_position) (undefined_position, undefined_position)) with true. cbv iota. apply IH. Qed.

(* the introns of exons with a gap between consecutive ones: well-formed, a base apart, strictly inside the hull *)
Lemma jfb_sdg : forall ex d, sdg_b ex = true ->
  sdg_b (jfb ex) = true /\ Forall (fun j => fst (hd d ex) < fst j /\ snd j < snd (last ex d)) (jfb ex).
Proof. induction ex as [|a t IH]; intros d H; [split; [reflexivity|constructor]|]. destruct t as [|b t']; [split; [reflexivity|constructor]|].
  assert (H': sdg_b (b :: t') = true) by (cbn [sdg_b] in H |- *; lia).
  assert (Ha: fst a <= snd a /\ snd a + 1 < fst b) by (cbn [sdg_b] in H; lia).
  assert (E: jfb (a :: b :: t') = (snd a + 1, fst b - 1) :: jfb (b :: t')).
  { change (jfb (a :: b :: t')) with ((if snd a + 1 <? fst b then [(snd a + 1, fst b - 1)] else []) ++ jfb (b :: t')).
    destruct (snd a + 1 <? fst b) eqn:C; [reflexivity|lia]. }
  rewrite E. destruct (IH d H') as (S & F). cbn [hd] in F |- *.
  pose proof (sd_hull (b :: t') d (sdg_b_sd _ H') ltac:(discriminate)) as Hh. cbn [hd] in Hh.
  change (last (a :: b :: t') d) with (last (b :: t') d). split.
  - cbn [sdg_b fst snd]. rewrite S. rewrite !andb_true_iff. split; [split; [lia|]|reflexivity].
    destruct (jfb (b :: t')) as [|j u]; [reflexivity|]. inversion F; subst. lia.
  - constructor; [cbn [fst snd]; lia|]. eapply Forall_impl; [|exact F]. cbv beta. intros; lia. Qed.

Lemma py_nth_inrange {A} (l:list A) i : 0 <= i < Z.of_nat (length l) -> exists x, py_nth l i = Some x /\ nth_error l (Z.to_nat i) = Some x.
Proof. intros Hi. unfold py_nth. destruct ((0 <=? i) && (i <? Z.of_nat (length l))) eqn:E; [|lia].
  destruct (nth_error l (Z.to_nat i)) as [x|] eqn:N; [exists x; split; reflexivity|]. apply nth_error_None in N. lia. Qed.

Section NoEvents.
Variables (vr:variant) (fl:flags) (delta:Z) (rr:iv) (RI CI:list iv) (isoreg:iv) (II:list iv).
Let n := Z.of_nat (length CI).
(* with an empty event map the loop appends the corrected introns one by one *)
Lemma step_nomap i : step_v vr fl delta rr RI CI isoreg II [] i = opt_block (py_nth CI i) (fun x => mkblock i (i + 1) [] [x] NoUpd).
Proof. reflexivity. Qed.
Lemma loop_nomap fuel : forall i, 0 <= i <= n -> n - i <= Z.of_nat fuel ->
  exists bs, loop_v vr fl delta rr RI CI isoreg II [] fuel i = Ok bs /\
             Forall (fun b => b_upd b = NoUpd) bs /\ forallb (block_ok n) bs = true /\ flat_map b_all bs = skipn (Z.to_nat i) CI.
Proof. induction fuel as [|f IH]; intros i Hi Hf; cbn [loop_v]; unfold n_introns; fold n.
  - destruct (i <? n) eqn:E; [lia|]. exists []. split; [reflexivity|]. split; [constructor|]. split; [reflexivity|].
    cbn. symmetry. apply skipn_all2. subst n. lia.
  - destruct (i <? n) eqn:E.
    + rewrite step_nomap. destruct (py_nth_inrange CI i ltac:(subst n; lia)) as (x & P & N). rewrite P. unfold opt_block. cbn [b_next].
      destruct (IH (i + 1) ltac:(lia) ltac:(lia)) as (bs' & L & F & B & E'). rewrite L.
      exists (mkblock i (i + 1) [] [x] NoUpd :: bs'). split; [reflexivity|]. split; [constructor; [reflexivity|exact F]|]. split.
      * cbn [forallb]. rewrite B. unfold block_ok. cbn [b_i b_next]. lia.
      * cbn [flat_map]. rewrite E'. unfold b_all. cbn [b_fake b_emit app].
        replace (Z.to_nat (i + 1)) with (Datatypes.S (Z.to_nat i)) by lia. symmetry. apply nth_error_skipn. exact N.
    + exists []. split; [reflexivity|]. split; [constructor|]. split; [reflexivity|].
      cbn. symmetry. apply skipn_all2. subst n. lia. Qed.
End NoEvents.

(* the corrected introns of a read whose exons have a gap between consecutive ones (repaired fuzzy choice): one per read intron,
   well-formed, a base apart, strictly inside the read region - whatever the annotation, delta and get_error_count are *)
Lemma corrected_introns_wf vr fl c : v_fuzzy vr = true -> sdg_b (c_exons c) = true ->
  length (corrected_introns_v vr fl c) = length (c_introns c) /\ sdg_b (corrected_introns_v vr fl c) = true /\
  forallb (inside (c_region c)) (corrected_introns_v vr fl c) = true.
Proof. intros Hv Hs. destruct (jfb_sdg (c_exons c) (0,0) Hs) as (S & F). fold (c_introns c) in S, F.
  assert (Hin: forallb (inside (c_region c)) (c_introns c) = true).
  { apply forallb_Forall. eapply Forall_impl; [|exact F]. unfold inside, c_region, hull. cbn [fst snd]. intros; lia. }
  unfold corrected_introns_v. destruct (f_fuzzy fl); [|repeat split; assumption]. rewrite Hv.
  destruct (fuzzy_wf (c_region c) (c_introns c) (potentials c) (c_oracle c) S Hin) as (L & S' & I' & _).
  rewrite potentials_length, Nat.min_id in L. repeat split; assumption. Qed.

Theorem events_wf_no_events vr fl c : v_fuzzy vr = true -> sdg_b (c_exons c) = true -> c_exons c <> [] ->
  Forall (fun e => e_read e = (undefined_position, undefined_position)) (c_events c) -> events_wf_v vr fl c = true.
Proof. intros Hv Hs Hne He. unfold events_wf_v. rewrite Hs.
  assert (Hl: (length (c_exons c) =? 0)%nat = false) by (destruct (c_exons c); [congruence|reflexivity]). rewrite Hl. cbn [negb andb].
  destruct (early_return c); [reflexivity|]. cbn [orb].
  destruct (corrected_introns_wf vr fl c Hv Hs) as (L & S & I).
  unfold c_blocks_v, blocks_v. rewrite (build_map_undefined fl (c_events c) He).
  destruct (loop_nomap vr fl (c_delta c) (c_region c) (c_introns c) (corrected_introns_v vr fl c) (c_isoreg c) (c_isointrons c)
              (2 * length (corrected_introns_v vr fl c) + 2) 0 ltac:(lia) ltac:(lia)) as (bs & Lp & F & B & E).
  rewrite Lp. cbv zeta. rewrite (emitted_nodrop bs F), (final_region_noupd (c_region c) bs F), E. cbn [Z.to_nat skipn].
  rewrite <- L, B, (sdg_b_mono_b _ S), I. cbn [andb]. rewrite andb_true_r.
  pose proof (sd_hull (c_exons c) (0,0) (sdg_b_sd _ Hs) Hne). unfold c_region, hull. cbn [fst snd]. lia. Qed.

Theorem corrected_exons_wf_no_events vr fl c : v_fuzzy vr = true -> sdg_b (c_exons c) = true -> c_exons c <> [] ->
  Forall (fun e => e_read e = (undefined_position, undefined_position)) (c_events c) ->
  exists ex, correct_assigned_read_v vr fl c = Ok ex /\ sd ex.
Proof. intros Hv Hs Hne He. pose proof (events_wf_no_events vr fl c Hv Hs Hne He) as W.
  destruct (events_wf_returns_v vr fl c W) as (ex & Hex). exists ex. split; [exact Hex|exact (corrected_exons_wf_v vr fl c ex W Hex)]. Qed.

(* the code before the repair: the annotated intron (1101,1305) within delta of the read intron (1101,1299) ends beyond the read's
   last exon (1300,1304); one indel next to the right site makes the code take the reference end, and the last exon comes out inverted *)
Definition fuzzy_end_input := mkcin [(1000,1100);(1300,1304)] false true
  [mkev MES_none_ (undefined_position,undefined_position) (undefined_position,undefined_position)]
  [(1101,1305)] (1000,1500) [(1101,1305)] [((0,0),(1,0))] 6.
Example events_wf_no_events_unrepaired_refuted :
  correct_assigned_read_unrepaired (strategy_flags St_default_ont) fuzzy_end_input = Ok [(1000,1100);(1306,1304)] /\
  events_wf_v unrepaired (strategy_flags St_default_ont) fuzzy_end_input = false /\
  correct_assigned_read (strategy_flags St_default_ont) fuzzy_end_input = Ok [(1000,1100);(1300,1304)].
Proof. vm_compute. repeat split; reflexivity. Qed.
