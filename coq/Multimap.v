From Coq Require Import ZArith NArith List Bool Lia ZifyBool Permutation.
Import ListNotations. Open Scope Z_scope.

Inductive cls := CCons | CInc | CNon.
Record asg := { key : N; typ : cls; is_amb : bool; secondary : bool; ovl : Z; rstart : Z }.

Definition is_cons a := match typ a with CCons => true | _ => false end.
Definition is_inc a := match typ a with CInc => true | _ => false end.
Definition is_non a := match typ a with CNon => true | _ => false end.
Definition p_primary_unique a := is_cons a && negb (secondary a) && negb (is_amb a).
Definition p_primary_inc a := is_inc a && negb (secondary a).

(* select_noninformative: best overlap, then lowest region start, first in list order on ties *)
Definition better (a b:asg) : bool := (ovl b <? ovl a) || ((ovl b =? ovl a) && (rstart a <? rstart b)).   (* a strictly better than b *)
Fixpoint pick (l:list asg) : option asg :=
  match l with
  | [] => None
  | a::t => match pick t with None => Some a | Some b => if better b a then Some b else Some a end
  end.

Definition nonempty {A} (l:list A) := match l with [] => false | _ => true end.
(* the records that survive (before duplicate removal) *)
Definition sel (l:list asg) : list asg :=
  if nonempty (filter p_primary_unique l) then filter p_primary_unique l
  else if nonempty (filter is_cons l) then filter is_cons l
  else if nonempty (filter p_primary_inc l) then filter p_primary_inc l
  else if nonempty (filter is_inc l) then filter is_inc l          (* penalties are all equal: every one is "best" *)
  else match pick (filter is_non l) with Some a => [a] | None => [] end.
Definition kept_keys (l:list asg) : list N := map key (sel l).

(* ---------- priority theorems ---------- *)
Theorem primary_unique_wins l a : In a l -> p_primary_unique a = true ->
  forall b, In b (sel l) <-> In b l /\ p_primary_unique b = true.
Proof. intros Ha Hp b. unfold sel.
  assert (In a (filter p_primary_unique l)) by (apply filter_In; auto).
  destruct (filter p_primary_unique l) eqn:E; [contradiction|]. cbn [nonempty]. rewrite <- E. apply filter_In. Qed.

Theorem consistent_beats_rest l a : In a l -> is_cons a = true -> forall b, In b (sel l) -> is_cons b = true.
Proof. intros Ha Hc b. unfold sel.
  destruct (filter p_primary_unique l) eqn:E1; cbn [nonempty].
  - assert (In a (filter is_cons l)) by (apply filter_In; auto).
    destruct (filter is_cons l) eqn:E2; [contradiction|]. cbn [nonempty]. rewrite <- E2. intros H0. apply filter_In in H0. tauto.
  - rewrite <- E1. intros H0. apply filter_In in H0. destruct H0 as [_ H0]. unfold p_primary_unique in H0.
    apply andb_prop in H0. destruct H0 as [H0 _]. apply andb_prop in H0. tauto. Qed.

Lemma nonempty_filter_iff {A} (p:A->bool) l : nonempty (filter p l) = true <-> exists x, In x l /\ p x = true.
Proof. split.
  - destruct (filter p l) eqn:E; [discriminate|]. intros _. exists a. apply filter_In. rewrite E. left; reflexivity.
  - intros [x Hx]. apply filter_In in Hx. destruct (filter p l); [contradiction|reflexivity]. Qed.
Lemma nonempty_filter_perm {A} (p:A->bool) l l' : Permutation l l' -> nonempty (filter p l) = nonempty (filter p l').
Proof. intros P. destruct (nonempty (filter p l)) eqn:E.
  - symmetry. apply nonempty_filter_iff. apply nonempty_filter_iff in E. destruct E as [x [H1 H2]]. exists x; split; auto. eapply Permutation_in; eauto.
  - destruct (nonempty (filter p l')) eqn:E'; [|reflexivity]. apply nonempty_filter_iff in E'. destruct E' as [x [H1 H2]].
    assert (nonempty (filter p l) = true) by (apply nonempty_filter_iff; exists x; split; auto; eapply Permutation_in; [apply Permutation_sym|]; eauto). congruence. Qed.
Lemma in_filter_perm {A} (p:A->bool) l l' x : Permutation l l' -> (In x (filter p l) <-> In x (filter p l')).
Proof. intros P. rewrite !filter_In. split; intros [H1 H2]; split; auto.
  - eapply Permutation_in; [exact P|exact H1].
  - eapply Permutation_in; [apply Permutation_sym; exact P|exact H1]. Qed.

(* ---------- pick: characterisation and permutation invariance without ties ---------- *)
Definition no_tie (l:list asg) := forall a b, In a l -> In b l -> ovl a = ovl b -> rstart a = rstart b -> a = b.
Definition best_in (a:asg) (l:list asg) := In a l /\ forall b, In b l -> b = a \/ better a b = true.

Lemma better_trans a b c : better a b = true -> better b c = true -> better a c = true.
Proof. unfold better. lia. Qed.
Lemma better_total a b : better a b = true \/ better b a = true \/ (ovl a = ovl b /\ rstart a = rstart b).
Proof. unfold better. lia. Qed.

Lemma pick_best l : no_tie l -> l <> [] -> exists a, pick l = Some a /\ best_in a l.
Proof. induction l as [|a t IH]; intros NT Hne; [congruence|]. cbn [pick].
  destruct t as [|a' t'].
  - exists a. simpl. split; [reflexivity|]. split; [left; reflexivity|]. intros b [Hb|[]]; left; auto.
  - assert (NT': no_tie (a'::t')) by (intros x y Hx Hy; apply NT; right; assumption).
    destruct (IH NT' ltac:(discriminate)) as [b [Hb [Hb1 Hb2]]]. rewrite Hb.
    destruct (better b a) eqn:E.
    + exists b. split; [reflexivity|]. split; [right; exact Hb1|]. intros c [Hc|Hc]; [subst; right; exact E|apply Hb2, Hc].
    + exists a. split; [reflexivity|]. split; [left; reflexivity|]. intros c [Hc|Hc]; [left; auto|].
      destruct (better_total a b) as [H|[H|[H1 H2]]].
      * destruct (Hb2 c Hc) as [->|H']; [right; exact H|right; eapply better_trans; eauto].
      * congruence.
      * assert (a = b) by (apply NT; [left; reflexivity|right; exact Hb1|exact H1|exact H2]). subst b.
        destruct (Hb2 c Hc) as [->|H']; [left; reflexivity|right; exact H']. Qed.

Lemma best_unique a b l : no_tie l -> best_in a l -> best_in b l -> a = b.
Proof. intros NT [Ha1 Ha2] [Hb1 Hb2]. destruct (Ha2 b Hb1) as [H|H]; [auto|]. destruct (Hb2 a Ha1) as [H'|H']; [auto|].
  unfold better in *. lia. Qed.

Lemma no_tie_perm l l' : Permutation l l' -> no_tie l -> no_tie l'.
Proof. intros P NT a b Ha Hb. apply NT; eapply Permutation_in; try apply Permutation_sym; eauto. Qed.
Lemma best_in_perm a l l' : Permutation l l' -> best_in a l -> best_in a l'.
Proof. intros P [H1 H2]. split; [eapply Permutation_in; eauto|]. intros b Hb. apply H2. eapply Permutation_in; [apply Permutation_sym|]; eauto. Qed.

Theorem pick_perm_invariant l l' : Permutation l l' -> no_tie l -> pick l = pick l'.
Proof. intros P NT. destruct l as [|x t].
  - apply Permutation_nil in P. subst. reflexivity.
  - assert (l' <> []) by (intros E; subst; apply Permutation_sym, Permutation_nil in P; discriminate).
    destruct (pick_best (x::t) NT ltac:(discriminate)) as [a [Ha Hba]].
    destruct (pick_best l' (no_tie_perm _ _ P NT) H) as [b [Hb Hbb]].
    rewrite Ha, Hb. f_equal. eapply best_unique; [exact NT|exact Hba|]. eapply best_in_perm; [apply Permutation_sym; exact P|exact Hbb]. Qed.

Lemma filter_perm {A} (p:A->bool) l l' : Permutation l l' -> Permutation (filter p l) (filter p l').
Proof. induction 1; simpl; auto.
  - destruct (p x); auto.
  - destruct (p x), (p y); auto. apply perm_swap.
  - eapply perm_trans; eauto. Qed.
Lemma no_tie_filter p l : no_tie l -> no_tie (filter p l).
Proof. intros NT a b Ha Hb. apply filter_In in Ha, Hb. apply NT; tauto. Qed.

(* ---------- the retained key set does not depend on the order of the records ---------- *)
Theorem resolve_perm_invariant l l' : Permutation l l' -> no_tie (filter is_non l) ->
  forall k, In k (kept_keys l) <-> In k (kept_keys l').
Proof. intros P NT k. unfold kept_keys, sel.
  rewrite <- (nonempty_filter_perm p_primary_unique l l' P), <- (nonempty_filter_perm is_cons l l' P),
          <- (nonempty_filter_perm p_primary_inc l l' P), <- (nonempty_filter_perm is_inc l l' P).
  rewrite <- (pick_perm_invariant _ _ (filter_perm is_non l l' P) NT).
  repeat match goal with |- context [if ?b then _ else _] => destruct b end;
  rewrite ?in_map_iff; try (split; intros [x [Hk Hx]]; exists x; (split; [exact Hk|]); [apply (in_filter_perm _ l l' x P)|apply (in_filter_perm _ l l' x P)]; exact Hx).
  reflexivity. Qed.

(* with a tie between uninformative records the choice follows the list order *)
Definition u1 := {| key := 1%N; typ := CNon; is_amb := false; secondary := false; ovl := 100; rstart := 50 |}.
Definition u2 := {| key := 2%N; typ := CNon; is_amb := false; secondary := false; ovl := 100; rstart := 50 |}.
Example uninformative_tie_refuted : kept_keys [u1; u2] = [1%N] /\ kept_keys [u2; u1] = [2%N].
Proof. vm_compute. split; reflexivity. Qed.
Print Assumptions resolve_perm_invariant.
