(* C19: Intervals.get_exon is get_exon of src/common.py as regenerated into gen/Loops.v (tools/translate_loops.py: the re-assignment of the
   parameter for negative positions as a shadowing let, Python indexing with wrap-around as py_index, the assert and the in-range conditions
   as py_get_exon_pre).  For all inputs, exceptions included. *)
From Coq Require Import ZArith NArith List Bool Lia ZifyBool.
From IQ.gen Require Import Prims Loops.
From IQ Require Import CorrSupport Intervals PyidxSupport.
Import ListNotations. Open Scope Z_scope.

Theorem get_exon_is_the_source reg J p :
  Intervals.get_exon reg J p =
  if negb (p <=? Z.of_nat (length J)) then Raises AssertionError
  else if py_get_exon_pre reg J p then Ok (py_get_exon reg J p) else Raises IndexError.
Proof. unfold get_exon, py_get_exon_pre, py_get_exon. cbv zeta.
  destruct (p <=? Z.of_nat (length J)); cbn [negb andb]; [|reflexivity].
  set (q := if p <? 0 then Z.of_nat (length J) + p + 1 else p).
  rewrite (pyidx_spec J 0 (0, 0)), (pyidx_spec J (-1) (0, 0)), (pyidx_spec J (q - 1) (0, 0)), (pyidx_spec J q (0, 0)).
  destruct (q =? 0); [destruct (py_index_ok J 0); reflexivity|].
  destruct (q =? Z.of_nat (length J)); [destruct (py_index_ok J (-1)); reflexivity|].
  destruct (py_index_ok J (q - 1)); cbn [andb]; [|reflexivity]. destruct (py_index_ok J q); reflexivity. Qed.
