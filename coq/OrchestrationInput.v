(* src/input_data_storage.py: how a list file (--bam_list / --fastq_list) and the structure loaded from a YAML file become experiments
   (InputDataStorage.get_samples_from_file / get_samples_from_yaml, check_input_type).  Strings are lists of code points; sys.exit(k)
   and exceptions are outcomes Raises k (1 = exit(-1), 2 = exit(-2), 3 = Exception from check_input_type).
   strict = true describes the code after fixes/C10_renamed_name_clash.diff (the replacement name of a duplicate must be free as well). *)
From Coq Require Import ZArith List Bool Lia.
From IQ Require Import CorrSupport GroupedGroupers.
Import ListNotations.
Open Scope Z_scope.

(* str(n) *)
Fixpoint dec_go (fuel : nat) (n : Z) (acc : str) : str :=
  match fuel with O => acc | Datatypes.S f => let acc' := (48 + n mod 10) :: acc in if n <? 10 then acc' else dec_go f (n / 10) acc' end.
Definition dec (n : Z) : str := dec_go 20 n [].
(* str.split() without arguments: maximal runs of non-whitespace *)
Fixpoint split_ws_go (s cur : str) (acc : list str) : list str :=
  match s with
  | [] => rev (match cur with [] => acc | _ => rev cur :: acc end)
  | c :: t => if is_ws c then split_ws_go t [] (match cur with [] => acc | _ => rev cur :: acc end) else split_ws_go t (c :: cur) acc
  end.
Definition split_ws (s : str) : list str := split_ws_go s [] [].
Definition mem_str (x : str) (l : list str) : bool := existsb (str_eqb x) l.

(* os.path.splitext(p)[1] *)
Definition splitext_ext (p : str) : str := let b := basename p in skipn (length (splitext_root b)) b.
Definition splitext_rootp (p : str) : str := firstn (length p - length (splitext_ext p)) p.
Definition lower_c (c : Z) : Z := if (65 <=? c) && (c <=? 90) then c + 32 else c.
Definition s_zip := [46;122;105;112]. Definition s_gz := [46;103;122]. Definition s_gzip := [46;103;122;105;112].
Definition s_bz2 := [46;98;122;50]. Definition s_bzip2 := [46;98;122;105;112;50].
Definition s_fastq := [46;102;97;115;116;113]. Definition s_fasta := [46;102;97;115;116;97]. Definition s_fa := [46;102;97].
Definition s_fq := [46;102;113]. Definition s_fna := [46;102;110;97]. Definition s_bam := [46;98;97;109].
(* check_input_type(fname, input_type): true = accepted, false = raises *)
Definition check_input_type (fname : str) (is_bam : bool) : bool :=
  let low := map lower_c fname in
  let inner := if mem_str (splitext_ext low) [s_zip; s_gz; s_gzip; s_bz2; s_bzip2] then splitext_rootp low else fname in
  let ext := splitext_ext inner in
  if mem_str ext [s_fastq; s_fasta; s_fa; s_fq; s_fna] then negb is_bam
  else if str_eqb ext s_bam then is_bam else false.

(* one experiment as SampleData sees it: prefix, file_list, readable_names_dict.items(), illumina_bam *)
Record sample := mks { sm_name : str; sm_libs : list (list str); sm_labels : list (str * str); sm_illumina : option (list str) }.
(* readable_names_dict: experiment name -> (file -> label), both insertion-ordered *)
Definition ndict := list (str * list (str * str)).
Fixpoint nd_get (d : ndict) (name : str) : list (str * str) :=
  match d with [] => [] | (n, m) :: t => if str_eqb n name then m else nd_get t name end.
Fixpoint set_label (m : list (str * str)) (f lab : str) : list (str * str) :=
  match m with [] => [(f, lab)] | (f', l') :: t => if str_eqb f' f then (f', lab) :: t else (f', l') :: set_label t f lab end.
Fixpoint nd_set (d : ndict) (name f lab : str) : ndict :=
  match d with
  | [] => [(name, [(f, lab)])]
  | (n, m) :: t => if str_eqb n name then (n, set_label m f lab) :: t else (n, m) :: nd_set t name f lab
  end.
Definition has_file (d : ndict) (name f : str) : bool := mem_str f (map fst (nd_get d name)).

(* ---------------------------------------------------------------- list file *)
Record lstate := mkl { l_files : list (list (list str)); l_names : list str; l_cur : list (list str); l_name : str; l_index : Z; l_dict : ndict }.
Definition flush (st : lstate) : lstate :=
  match l_cur st with
  | [] => st
  | _ => mkl (l_files st ++ [l_cur st]) (l_names st ++ [l_name st]) [] (l_name st) (l_index st) (l_dict st)
  end.
(* labels the files of one line; None = "used multiple times in a single experiment" *)
Fixpoint add_files (d : ndict) (name : str) (files : list str) (lab : str) : option ndict :=
  match files with
  | [] => Some d
  | f :: t => if has_file d name f then None else add_files (nd_set d name f lab) name t lab
  end.
Definition line_step (strict : bool) (prefix : str) (st : lstate) (l : str) : outcome lstate :=
  let s := strip l in
  if (match s with [] => true | _ => false end) || (match l with 35 :: _ => true | _ => false end) then
    let st1 := flush st in
    let nm0 := tl s in
    let dflt := prefix ++ dec (l_index st1) in
    let nm1 := match nm0 with [] => dflt | _ => nm0 end in
    if mem_str nm1 (l_names st1) then
      (if str_eqb nm1 dflt || (strict && mem_str dflt (l_names st1)) then Raises 1
       else Ok (mkl (l_files st1) (l_names st1) [] dflt (l_index st1 + 1) (l_dict st1)))
    else Ok (mkl (l_files st1) (l_names st1) [] nm1 (l_index st1 + 1) (l_dict st1))
  else
    let vals := split [58] s in
    let files := split_ws (hd [] vals) in
    match (if Nat.ltb 1 (length vals) then Some (last vals []) else match files with f0 :: _ => Some (readable_name f0) | [] => None end) with
    | None => Raises 4                                                  (* files[0] on an empty list: IndexError, not reachable *)
    | Some lab =>
      match add_files (l_dict st) (l_name st) files lab with
      | None => Raises 2
      | Some d => Ok (mkl (l_files st) (l_names st) (l_cur st ++ [files]) (l_name st) (l_index st) d)
      end
    end.
Fixpoint lines_run (strict : bool) (prefix : str) (st : lstate) (lines : list str) : outcome lstate :=
  match lines with
  | [] => Ok (flush st)
  | l :: t => match line_step strict prefix st l with Ok st' => lines_run strict prefix st' t | Raises k => Raises k end
  end.
Definition samples_of (files : list (list (list str))) (names : list str) (ill : list (option (list str))) (d : ndict) (is_bam : bool) : outcome (list sample) :=
  if forallb (fun smp => forallb (fun lib => forallb (fun f => check_input_type f is_bam) lib) smp) files
  then Ok (map (fun p => mks (snd (fst p)) (fst (fst p)) (nd_get d (snd (fst p))) (snd p)) (combine (combine files names) ill))
  else Raises 3.
(* InputDataStorage with args.bam_list = a file with these lines (each with its line terminator) and args.prefix = prefix *)
Definition parse_list (strict : bool) (prefix : str) (lines : list str) : outcome (list sample) :=
  match lines_run strict prefix (mkl [] [] [] prefix 0 []) lines with
  | Raises k => Raises k
  | Ok st => samples_of (l_files st) (l_names st) (map (fun _ => None) (l_files st)) (l_dict st) true
  end.

(* ---------------------------------------------------------------- YAML (after yaml.safe_load) *)
Record yentry := mky { y_name : option str; y_files : option (list str); y_labels : option (list str); y_illumina : option (list str) }.
Record ystate := mkys { ys_files : list (list (list str)); ys_names : list str; ys_ill : list (option (list str)); ys_index : Z; ys_dict : ndict }.
(* normalize_path for paths that are already normal: absolute paths stay, relative ones are joined to the directory of the YAML file *)
Definition norm_path (dir p : str) : str := match p with 47 :: _ => p | _ => dir ++ [47] ++ p end.
Fixpoint add_labeled (d : ndict) (name : str) (files : list str) (labels : option (list str)) : option ndict :=
  match files with
  | [] => Some d
  | f :: t =>
    let lab := match labels with Some (l :: _) => l | _ => readable_name f end in
    if has_file d name f then None else add_labeled (nd_set d name f lab) name t (match labels with Some ls => Some (tl ls) | None => None end)
  end.
Definition yaml_step (strict : bool) (prefix dir : str) (st : ystate) (e : yentry) : outcome ystate :=
  let dflt := prefix ++ dec (ys_index st) in
  let nm0 := match y_name e with Some n => n | None => dflt end in
  match (if mem_str nm0 (ys_names st) then (if str_eqb nm0 dflt || (strict && mem_str dflt (ys_names st)) then None else Some dflt) else Some nm0) with
  | None => Raises 1
  | Some nm =>
    match y_files e with
    | None => Raises 2
    | Some fs =>
      let cur := map (norm_path dir) fs in
      if (match y_labels e with Some ls => negb (Nat.eqb (length ls) (length cur)) | None => false end) then Raises 2
      else match add_labeled (ys_dict st) nm cur (y_labels e) with
           | None => Raises 2
           | Some d =>
             match cur with
             | [] => Ok (mkys (ys_files st) (ys_names st) (ys_ill st) (ys_index st + 1) d)
             | _ => Ok (mkys (ys_files st ++ [map (fun s => [s]) cur]) (ys_names st ++ [nm])
                             (ys_ill st ++ [match y_illumina e with Some l => Some (map (norm_path dir) l) | None => None end]) (ys_index st + 1) d)
             end
           end
    end
  end.
Fixpoint yaml_run (strict : bool) (prefix dir : str) (st : ystate) (es : list yentry) : outcome ystate :=
  match es with [] => Ok st | e :: t => match yaml_step strict prefix dir st e with Ok st' => yaml_run strict prefix dir st' t | Raises k => Raises k end end.
(* fmt: the value of 'data format' in the first entry (None: key missing): 0 = bam, 1 = fastq/fasta, 2 = anything else *)
Definition parse_yaml (strict : bool) (prefix dir : str) (fmt : option Z) (es : list yentry) : outcome (list sample) :=
  match fmt with
  | None => Raises 2
  | Some k => if (k =? 0) || (k =? 1) then
                match yaml_run strict prefix dir (mkys [] [] [] 0 []) es with
                | Raises j => Raises j
                | Ok st => samples_of (ys_files st) (ys_names st) (ys_ill st) (ys_dict st) (k =? 0)
                end
              else Raises 1
  end.

(* ---------------------------------------------------------------- comparison with the implementation, and the C10 reading *)
Definition strs_eqb := list_eqb str_eqb.
Definition labels_eqb := list_eqb (pair_eqb str_eqb str_eqb).
Definition sample_data_eqb (a b : sample) : bool :=
  list_eqb strs_eqb (sm_libs a) (sm_libs b) && labels_eqb (sm_labels a) (sm_labels b) && opt_eqb strs_eqb (sm_illumina a) (sm_illumina b).
Definition sample_eqb (a b : sample) : bool := str_eqb (sm_name a) (sm_name b) && sample_data_eqb a b.
Definition samples_eqb := outcome_eqb (list_eqb sample_eqb).
(* every experiment of the whole description has the files, labels and short-read files that its own block, parsed alone, gives
   (names may differ: unnamed and renamed experiments are numbered by position), and no two experiments share a name
   (= an output directory) *)
Fixpoint forall2b {A B} (p : A -> B -> bool) (x : list A) (y : list B) : bool :=
  match x, y with [], [] => true | a :: s, b :: t => p a b && forall2b p s t | _, _ => false end.
Fixpoint names_distinct (l : list str) : bool := match l with [] => true | x :: t => negb (mem_str x t) && names_distinct t end.
Definition blocks_independent (whole : outcome (list sample)) (alone : list (outcome (list sample))) : bool :=
  match whole with
  | Raises _ => true
  | Ok ws => names_distinct (map sm_name ws) && forall2b (fun w a => match a with Ok [s] => sample_data_eqb w s | _ => false end) ws
                      (filter (fun a => match a with Ok [] => false | _ => true end) alone)
  end.
