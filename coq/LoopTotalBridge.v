(* C19: Intervals.total is intervals_total_length of src/common.py as regenerated into gen/Loops.v (tools/translate_loops.py, on every
   check): a fold_left over the list.  For all inputs. *)
From Coq Require Import ZArith NArith List Bool Lia ZifyBool.
From IQ.gen Require Import Prims Loops.
From IQ Require Import CorrSupport Intervals.
Import ListNotations. Open Scope Z_scope.

Lemma total_fold l : forall a, fold_left (py_intervals_total_length_step l) l a = a + total l.
Proof. generalize l at 1. intros l0. induction l as [|x t IH]; intros a; cbn [fold_left total]; [lia|].
  rewrite IH. unfold py_intervals_total_length_step. lia. Qed.
Theorem total_is_the_source l : Intervals.total l = py_intervals_total_length l.
Proof. unfold py_intervals_total_length. rewrite total_fold. lia. Qed.

