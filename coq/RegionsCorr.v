(* C05: executable adapters and decidable specifications evaluated by the correspondence (harness/props/c05.py).
   `*_model` runs the model of Regions.v on an input printed by the harness, `*_prop` is the property's decidable
   specification evaluated on the IMPLEMENTATION's output.
   The unsuffixed names are for the code after fixes/C05_first_subregion_start.diff (first sub-region starts at
   genomic_region[0]); `*_prev` are for the code before it (model split_regions_prev / forward_prev, specification with the
   one-base-on-a-bin-boundary exemption).  harness/props/c05.py detects which variant is checked out. *)
From Coq Require Import ZArith List Bool Lia ZifyBool.
From IQ Require Import CorrSupport Regions.
From IQ.gen Require Import Prims Tables.
Import ListNotations. Open Scope Z_scope.

(* the six constants: COVERAGE_BIN, MAX_REGION_LEN, MIN_READS_TO_SPLIT, ABS_COV_VALLEY, REL_COV_VALLEY = RN / RD *)
Notation consts := (Z*Z*Z*Z*Z*Z)%type.
Definition iq_consts : consts := (AP_COVERAGE_BIN, AP_MAX_REGION_LEN, AP_MIN_READS_TO_SPLIT, AP_ABS_COV_VALLEY, iqRN, iqRD).
Definition consts_eqb (a b:consts) : bool :=
  let '(a1, a2, a3, a4, a5, a6) := a in let '(b1, b2, b3, b4, b5, b6) := b in
  (a1 =? b1) && (a2 =? b2) && (a3 =? b3) && (a4 =? b4) && (a5 * b6 =? b5 * a6) && (0 <? a6) && (0 <? b6).
Definition cBIN (k:consts) : Z := let '(b, _, _, _, _, _) := k in b.

(* ---------------------------------------------------------------- split_coverage_regions on an arbitrary coverage_dict *)
Definition lookup (d:list (Z*Z)) (p:Z) : Z := match assoc d p with Some v => v | None => 0 end.
Definition kmin (d:list (Z*Z)) : Z := match d with [] => 0 | kv :: t => fold_left (fun m x => Z.min m (fst x)) t (fst kv) end.
Definition kmax (d:list (Z*Z)) : Z := match d with [] => 0 | kv :: t => fold_left (fun m x => Z.max m (fst x)) t (fst kv) end.
Definition regs_eqb := list_eqb iv_eqb.
(* case: (constants, region, read count, coverage_dict items) *)
Notation split_in := (consts * iv * Z * list (Z*Z))%type.
Definition split_model (c:split_in) : outcome (list iv) :=
  let '(k, r, cnt, d) := c in let '(B, ML, MR, AV, RN, RD) := k in
  match split_regions B ML MR AV RN RD r cnt (lookup d) (kmin d) (kmax d) with Some l => Ok l | None => Raises 9 end.
Definition split_model_cur (c:split_in) : outcome (list iv) :=
  let '(k, r, cnt, d) := c in let '(B, ML, MR, AV, RN, RD) := k in
  match split_regions_cur B ML MR AV RN RD r cnt (lookup d) (kmin d) (kmax d) with Some l => Ok l | None => Raises 9 end.
Definition split_model_prev (c:split_in) : outcome (list iv) :=
  let '(k, r, cnt, d) := c in let '(B, ML, MR, AV, RN, RD) := k in
  match split_regions_prev B ML MR AV RN RD r cnt (lookup d) (kmin d) (kmax d) with Some l => Ok l | None => Raises 9 end.
Definition split_check (c:split_in * outcome (list iv)) : bool := outcome_eqb regs_eqb (split_model (fst c)) (snd c).
Definition split_check_prev (c:split_in * outcome (list iv)) : bool := outcome_eqb regs_eqb (split_model_prev (fst c)) (snd c).

Fixpoint chainb (lo hi:Z) (regs:list iv) : bool :=
  match regs with [] => lo =? hi + 1 | r :: t => (fst r =? lo) && (fst r <=? snd r) && (snd r <=? hi) && chainb (snd r + 1) hi t end.
Lemma chainb_iff : forall regs lo hi, chainb lo hi regs = true <-> chain lo hi regs.
Proof. induction regs as [|r t IH]; intros lo hi; cbn [chainb chain]; [lia|]. rewrite !andb_true_iff, IH, Z.eqb_eq, !Z.leb_le. tauto. Qed.
(* split_regions_tile, decidable: consecutive non-empty sub-regions from r0 to r1 (the whole region is such a chain) *)
Definition tile_ok (r:iv) (regs:list iv) : bool := chainb (fst r) (snd r) regs.
Definition split_prop (c:split_in * outcome (list iv)) : bool :=
  let '(k, r, _, _) := fst c in match snd c with Ok regs => tile_ok r regs | Raises _ => false end.
(* split_regions_tile_prev, decidable: the whole region, or consecutive non-empty sub-regions from max(bin start + 1, r0) to r1 *)
Definition tile_ok_prev (B:Z) (r:iv) (regs:list iv) : bool :=
  regs_eqb regs [r] || chainb (Z.max (fst r / B * B + 1) (fst r)) (snd r) regs.
Definition split_prop_prev (c:split_in * outcome (list iv)) : bool :=
  let '(k, r, _, _) := fst c in match snd c with Ok regs => tile_ok_prev (cBIN k) r regs | Raises _ => false end.

(* ---------------------------------------------------------------- process(): clustering + forward_alignments + statistics *)
Definition ids (l:list aln) : list Z := map (fun a => snd a) l.
Notation pout := (list (iv * list Z))%type.
Fixpoint run_clusters (fw:list aln -> option (list (iv * list aln))) (cs:list (list aln)) : outcome pout :=
  match cs with
  | [] => Ok []
  | c :: t => match fw c with
              | None => Raises 3       (* KeyError in the index look-up *)
              | Some o => match run_clusters fw t with Ok rest => Ok (map (fun ra => (fst ra, ids (snd ra))) o ++ rest) | e => e end
              end
  end.
(* case: (constants, high_memory, records (start, end, id), flags (flag, reference_id, mapq)) *)
Notation proc_in := (consts * bool * list aln * list brec)%type.
Definition proc_model (c:proc_in) : outcome pout * (Z*Z*Z) :=
  let '(k, hm, file, recs) := c in let '(B, ML, MR, AV, RN, RD) := k in
  (run_clusters (forward B ML MR AV RN RD (if hm then HighMem else Default) file) (process file), stats recs).
Definition proc_model_cur (c:proc_in) : outcome pout * (Z*Z*Z) :=
  let '(k, hm, file, recs) := c in let '(B, ML, MR, AV, RN, RD) := k in
  (run_clusters (forward_cur B ML MR AV RN RD (if hm then HighMem else Default) file) (process file), stats recs).
Definition proc_model_prev (c:proc_in) : outcome pout * (Z*Z*Z) :=
  let '(k, hm, file, recs) := c in let '(B, ML, MR, AV, RN, RD) := k in
  (run_clusters (forward_prev B ML MR AV RN RD (if hm then HighMem else Default) file) (process file), stats recs).
Definition pout_eqb := list_eqb (pair_eqb iv_eqb zs_eqb).
Definition stat_eqb (a b:Z*Z*Z) : bool := let '(a1, a2, a3) := a in let '(b1, b2, b3) := b in (a1 =? b1) && (a2 =? b2) && (a3 =? b3).
Definition proc_check (c:proc_in * (outcome pout * (Z*Z*Z))) : bool :=
  let m := proc_model (fst c) in outcome_eqb pout_eqb (fst m) (fst (snd c)) && stat_eqb (snd m) (snd (snd c)).
Definition proc_check_prev (c:proc_in * (outcome pout * (Z*Z*Z))) : bool :=
  let m := proc_model_prev (fst c) in outcome_eqb pout_eqb (fst m) (fst (snd c)) && stat_eqb (snd m) (snd (snd c)).

Fixpoint increasing (prev:Z) (regs:list iv) : bool :=
  match regs with [] => true | r :: t => (prev <? fst r) && (fst r <=? snd r) && increasing (snd r) t end.
Definition one_base_on_boundary (B:Z) (a:aln) : bool := (rs a mod B =? 0) && (re a =? rs a + 1).
(* on the implementation's output: every region gets exactly the records that overlap it, in file order; regions ascend
   without overlap; every record (`exempt`: except ...) is handed out at least once; statistics = category counts *)
Definition proc_prop_with (exempt:Z -> aln -> bool) (c:proc_in * (outcome pout * (Z*Z*Z))) : bool :=
  let '(k, hm, file, recs) := fst c in
  match fst (snd c) with
  | Raises _ => false
  | Ok out =>
      forallb (fun e => zs_eqb (ids (filter (fun a => py_overlaps (fst e) (span a)) file)) (snd e)) out
      && increasing (-1) (map fst out)
      && forallb (fun a => exempt (cBIN k) a || existsb (fun e => existsb (Z.eqb (snd a)) (snd e)) out) file
      && stat_eqb (snd (snd c)) (count cat_primary recs, count cat_secondary recs, count cat_supplementary recs)
  end.
(* repaired code: EVERY record is handed out at least once *)
Definition proc_prop := proc_prop_with (fun _ _ => false).
(* before fixes/C05_first_subregion_start.diff: except the one-base corner *)
Definition proc_prop_prev := proc_prop_with one_base_on_boundary.

(* ---------------------------------------------------------------- in-memory index after fill_index *)
(* case: (BIN, stored records) -> (alignment_start_index items, alignment_end_index items) sorted by bin *)
Definition index_model (c:Z * list aln) : option (list (Z*Z) * list (Z*Z)) :=
  let '(B, l) := c in match hull_of l with None => None | Some whole => let '(s, e) := mem_index B whole l in Some (rev s, rev e) end.
Definition zz_eqb := list_eqb iv_eqb.
Definition index_check (c:(Z * list aln) * (list (Z*Z) * list (Z*Z))) : bool :=
  match index_model (fst c) with Some (s, e) => zz_eqb s (fst (snd c)) && zz_eqb e (snd (snd c)) | None => false end.
(* start index at bin p = number of records starting before bin p; end index at p = first record ending in bin >= p *)
Definition index_prop (c:(Z * list aln) * (list (Z*Z) * list (Z*Z))) : bool :=
  let '(B, l) := fst c in
  forallb (fun pv => snd pv =? Z.of_nat (length (filter (fun a => rs a / B <? fst pv) l))) (fst (snd c))
  && forallb (fun pv => match first_index (fun a => fst pv <=? (re a - 1) / B) l 0 with Some i => snd pv =? i | None => snd pv =? Z.of_nat (length l) end) (snd (snd c)).

(* ---------------------------------------------------------------- find_duplicates on BasicReadAssignment records *)
(* case: (keys of the WHOLE assignment list, assignment_indices as passed by the caller: any sub-list of the positions, in any
   order) -> the assignment indices find_duplicates selected *)
Definition nthk (l:list akey) (i:Z) : akey := nth (Z.to_nat i) l (0, 0, 0, 0, []).
Definition dedup_model (c:list akey * list Z) : list Z :=
  map fst (dedup (fun a b => akey_eqb (snd a) (snd b)) (map (fun i => (i, nthk (fst c) i)) (snd c))).
Definition dedup_check (c:(list akey * list Z) * list Z) : bool := zs_eqb (dedup_model (fst c)) (snd c).
Fixpoint distinctb (l:list akey) : bool := match l with [] => true | x :: t => negb (existsb (akey_eqb x) t) && distinctb t end.
(* the selected records are pairwise different, every record named by assignment_indices has an equal selected one, and only
   indices that were passed are selected *)
Definition dedup_prop (c:(list akey * list Z) * list Z) : bool :=
  let keys := fst (fst c) in let idx := snd (fst c) in
  let kept := map (nthk keys) (snd c) in
  distinctb kept && forallb (fun i => existsb (akey_eqb (nthk keys i)) kept) idx
  && forallb (fun i => existsb (Z.eqb i) idx) (snd c).

(* ---------------------------------------------------------------- accounting_ok on the files of a pipeline run *)
(* input records: (read id, (flag, reference_id, mapq)); cut-offs: (no_secondary, min_mapq, inconsistent, simple) *)
Definition mem (x:Z) (l:list Z) : bool := existsb (Z.eqb x) l.
Definition subset (a b:list Z) : bool := forallb (fun x => mem x b) a.
Fixpoint nodupb (l:list Z) : bool := match l with [] => true | x :: t => negb (mem x t) && nodupb t end.
Definition is_unmapped (b:brec) : bool := Z.testbit (b_flag b) 2.
Record acc_case := {
  ac_input : list (Z * brec);
  ac_cut : bool * Z * Z * Z;
  ac_bed : list Z;                 (* read ids of corrected_reads.bed, one per line *)
  ac_tsv : option (list Z);        (* read ids of read_assignments.tsv, one per line (annotated runs) *)
  ac_bed_lines : list Z;           (* whole lines, interned *)
  ac_tsv_lines : list Z;
  ac_log : Z * Z * Z * Z           (* primary, secondary, supplementary, unaligned as logged *)
}.
Definition accounting_ok (c:acc_case) : bool :=
  let '(ns, mq, ic, sc) := ac_cut c in
  let must := map fst (filter (fun r => must_pass ns mq ic sc (snd r)) (ac_input c)) in
  let may := map fst (filter (fun r => may_pass ns mq (snd r)) (ac_input c)) in
  let ok_ids := fun l => subset must l && subset l may in
  ok_ids (ac_bed c) && match ac_tsv c with Some l => ok_ids l | None => true end
  && nodupb (ac_bed_lines c) && nodupb (ac_tsv_lines c)
  && (let '(p, s, u) := stats (map snd (ac_input c)) in let '(lp, ls, lu, ln) := ac_log c in
      (p =? lp) && (s =? ls) && (u =? lu) && (ln =? count is_unmapped (map snd (ac_input c)))).
