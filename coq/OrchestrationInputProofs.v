(* Proofs about the input-description model (OrchestrationInput.v): with the repaired renaming rule no two experiments share a name. *)
From Coq Require Import ZArith List Bool Lia.
From IQ Require Import CorrSupport GroupedGroupers OrchestrationInput.
Import ListNotations.
Open Scope Z_scope.

Lemma mem_str_In x l : mem_str x l = true <-> In x l.
Proof. unfold mem_str. rewrite existsb_exists. split; [intros [y [Hy E]]; apply str_eqb_eq in E; subst; exact Hy|intros H; exists x; split; [exact H|apply str_eqb_eq; reflexivity]]. Qed.
Lemma mem_str_false x l : mem_str x l = false <-> ~ In x l.
Proof. rewrite <- mem_str_In. destruct (mem_str x l); split; intros; congruence. Qed.
Lemma NoDup_snoc_str (l : list str) x : NoDup l -> ~ In x l -> NoDup (l ++ [x]).
Proof. induction l as [|a l IH]; intros ND Hn; cbn [app]; [constructor; [intros []|constructor]|].
  inversion ND; subst. constructor.
  - intros Hi. apply in_app_or in Hi. destruct Hi as [Hi|[E|[]]]; [contradiction|subst; apply Hn; left; reflexivity].
  - apply IH; [assumption|intros Hi; apply Hn; right; exact Hi]. Qed.

(* ---- list files: the names of the experiments parsed so far are pairwise different, and the pending name is none of them *)
Definition linv (st : lstate) : Prop :=
  NoDup (l_names st) /\ ~ In (l_name st) (l_names st) /\ length (l_files st) = length (l_names st).
Lemma flush_names st : linv st -> NoDup (l_names (flush st)) /\ length (l_files (flush st)) = length (l_names (flush st)).
Proof. intros [H1 [H2 H3]]. unfold flush. destruct (l_cur st); cbn [l_names l_files]; [split; assumption|].
  split; [apply NoDup_snoc_str; assumption|rewrite !app_length, H3; reflexivity]. Qed.
Lemma line_step_inv prefix st l st' : linv st -> line_step true prefix st l = Ok st' -> linv st'.
Proof.
  intros HI H. unfold line_step in H.
  destruct ((match strip l with [] => true | _ => false end) || (match l with 35 :: _ => true | _ => false end)).
  - destruct (flush_names st HI) as [F1 F2]. set (st1 := flush st) in *.
    set (dflt := prefix ++ dec (l_index st1)) in *. set (nm1 := match tl (strip l) with [] => dflt | _ => tl (strip l) end) in *.
    destruct (mem_str nm1 (l_names st1)) eqn:E1.
    + destruct (str_eqb nm1 dflt || (true && mem_str dflt (l_names st1))) eqn:E2; [discriminate|]. inversion H; subst st'. clear H.
      apply orb_false_iff in E2. destruct E2 as [_ E2]. cbn [andb] in E2. apply mem_str_false in E2.
      unfold linv. cbn [l_names l_name l_files]. split; [exact F1|split; [exact E2|exact F2]].
    + inversion H; subst st'. clear H. apply mem_str_false in E1. unfold linv. cbn [l_names l_name l_files]. split; [exact F1|split; [exact E1|exact F2]].
  - destruct (if Nat.ltb 1 (length (split [58] (strip l))) then _ else _) as [lab|]; [|discriminate].
    destruct (add_files (l_dict st) (l_name st) (split_ws (hd [] (split [58] (strip l)))) lab); [|discriminate].
    inversion H; subst st'. exact HI.
Qed.
Lemma lines_run_inv prefix : forall lines st st', linv st -> lines_run true prefix st lines = Ok st' ->
  NoDup (l_names st') /\ length (l_files st') = length (l_names st').
Proof.
  induction lines as [|l t IH]; intros st st' HI H; cbn [lines_run] in H.
  - inversion H; subst. apply flush_names. exact HI.
  - destruct (line_step true prefix st l) as [st1|k] eqn:E; [|discriminate]. apply (IH st1 st'); [apply (line_step_inv prefix st l st1 HI E)|exact H].
Qed.
Lemma samples_of_names files names ill d b samples : length files = length names -> length ill = length files ->
  samples_of files names ill d b = Ok samples -> map sm_name samples = names.
Proof.
  intros L1 L2 H. unfold samples_of in H. destruct (forallb _ files); [|discriminate]. inversion H; subst. clear H.
  rewrite map_map. cbn [sm_name]. revert names ill L1 L2. induction files as [|f fs IH]; intros names ill L1 L2; destruct names as [|n ns]; try discriminate; [reflexivity|].
  destruct ill as [|i is]; [discriminate|]. cbn [combine map fst snd]. f_equal. apply IH; [inversion L1; reflexivity|inversion L2; reflexivity].
Qed.
(* repaired code: no two experiments of a list file share a name (= an output directory) *)
Theorem list_experiment_names_distinct : forall prefix lines samples, parse_list true prefix lines = Ok samples -> NoDup (map sm_name samples).
Proof.
  intros prefix lines samples H. unfold parse_list in H.
  destruct (lines_run true prefix (mkl [] [] [] prefix 0 []) lines) as [st|k] eqn:E; [|discriminate].
  assert (HI : linv (mkl [] [] [] prefix 0 [])) by (unfold linv; cbn; split; [constructor|split; [intros []|reflexivity]]).
  destruct (lines_run_inv prefix lines _ st HI E) as [ND L].
  rewrite (samples_of_names _ _ _ _ _ _ L (map_length _ _) H). exact ND.
Qed.

(* ---- YAML *)
Definition yinv (st : ystate) : Prop := NoDup (ys_names st) /\ length (ys_files st) = length (ys_names st) /\ length (ys_ill st) = length (ys_files st).
Lemma yaml_step_inv prefix dir st e st' : yinv st -> yaml_step true prefix dir st e = Ok st' -> yinv st'.
Proof.
  intros [H1 [H2 H3]] H. unfold yaml_step in H.
  set (dflt := prefix ++ dec (ys_index st)) in *. set (nm0 := match y_name e with Some n => n | None => dflt end) in *.
  destruct (if mem_str nm0 (ys_names st) then _ else Some nm0) as [nm|] eqn:En; [|discriminate].
  assert (Hnm : ~ In nm (ys_names st)).
  { destruct (mem_str nm0 (ys_names st)) eqn:E1.
    - destruct (str_eqb nm0 dflt || (true && mem_str dflt (ys_names st))) eqn:E2; [discriminate|]. inversion En; subst nm.
      apply orb_false_iff in E2. destruct E2 as [_ E2]. cbn [andb] in E2. apply mem_str_false. exact E2.
    - inversion En; subst nm. apply mem_str_false. exact E1. }
  destruct (y_files e) as [fs|]; [|discriminate].
  destruct (match y_labels e with Some ls => _ | None => false end); [discriminate|].
  destruct (add_labeled (ys_dict st) nm (map (norm_path dir) fs) (y_labels e)); [|discriminate].
  destruct (map (norm_path dir) fs) as [|c cs]; inversion H; subst st'; unfold yinv; cbn [ys_names ys_files ys_ill].
  - split; [exact H1|split; [exact H2|exact H3]].
  - split; [apply NoDup_snoc_str; assumption|]. rewrite !app_length. cbn [length]. split; lia.
Qed.
Lemma yaml_run_inv prefix dir : forall es st st', yinv st -> yaml_run true prefix dir st es = Ok st' -> yinv st'.
Proof. induction es as [|e t IH]; intros st st' HI H; cbn [yaml_run] in H; [inversion H; subst; exact HI|].
  destruct (yaml_step true prefix dir st e) as [st1|k] eqn:E; [|discriminate]. apply (IH st1 st'); [apply (yaml_step_inv prefix dir st e st1 HI E)|exact H]. Qed.
Theorem yaml_experiment_names_distinct : forall prefix dir fmt es samples, parse_yaml true prefix dir fmt es = Ok samples -> NoDup (map sm_name samples).
Proof.
  intros prefix dir fmt es samples H. unfold parse_yaml in H. destruct fmt as [k|]; [|discriminate].
  destruct ((k =? 0) || (k =? 1)); [|discriminate].
  destruct (yaml_run true prefix dir (mkys [] [] [] 0 []) es) as [st|j] eqn:E; [|discriminate].
  assert (HI : yinv (mkys [] [] [] 0 [])) by (unfold yinv; cbn; split; [constructor|split; reflexivity]).
  destruct (yaml_run_inv prefix dir es _ st HI E) as [ND [L1 L2]].
  rewrite (samples_of_names _ _ _ _ _ _ L1 L2 H). exact ND.
Qed.
(* current code: the duplicate "A" is renamed P2 although the first experiment is called P2 *)
Example list_experiment_names_current_code_refuted :
  match parse_list false [80] [[35;80;50;10]; [97;46;98;97;109;10]; [35;65;10]; [120;49;46;98;97;109;10]; [35;65;10]; [120;50;46;98;97;109;10]] with
  | Ok [s1; s2; s3] => sm_name s1 = [80; 50] /\ sm_name s3 = [80; 50]
  | _ => False
  end.
Proof. vm_compute. split; reflexivity. Qed.
Example list_experiment_names_repaired_on_the_witness :
  parse_list true [80] [[35;80;50;10]; [97;46;98;97;109;10]; [35;65;10]; [120;49;46;98;97;109;10]; [35;65;10]; [120;50;46;98;97;109;10]] = Raises 1.
Proof. reflexivity. Qed.
