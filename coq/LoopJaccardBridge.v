(* C19: Intervals.jaccard is jaccard_similarity of src/common.py as regenerated into gen/Loops.v (tools/translate_loops.py, while fragment: three
   loops in sequence as Fixpoints on fuel over the state (union, intersection, pos1, pos2, included1, included2), the asserts and every
   subscript checked).  Simulation: the unprocessed suffixes are skipn pos1 A / skipn pos2 B, the model's two flags are the `included` entries of
   the current heads, the entries after them are 0.  For all inputs and every fuel above len(A) + len(B); the float quotient is the exact
   rational of the model's (intersection, union) pair. *)
From Coq Require Import ZArith NArith QArith List Bool Lia ZifyBool.
From IQ.gen Require Import Prims Loops.
From IQ Require Import CorrSupport Intervals LoopsSupport LoopsIndexSupport LoopsRunSupport LoopsRangeSupport LoopSweepSupport.
Import ListNotations. Open Scope Z_scope.

Section J.
Variables A B : list iv.
Notation nA := (length A). Notation nB := (length B).
Notation st := (Z * Z * Z * Z * list Z * list Z)%type.

(* ---- the two trailing loops *)
Lemma loop2_zeros : forall f k u it pj inc1 inc2, (k <= nA)%nat -> (nA - k < f)%nat -> length inc1 = nA ->
  (forall m, (k <= m < nA)%nat -> nth m inc1 0 = 0) ->
  py_jaccard_similarity_loop2 A B f (u, it, Z.of_nat k, pj, inc1, inc2) = py_Done (u + total (skipn k A), it, Z.of_nat nA, pj, inc1, inc2).
Proof. induction f as [|f IH]; intros k u it pj inc1 inc2 Hk Hf L Z0; [lia|]. cbn [py_jaccard_similarity_loop2].
  destruct (Nat.eq_dec k nA) as [->|Ne].
  - replace (Z.of_nat nA <? Z.of_nat nA) with false by lia. rewrite skipn_all. cbn [total]. rewrite Z.add_0_r. reflexivity.
  - assert (Lk: (k < nA)%nat) by lia. replace (Z.of_nat k <? Z.of_nat nA) with true by lia.
    rewrite (index_ok_nat inc1 k) by lia. rewrite (py_index_nonneg inc1 k 0), (Z0 k) by lia. replace (0 =? 0) with true by reflexivity.
    rewrite (index_ok_nat A k Lk), (py_index_nonneg A k (0, 0)). cbn [py_bind]. replace (Z.of_nat k + 1) with (Z.of_nat (S k)) by lia.
    rewrite IH by (try lia; intros; apply Z0; lia). rewrite (skipn_nth_cons A k (0, 0) Lk).
    match goal with |- py_Done (?x, _, _, _, _, _) = py_Done (?y, _, _, _, _, _) => replace y with x by (cbn [total]; unfold py_interval_len; lia) end. reflexivity. Qed.
Lemma loop3_zeros : forall f k u it pi inc1 inc2, (k <= nB)%nat -> (nB - k < f)%nat -> length inc2 = nB ->
  (forall m, (k <= m < nB)%nat -> nth m inc2 0 = 0) ->
  py_jaccard_similarity_loop3 A B f (u, it, pi, Z.of_nat k, inc1, inc2) = py_Done (u + total (skipn k B), it, pi, Z.of_nat nB, inc1, inc2).
Proof. induction f as [|f IH]; intros k u it pi inc1 inc2 Hk Hf L Z0; [lia|]. cbn [py_jaccard_similarity_loop3].
  destruct (Nat.eq_dec k nB) as [->|Ne].
  - replace (Z.of_nat nB <? Z.of_nat nB) with false by lia. rewrite skipn_all. cbn [total]. rewrite Z.add_0_r. reflexivity.
  - assert (Lk: (k < nB)%nat) by lia. replace (Z.of_nat k <? Z.of_nat nB) with true by lia.
    rewrite (index_ok_nat inc2 k) by lia. rewrite (py_index_nonneg inc2 k 0), (Z0 k) by lia. replace (0 =? 0) with true by reflexivity.
    rewrite (index_ok_nat B k Lk), (py_index_nonneg B k (0, 0)). cbn [py_bind]. replace (Z.of_nat k + 1) with (Z.of_nat (S k)) by lia.
    rewrite IH by (try lia; intros; apply Z0; lia). rewrite (skipn_nth_cons B k (0, 0) Lk).
    match goal with |- py_Done (?x, _, _, _, _, _) = py_Done (?y, _, _, _, _, _) => replace y with x by (cbn [total]; unfold py_interval_len; lia) end. reflexivity. Qed.

(* with the head's flag *)
Lemma loop2_head f i u it pj inc1 inc2 i1 : (i <= nA)%nat -> (nA - i < f)%nat -> length inc1 = nA ->
  ((i < nA)%nat -> nth i inc1 0 = b2z i1) -> (forall m, (i < m < nA)%nat -> nth m inc1 0 = 0) ->
  py_jaccard_similarity_loop2 A B f (u, it, Z.of_nat i, pj, inc1, inc2) = py_Done (u + rest i1 (skipn i A), it, Z.of_nat nA, pj, inc1, inc2).
Proof. intros Hi Hf L H1 Z0. destruct f as [|f]; [lia|]. destruct (Nat.eq_dec i nA) as [->|Ne].
  - cbn [py_jaccard_similarity_loop2]. replace (Z.of_nat nA <? Z.of_nat nA) with false by lia. rewrite skipn_all. destruct i1; cbn [rest tl total]; rewrite Z.add_0_r; reflexivity.
  - assert (Li: (i < nA)%nat) by lia. destruct i1.
    + cbn [py_jaccard_similarity_loop2]. replace (Z.of_nat i <? Z.of_nat nA) with true by lia.
      rewrite (index_ok_nat inc1 i) by lia. rewrite (py_index_nonneg inc1 i 0), (H1 Li). cbn [b2z]. replace (1 =? 0) with false by reflexivity.
      cbn [py_bind]. replace (Z.of_nat i + 1) with (Z.of_nat (S i)) by lia.
      rewrite loop2_zeros by (try lia; intros; apply Z0; lia). rewrite (skipn_nth_cons A i (0, 0) Li). reflexivity.
    + rewrite loop2_zeros; [reflexivity|lia|lia|exact L|]. intros m Hm. destruct (Nat.eq_dec m i) as [->|]; [apply (H1 Li)|apply Z0; lia]. Qed.
Lemma loop3_head f j u it pi inc1 inc2 i2 : (j <= nB)%nat -> (nB - j < f)%nat -> length inc2 = nB ->
  ((j < nB)%nat -> nth j inc2 0 = b2z i2) -> (forall m, (j < m < nB)%nat -> nth m inc2 0 = 0) ->
  py_jaccard_similarity_loop3 A B f (u, it, pi, Z.of_nat j, inc1, inc2) = py_Done (u + rest i2 (skipn j B), it, pi, Z.of_nat nB, inc1, inc2).
Proof. intros Hj Hf L H1 Z0. destruct f as [|f]; [lia|]. destruct (Nat.eq_dec j nB) as [->|Ne].
  - cbn [py_jaccard_similarity_loop3]. replace (Z.of_nat nB <? Z.of_nat nB) with false by lia. rewrite skipn_all. destruct i2; cbn [rest tl total]; rewrite Z.add_0_r; reflexivity.
  - assert (Lj: (j < nB)%nat) by lia. destruct i2.
    + cbn [py_jaccard_similarity_loop3]. replace (Z.of_nat j <? Z.of_nat nB) with true by lia.
      rewrite (index_ok_nat inc2 j) by lia. rewrite (py_index_nonneg inc2 j 0), (H1 Lj). cbn [b2z]. replace (1 =? 0) with false by reflexivity.
      cbn [py_bind]. replace (Z.of_nat j + 1) with (Z.of_nat (S j)) by lia.
      rewrite loop3_zeros by (try lia; intros; apply Z0; lia). rewrite (skipn_nth_cons B j (0, 0) Lj). reflexivity.
    + rewrite loop3_zeros; [reflexivity|lia|lia|exact L|]. intros m Hm. destruct (Nat.eq_dec m j) as [->|]; [apply (H1 Lj)|apply Z0; lia]. Qed.

(* ---- the model's value from a state, with the accumulators of the source added *)
Definition Fin (it u:Z) : py_run Q :=
  if negb (u =? 0) then (if negb (Qeq_bool (inject_Z u) (inject_Z 0)) then py_Done (Qdiv (inject_Z it) (inject_Z u)) else py_Raises 4%N) else py_Raises 3%N.
Definition Spec (u it:Z) (i j:nat) (i1 i2:bool) : py_run Q :=
  match jac_f (Datatypes.S ((nA - i) + (nB - j))) (skipn i A) (skipn j B) i1 i2 with Some (di, du) => Fin (it + di) (u + du) | None => py_Raises 3%N end.

Lemma jac_f_cons n a A' b B' i1 i2 : jac_f (Datatypes.S n) (a :: A') (b :: B') i1 i2 =
  if py_overlaps a b then
    if i1 && i2 then None else
    let di := Z.min (snd a) (snd b) - Z.max (fst a) (fst b) + 1 in
    let du := if negb i1 && negb i2 then Z.max (snd a) (snd b) - Z.min (fst a) (fst b) + 1 else if i2 then Z.max 0 (snd a - snd b) else Z.max 0 (snd b - snd a) in
    match (if snd b <? snd a then jac_f n (a :: A') B' true false else jac_f n A' (b :: B') false true) with Some (i, u) => Some (di + i, du + u) | None => None end
  else if py_left_of b a then match jac_f n (a :: A') B' i1 false with Some (i, u) => Some (i, (if i2 then 0 else ilen b) + u) | None => None end
  else match jac_f n A' (b :: B') false i2 with Some (i, u) => Some (i, (if i1 then 0 else ilen a) + u) | None => None end.
Proof. reflexivity. Qed.

Lemma Spec_step u it i j i1 i2 : (i < nA)%nat -> (j < nB)%nat -> let a := nth i A (0, 0) in let b := nth j B (0, 0) in
  Spec u it i j i1 i2 =
  if py_overlaps a b then
    if i1 && i2 then py_Raises 3%N else
    let di := Z.min (snd a) (snd b) - Z.max (fst a) (fst b) + 1 in
    let du := if negb i1 && negb i2 then Z.max (snd a) (snd b) - Z.min (fst a) (fst b) + 1 else if i2 then Z.max 0 (snd a - snd b) else Z.max 0 (snd b - snd a) in
    if snd b <? snd a then Spec (u + du) (it + di) i (Datatypes.S j) true false else Spec (u + du) (it + di) (Datatypes.S i) j false true
  else if py_left_of b a then Spec (u + (if i2 then 0 else ilen b)) it i (Datatypes.S j) i1 false
  else Spec (u + (if i1 then 0 else ilen a)) it (Datatypes.S i) j false i2.
Proof. intros Li Lj a b. unfold Spec.
  pose proof (skipn_nth_cons A i (0, 0) Li) as EA. pose proof (skipn_nth_cons B j (0, 0) Lj) as EB. fold a in EA. fold b in EB.
  remember (skipn (Datatypes.S i) A) as A' eqn:HA'. remember (skipn (Datatypes.S j) B) as B' eqn:HB'. rewrite EA, EB.
  remember ((nA - i) + (nB - j))%nat as r eqn:Er. destruct r as [|r]; [lia|].
  replace ((nA - i) + (nB - Datatypes.S j))%nat with r by lia. replace ((nA - Datatypes.S i) + (nB - j))%nat with r by lia.
  rewrite (jac_f_cons (Datatypes.S r) a A' b B' i1 i2).
  destruct (py_overlaps a b).
  - destruct (i1 && i2); [reflexivity|]. cbv zeta. destruct (snd b <? snd a).
    + destruct (jac_f (Datatypes.S r) (a :: A') B' true false) as [[di du]|]; [rewrite !Z.add_assoc|]; reflexivity.
    + destruct (jac_f (Datatypes.S r) A' (b :: B') false true) as [[di du]|]; [rewrite !Z.add_assoc|]; reflexivity.
  - destruct (py_left_of b a).
    + destruct (jac_f (Datatypes.S r) (a :: A') B' i1 false) as [[di du]|]; [rewrite !Z.add_assoc|]; reflexivity.
    + destruct (jac_f (Datatypes.S r) A' (b :: B') false i2) as [[di du]|]; [rewrite !Z.add_assoc|]; reflexivity.
Qed.

Ltac aok H := let L1 := fresh in let L2 := fresh in let Hi := fresh in let Hj := fresh in let H1 := fresh in let H2 := fresh in let Z1 := fresh in let Z2 := fresh in
  destruct H as (L1 & L2 & Hi & Hj & H1 & H2 & Z1 & Z2); unfold arrays_ok; rewrite ?py_set_length by lia;
  repeat split; try lia; intros; rewrite ?py_set_nth by lia;
  repeat match goal with |- context [Nat.eqb ?x ?y] => destruct (Nat.eqb_spec x y); try lia end;
  try reflexivity; try (apply H1; lia); try (apply H2; lia); try (apply Z1; lia); try (apply Z2; lia).

Lemma loop1_sim (K : st -> py_run Q) :
  (forall u it i j inc1 inc2 i1 i2, arrays_ok nA nB i j inc1 inc2 i1 i2 -> (i = nA \/ j = nB) -> K (u, it, Z.of_nat i, Z.of_nat j, inc1, inc2) = Spec u it i j i1 i2) ->
  forall f u it i j inc1 inc2 i1 i2, arrays_ok nA nB i j inc1 inc2 i1 i2 -> ((nA - i) + (nB - j) < f)%nat ->
  py_bind (py_jaccard_similarity_loop1 A B f (u, it, Z.of_nat i, Z.of_nat j, inc1, inc2)) K = Spec u it i j i1 i2.
Proof. intros HK. induction f as [|f IH]; intros u it i j inc1 inc2 i1 i2 OK Hf; [lia|].
  pose proof OK as (L1 & L2 & Hi & Hj & H1 & H2 & Z1 & Z2).
  cbn [py_jaccard_similarity_loop1].
  destruct (Nat.eq_dec i nA) as [Ei|Ei].
  { replace (Z.of_nat i <? Z.of_nat nA) with false by lia. cbn [andb py_bind]. apply (HK u it i j inc1 inc2 i1 i2 OK). left. exact Ei. }
  destruct (Nat.eq_dec j nB) as [Ej|Ej].
  { replace (Z.of_nat j <? Z.of_nat nB) with false by lia. rewrite andb_false_r. cbn [py_bind]. apply (HK u it i j inc1 inc2 i1 i2 OK). right. exact Ej. }
  assert (Li: (i < nA)%nat) by lia. assert (Lj: (j < nB)%nat) by lia.
  replace (Z.of_nat i <? Z.of_nat nA) with true by lia. replace (Z.of_nat j <? Z.of_nat nB) with true by lia. cbn [andb].
  rewrite (index_ok_nat A i Li), (index_ok_nat B j Lj), (py_index_nonneg A i (0, 0)), (py_index_nonneg B j (0, 0)).
  rewrite (index_ok_nat inc1 i) by lia. rewrite (index_ok_nat inc2 j) by lia.
  rewrite (py_index_nonneg inc1 i 0), (py_index_nonneg inc2 j 0), (H1 Li), (H2 Lj).
  rewrite (Spec_step u it i j i1 i2 Li Lj). cbv zeta.
  set (a := nth i A (0, 0)). set (b := nth j B (0, 0)).
  destruct (py_overlaps a b).
  - destruct i1, i2; cbn [b2z andb orb negb]; change (1 =? 0) with false; change (0 =? 0) with true; change (1 =? 1) with true; change (0 =? 1) with false; cbn [andb orb negb py_bind]; try reflexivity;
      rewrite ?(index_ok_nat inc1 i), ?(index_ok_nat inc2 j) by lia; cbn [py_bind];
      (destruct (snd b <? snd a); cbn [py_bind];
       [replace (Z.of_nat j + 1) with (Z.of_nat (Datatypes.S j)) by lia | replace (Z.of_nat i + 1) with (Z.of_nat (Datatypes.S i)) by lia];
       (apply IH; [aok OK|lia])).
  - destruct (py_left_of b a).
    + destruct i2; cbn [b2z]; change (1 =? 0) with false; change (0 =? 0) with true; cbn [py_bind]; rewrite ?(index_ok_nat inc1 i), ?(index_ok_nat inc2 j) by lia; cbn [py_bind];
        replace (Z.of_nat j + 1) with (Z.of_nat (Datatypes.S j)) by lia; rewrite ?Z.add_0_r; (apply IH; [aok OK|lia]).
    + destruct i1; cbn [b2z]; change (1 =? 0) with false; change (0 =? 0) with true; cbn [py_bind]; rewrite ?(index_ok_nat inc1 i), ?(index_ok_nat inc2 j) by lia; cbn [py_bind];
        replace (Z.of_nat i + 1) with (Z.of_nat (Datatypes.S i)) by lia; rewrite ?Z.add_0_r; (apply IH; [aok OK|lia]).
Qed.

Lemma rest_nil b : rest b [] = 0. Proof. destruct b; reflexivity. Qed.

Theorem jaccard_similarity_is_the_source fuel : (nA + nB < fuel)%nat ->
  py_jaccard_similarity fuel A B =
  match Intervals.jaccard A B with Ok (i, u) => py_Done (Qdiv (inject_Z i) (inject_Z u)) | Raises k => py_Raises k end.
Proof. intros HF. unfold py_jaccard_similarity. cbv zeta.
  match goal with |- py_bind _ ?K = _ => pose proof (loop1_sim K) as LS end.
  change 0 with (Z.of_nat 0) at 3 4. rewrite (LS) with (i1 := false) (i2 := false).
  - unfold Spec, jaccard. rewrite !Nat.sub_0_r. cbn [skipn].
    destruct (jac_f (Datatypes.S (nA + nB)) A B false false) as [[di du]|]; [|reflexivity].
    unfold Fin. rewrite !Z.add_0_l, qeq_bool_inject0. destruct (du =? 0); reflexivity.
  - intros u it i j inc1 inc2 i1 i2 OK T. pose proof OK as (L1 & L2 & Hi & Hj & H1 & H2 & Z1 & Z2).
    rewrite (loop2_head fuel i u it (Z.of_nat j) inc1 inc2 i1) by (assumption || lia). cbn [py_bind].
    rewrite (loop3_head fuel j _ it (Z.of_nat nA) inc1 inc2 i2) by (assumption || lia). cbn [py_bind].
    unfold Spec. destruct T as [-> | ->].
    + rewrite skipn_all. cbn [jac_f]. rewrite rest_nil, Z.add_0_r, Z.add_0_r. reflexivity.
    + rewrite (skipn_all B). destruct (skipn i A) as [|a A'] eqn:EA; cbn [jac_f]; rewrite ?rest_nil, ?Z.add_0_r; reflexivity.
  - apply arrays_ok_init.
  - lia.
Qed.
End J.
