(* C16: the CIGAR operation codes and the match / ins-del-match classes used by the hand-written models Cigar.v, Cigar2.v are those of
   the source.  gen/Extra.v is regenerated from src/common.py (CigarEvent) on every check (tools/translate_extra.py); an edit there
   changes the right-hand sides below.  (PolyABridge.v: PolyAFixer's exon counts; FinderBridge.v: PolyAFinder defaults.) *)
From Coq Require Import ZArith List Bool Lia.
From IQ Require Import Cigar Cigar2 CigarBridgeDefs.
From IQ.gen Require Import Extra.
Import ListNotations. Open Scope Z_scope.

(* ------------------------------------------------------------------ CigarEvent *)
Lemma cigar_of_code_is_the_value_table c : cigar_of_code c = lookup_code c code_table.
Proof. unfold cigar_of_code. cbn.
  repeat match goal with |- context [c =? ?k] => destruct (Z.eqb_spec c k) as [->|?]; [reflexivity|] end.
  destruct (Z.ltb_spec c 0); [reflexivity|]. apply nth_error_None. cbn [length]. lia. Qed.
Lemma event_codes e : cigar_of_code (CE_value e) = Some (op_of_event e) /\ opcode (op_of_event e) = CE_value e.
Proof. destruct e; split; reflexivity. Qed.
Lemma op_of_event_onto o : exists e, op_of_event e = o.
Proof. destruct o; [exists CE_match_|exists CE_insertion|exists CE_deletion|exists CE_skipped|exists CE_soft_clipping|exists CE_hard_clipping
                   |exists CE_padding|exists CE_seq_match|exists CE_seq_mismatch]; reflexivity. Qed.
(* CigarEvent.get_match_events / get_ins_del_match_events are the model's is_match / is_idm *)
Lemma event_classes e : is_match (op_of_event e) = CE_mem e CE_get_match_events /\ is_idm (op_of_event e) = CE_mem e CE_get_ins_del_match_events.
Proof. destruct e; split; reflexivity. Qed.

Theorem cigar_codes_are_the_sources :
  (forall c, cigar_of_code c = lookup_code c code_table) /\
  (forall e, cigar_of_code (CE_value e) = Some (op_of_event e) /\ opcode (op_of_event e) = CE_value e) /\
  (forall o, exists e, op_of_event e = o) /\
  (forall e, is_match (op_of_event e) = CE_mem e CE_get_match_events /\ is_idm (op_of_event e) = CE_mem e CE_get_ins_del_match_events).
Proof. split; [exact cigar_of_code_is_the_value_table|]. split; [exact event_codes|]. split; [exact op_of_event_onto|exact event_classes]. Qed.
