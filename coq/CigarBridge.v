(* C16: the CIGAR operation codes, the match / ins-del-match classes, the pieces of PolyAFixer.count_polya_exons /
   count_polyt_exons and the PolyAFinder defaults used by the hand-written models Cigar.v, Cigar2.v, PolyA.v, PolyA2.v are those of
   the source.  gen/Extra.v is regenerated from src/common.py (CigarEvent), src/polya_verification.py and src/polya_finder.py on every
   check (tools/translate_extra.py); an edit there changes the right-hand sides below. *)
From Coq Require Import ZArith QArith Qround List Bool Lia.
From IQ Require Import Cigar Cigar2 PolyA PolyA2 CigarBridgeDefs.
From IQ.gen Require Import Extra.
Import ListNotations. Open Scope Z_scope.

(* ------------------------------------------------------------------ CigarEvent *)
Lemma cigar_of_code_is_the_value_table c : cigar_of_code c = lookup_code c code_table.
Proof. unfold cigar_of_code. cbn.
  repeat match goal with |- context [c =? ?k] => destruct (Z.eqb_spec c k) as [->|?]; [reflexivity|] end.
  destruct (Z.ltb_spec c 0); [reflexivity|]. apply nth_error_None. cbn [length]. lia. Qed.
Lemma event_codes e : cigar_of_code (CE_value e) = Some (op_of_event e) /\ opcode (op_of_event e) = CE_value e.
Proof. destruct e; split; reflexivity. Qed.
Lemma op_of_event_onto o : exists e, op_of_event e = o.
Proof. destruct o; [exists CE_match_|exists CE_insertion|exists CE_deletion|exists CE_skipped|exists CE_soft_clipping|exists CE_hard_clipping
                   |exists CE_padding|exists CE_seq_match|exists CE_seq_mismatch]; reflexivity. Qed.
(* CigarEvent.get_match_events / get_ins_del_match_events are the model's is_match / is_idm *)
Lemma event_classes e : is_match (op_of_event e) = CE_mem e CE_get_match_events /\ is_idm (op_of_event e) = CE_mem e CE_get_ins_del_match_events.
Proof. destruct e; split; reflexivity. Qed.

Theorem cigar_codes_are_the_sources :
  (forall c, cigar_of_code c = lookup_code c code_table) /\
  (forall e, cigar_of_code (CE_value e) = Some (op_of_event e) /\ opcode (op_of_event e) = CE_value e) /\
  (forall o, exists e, op_of_event e = o) /\
  (forall e, is_match (op_of_event e) = CE_mem e CE_get_match_events /\ is_idm (op_of_event e) = CE_mem e CE_get_ins_del_match_events).
Proof. split; [exact cigar_of_code_is_the_value_table|]. split; [exact event_codes|]. split; [exact op_of_event_onto|exact event_classes]. Qed.

(* ------------------------------------------------------------------ PolyAFixer.count_polya_exons / count_polyt_exons *)
Lemma polya_exon_test_is_the_source mf pos e : is_polya_exon mf pos e = py_count_polya_test mf pos e. Proof. reflexivity. Qed.
Lemma polyt_exon_test_is_the_source mf pos e : is_polyt_exon mf pos e = py_count_polyt_test mf pos e. Proof. reflexivity. Qed.
Lemma cpa_rev_is_the_source mf pos l : cpa_rev mf pos l = py_scan (py_count_polya_break pos) (py_count_polya_test mf pos) l.
Proof. induction l as [|e t IH]; [reflexivity|]. cbn [cpa_rev py_scan]. rewrite IH. reflexivity. Qed.
Lemma cpt_is_the_source mf pos l : cpt mf pos l = py_scan (py_count_polyt_break pos) (py_count_polyt_test mf pos) l.
Proof. induction l as [|e t IH]; [reflexivity|]. cbn [cpt py_scan]. rewrite IH. reflexivity. Qed.

Theorem polya_exon_counts_are_the_sources mf exons pos :
  count_polya_exons mf exons pos = py_count py_count_polya_sentinel py_count_polya_from_last_exon py_count_polya_break (py_count_polya_test mf) exons pos /\
  count_polyt_exons mf exons pos = py_count py_count_polyt_sentinel py_count_polyt_from_last_exon py_count_polyt_break (py_count_polyt_test mf) exons pos.
Proof. unfold count_polya_exons, count_polyt_exons, py_count. rewrite cpa_rev_is_the_source, cpt_is_the_source. split; reflexivity. Qed.

(* ------------------------------------------------------------------ PolyAFinder defaults *)
(* the parameters (w, need, fnum, fden) and the (from, to, entire) windows with which Cigar2.find_polya_tail / find_polyt_head are
   instantiated (props/C11.v examples; harness/props/c16.py: windows (2, 2w, false) and (4w, 2, true), need = int(w * fraction)) *)
Theorem finder_defaults_are_the_sources :
  PF_window_size = 16 /\ PF_polyA_count = 12 /\
  (Qnum PF_min_polya_fraction, Z.pos (Qden PF_min_polya_fraction)) = (3, 4) /\
  PF_polyA_count = Qfloor (inject_Z PF_window_size * PF_min_polya_fraction) /\
  PF_polya_external = (2, 2 * PF_window_size, false) /\ PF_polya_internal = (4 * PF_window_size, 2, true) /\
  PF_polyt_external = (2, 2 * PF_window_size, false) /\ PF_polyt_internal = (4 * PF_window_size, 2, true).
Proof. repeat split. Qed.
