(* C08: record-level model of src/multimap_resolver.py (MultimapResolver.resolve and everything below it), of
   BasicReadAssignment.__eq__, and of the way ReadAssignmentLoader.get_next re-applies the verdict
   (src/dataset_processor.py).  The model follows the code as it is: index lists in list order, `min`/strict `<`
   scans that return the FIRST optimum, duplicate removal by the nested loop with its `discarded` set, re-typing of the
   kept records, `multimapper := True`.  Strings (read ids, chromosome names, isoform and gene ids) are injectively
   numbered by the harness - chromosome names and isoform ids ORDER-PRESERVINGLY (Z order = Python string order), because
   the repaired select_noninformative compares them; penalties are integers (the harness uses exactly representable floats).

   Two variants of select_noninformative are described.  Everything that depends on the tie-break key lives in
   `Module Gen`, inside a section over `tk : rec -> list Z` (the key as the list of its components; Python compares the
   tuples lexicographically, `zlist_ltb` below):
     repaired code    (fixes/C08_noninformative_tie_break.diff): tkey a = (genomic_region[0], chr_id, start, end, isoforms)
                       -> `resolve`, `keep_idx`, `kept_keys`, `run_check`, ... (the unsuffixed names)
     unrepaired code  : tkey_unrepaired a = genomic_region[0] alone
                       -> `resolve_unrepaired`, `keep_idx_unrepaired`, ... ; `scan_best_unrepaired` / `pick_noninformative_unrepaired`
                          are the literal transcription (Z compared with `<` against math.inf), proved equal to the instance.
   Key-set level prototype: Multimap.v.  Weights / contribution: MultimapWeight.v. *)
From Coq Require Import ZArith NArith List Bool Lia ZifyBool Permutation.
From IQ Require Import CorrSupport.
Import ListNotations. Open Scope Z_scope.

(* ---------- ReadAssignmentType (src/isoform_assignment.py) ---------- *)
Inductive atype := Unique | Noninformative | Intergenic | Ambiguous | UniqueMinor
                 | Inconsistent | InconsNonIntronic | InconsAmbiguous | Suspended.
Definition atype_code (t:atype) : Z :=
  match t with Unique => 1 | Noninformative => 0 | Intergenic => 20 | Ambiguous => 10 | UniqueMinor => 2
             | Inconsistent => 30 | InconsNonIntronic => 31 | InconsAmbiguous => 32 | Suspended => 255 end.
Definition atype_eqb (a b:atype) : bool := atype_code a =? atype_code b.
Lemma atype_eqb_eq a b : atype_eqb a b = true <-> a = b.
Proof. unfold atype_eqb. split; [|intros ->; apply Z.eqb_refl]. destruct a, b; cbn; intros H; try reflexivity; discriminate. Qed.
Lemma atype_eqb_refl a : atype_eqb a a = true. Proof. apply atype_eqb_eq; reflexivity. Qed.

Definition is_inconsistent t := match t with Inconsistent | InconsAmbiguous | InconsNonIntronic => true | _ => false end.
Definition is_consistent t := match t with Unique | UniqueMinor | Ambiguous => true | _ => false end.
Definition is_suspended t := match t with Suspended => true | _ => false end.

(* ---------- BasicReadAssignment ---------- *)
Record rec := mkrec {
  aid : Z;            (* assignment_id *)
  rd : Z;             (* read_id *)
  chr : Z;            (* chr_id *)
  st : Z; en : Z;     (* start, end = first exon start, last exon end *)
  reg : Z * Z;        (* genomic_region *)
  mm : bool;          (* multimapper: set from alignment.is_secondary, later by the resolver *)
  polya : bool;       (* polyA_found *)
  ty : atype;         (* assignment_type *)
  gty : atype;        (* gene_assignment_type *)
  pen : Z;            (* penalty_score *)
  isos : list Z;      (* isoforms (a list made from a set) *)
  gns : list Z        (* genes *)
}.
Definition dflt : rec := mkrec 0 0 0 0 0 (0,0) false false Suspended Suspended 0 [] [].
Definition nthr (l:list rec) (i:nat) : rec := nth i l dflt.
Definition set_verdict (a:rec) (t g:atype) (m:bool) : rec :=
  mkrec (aid a) (rd a) (chr a) (st a) (en a) (reg a) m (polya a) t g (pen a) (isos a) (gns a).

(* BasicReadAssignment.penalty_score as both constructors compute it from the isoform matches' penalties:
   `min(self.penalty_score, isoform_matches[0].penalty_score)` once per match, starting from 0.0 *)
Definition basic_penalty (match_penalties:list Z) : Z :=
  match match_penalties with [] => 0 | p0 :: _ => fold_left (fun acc _ => Z.min acc p0) match_penalties 0 end.

Fixpoint zlist_eqb (x y:list Z) : bool :=
  match x, y with [], [] => true | a :: s, b :: t => (a =? b) && zlist_eqb s t | _, _ => false end.
Lemma zlist_eqb_eq x y : zlist_eqb x y = true <-> x = y.
Proof. revert y; induction x as [|a s IH]; destruct y as [|b t]; cbn; split; intros H; try reflexivity; try discriminate.
  - apply andb_prop in H. destruct H as [H1 H2]. apply Z.eqb_eq in H1. apply IH in H2. congruence.
  - injection H as -> ->. rewrite Z.eqb_refl. cbn. apply IH. reflexivity. Qed.

(* BasicReadAssignment.__eq__ *)
Definition rec_eq (a b:rec) : bool :=
  (rd a =? rd b) && (chr a =? chr b) && (st a =? st b) && (en a =? en b) && zlist_eqb (isos a) (isos b).
(* the fields __eq__ looks at *)
Definition key_of (a:rec) : Z * Z * Z * Z * list Z := (rd a, chr a, st a, en a, isos a).
Lemma rec_eq_key a b : rec_eq a b = true <-> key_of a = key_of b.
Proof. unfold rec_eq, key_of. rewrite !andb_true_iff, !Z.eqb_eq, zlist_eqb_eq. split.
  - intros [[[[H1 H2] H3] H4] H5]. congruence.
  - intros H. injection H as H1 H2 H3 H4 H5. tauto. Qed.
Lemma rec_eq_refl a : rec_eq a a = true. Proof. apply rec_eq_key. reflexivity. Qed.
Lemma rec_eq_sym a b : rec_eq a b = rec_eq b a.
Proof. destruct (rec_eq a b) eqn:E, (rec_eq b a) eqn:E'; try reflexivity.
  - apply rec_eq_key in E. symmetry in E. apply rec_eq_key in E. congruence.
  - apply rec_eq_key in E'. symmetry in E'. apply rec_eq_key in E'. congruence. Qed.

Definition memb (i:nat) (l:list nat) : bool := existsb (Nat.eqb i) l.
Lemma memb_In i l : memb i l = true <-> In i l.
Proof. unfold memb. rewrite existsb_exists. split.
  - intros [x [H1 H2]]. apply Nat.eqb_eq in H2. subst. exact H1.
  - intros H. exists i. split; [exact H|apply Nat.eqb_refl]. Qed.

(* ---------- find_duplicates: the nested loop with its `selected` list and `discarded` set ---------- *)
Definition discard_step (l:list rec) (i1:nat) (d:list nat) (i2:nat) : list nat :=
  if memb i2 d then d else if rec_eq (nthr l i1) (nthr l i2) then i2 :: d else d.
Fixpoint fd_loop (l:list rec) (idx:list nat) (selected discarded:list nat) : list nat :=
  match idx with
  | [] => rev selected
  | i1 :: rest =>
      if memb i1 discarded then fd_loop l rest selected discarded
      else fd_loop l rest (i1 :: selected) (fold_left (discard_step l i1) rest discarded)
  end.
Definition find_duplicates (l:list rec) (idx:list nat) : list nat :=
  if (length idx <=? 1)%nat then idx else fd_loop l idx [] [].

(* ---------- filter_assignments ---------- *)
Definition distinct_count (l:list Z) : nat := length (nodup Z.eq_dec l).
Definition ambiguity_type (t:atype) : atype := if is_inconsistent t then InconsAmbiguous else Ambiguous.
Definition apply_keep (l:list rec) (keep:list nat) : list rec :=
  let change_t := (1 <? distinct_count (flat_map (fun i => isos (nthr l i)) keep))%nat in
  let change_g := (1 <? distinct_count (flat_map (fun i => gns (nthr l i)) keep))%nat in
  map (fun i => let a := nthr l i in
         if memb i keep then
           set_verdict a (if change_t then ambiguity_type (ty a) else ty a)
                         (if change_g then ambiguity_type (ty a) else gty a)
                         (mm a || change_t || change_g)
         else set_verdict a Suspended Suspended (mm a))
      (seq 0 (length l)).
Definition filter_assignments (l:list rec) (keep0:list nat) : list rec := apply_keep l (find_duplicates l keep0).

(* ---------- select_best_inconsistent ---------- *)
(* Python's min(iterable, key=...) returns the first minimal item *)
Definition first_min (scores:list (Z*nat)) : Z :=
  match scores with [] => 0 | s :: t => fold_left (fun m x => if fst x <? m then fst x else m) t (fst s) end.
Definition best_inconsistent_idx (l:list rec) (idx:list nat) : list nat :=
  let scores := map (fun i => (pen (nthr l i), i)) idx in
  map snd (filter (fun x => fst x =? first_min scores) scores).
Definition select_best_inconsistent (l:list rec) (idx:list nat) : list rec :=
  if (length idx <=? 1)%nat then filter_assignments l idx
  else filter_assignments l (best_inconsistent_idx l idx).

(* ---------- select_noninformative ---------- *)
Definition intersection_len (r1 r2:Z*Z) : Z := Z.max 0 (Z.min (snd r1) (snd r2) - Z.max (fst r1) (fst r2) + 1).
Definition ovl (a:rec) : Z := intersection_len (reg a) (st a, en a).
Definition rstart (a:rec) : Z := fst (reg a).

(* ---------- lexicographic order on lists of integers (Python's order on tuples / lists) ---------- *)
Fixpoint zlist_ltb (x y:list Z) : bool :=
  match x, y with
  | _, [] => false
  | [], _ :: _ => true
  | a :: s, b :: t => (a <? b) || ((a =? b) && zlist_ltb s t)
  end.
Definition zlist_le (x y:list Z) : Prop := zlist_ltb y x = false.
Lemma zlist_ltb_irrefl x : zlist_ltb x x = false.
Proof. induction x as [|a s IH]; cbn; [reflexivity|]. rewrite Z.ltb_irrefl, Z.eqb_refl, IH. reflexivity. Qed.
Lemma zlist_ltb_trans x : forall y z, zlist_ltb x y = true -> zlist_ltb y z = true -> zlist_ltb x z = true.
Proof. induction x as [|a s IH]; intros [|b t] [|c u]; cbn [zlist_ltb]; try discriminate; try reflexivity.
  intros H1 H2. apply orb_true_iff in H1, H2. apply orb_true_iff.
  destruct H1 as [H1|H1], H2 as [H2|H2]; rewrite ?andb_true_iff, ?Z.ltb_lt, ?Z.eqb_eq in *.
  - left. lia.
  - left. destruct H2. lia.
  - left. destruct H1. lia.
  - right. destruct H1 as [E1 K1], H2 as [E2 K2]. split; [lia|]. eapply IH; eauto. Qed.
Lemma zlist_ltb_total x : forall y, zlist_ltb x y = false -> zlist_ltb y x = false -> x = y.
Proof. induction x as [|a s IH]; intros [|b t]; cbn [zlist_ltb]; try discriminate; [reflexivity|].
  intros H1 H2. apply orb_false_iff in H1, H2. destruct H1 as [A1 B1], H2 as [A2 B2]. apply Z.ltb_ge in A1, A2.
  assert (a = b) by lia. subst b. rewrite Z.eqb_refl in B1, B2. cbn [andb] in B1, B2. f_equal. apply IH; assumption. Qed.
Lemma zlist_ltb_single x y : zlist_ltb [x] [y] = (x <? y).
Proof. cbn. rewrite andb_false_r, orb_false_r. reflexivity. Qed.
Lemma zlist_le_refl x : zlist_le x x. Proof. apply zlist_ltb_irrefl. Qed.
Lemma zlist_lt_le x y : zlist_ltb x y = true -> zlist_le x y.
Proof. intros H. unfold zlist_le. destruct (zlist_ltb y x) eqn:E; [|reflexivity].
  pose proof (zlist_ltb_trans x y x H E) as T. rewrite zlist_ltb_irrefl in T. discriminate. Qed.
Lemma zlist_le_trans x y z : zlist_le x y -> zlist_le y z -> zlist_le x z.
Proof. unfold zlist_le. intros H1 H2. destruct (zlist_ltb z x) eqn:E; [|reflexivity].
  destruct (zlist_ltb x y) eqn:F.
  - rewrite (zlist_ltb_trans z x y E F) in H2. discriminate.
  - assert (x = y) by (apply zlist_ltb_total; assumption). subst y. congruence. Qed.
Lemma zlist_le_antisym x y : zlist_le x y -> zlist_le y x -> x = y.
Proof. unfold zlist_le. intros H1 H2. apply zlist_ltb_total; assumption. Qed.

(* ---------- select_noninformative: the two scans over triplets (overlap, tie-break key, index) ---------- *)
(* second pass: strict `<` against the current minimum (None at the start); the first best triplet wins *)
Fixpoint scan_best (maxo:Z) (infos:list (Z * list Z * nat)) (mink:option (list Z)) (best:option nat) : option nat :=
  match infos with
  | [] => best
  | (o, k, i) :: t =>
      if (o =? maxo) && (match mink with None => true | Some m => zlist_ltb k m end)
      then scan_best maxo t (Some k) (Some i) else scan_best maxo t mink best
  end.
Definition max_overlap (infos:list (Z * list Z * nat)) : Z := fold_left (fun m t => Z.max (fst (fst t)) m) infos 0.
(* the literal transcription of the UNREPAIRED second pass: triplets (overlap, genomic_region[0], index), `<` against math.inf *)
Fixpoint scan_best_unrepaired (maxo:Z) (infos:list (Z*Z*nat)) (minrs:option Z) (best:option nat) : option nat :=
  match infos with
  | [] => best
  | (o, r, i) :: t =>
      if (o =? maxo) && (match minrs with None => true | Some m => r <? m end)
      then scan_best_unrepaired maxo t (Some r) (Some i) else scan_best_unrepaired maxo t minrs best
  end.

(* ---------- select_best_assignment ---------- *)
Definition idx_where (p:rec -> bool) (l:list rec) : list nat := filter (fun i => p (nthr l i)) (seq 0 (length l)).
Definition p_inc (a:rec) := is_inconsistent (ty a).
Definition p_pi (a:rec) := is_inconsistent (ty a) && negb (mm a).
Definition p_cons (a:rec) := negb (is_inconsistent (ty a)) && is_consistent (ty a).
Definition p_pu (a:rec) := p_cons a && negb (mm a) && negb (atype_eqb (ty a) Ambiguous).
Definition p_non (a:rec) := negb (is_inconsistent (ty a)) && negb (is_consistent (ty a)).

Definition nonempty {A} (l:list A) : bool := match l with [] => false | _ => true end.

Inductive strategy := IgnoreMultimapper | Merge | TakeBest.

(* ---------- the loader: ReadAssignmentLoader.get_next ---------- *)
(* entry = multimapped_chr_dict.get(read_id): the resolved records of this read written for this chromosome *)
Definition find_verdict (vs:list rec) (r:rec) : option rec :=
  fold_left (fun acc a => if (aid a =? aid r) && (chr a =? chr r) then Some a else acc) vs None.
Definition apply_verdict (entry:option (list rec)) (r:rec) : option rec :=
  match entry with
  | None => Some r
  | Some vs => match find_verdict vs r with
               | None => None                                          (* "Incomplete information on read" *)
               | Some a => if atype_eqb (ty a) Suspended then None else Some (set_verdict r (ty a) (gty a) (mm a))
               end
  end.

(* collect_reads -> resolve_multimappers -> construct_models_in_parallel, for the records of all chromosomes.
   files: (chromosome of the save file, its records in file order), in the order of chr_ids. *)
Definition group_of (all:list rec) (rid:Z) : list rec := filter (fun r => rd r =? rid) all.
Definition nonempty_opt (l:list rec) : option (list rec) := match l with [] => None | _ => Some l end.
Fixpoint collect_ok {A} (l:list (outcome (list A))) : outcome (list A) :=
  match l with
  | [] => Ok []
  | Raises k :: _ => Raises k
  | Ok x :: t => match collect_ok t with Ok y => Ok (x ++ y) | Raises k => Raises k end
  end.

(* the two ways the per-read lists are built: default (prepare_multimapper_dict skips reads counted once),
   --high_memory (every read is in the dictionary, lists of length <= 1 are not resolved) *)
Definition default_group (all:list rec) (rid:Z) : list rec :=
  if (length (group_of all rid) =? 1)%nat then [] else group_of all rid.
Definition highmem_group (all:list rec) (rid:Z) : list rec := group_of all rid.
Definition to_resolve (g:list rec) : option (list rec) := if (1 <? length g)%nat then Some g else None.
Lemma both_paths_same_groups all rid : to_resolve (default_group all rid) = to_resolve (highmem_group all rid).
Proof. unfold default_group, highmem_group, to_resolve. destruct (length (group_of all rid) =? 1)%nat eqn:E.
  - apply Nat.eqb_eq in E. rewrite E. reflexivity.
  - reflexivity. Qed.

(* ---------- declarative description: what does not depend on the tie-break key ---------- *)
(* lowest penalty within class p *)
Definition best_pen (p:rec -> bool) (l:list rec) (r:rec) : bool :=
  p r && forallb (fun x => negb (p x) || (pen r <=? pen x)) l.
Definition only_uninformative (l:list rec) : bool := negb (existsb p_cons l) && negb (existsb p_inc l).

Notation verdict := (atype * atype * bool)%type.
Definition dv : verdict := (Suspended, Suspended, false).
Definition verdict_of (a:rec) : verdict := (ty a, gty a, mm a).
Definition verdicts (l:list rec) : list verdict := map verdict_of l.
Definition verdict_eqb (x y:verdict) : bool :=
  atype_eqb (fst (fst x)) (fst (fst y)) && atype_eqb (snd (fst x)) (snd (fst y)) && Bool.eqb (snd x) (snd y).
Definition visible (v:verdict) : bool := negb (is_suspended (fst (fst v))).
Definition kept_of (l:list rec) (out:list verdict) : list nat := filter (fun i => visible (nth i out dv)) (seq 0 (length l)).

(* precondition of the specification: a real multi-mapper list whose records are not suspended already *)
Definition spec_pre (l:list rec) : bool := (1 <? length l)%nat && forallb (fun a => negb (is_suspended (ty a))) l.

(* ---------- support for the correspondence ---------- *)
Definition verdicts_eqb := outcome_eqb (list_eqb verdict_eqb).
Definition permute (base:list rec) (p:list nat) : list rec := map (nthr base) p.
Definition kept_recs (l:list rec) (out:list verdict) : list rec := map (nthr l) (kept_of l out).
Definition subset_keys (x y:list rec) : bool := forallb (fun a => existsb (rec_eq a) y) x.
Definition same_keys (x y:list rec) : bool := subset_keys x y && subset_keys y x.
Notation loaded := (list (Z * verdict))%type.        (* per chromosome: (assignment_id, verdict) of the records the loader returns *)
Definition loaded_of (rs:list rec) : loaded := map (fun a => (aid a, verdict_of a)) rs.
Definition loaded_eqb (x y:list loaded) : bool := list_eqb (list_eqb (pair_eqb Z.eqb verdict_eqb)) x y.
(* the verdict as observed behind the loader: a record that is not returned counts as suspended *)
Definition observed (files:list (Z * list rec)) (outp:list loaded) (r:rec) : verdict :=
  let here := flat_map snd (filter (fun x => fst (fst x) =? chr r) (combine files outp)) in
  match find (fun x => fst x =? aid r) here with Some x => snd x | None => (Suspended, Suspended, mm r) end.

(* ================================================================================================================
   Proofs that do not depend on the tie-break key
   ================================================================================================================ *)
(* ---------- index lists ---------- *)
Lemma idx_where_In p l i : In i (idx_where p l) <-> (i < length l)%nat /\ p (nthr l i) = true.
Proof. unfold idx_where. rewrite filter_In, in_seq. split; intros [H1 H2]; split; auto; lia. Qed.
Lemma idx_where_NoDup p l : NoDup (idx_where p l).
Proof. unfold idx_where. apply NoDup_filter, seq_NoDup. Qed.
Lemma nonempty_true {A} (x:list A) : nonempty x = true <-> exists a, In a x.
Proof. destruct x as [|a t]; cbn; split; intros H; try discriminate.
  - destruct H as [a []]. - exists a; left; reflexivity. - reflexivity. Qed.
Lemma existsb_nthr p l : existsb p l = true <-> exists i, (i < length l)%nat /\ p (nthr l i) = true.
Proof. rewrite existsb_exists. split.
  - intros [x [H1 H2]]. destruct (In_nth l x dflt H1) as [n [Hn Hx]]. exists n. unfold nthr. rewrite Hx. auto.
  - intros [i [H1 H2]]. exists (nthr l i). split; [apply nth_In; exact H1|exact H2]. Qed.
Lemma nonempty_idx_where p l : nonempty (idx_where p l) = existsb p l.
Proof. destruct (existsb p l) eqn:E.
  - apply nonempty_true. apply existsb_nthr in E. destruct E as [i Hi]. exists i. apply idx_where_In. exact Hi.
  - destruct (nonempty (idx_where p l)) eqn:E'; [|reflexivity]. apply nonempty_true in E'. destruct E' as [i Hi].
    apply idx_where_In in Hi. assert (existsb p l = true) by (apply existsb_nthr; exists i; exact Hi). congruence. Qed.
Lemma forallb_nthr (q:rec -> bool) l : forallb q l = true <-> forall i, (i < length l)%nat -> q (nthr l i) = true.
Proof. rewrite forallb_forall. split.
  - intros H i Hi. apply H. apply nth_In. exact Hi.
  - intros H x Hx. destruct (In_nth l x dflt Hx) as [n [Hn E]]. rewrite <- E. apply H. exact Hn. Qed.
Lemma NoDup_singleton (x:list nat) i : NoDup x -> (forall j, In j x <-> j = i) -> x = [i].
Proof. intros ND H. destruct x as [|a t].
  - exfalso. apply (proj2 (H i) eq_refl).
  - assert (a = i) by (apply H; left; reflexivity). subst a. destruct t as [|b t']; [reflexivity|].
    assert (b = i) by (apply H; right; left; reflexivity). subst b. inversion ND as [|? ? Hn _]. exfalso. apply Hn. left. reflexivity. Qed.

(* ---------- find_duplicates ---------- *)
Lemma discard_fold_spec l i1 rest d :
  let d' := fold_left (discard_step l i1) rest d in
  (forall x, In x d -> In x d') /\
  (forall x, In x d' -> In x d \/ (In x rest /\ rec_eq (nthr l i1) (nthr l x) = true)) /\
  (forall x, In x rest -> rec_eq (nthr l i1) (nthr l x) = true -> In x d').
Proof. revert d. induction rest as [|i2 t IH]; intros d; cbn [fold_left].
  - cbn. repeat split; auto. intros x [].
  - destruct (IH (discard_step l i1 d i2)) as [A [B C]]. cbn zeta in *.
    assert (S1: forall x, In x d -> In x (discard_step l i1 d i2)).
    { intros x Hx. unfold discard_step. destruct (memb i2 d); [exact Hx|]. destruct (rec_eq _ _); [right; exact Hx|exact Hx]. }
    assert (S2: forall x, In x (discard_step l i1 d i2) -> In x d \/ (x = i2 /\ rec_eq (nthr l i1) (nthr l i2) = true)).
    { intros x Hx. unfold discard_step in Hx. destruct (memb i2 d); [left; exact Hx|]. destruct (rec_eq _ _) eqn:E; [|left; exact Hx].
      destruct Hx as [Hx|Hx]; [right; split; auto|left; exact Hx]. }
    assert (S3: rec_eq (nthr l i1) (nthr l i2) = true -> In i2 (discard_step l i1 d i2)).
    { intros E. unfold discard_step. destruct (memb i2 d) eqn:M; [apply memb_In; exact M|]. rewrite E. left; reflexivity. }
    repeat split.
    + intros x Hx. apply A, S1, Hx.
    + intros x Hx. destruct (B x Hx) as [H|[H1 H2]].
      * destruct (S2 x H) as [H'|[-> H']]; [left; exact H'|right; split; [left; reflexivity|exact H']].
      * right. split; [right; exact H1|exact H2].
    + intros x [->|Hx] E; [apply A, S3, E|apply C; assumption]. Qed.

(* invariants of the outer loop *)
Lemma fd_loop_subset l : forall idx sel disc i, In i (fd_loop l idx sel disc) -> In i sel \/ In i idx.
Proof. induction idx as [|i1 rest IH]; intros sel disc i; cbn [fd_loop].
  - rewrite <- in_rev. auto.
  - destruct (memb i1 disc).
    + intros H. destruct (IH _ _ _ H); [left; assumption|right; right; assumption].
    + intros H. destruct (IH _ _ _ H) as [[->|H']|H']; [right; left; reflexivity|left; exact H'|right; right; exact H']. Qed.
Lemma fd_loop_keeps_selected l : forall idx sel disc i, In i sel -> In i (fd_loop l idx sel disc).
Proof. induction idx as [|i1 rest IH]; intros sel disc i H; cbn [fd_loop].
  - rewrite <- in_rev. exact H.
  - destruct (memb i1 disc); apply IH; [exact H|right; exact H]. Qed.
Lemma fd_loop_cover l : forall idx sel disc,
  (forall d, In d disc -> exists s, In s sel /\ rec_eq (nthr l s) (nthr l d) = true) ->
  forall j, In j idx -> exists s, In s (fd_loop l idx sel disc) /\ rec_eq (nthr l s) (nthr l j) = true.
Proof. induction idx as [|i1 rest IH]; intros sel disc Inv j Hj; [destruct Hj|]. cbn [fd_loop].
  destruct (memb i1 disc) eqn:M.
  - destruct Hj as [->|Hj]; [|apply IH; assumption].
    apply memb_In in M. destruct (Inv _ M) as [s [Hs1 Hs2]]. exists s. split; [apply fd_loop_keeps_selected; exact Hs1|exact Hs2].
  - destruct Hj as [->|Hj].
    + exists j. split; [apply fd_loop_keeps_selected; left; reflexivity|apply rec_eq_refl].
    + apply IH; [|exact Hj]. intros d Hd. destruct (discard_fold_spec l i1 rest disc) as [_ [B _]]. cbn zeta in B.
      destruct (B d Hd) as [H|[_ H]].
      * destruct (Inv d H) as [s [H1 H2]]. exists s. split; [right; exact H1|exact H2].
      * exists i1. split; [left; reflexivity|exact H]. Qed.
Lemma fd_loop_distinct l : forall idx sel disc,
  (forall j, In j idx -> (exists s, In s sel /\ rec_eq (nthr l s) (nthr l j) = true) -> In j disc) ->
  (forall a b, In a sel -> In b sel -> rec_eq (nthr l a) (nthr l b) = true -> a = b) ->
  forall a b, In a (fd_loop l idx sel disc) -> In b (fd_loop l idx sel disc) -> rec_eq (nthr l a) (nthr l b) = true -> a = b.
Proof. induction idx as [|i1 rest IH]; intros sel disc I1 I2; cbn [fd_loop].
  - intros a b Ha Hb. rewrite <- in_rev in Ha, Hb. apply I2; assumption.
  - destruct (memb i1 disc) eqn:M.
    + apply IH; [|exact I2]. intros j Hj. apply I1. right. exact Hj.
    + assert (NM: ~ In i1 disc) by (intros H; apply memb_In in H; congruence).
      destruct (discard_fold_spec l i1 rest disc) as [A [_ C]]. cbn zeta in A, C.
      apply IH.
      * intros j Hj [s [[<-|Hs] E]]; [apply C; assumption|]. apply A. apply I1; [right; exact Hj|]. exists s. auto.
      * intros a b [<-|Ha] [<-|Hb] E; try reflexivity.
        -- exfalso. apply NM. apply I1; [left; reflexivity|]. exists b. split; [exact Hb|]. rewrite rec_eq_sym. exact E.
        -- exfalso. apply NM. apply I1; [left; reflexivity|]. exists a. split; [exact Ha|exact E].
        -- apply I2; assumption. Qed.
Lemma fd_loop_NoDup l : forall idx sel disc, NoDup idx -> NoDup sel -> (forall s, In s sel -> ~ In s idx) -> NoDup (fd_loop l idx sel disc).
Proof. induction idx as [|i1 rest IH]; intros sel disc N1 N2 Dj; cbn [fd_loop].
  - apply NoDup_rev. exact N2.
  - inversion N1 as [|? ? Hn N1']; subst. destruct (memb i1 disc).
    + apply IH; auto. intros s Hs H. apply (Dj s Hs). right. exact H.
    + apply IH; auto.
      * constructor; [|exact N2]. intros H. apply (Dj i1 H). left. reflexivity.
      * intros s [<-|Hs] H; [apply Hn; exact H|]. apply (Dj s Hs). right. exact H. Qed.

Lemma fd_subset l idx i : In i (find_duplicates l idx) -> In i idx.
Proof. unfold find_duplicates. destruct (length idx <=? 1)%nat; [auto|]. intros H. destruct (fd_loop_subset _ _ _ _ _ H) as [[]|H']. exact H'. Qed.
Lemma fd_cover l idx j : In j idx -> exists s, In s (find_duplicates l idx) /\ rec_eq (nthr l s) (nthr l j) = true.
Proof. unfold find_duplicates. destruct (length idx <=? 1)%nat.
  - intros H. exists j. split; [exact H|apply rec_eq_refl].
  - apply fd_loop_cover. intros d []. Qed.
Lemma fd_distinct l idx : NoDup idx -> forall a b, In a (find_duplicates l idx) -> In b (find_duplicates l idx) ->
  rec_eq (nthr l a) (nthr l b) = true -> a = b.
Proof. intros ND. unfold find_duplicates. destruct (length idx <=? 1)%nat eqn:E.
  - apply Nat.leb_le in E. destruct idx as [|x [|y t]]; cbn in E; try lia.
    + intros a b []. + intros a b [<-|[]] [<-|[]] _. reflexivity.
  - apply fd_loop_distinct.
    + intros j _ [s [[] _]]. + intros a b []. Qed.
Lemma fd_NoDup l idx : NoDup idx -> NoDup (find_duplicates l idx).
Proof. intros ND. unfold find_duplicates. destruct (length idx <=? 1)%nat; [exact ND|]. apply fd_loop_NoDup; [exact ND|constructor|intros s []]. Qed.
Lemma fd_single l i : find_duplicates l [i] = [i]. Proof. reflexivity. Qed.
Lemma fd_nonempty l idx : idx <> [] -> find_duplicates l idx <> [].
Proof. destruct idx as [|i t]; [congruence|]. intros _ E. destruct (fd_cover l (i :: t) i (or_introl eq_refl)) as [s [Hs _]]. rewrite E in Hs. destruct Hs. Qed.

(* ---------- apply_keep ---------- *)
Lemma apply_keep_length l k : length (apply_keep l k) = length l.
Proof. unfold apply_keep. rewrite map_length, seq_length. reflexivity. Qed.
Lemma nth_map_seq {A} (f:nat -> A) n i d : (i < n)%nat -> nth i (map f (seq 0 n)) d = f i.
Proof. intros H. rewrite (nth_indep _ d (f 0%nat)) by (rewrite map_length, seq_length; exact H).
  rewrite map_nth. rewrite seq_nth by exact H. reflexivity. Qed.
Definition change_t (l:list rec) (keep:list nat) : bool := (1 <? distinct_count (flat_map (fun i => isos (nthr l i)) keep))%nat.
Definition change_g (l:list rec) (keep:list nat) : bool := (1 <? distinct_count (flat_map (fun i => gns (nthr l i)) keep))%nat.
Lemma apply_keep_nth l k i : (i < length l)%nat ->
  nthr (apply_keep l k) i =
    let a := nthr l i in
    if memb i k then set_verdict a (if change_t l k then ambiguity_type (ty a) else ty a)
                                   (if change_g l k then ambiguity_type (ty a) else gty a) (mm a || change_t l k || change_g l k)
    else set_verdict a Suspended Suspended (mm a).
Proof. intros H. unfold nthr at 1, apply_keep. rewrite nth_map_seq by exact H. reflexivity. Qed.

(* ---------- select_best_inconsistent: the first minimum ---------- *)
Lemma fold_min_spec (t:list (Z*nat)) : forall m0,
  let m := fold_left (fun m x => if fst x <? m then fst x else m) t m0 in
  m <= m0 /\ (forall x, In x t -> m <= fst x) /\ (m = m0 \/ In m (map fst t)).
Proof. induction t as [|x t IH]; intros m0; cbn [fold_left].
  - cbn. repeat split; [lia|intros x []|left; reflexivity].
  - destruct (IH (if fst x <? m0 then fst x else m0)) as [A [B C]]. cbn zeta in *. repeat split.
    + destruct (fst x <? m0) eqn:E; lia.
    + intros y [<-|Hy]; [destruct (fst x <? m0) eqn:E; lia|apply B; exact Hy].
    + destruct C as [C|C]; [|right; right; exact C]. destruct (fst x <? m0) eqn:E; [right; left; symmetry; exact C|left; exact C]. Qed.
Lemma first_min_spec (scores:list (Z*nat)) : scores <> [] ->
  In (first_min scores) (map fst scores) /\ forall x, In x scores -> first_min scores <= fst x.
Proof. destruct scores as [|s t]; [congruence|]. intros _. unfold first_min.
  destruct (fold_min_spec t (fst s)) as [A [B C]]. cbn zeta in *. split.
  - destruct C as [C|C]; [left; symmetry; exact C|right; exact C].
  - intros x [<-|Hx]; [exact A|apply B; exact Hx]. Qed.
Lemma best_inconsistent_idx_In l idx i : In i (best_inconsistent_idx l idx) <->
  In i idx /\ forall j, In j idx -> pen (nthr l i) <= pen (nthr l j).
Proof. unfold best_inconsistent_idx. set (scores := map (fun i => (pen (nthr l i), i)) idx).
  rewrite in_map_iff. split.
  - intros [[p k] [E H]]. cbn in E. subst k. apply filter_In in H. destruct H as [H1 H2]. cbn in H2. apply Z.eqb_eq in H2.
    unfold scores in H1. apply in_map_iff in H1. destruct H1 as [k [Ek Hk]]. injection Ek as Ep <-. split; [exact Hk|].
    intros j Hj. assert (NE: scores <> []) by (unfold scores; destruct idx; [destruct Hk|discriminate]).
    destruct (first_min_spec scores NE) as [_ B]. specialize (B (pen (nthr l j), j)). cbn in B.
    rewrite Ep, H2. apply B. unfold scores. apply in_map_iff. exists j. auto.
  - intros [Hi Hmin]. exists (pen (nthr l i), i). split; [reflexivity|]. apply filter_In. split.
    + unfold scores. apply in_map_iff. exists i. auto.
    + cbn. apply Z.eqb_eq. assert (NE: scores <> []) by (unfold scores; destruct idx; [destruct Hi|discriminate]).
      destruct (first_min_spec scores NE) as [A B]. apply in_map_iff in A. destruct A as [[p k] [Ek Hk]]. cbn in Ek.
      unfold scores in Hk. apply in_map_iff in Hk. destruct Hk as [k' [Ek' Hk']]. injection Ek' as Ep <-.
      specialize (B (pen (nthr l i), i)). cbn in B.
      assert (first_min scores <= pen (nthr l i)) by (apply B; unfold scores; apply in_map_iff; exists i; auto).
      specialize (Hmin k' Hk'). lia. Qed.
Lemma best_inconsistent_idx_NoDup l idx : NoDup idx -> NoDup (best_inconsistent_idx l idx).
Proof. intros ND. unfold best_inconsistent_idx.
  assert (G: forall (q:Z*nat -> bool) (x:list nat), NoDup x -> NoDup (map snd (filter q (map (fun i => (pen (nthr l i), i)) x)))).
  { intros q x. induction 1 as [|a t Hn _ IH]; cbn; [constructor|]. destruct (q _); [|exact IH]. cbn. constructor; [|exact IH].
    intros H. apply Hn. apply in_map_iff in H. destruct H as [[p k] [E H]]. cbn in E. subst k. apply filter_In in H. destruct H as [H _].
    apply in_map_iff in H. destruct H as [k [E H]]. injection E as _ <-. exact H. }
  apply G. exact ND. Qed.
Lemma best_inconsistent_idx_short l idx : (length idx <= 1)%nat -> best_inconsistent_idx l idx = idx.
Proof. destruct idx as [|i [|j t]]; cbn [length]; intros H; try lia; [reflexivity|].
  unfold best_inconsistent_idx, first_min. cbn. rewrite Z.eqb_refl. reflexivity. Qed.

(* ---------- select_noninformative: the two scans ---------- *)
Lemma intersection_len_nonneg a b : 0 <= intersection_len a b. Proof. unfold intersection_len. lia. Qed.
Lemma max_overlap_spec (infos:list (Z * list Z * nat)) : forall m0,
  let m := fold_left (fun m t => Z.max (fst (fst t)) m) infos m0 in
  m0 <= m /\ (forall t, In t infos -> fst (fst t) <= m) /\ (m = m0 \/ exists t, In t infos /\ fst (fst t) = m).
Proof. induction infos as [|x t IH]; intros m0; cbn [fold_left].
  - cbn. repeat split; [lia|intros t []|left; reflexivity].
  - destruct (IH (Z.max (fst (fst x)) m0)) as [A [B C]]. cbn zeta in *. repeat split.
    + lia.
    + intros y [<-|Hy]; [lia|apply B; exact Hy].
    + destruct C as [C|[y [H1 H2]]]; [|right; exists y; split; [right; exact H1|exact H2]].
      destruct (Z.max_spec (fst (fst x)) m0) as [[_ E]|[_ E]]; [left; lia|right; exists x; split; [left; reflexivity|lia]]. Qed.
Lemma scan_best_some maxo : forall infos m i, exists r' i',
  scan_best maxo infos (Some m) (Some i) = Some i' /\ zlist_le r' m /\
  (forall o r j, In (o, r, j) infos -> o = maxo -> zlist_le r' r) /\ ((r', i') = (m, i) \/ In (maxo, r', i') infos).
Proof. induction infos as [|[[o r] j] t IH]; intros m i; cbn [scan_best].
  - exists m, i. repeat split; [apply zlist_le_refl|intros ? ? ? []|left; reflexivity].
  - destruct ((o =? maxo) && zlist_ltb r m) eqn:E.
    + apply andb_prop in E. destruct E as [E1 E2]. apply Z.eqb_eq in E1. subst o.
      destruct (IH r j) as [r' [i' [A [B [C D]]]]]. exists r', i'. repeat split; [exact A|eapply zlist_le_trans; [exact B|apply zlist_lt_le; exact E2]| |].
      * intros o r0 j0 [H|H] Ho; [injection H as _ <- _; exact B|eapply C; eauto].
      * destruct D as [D|D]; [injection D as -> ->; right; left; reflexivity|right; right; exact D].
    + destruct (IH m i) as [r' [i' [A [B [C D]]]]]. exists r', i'. repeat split; [exact A|exact B| |].
      * intros o0 r0 j0 [H|H] Ho; [|eapply C; eauto]. injection H as -> -> _. subst o0. rewrite Z.eqb_refl in E. cbn [andb] in E.
        eapply zlist_le_trans; [exact B|exact E].
      * destruct D as [D|D]; [left; exact D|right; right; exact D]. Qed.
Lemma scan_best_none maxo : forall infos, (exists r j, In (maxo, r, j) infos) -> exists r' i',
  scan_best maxo infos None None = Some i' /\ (forall o r j, In (o, r, j) infos -> o = maxo -> zlist_le r' r) /\ In (maxo, r', i') infos.
Proof. induction infos as [|[[o r] j] t IH]; intros [r0 [j0 H0]]; [destruct H0|]. cbn [scan_best].
  destruct (o =? maxo) eqn:E; cbn [andb].
  - apply Z.eqb_eq in E. subst o. destruct (scan_best_some maxo t r j) as [r' [i' [A [B [C D]]]]]. exists r', i'. repeat split; [exact A| |].
    + intros o r1 j1 [H|H] Ho; [injection H as _ <- _; exact B|eapply C; eauto].
    + destruct D as [D|D]; [injection D as -> ->; left; reflexivity|right; exact D].
  - destruct H0 as [H0|H0]; [injection H0 as -> _ _; rewrite Z.eqb_refl in E; discriminate|].
    destruct (IH (ex_intro _ r0 (ex_intro _ j0 H0))) as [r' [i' [A [C D]]]]. exists r', i'. repeat split; [exact A| |right; exact D].
    intros o0 r1 j1 [H|H] Ho; [injection H as -> _ _; subst o0; rewrite Z.eqb_refl in E; discriminate|eapply C; eauto]. Qed.
(* the literal unrepaired scan is the generic one on singleton keys *)
Lemma scan_best_unrepaired_eq maxo : forall infos minrs best,
  scan_best_unrepaired maxo infos minrs best =
  scan_best maxo (map (fun t => (fst (fst t), [snd (fst t)], snd t)) infos) (option_map (fun m => [m]) minrs) best.
Proof. induction infos as [|[[o r] j] t IH]; intros minrs best; [reflexivity|]. cbn [scan_best_unrepaired map scan_best fst snd].
  assert (E: (match minrs with None => true | Some m => r <? m end) = (match option_map (fun m => [m]) minrs with None => true | Some m => zlist_ltb [r] m end)).
  { destruct minrs as [m|]; cbn [option_map]; [rewrite zlist_ltb_single|]; reflexivity. }
  rewrite <- E. destruct ((o =? maxo) && _); apply IH. Qed.

Lemma class_total a : p_inc a || p_cons a || p_non a = true.
Proof. unfold p_inc, p_cons, p_non. destruct (is_inconsistent (ty a)), (is_consistent (ty a)); reflexivity. Qed.
Lemma some_class_nonempty l : l <> [] -> existsb p_cons l = false -> existsb p_inc l = false -> idx_where p_non l <> [].
Proof. intros NE H1 H2 E. destruct l as [|a t]; [congruence|].
  assert (In 0%nat (idx_where p_non (a :: t))).
  { apply idx_where_In. split; [cbn; lia|]. cbn. cbn in H1, H2. apply orb_false_elim in H1, H2. pose proof (class_total a). destruct H1 as [H1 _], H2 as [H2 _].
    rewrite H1, H2 in H. exact H. }
  rewrite E in H. destruct H. Qed.
Lemma pu_cons a : p_pu a = true -> p_cons a = true.
Proof. unfold p_pu. intros H. apply andb_prop in H. destruct H as [H _]. apply andb_prop in H. tauto. Qed.
Lemma pi_inc a : p_pi a = true -> p_inc a = true.
Proof. unfold p_pi, p_inc. intros H. apply andb_prop in H. tauto. Qed.
Lemma existsb_impl (p q:rec -> bool) l : (forall a, p a = true -> q a = true) -> existsb p l = true -> existsb q l = true.
Proof. intros H. rewrite !existsb_exists. intros [x [H1 H2]]. exists x. auto. Qed.

Lemma select_best_inconsistent_eq l idx : select_best_inconsistent l idx = filter_assignments l (best_inconsistent_idx l idx).
Proof. unfold select_best_inconsistent. destruct (length idx <=? 1)%nat eqn:E; [|reflexivity].
  apply Nat.leb_le in E. rewrite best_inconsistent_idx_short by exact E. reflexivity. Qed.

Lemma existsb_perm {A} (p:A -> bool) l l' : Permutation l l' -> existsb p l = existsb p l'.
Proof. induction 1; cbn; try congruence. destruct (p x), (p y); reflexivity. Qed.
Lemma forallb_perm {A} (p:A -> bool) l l' : Permutation l l' -> forallb p l = forallb p l'.
Proof. induction 1; cbn; try congruence. destruct (p x), (p y); reflexivity. Qed.

(* ---------- the loader re-applies the verdict; suspended records are skipped ---------- *)
Lemma find_verdict_spec vs r : forall acc,
  let res := fold_left (fun acc a => if (aid a =? aid r) && (chr a =? chr r) then Some a else acc) vs acc in
  (res = acc \/ exists a, res = Some a /\ In a vs /\ aid a = aid r /\ chr a = chr r) /\
  ((exists a, In a vs /\ aid a = aid r /\ chr a = chr r) -> exists a, res = Some a /\ In a vs /\ aid a = aid r /\ chr a = chr r).
Proof. induction vs as [|x t IH]; intros acc; cbn [fold_left].
  - cbn. split; [left; reflexivity|intros [a [[] _]]].
  - destruct ((aid x =? aid r) && (chr x =? chr r)) eqn:E.
    + apply andb_prop in E. destruct E as [E1 E2]. apply Z.eqb_eq in E1, E2. destruct (IH (Some x)) as [[A|[a [A1 [A2 A3]]]] _]; cbn zeta in *.
      * split; [right|intros _]; exists x; (split; [exact A|split; [left; reflexivity|auto]]).
      * split; [right|intros _]; exists a; (split; [exact A1|split; [right; exact A2|exact A3]]).
    + destruct (IH acc) as [A B]; cbn zeta in *. split.
      * destruct A as [A|[a [A1 [A2 A3]]]]; [left; exact A|right; exists a; split; [exact A1|split; [right; exact A2|exact A3]]].
      * intros [a [[<-|Ha] [H1 H2]]]; [rewrite H1, H2, !Z.eqb_refl in E; discriminate|].
        destruct (B (ex_intro _ a (conj Ha (conj H1 H2)))) as [a' [A1 [A2 A3]]]. exists a'. split; [exact A1|split; [right; exact A2|exact A3]]. Qed.

Lemma nth_map_key g j : nth j (map (fun r => (aid r, chr r)) g) (0, 0) = (aid (nthr g j), chr (nthr g j)).
Proof. exact (map_nth (fun r => (aid r, chr r)) g dflt j). Qed.

(* multi-mappers are ignored by model construction (IntronCollector.collect_introns, IntronGraph.construct, ...):
   a read retained on records naming several isoforms or genes carries the flag on every one of them *)
Definition used_for_graph (a:rec) (has_introns:bool) : bool := has_introns && negb (mm a).

Lemma nth_verdicts out i : nth i (verdicts out) dv = verdict_of (nthr out i).
Proof. exact (map_nth verdict_of out dflt i). Qed.
Lemma distinct_count_ext (x y:list Z) : (forall a, In a x <-> In a y) -> distinct_count x = distinct_count y.
Proof. intros H. unfold distinct_count. apply Permutation_length. apply NoDup_Permutation; try apply NoDup_nodup.
  intros a. rewrite !nodup_In. apply H. Qed.
Lemma verdict_eqb_refl v : verdict_eqb v v = true.
Proof. destruct v as [[a b] c]. unfold verdict_eqb. cbn. rewrite !atype_eqb_refl. destruct c; reflexivity. Qed.
Lemma ambiguity_not_suspended t : is_suspended (ambiguity_type t) = false.
Proof. unfold ambiguity_type. destruct (is_inconsistent t); reflexivity. Qed.

(* ================================================================================================================
   Everything that depends on the tie-break key of select_noninformative
   ================================================================================================================ *)
Module Gen.
Section TieKey.
Variable tk : rec -> list Z.          (* the tie-break key of an alignment, as the list of its components *)

(* ---------- select_noninformative ---------- *)
Definition noninformative_infos (l:list rec) (idx:list nat) : list (Z * list Z * nat) :=
  map (fun i => (ovl (nthr l i), tk (nthr l i), i)) idx.
Definition pick_noninformative (l:list rec) (idx:list nat) : option nat :=
  let infos := noninformative_infos l idx in scan_best (max_overlap infos) infos None None.
Definition select_noninformative (l:list rec) (idx:list nat) : outcome (list rec) :=
  match pick_noninformative l idx with
  | None => Raises 2                                 (* assert best_assignment != -1 *)
  | Some b => Ok (filter_assignments l [b])
  end.

(* ---------- select_best_assignment ---------- *)
Definition select_best_assignment (l:list rec) : outcome (list rec) :=
  let primary_unique := idx_where p_pu l in
  let consistent := idx_where p_cons l in
  let inconsistent := idx_where p_inc l in
  let primary_inconsistent := idx_where p_pi l in
  let noninformative := idx_where p_non l in
  if nonempty primary_unique then Ok (filter_assignments l primary_unique)
  else if nonempty consistent then Ok (filter_assignments l consistent)
  else if nonempty primary_inconsistent then Ok (select_best_inconsistent l primary_inconsistent)
  else if nonempty inconsistent then Ok (select_best_inconsistent l inconsistent)
  else if nonempty noninformative then select_noninformative l noninformative
  else Ok (firstn 1 l).

(* ---------- resolve ---------- *)
Definition resolve (s:strategy) (l:list rec) : outcome (list rec) :=
  if (length l <=? 1)%nat then Ok l else
  match s with
  | IgnoreMultimapper => Ok (map (fun a => set_verdict a Suspended (gty a) (mm a)) l)
  | Merge =>   (* passes a Python set to find_duplicates, which indexes it: TypeError as soon as it has two elements *)
      let informative := idx_where (fun a => negb (atype_eqb (ty a) Noninformative)) l in
      if (length informative <=? 1)%nat then Ok (filter_assignments l informative) else Raises 3
  | TakeBest => select_best_assignment l
  end.

(* ---------- the loader: collect_reads -> resolve_multimappers -> construct_models_in_parallel ---------- *)
Definition load_record (s:strategy) (all:list rec) (c:Z) (r:rec) : outcome (list rec) :=
  let g := group_of all (rd r) in
  if (1 <? length g)%nat then
    match resolve s g with
    | Ok res => Ok (match apply_verdict (nonempty_opt (filter (fun a => chr a =? c) res)) r with Some r' => [r'] | None => [] end)
    | Raises k => Raises k
    end
  else Ok [r].
Definition load_all (s:strategy) (files:list (Z * list rec)) : outcome (list (list rec)) :=
  let all := flat_map snd files in
  collect_ok (map (fun f => match collect_ok (map (load_record s all (fst f)) (snd f)) with
                            | Ok x => Ok [x] | Raises k => Raises k end) files).

(* ---------- declarative description of the verdict ---------- *)
(* best overlap with the gene region, then lowest tie-break key *)
Definition best_non (l:list rec) (r:rec) : bool :=
  p_non r && forallb (fun x => negb (p_non x) || (ovl x <? ovl r) || ((ovl x =? ovl r) && negb (zlist_ltb (tk x) (tk r)))) l.
(* the priority classes: primary unique > consistent > primary inconsistent > inconsistent > uninformative *)
Definition winner (l:list rec) (r:rec) : bool :=
  if existsb p_pu l then p_pu r
  else if existsb p_cons l then p_cons r
  else if existsb p_pi l then best_pen p_pi l r
  else if existsb p_inc l then best_pen p_inc l r
  else best_non l r.

Definition spec_ok (l:list rec) (out:list verdict) : bool :=
  let idxs := seq 0 (length l) in
  let kept := kept_of l out in
  let ct := (1 <? distinct_count (flat_map (fun i => isos (nthr l i)) kept))%nat in
  let cg := (1 <? distinct_count (flat_map (fun i => gns (nthr l i)) kept))%nat in
  (length out =? length l)%nat
  (* losers are suspended (both types), nothing else changes on them *)
  && forallb (fun i => visible (nth i out dv) || verdict_eqb (nth i out dv) (Suspended, Suspended, mm (nthr l i))) idxs
  (* only members of the best class are kept *)
  && forallb (fun i => winner l (nthr l i)) kept
  (* two records with the same key never both survive *)
  && forallb (fun i => forallb (fun j => (i =? j)%nat || negb (rec_eq (nthr l i) (nthr l j))) kept) kept
  (* ties: every member of the best class is kept (up to duplicates); of uninformative records exactly one *)
  && (if only_uninformative l then (length kept =? 1)%nat
      else forallb (fun i => negb (winner l (nthr l i)) || existsb (fun j => rec_eq (nthr l i) (nthr l j)) kept) idxs)
  (* kept on several isoforms / genes: re-typed ambiguous and flagged; otherwise unchanged *)
  && forallb (fun i => let a := nthr l i in
                verdict_eqb (nth i out dv) (if ct then ambiguity_type (ty a) else ty a,
                                            if cg then ambiguity_type (ty a) else gty a, mm a || ct || cg)) kept.

(* the hypothesis of order independence: uninformative records that tie on (overlap, tie-break key) share their __eq__ key *)
Definition no_tie_b (l:list rec) : bool :=
  forallb (fun a => forallb (fun b => negb (p_non a && p_non b && (ovl a =? ovl b) && zlist_eqb (tk a) (tk b)) || rec_eq a b) l) l.

(* ---------- support for the correspondence ---------- *)
Definition model_out (s:strategy) (l:list rec) : outcome (list verdict) :=
  match resolve s l with Ok r => Ok (verdicts r) | Raises k => Raises k end.
(* one multiset of records under several orders: (base, [(order, implementation verdicts)]) *)
Definition run_check (s:strategy) (c:list rec * list (list nat * outcome (list verdict))) : bool :=
  forallb (fun r => verdicts_eqb (model_out s (permute (fst c) (fst r))) (snd r)) (snd c).
(* `guard`: when the retained key sets of all orders must agree *)
Definition run_spec_with (guard:list rec -> bool) (c:list rec * list (list nat * outcome (list verdict))) : bool :=
  let base := fst c in
  forallb (fun r => match snd r with
                    | Ok out => if spec_pre base then spec_ok (permute base (fst r)) out
                                else if (length base <=? 1)%nat then list_eqb verdict_eqb out (verdicts (permute base (fst r))) else true
                    | Raises _ => false end) (snd c)
  && (negb (spec_pre base && guard base) ||
      match snd c with
      | (p0, Ok out0) :: rest =>
          forallb (fun r => match snd r with
                            | Ok out => same_keys (kept_recs (permute base p0) out0) (kept_recs (permute base (fst r)) out)
                            | Raises _ => false end) rest
      | _ => true end).
Definition run_spec := run_spec_with no_tie_b.
Definition model_load (s:strategy) (files:list (Z * list rec)) : outcome (list loaded) :=
  match load_all s files with Ok x => Ok (map loaded_of x) | Raises k => Raises k end.
(* case: (files, output of the default path, output of the --high_memory path, [(match penalties, BasicReadAssignment.penalty_score)]) *)
Definition load_check (c:list (Z * list rec) * outcome (list loaded) * outcome (list loaded) * list (list Z * Z)) : bool :=
  let '(files, o1, o2, pens) := c in
  outcome_eqb loaded_eqb (model_load TakeBest files) o1 && outcome_eqb loaded_eqb (model_load TakeBest files) o2 &&
  forallb (fun x => basic_penalty (fst x) =? snd x) pens.
Definition load_spec_one (files:list (Z * list rec)) (outp:list loaded) : bool :=
  let all := flat_map snd files in
  (length outp =? length files)%nat &&
  forallb (fun o => forallb (fun x => visible (snd x)) o) outp &&
  forallb (fun r => let g := group_of all (rd r) in
             if spec_pre g then spec_ok g (map (observed files outp) g)
             else if (length g <=? 1)%nat then verdict_eqb (observed files outp r) (verdict_of r) else true) all.
Definition load_spec (c:list (Z * list rec) * outcome (list loaded) * outcome (list loaded) * list (list Z * Z)) : bool :=
  let '(files, o1, o2, pens) := c in
  match o1, o2 with Ok a, Ok b => load_spec_one files a && load_spec_one files b | _, _ => false end.

(* ================================================================================================================
   Proofs
   ================================================================================================================ *)
Definition beats_or_ties (l:list rec) (b j:nat) : Prop :=
  ovl (nthr l j) < ovl (nthr l b) \/ (ovl (nthr l j) = ovl (nthr l b) /\ zlist_le (tk (nthr l b)) (tk (nthr l j))).
Lemma pick_noninformative_spec l idx : idx <> [] ->
  exists b, pick_noninformative l idx = Some b /\ In b idx /\ forall j, In j idx -> beats_or_ties l b j.
Proof. intros NE. unfold pick_noninformative. set (infos := noninformative_infos l idx).
  destruct (max_overlap_spec infos 0) as [A [B C]]. cbn zeta in *. fold (max_overlap infos) in A, B, C.
  assert (Hin: forall o r j, In (o, r, j) infos <-> In j idx /\ o = ovl (nthr l j) /\ r = tk (nthr l j)).
  { intros o r j. unfold infos, noninformative_infos. rewrite in_map_iff. split.
    - intros [k [E H]]. injection E as <- <- <-. auto.
    - intros [H [-> ->]]. exists j. auto. }
  assert (Hmax: exists r j, In (max_overlap infos, r, j) infos).
  { destruct C as [C|[[[o r] j] [H1 H2]]].
    - destruct idx as [|i t]; [congruence|]. exists (tk (nthr l i)), i. apply Hin. split; [left; reflexivity|split; [|reflexivity]].
      assert (ovl (nthr l i) <= max_overlap infos) by (apply (B (ovl (nthr l i), tk (nthr l i), i)); apply Hin; split; [left; reflexivity|auto]).
      pose proof (intersection_len_nonneg (reg (nthr l i)) (st (nthr l i), en (nthr l i))). unfold ovl in *. lia.
    - cbn in H2. subst o. exists r, j. exact H1. }
  destruct (scan_best_none (max_overlap infos) infos Hmax) as [r' [b [S1 [S2 S3]]]].
  exists b. apply Hin in S3. destruct S3 as [Hb [Eo Er]]. split; [exact S1|]. split; [exact Hb|].
  intros j Hj. unfold beats_or_ties.
  assert (ovl (nthr l j) <= max_overlap infos) by (apply (B (ovl (nthr l j), tk (nthr l j), j)); apply Hin; auto).
  destruct (Z.eq_dec (ovl (nthr l j)) (max_overlap infos)) as [E|E]; [right|left; lia]. split; [lia|].
  rewrite <- Er. apply (S2 (ovl (nthr l j)) (tk (nthr l j)) j); [apply Hin; auto|exact E]. Qed.

(* ---------- the verdict as an index list: what select_best_assignment hands to apply_keep ---------- *)
Definition sel_idx (l:list rec) : list nat :=
  if nonempty (idx_where p_pu l) then idx_where p_pu l
  else if nonempty (idx_where p_cons l) then idx_where p_cons l
  else if nonempty (idx_where p_pi l) then best_inconsistent_idx l (idx_where p_pi l)
  else if nonempty (idx_where p_inc l) then best_inconsistent_idx l (idx_where p_inc l)
  else match pick_noninformative l (idx_where p_non l) with Some b => [b] | None => [] end.
(* the records that are retained *)
Definition keep_idx (l:list rec) : list nat := find_duplicates l (sel_idx l).

Theorem select_best_assignment_eq l : l <> [] -> select_best_assignment l = Ok (apply_keep l (keep_idx l)).
Proof. intros NE. unfold select_best_assignment, keep_idx, sel_idx.
  destruct (nonempty (idx_where p_pu l)); [reflexivity|].
  destruct (nonempty (idx_where p_cons l)) eqn:E2; [reflexivity|].
  destruct (nonempty (idx_where p_pi l)); [rewrite select_best_inconsistent_eq; reflexivity|].
  destruct (nonempty (idx_where p_inc l)) eqn:E4; [rewrite select_best_inconsistent_eq; reflexivity|].
  rewrite nonempty_idx_where in E2, E4. pose proof (some_class_nonempty l NE E2 E4) as NN.
  destruct (pick_noninformative_spec l _ NN) as [b [Hb _]].
  assert (N5: nonempty (idx_where p_non l) = true) by (destruct (idx_where p_non l); [congruence|reflexivity]).
  rewrite N5. unfold select_noninformative. rewrite Hb. reflexivity. Qed.
Theorem take_best_never_raises l : exists out, resolve TakeBest l = Ok out.
Proof. unfold resolve. destruct (length l <=? 1)%nat eqn:E; [eexists; reflexivity|].
  rewrite select_best_assignment_eq; [eexists; reflexivity|]. intros ->. discriminate. Qed.
Theorem resolve_take_best_eq l : (1 < length l)%nat -> resolve TakeBest l = Ok (apply_keep l (keep_idx l)).
Proof. intros H. unfold resolve. destruct (length l <=? 1)%nat eqn:E; [apply Nat.leb_le in E; lia|].
  apply select_best_assignment_eq. intros ->. cbn in H. lia. Qed.

(* ---------- the selected indices are exactly the winners of the best class ---------- *)
Lemma best_pen_nthr p l i : (i < length l)%nat ->
  (best_pen p l (nthr l i) = true <-> In i (idx_where p l) /\ forall j, In j (idx_where p l) -> pen (nthr l i) <= pen (nthr l j)).
Proof. intros Hi. unfold best_pen. rewrite andb_true_iff, forallb_nthr. split.
  - intros [H1 H2]. split; [apply idx_where_In; auto|]. intros j Hj. apply idx_where_In in Hj. destruct Hj as [Hj1 Hj2].
    specialize (H2 j Hj1). rewrite Hj2 in H2. cbn in H2. lia.
  - intros [H1 H2]. apply idx_where_In in H1. destruct H1 as [_ H1]. split; [exact H1|]. intros j Hj.
    destruct (p (nthr l j)) eqn:E; [|reflexivity]. cbn. apply Z.leb_le. apply H2. apply idx_where_In. auto. Qed.
Lemma best_non_nthr l b : (b < length l)%nat ->
  (best_non l (nthr l b) = true <-> In b (idx_where p_non l) /\ forall j, In j (idx_where p_non l) -> beats_or_ties l b j).
Proof. intros Hb. unfold best_non, beats_or_ties, zlist_le. rewrite andb_true_iff, forallb_nthr. split.
  - intros [H1 H2]. split; [apply idx_where_In; auto|]. intros j Hj. apply idx_where_In in Hj. destruct Hj as [Hj1 Hj2].
    specialize (H2 j Hj1). rewrite Hj2 in H2. cbn [negb orb] in H2. apply orb_true_iff in H2. destruct H2 as [H2|H2]; [left; lia|right].
    apply andb_prop in H2. destruct H2 as [H3 H4]. apply negb_true_iff in H4. split; [lia|exact H4].
  - intros [H1 H2]. apply idx_where_In in H1. destruct H1 as [_ H1]. split; [exact H1|]. intros j Hj.
    destruct (p_non (nthr l j)) eqn:E; [|reflexivity]. cbn [negb orb]. assert (In j (idx_where p_non l)) by (apply idx_where_In; auto).
    specialize (H2 j H). apply orb_true_iff. destruct H2 as [H2|[H2 H3]]; [left; lia|right]. rewrite H3. cbn [negb]. rewrite andb_true_r. lia. Qed.

Lemma sel_idx_sound l i : In i (sel_idx l) -> (i < length l)%nat /\ winner l (nthr l i) = true.
Proof. unfold sel_idx, winner. rewrite !nonempty_idx_where.
  destruct (existsb p_pu l); [intros H; apply idx_where_In in H; exact H|].
  destruct (existsb p_cons l); [intros H; apply idx_where_In in H; exact H|].
  destruct (existsb p_pi l).
  { intros H. apply best_inconsistent_idx_In in H. destruct H as [H1 H2]. pose proof (proj1 (idx_where_In _ _ _) H1) as [Hi _].
    split; [exact Hi|]. apply best_pen_nthr; auto. }
  destruct (existsb p_inc l).
  { intros H. apply best_inconsistent_idx_In in H. destruct H as [H1 H2]. pose proof (proj1 (idx_where_In _ _ _) H1) as [Hi _].
    split; [exact Hi|]. apply best_pen_nthr; auto. }
  destruct (idx_where p_non l) as [|x t] eqn:E.
  { unfold pick_noninformative. cbn. intros []. }
  destruct (pick_noninformative_spec l (idx_where p_non l)) as [b [Hb [Hb1 Hb2]]]; [rewrite E; discriminate|].
  rewrite <- E, Hb. intros [<-|[]]. pose proof (proj1 (idx_where_In _ _ _) Hb1) as [Hi _]. split; [exact Hi|]. apply best_non_nthr; auto. Qed.
Lemma sel_idx_complete l i : only_uninformative l = false -> (i < length l)%nat -> winner l (nthr l i) = true -> In i (sel_idx l).
Proof. unfold only_uninformative, sel_idx, winner. rewrite !nonempty_idx_where. intros OU Hi.
  destruct (existsb p_pu l); [intros H; apply idx_where_In; auto|].
  destruct (existsb p_cons l) eqn:E2; [intros H; apply idx_where_In; auto|].
  destruct (existsb p_pi l) eqn:E3; [intros H; apply best_inconsistent_idx_In; apply best_pen_nthr; auto|].
  destruct (existsb p_inc l) eqn:E4; [intros H; apply best_inconsistent_idx_In; apply best_pen_nthr; auto|].
  cbn in OU. discriminate. Qed.
Lemma sel_idx_uninformative l : l <> [] -> only_uninformative l = true ->
  exists b, sel_idx l = [b] /\ (b < length l)%nat /\ winner l (nthr l b) = true.
Proof. intros NE OU. unfold only_uninformative in OU. apply andb_prop in OU. destruct OU as [O1 O2]. apply negb_true_iff in O1, O2.
  assert (E1: existsb p_pu l = false).
  { destruct (existsb p_pu l) eqn:E; [|reflexivity]. rewrite (existsb_impl _ _ _ pu_cons E) in O1. discriminate. }
  assert (E3: existsb p_pi l = false).
  { destruct (existsb p_pi l) eqn:E; [|reflexivity]. rewrite (existsb_impl _ _ _ pi_inc E) in O2. discriminate. }
  pose proof (some_class_nonempty l NE O1 O2) as NN. destruct (pick_noninformative_spec l _ NN) as [b [Hb [Hb1 Hb2]]].
  exists b. assert (S: sel_idx l = [b]) by (unfold sel_idx; rewrite !nonempty_idx_where, E1, O1, E3, O2, Hb; reflexivity).
  split; [exact S|]. apply sel_idx_sound. rewrite S. left. reflexivity. Qed.
Lemma sel_idx_NoDup l : NoDup (sel_idx l).
Proof. unfold sel_idx. repeat match goal with |- context [if ?b then _ else _] => destruct b end;
  try apply idx_where_NoDup; try (apply best_inconsistent_idx_NoDup, idx_where_NoDup).
  destruct (pick_noninformative _ _); constructor; [intros []|constructor]. Qed.
Lemma sel_idx_nonempty l : l <> [] -> sel_idx l <> [].
Proof. intros NE. destruct (only_uninformative l) eqn:OU.
  - destruct (sel_idx_uninformative l NE OU) as [b [-> _]]. discriminate.
  - (* some consistent or inconsistent record exists; the class list and its best part are non-empty *)
    unfold only_uninformative in OU. unfold sel_idx. rewrite !nonempty_idx_where.
    assert (G: forall p, existsb p l = true -> best_inconsistent_idx l (idx_where p l) <> []).
    { intros p E. rewrite <- nonempty_idx_where in E. destruct (idx_where p l) as [|x t] eqn:Ex; [discriminate|].
      set (scores := map (fun i => (pen (nthr l i), i)) (x :: t)).
      destruct (first_min_spec scores ltac:(discriminate)) as [A _]. apply in_map_iff in A. destruct A as [[q k] [E1 E2]]. cbn in E1.
      intros Hn. assert (In k (best_inconsistent_idx l (x :: t))).
      { unfold best_inconsistent_idx. fold scores. apply in_map_iff. exists (q, k). split; [reflexivity|]. apply filter_In. split; [exact E2|].
        cbn. apply Z.eqb_eq. exact E1. }
      rewrite Hn in H. destruct H. }
    assert (G2: forall p, existsb p l = true -> idx_where p l <> []).
    { intros p E. rewrite <- nonempty_idx_where in E. destruct (idx_where p l); [discriminate|discriminate]. }
    destruct (existsb p_pu l) eqn:E1; [apply G2; exact E1|].
    destruct (existsb p_cons l) eqn:E2; [apply G2; exact E2|].
    destruct (existsb p_pi l) eqn:E3; [apply G; exact E3|].
    destruct (existsb p_inc l) eqn:E4; [apply G; exact E4|]. cbn in OU. discriminate. Qed.

(* ================================================================================================================
   The property's statements
   ================================================================================================================ *)
(* every record that is retained belongs to the best class *)
Theorem kept_are_winners l i : In i (keep_idx l) -> (i < length l)%nat /\ winner l (nthr l i) = true.
Proof. intros H. apply sel_idx_sound. eapply fd_subset. exact H. Qed.
(* the read is never lost *)
Theorem keep_idx_nonempty l : l <> [] -> keep_idx l <> [].
Proof. intros NE. apply fd_nonempty, sel_idx_nonempty, NE. Qed.

(* a primary alignment that is uniquely and consistently assigned wins over all others *)
Theorem primary_unique_wins l i : (i < length l)%nat -> p_pu (nthr l i) = true ->
  (forall j, (j < length l)%nat -> j <> i -> p_pu (nthr l j) = false) -> keep_idx l = [i].
Proof. intros Hi Hp Hothers.
  assert (E: existsb p_pu l = true) by (apply existsb_nthr; exists i; auto).
  assert (S: sel_idx l = [i]).
  { unfold sel_idx. rewrite nonempty_idx_where, E. apply NoDup_singleton; [apply idx_where_NoDup|]. intros j. rewrite idx_where_In. split.
    - intros [H1 H2]. destruct (Nat.eq_dec j i) as [->|Hne]; [reflexivity|]. rewrite (Hothers j H1 Hne) in H2. discriminate.
    - intros ->. auto. }
  unfold keep_idx. rewrite S. reflexivity. Qed.
(* with several of them (e.g. the same read name in two files) only they are retained *)
Theorem primary_unique_only l : existsb p_pu l = true -> forall i, In i (keep_idx l) -> p_pu (nthr l i) = true.
Proof. intros E i H. apply kept_are_winners in H. destruct H as [_ H]. unfold winner in H. rewrite E in H. exact H. Qed.

(* consistent > inconsistent > uninformative *)
Theorem class_order l :
  (existsb p_cons l = true -> forall i, In i (keep_idx l) -> p_cons (nthr l i) = true) /\
  (existsb p_cons l = false -> existsb p_inc l = true -> forall i, In i (keep_idx l) -> p_inc (nthr l i) = true) /\
  (existsb p_pi l = true -> existsb p_cons l = false -> forall i, In i (keep_idx l) -> p_pi (nthr l i) = true).
Proof. repeat split.
  - intros E i H. apply kept_are_winners in H. destruct H as [_ H]. unfold winner in H. rewrite E in H.
    destruct (existsb p_pu l); [apply pu_cons; exact H|exact H].
  - intros E1 E2 i H. apply kept_are_winners in H. destruct H as [_ H]. unfold winner in H. rewrite E1, E2 in H.
    assert (E0: existsb p_pu l = false).
    { destruct (existsb p_pu l) eqn:E; [|reflexivity]. rewrite (existsb_impl _ _ _ pu_cons E) in E1. discriminate. }
    rewrite E0 in H. unfold best_pen in H. destruct (existsb p_pi l); apply andb_prop in H; destruct H as [H _]; [apply pi_inc; exact H|exact H].
  - intros E1 E2 i H. apply kept_are_winners in H. destruct H as [_ H]. unfold winner in H. rewrite E1, E2 in H.
    assert (E0: existsb p_pu l = false).
    { destruct (existsb p_pu l) eqn:E; [|reflexivity]. rewrite (existsb_impl _ _ _ pu_cons E) in E2. discriminate. }
    rewrite E0 in H. unfold best_pen in H. apply andb_prop in H. tauto. Qed.

(* the losers are suspended (both types); nothing but the two types and the flag is ever changed *)
Theorem losers_suspended l out i : (1 < length l)%nat -> resolve TakeBest l = Ok out -> (i < length l)%nat -> ~ In i (keep_idx l) ->
  ty (nthr out i) = Suspended /\ gty (nthr out i) = Suspended.
Proof. intros L R Hi Hn. rewrite (resolve_take_best_eq l L) in R. injection R as <-. rewrite apply_keep_nth by exact Hi. cbn zeta.
  destruct (memb i (keep_idx l)) eqn:M; [apply memb_In in M; contradiction|]. split; reflexivity. Qed.
Theorem kept_not_suspended l out i : (1 < length l)%nat -> resolve TakeBest l = Ok out -> In i (keep_idx l) -> ty (nthr l i) <> Suspended ->
  ty (nthr out i) <> Suspended.
Proof. intros L R Hk Hs. rewrite (resolve_take_best_eq l L) in R. injection R as <-. destruct (kept_are_winners l i Hk) as [Hi _].
  rewrite apply_keep_nth by exact Hi. cbn zeta. apply memb_In in Hk. rewrite Hk. unfold set_verdict. cbn [ty].
  destruct (change_t l (keep_idx l)); [|exact Hs]. unfold ambiguity_type. destruct (is_inconsistent _); discriminate. Qed.
Theorem resolve_preserves_identity l out i : (1 < length l)%nat -> resolve TakeBest l = Ok out ->
  length out = length l /\ ((i < length l)%nat -> let a := nthr l i in let b := nthr out i in
    aid b = aid a /\ rd b = rd a /\ chr b = chr a /\ st b = st a /\ en b = en a /\ reg b = reg a /\ isos b = isos a /\ gns b = gns a /\ pen b = pen a /\ polya b = polya a).
Proof. intros L R. rewrite (resolve_take_best_eq l L) in R. injection R as <-. split; [apply apply_keep_length|]. intros Hi.
  rewrite apply_keep_nth by exact Hi. cbn zeta. destruct (memb i (keep_idx l)); cbn; repeat split; reflexivity. Qed.

(* ties: every member of the best class is retained, up to records with the same key *)
Theorem ties_kept l i : only_uninformative l = false -> (i < length l)%nat -> winner l (nthr l i) = true ->
  exists j, In j (keep_idx l) /\ rec_eq (nthr l j) (nthr l i) = true.
Proof. intros OU Hi W. apply fd_cover. apply sel_idx_complete; assumption. Qed.
(* ... and re-typed ambiguous and flagged when together they name more than one isoform (resp. gene) *)
Theorem ties_flagged l out i : (1 < length l)%nat -> resolve TakeBest l = Ok out -> In i (keep_idx l) ->
  (change_t l (keep_idx l) = true -> ty (nthr out i) = ambiguity_type (ty (nthr l i)) /\ mm (nthr out i) = true) /\
  (change_g l (keep_idx l) = true -> gty (nthr out i) = ambiguity_type (ty (nthr l i)) /\ mm (nthr out i) = true) /\
  (change_t l (keep_idx l) = false -> change_g l (keep_idx l) = false -> verdict_of (nthr out i) = verdict_of (nthr l i)).
Proof. intros L R Hk. rewrite (resolve_take_best_eq l L) in R. injection R as <-. destruct (kept_are_winners l i Hk) as [Hi _].
  rewrite apply_keep_nth by exact Hi. cbn zeta. apply memb_In in Hk. rewrite Hk. unfold set_verdict, verdict_of. cbn [ty gty mm].
  destruct (change_t l (keep_idx l)), (change_g l (keep_idx l)); repeat split; intros; try discriminate; try reflexivity;
  rewrite ?orb_true_r, ?orb_false_r; reflexivity. Qed.
(* among uninformative records exactly one is retained: best overlap with its gene region, then lowest region start *)
Theorem uninformative_single l : l <> [] -> only_uninformative l = true ->
  exists b, keep_idx l = [b] /\ (b < length l)%nat /\ best_non l (nthr l b) = true.
Proof. intros NE OU. destruct (sel_idx_uninformative l NE OU) as [b [S [Hb W]]]. exists b. unfold keep_idx. rewrite S. split; [reflexivity|].
  split; [exact Hb|]. unfold winner in W. unfold only_uninformative in OU. apply andb_prop in OU. destruct OU as [O1 O2]. apply negb_true_iff in O1, O2.
  destruct (existsb p_pu l) eqn:E1; [rewrite (existsb_impl _ _ _ pu_cons E1) in O1; discriminate|].
  destruct (existsb p_pi l) eqn:E3; [rewrite (existsb_impl _ _ _ pi_inc E3) in O2; discriminate|]. rewrite O1, O2 in W. exact W. Qed.

(* duplicates: two records with the same key never both survive *)
Theorem dedup l a b : In a (keep_idx l) -> In b (keep_idx l) -> rec_eq (nthr l a) (nthr l b) = true -> a = b.
Proof. apply fd_distinct, sel_idx_NoDup. Qed.
Theorem keep_idx_NoDup l : NoDup (keep_idx l). Proof. apply fd_NoDup, sel_idx_NoDup. Qed.

(* ---------- order independence of the retained key set ---------- *)
Definition kept_keys (l:list rec) : list (Z * Z * Z * Z * list Z) := map (fun i => key_of (nthr l i)) (keep_idx l).
(* uninformative records that tie on (overlap with the gene region, tie-break key) have the same __eq__ key *)
Definition no_tie (l:list rec) : Prop :=
  forall a b, In a l -> In b l -> p_non a = true -> p_non b = true -> ovl a = ovl b -> tk a = tk b -> key_of a = key_of b.

Lemma winner_perm l l' r : Permutation l l' -> winner l r = winner l' r.
Proof. intros P. unfold winner, best_pen, best_non.
  rewrite (existsb_perm p_pu l l' P), (existsb_perm p_cons l l' P), (existsb_perm p_pi l l' P), (existsb_perm p_inc l l' P).
  rewrite !(forallb_perm _ l l' P). reflexivity. Qed.
Lemma only_uninformative_perm l l' : Permutation l l' -> only_uninformative l = only_uninformative l'.
Proof. intros P. unfold only_uninformative. rewrite (existsb_perm p_cons l l' P), (existsb_perm p_inc l l' P). reflexivity. Qed.
Lemma no_tie_perm l l' : Permutation l l' -> no_tie l -> no_tie l'.
Proof. intros P NT a b Ha Hb. apply NT; eapply Permutation_in; try apply Permutation_sym; eauto. Qed.
Lemma winner_uninformative l r : only_uninformative l = true -> winner l r = best_non l r.
Proof. intros OU. unfold only_uninformative in OU. apply andb_prop in OU. destruct OU as [O1 O2]. apply negb_true_iff in O1, O2. unfold winner.
  destruct (existsb p_pu l) eqn:E1; [rewrite (existsb_impl _ _ _ pu_cons E1) in O1; discriminate|].
  destruct (existsb p_pi l) eqn:E3; [rewrite (existsb_impl _ _ _ pi_inc E3) in O2; discriminate|]. rewrite O1, O2. reflexivity. Qed.
Lemma best_non_tie l a b : In a l -> In b l -> best_non l a = true -> best_non l b = true -> ovl a = ovl b /\ tk a = tk b.
Proof. unfold best_non. intros Ha Hb H1 H2. apply andb_prop in H1, H2. destruct H1 as [Pa Fa], H2 as [Pb Fb].
  rewrite forallb_forall in Fa, Fb. specialize (Fa b Hb). specialize (Fb a Ha). rewrite Pb in Fa. rewrite Pa in Fb. cbn [negb orb] in Fa, Fb.
  apply orb_true_iff in Fa, Fb. rewrite andb_true_iff, negb_true_iff in Fa, Fb.
  destruct Fa as [Fa|[Fa Ka]], Fb as [Fb|[Fb Kb]]; try lia. split; [lia|]. apply zlist_ltb_total; assumption. Qed.

Lemma kept_keys_perm_incl l l' : Permutation l l' -> no_tie l' -> forall k, In k (kept_keys l) -> In k (kept_keys l').
Proof. intros P NT k Hk. unfold kept_keys in Hk. apply in_map_iff in Hk. destruct Hk as [i [<- Hi]].
  destruct (kept_are_winners l i Hi) as [Li W]. set (r := nthr l i) in *.
  assert (Hr: In r l) by (apply nth_In; exact Li). assert (Hr': In r l') by (eapply Permutation_in; eauto).
  rewrite (winner_perm l l' r P) in W. destruct (In_nth l' r dflt Hr') as [i' [Li' Ei']]. fold (nthr l' i') in Ei'.
  destruct (only_uninformative l') eqn:OU.
  - assert (NE: l' <> []) by (intros ->; destruct Hr').
    destruct (uninformative_single l' NE OU) as [b [Kb [Lb Bb]]]. unfold kept_keys. rewrite Kb. left.
    rewrite (winner_uninformative l' r OU) in W.
    destruct (best_non_tie l' r (nthr l' b) Hr' (nth_In _ _ Lb) W Bb) as [T1 T2].
    symmetry. apply NT; try assumption; try (apply nth_In; exact Lb).
    + unfold best_non in W. apply andb_prop in W. tauto.
    + unfold best_non in Bb. apply andb_prop in Bb. tauto.
  - rewrite <- Ei' in W. destruct (ties_kept l' i' OU Li' W) as [j [Hj Ej]]. unfold kept_keys. apply in_map_iff. exists j. split; [|exact Hj].
    apply rec_eq_key in Ej. rewrite Ej, Ei'. reflexivity. Qed.
Theorem resolve_perm_invariant_partial l l' : Permutation l l' -> no_tie l -> forall k, In k (kept_keys l) <-> In k (kept_keys l').
Proof. intros P NT k. split.
  - apply kept_keys_perm_incl; [exact P|eapply no_tie_perm; eauto].
  - apply kept_keys_perm_incl; [apply Permutation_sym; exact P|exact NT]. Qed.
(* the decidable form of the hypothesis, as evaluated by the correspondence *)
Lemma no_tie_b_sound l : no_tie_b l = true -> no_tie l.
Proof. unfold no_tie_b. rewrite forallb_forall. intros H a b Ha Hb Pa Pb E1 E2. specialize (H a Ha). rewrite forallb_forall in H. specialize (H b Hb).
  rewrite Pa, Pb, E1, E2, Z.eqb_refl in H. rewrite (proj2 (zlist_eqb_eq _ _) eq_refl) in H. cbn in H. apply rec_eq_key. exact H. Qed.

(* ---------- the loader re-applies the verdict; suspended records are skipped ---------- *)
Theorem loader_applies_verdict g out i : (1 < length g)%nat -> resolve TakeBest g = Ok out ->
  NoDup (map (fun r => (aid r, chr r)) g) -> (i < length g)%nat ->
  apply_verdict (nonempty_opt (filter (fun a => chr a =? chr (nthr g i)) out)) (nthr g i) =
    if is_suspended (ty (nthr out i)) then None else Some (nthr out i).
Proof. intros L R ND Hi. destruct (resolve_preserves_identity g out i L R) as [Len Id]. specialize (Id Hi). cbn zeta in Id.
  set (r := nthr g i) in *. set (a := nthr out i) in *. set (vs := filter (fun a => chr a =? chr r) out).
  assert (Ha: In a vs).
  { apply filter_In. split; [apply nth_In; lia|]. apply Z.eqb_eq. tauto. }
  assert (NE: nonempty_opt vs = Some vs) by (destruct vs; [destruct Ha|reflexivity]). rewrite NE. unfold apply_verdict, find_verdict.
  destruct (find_verdict_spec vs r None) as [_ B]. cbn zeta in B.
  destruct B as [a' [F [Ha' [E1 E2]]]]; [exists a; split; [exact Ha|split; tauto]|]. rewrite F.
  assert (a' = a).
  { apply filter_In in Ha'. destruct Ha' as [Ha' _]. destruct (In_nth out a' dflt Ha') as [j [Lj Ej]]. fold (nthr out j) in Ej.
    destruct (resolve_preserves_identity g out j L R) as [_ Idj]. rewrite Len in Lj. specialize (Idj Lj). cbn zeta in Idj. rewrite Ej in Idj.
    assert (j = i).
    { rewrite NoDup_nth with (d := (0, 0)) in ND. apply ND; rewrite ?map_length; try assumption.
      rewrite !nth_map_key. fold r.
      destruct Idj as [J1 [_ [J3 _]]]. rewrite <- J1, <- J3, E1, E2. reflexivity. }
    subst j. symmetry. exact Ej. }
  subst a'.
  assert (SV: set_verdict r (ty a) (gty a) (mm a) = a).
  { clear - Id. clearbody a r. destruct a, r. cbn in Id. unfold set_verdict. cbn.
    destruct Id as [I1 [I2 [I3 [I4 [I5 [I6 [I7 [I8 [I9 I10]]]]]]]]]. subst. reflexivity. }
  rewrite SV. destruct (ty a); reflexivity. Qed.
(* the losers are suppressed by the loader, the retained records reach every consumer with the verdict's types and flag *)
Corollary losers_skipped_by_loader g out i : (1 < length g)%nat -> resolve TakeBest g = Ok out ->
  NoDup (map (fun r => (aid r, chr r)) g) -> (i < length g)%nat -> ~ In i (keep_idx g) ->
  apply_verdict (nonempty_opt (filter (fun a => chr a =? chr (nthr g i)) out)) (nthr g i) = None.
Proof. intros L R ND Hi Hn. rewrite (loader_applies_verdict g out i L R ND Hi). destruct (losers_suspended g out i L R Hi Hn) as [-> _]. reflexivity. Qed.
Corollary kept_loaded_with_verdict g out i : (1 < length g)%nat -> resolve TakeBest g = Ok out ->
  NoDup (map (fun r => (aid r, chr r)) g) -> In i (keep_idx g) -> ty (nthr g i) <> Suspended ->
  apply_verdict (nonempty_opt (filter (fun a => chr a =? chr (nthr g i)) out)) (nthr g i) = Some (nthr out i).
Proof. intros L R ND Hk Hs. destruct (kept_are_winners g i Hk) as [Hi _]. rewrite (loader_applies_verdict g out i L R ND Hi).
  pose proof (kept_not_suspended g out i L R Hk Hs). destruct (ty (nthr out i)); try reflexivity. congruence. Qed.

Corollary flagged_not_used_for_graph l out i h : (1 < length l)%nat -> resolve TakeBest l = Ok out -> In i (keep_idx l) ->
  change_t l (keep_idx l) || change_g l (keep_idx l) = true -> used_for_graph (nthr out i) h = false.
Proof. intros L R Hk C. destruct (ties_flagged l out i L R Hk) as [A [B _]]. unfold used_for_graph.
  apply orb_true_iff in C. destruct C as [C|C]; [destruct (A C) as [_ ->]|destruct (B C) as [_ ->]]; apply andb_false_r. Qed.

(* ================================================================================================================
   The model satisfies the decidable specification that the correspondence evaluates on the implementation's output
   ================================================================================================================ *)
Section ModelSpec.
Variable l : list rec.
Hypothesis Pre : spec_pre l = true.
Let K := keep_idx l.
Let out := apply_keep l K.

Lemma pre_len : (1 < length l)%nat. Proof. unfold spec_pre in Pre. apply andb_prop in Pre. destruct Pre as [H _]. apply Nat.ltb_lt in H. exact H. Qed.
Lemma pre_not_susp i : (i < length l)%nat -> is_suspended (ty (nthr l i)) = false.
Proof. intros Hi. unfold spec_pre in Pre. apply andb_prop in Pre. destruct Pre as [_ H]. rewrite forallb_nthr in H. specialize (H i Hi). apply negb_true_iff in H. exact H. Qed.
Lemma visible_out i : (i < length l)%nat -> visible (nth i (verdicts out) dv) = memb i K.
Proof. intros Hi. rewrite nth_verdicts. unfold out. rewrite apply_keep_nth by exact Hi. cbn zeta. unfold visible, verdict_of.
  destruct (memb i K); unfold set_verdict; cbn [fst snd ty]; [|reflexivity].
  destruct (change_t l K); [rewrite ambiguity_not_suspended; reflexivity|rewrite (pre_not_susp i Hi); reflexivity]. Qed.
Lemma kept_of_In i : In i (kept_of l (verdicts out)) <-> In i K.
Proof. unfold kept_of. rewrite filter_In, in_seq. split.
  - intros [[_ Hi] V]. cbn in Hi. rewrite visible_out in V by exact Hi. apply memb_In. exact V.
  - intros H. destruct (kept_are_winners l i H) as [Hi _]. split; [lia|]. rewrite visible_out by exact Hi. apply memb_In. exact H. Qed.
Lemma kept_of_NoDup : NoDup (kept_of l (verdicts out)). Proof. unfold kept_of. apply NoDup_filter, seq_NoDup. Qed.
Lemma flat_map_kept (f:nat -> list Z) : distinct_count (flat_map f (kept_of l (verdicts out))) = distinct_count (flat_map f K).
Proof. apply distinct_count_ext. intros a. rewrite !in_flat_map. split; intros [i [H1 H2]]; exists i; (split; [apply kept_of_In; exact H1|exact H2]). Qed.

Theorem model_satisfies_spec : spec_ok l (verdicts out) = true.
Proof. pose proof pre_len as L. unfold spec_ok. rewrite !flat_map_kept. fold (change_t l K). fold (change_g l K).
  repeat (apply andb_true_iff; split).
  - apply Nat.eqb_eq. unfold verdicts, out. rewrite map_length. apply apply_keep_length.
  - apply forallb_forall. intros i Hi. apply in_seq in Hi. assert (Hi': (i < length l)%nat) by lia. rewrite visible_out by exact Hi'.
    destruct (memb i K) eqn:M; [reflexivity|]. cbn [orb]. rewrite nth_verdicts. unfold out. rewrite apply_keep_nth by exact Hi'. cbn zeta. rewrite M.
    apply verdict_eqb_refl.
  - apply forallb_forall. intros i Hi. apply kept_of_In in Hi. apply (kept_are_winners l i Hi).
  - apply forallb_forall. intros i Hi. apply forallb_forall. intros j Hj. apply kept_of_In in Hi, Hj.
    destruct (rec_eq (nthr l i) (nthr l j)) eqn:E; [|apply orb_true_r]. rewrite (dedup l i j Hi Hj E). rewrite Nat.eqb_refl. reflexivity.
  - destruct (only_uninformative l) eqn:OU.
    + assert (NE: l <> []) by (intros E; rewrite E in L; cbn in L; lia).
      destruct (uninformative_single l NE OU) as [b [Kb _]]. apply Nat.eqb_eq.
      rewrite (NoDup_singleton (kept_of l (verdicts out)) b kept_of_NoDup); [reflexivity|].
      intros j. rewrite kept_of_In. unfold K. rewrite Kb. cbn. split; [intros [H|[]]; auto|intros ->; left; reflexivity].
    + apply forallb_forall. intros i Hi. apply in_seq in Hi. assert (Hi': (i < length l)%nat) by lia.
      destruct (winner l (nthr l i)) eqn:W; [|reflexivity]. cbn [negb orb]. apply existsb_exists.
      destruct (ties_kept l i OU Hi' W) as [j [Hj Ej]]. exists j. split; [apply kept_of_In; exact Hj|]. rewrite rec_eq_sym. exact Ej.
  - apply forallb_forall. intros i Hi. apply kept_of_In in Hi. destruct (kept_are_winners l i Hi) as [Hi' _].
    rewrite nth_verdicts. unfold out. rewrite apply_keep_nth by exact Hi'. cbn zeta. apply memb_In in Hi. fold K in Hi. rewrite Hi.
    unfold verdict_of, set_verdict. cbn [ty gty mm]. apply verdict_eqb_refl. Qed.
End ModelSpec.
(* stated for resolve *)
Theorem resolve_satisfies_spec l out : spec_pre l = true -> resolve TakeBest l = Ok out -> spec_ok l (verdicts out) = true.
Proof. intros Pre R. rewrite (resolve_take_best_eq l (pre_len l Pre)) in R. injection R as <-. apply model_satisfies_spec. exact Pre. Qed.
End TieKey.
End Gen.

(* ================================================================================================================
   The two variants
   ================================================================================================================ *)
(* REPAIRED select_noninformative: tie_break_key = (genomic_region[0], chr_id, start, end, isoforms); Python compares the
   tuples lexicographically (int, str, int, int, list of str) - here the list of the components, chromosome names and
   isoform ids numbered order-preservingly by the harness *)
Definition tkey (a:rec) : list Z := rstart a :: chr a :: st a :: en a :: isos a.
(* UNREPAIRED: genomic_region[0] alone *)
Definition tkey_unrepaired (a:rec) : list Z := [rstart a].

Definition noninformative_infos := Gen.noninformative_infos tkey.
Definition pick_noninformative := Gen.pick_noninformative tkey.
Definition select_noninformative := Gen.select_noninformative tkey.
Definition select_best_assignment := Gen.select_best_assignment tkey.
Definition resolve := Gen.resolve tkey.
Definition load_record := Gen.load_record tkey.
Definition load_all := Gen.load_all tkey.
Definition beats_or_ties := Gen.beats_or_ties tkey.
Definition best_non := Gen.best_non tkey.
Definition winner := Gen.winner tkey.
Definition spec_ok := Gen.spec_ok tkey.
Definition sel_idx := Gen.sel_idx tkey.
Definition keep_idx := Gen.keep_idx tkey.
Definition kept_keys := Gen.kept_keys tkey.
Definition model_out := Gen.model_out tkey.
Definition run_check := Gen.run_check tkey.
Definition model_load := Gen.model_load tkey.
Definition load_check := Gen.load_check tkey.
Definition load_spec_one := Gen.load_spec_one tkey.
Definition load_spec := Gen.load_spec tkey.

Definition noninformative_infos_generic_unrepaired := Gen.noninformative_infos tkey_unrepaired.
Definition select_noninformative_unrepaired := Gen.select_noninformative tkey_unrepaired.
Definition select_best_assignment_unrepaired := Gen.select_best_assignment tkey_unrepaired.
Definition resolve_unrepaired := Gen.resolve tkey_unrepaired.
Definition load_record_unrepaired := Gen.load_record tkey_unrepaired.
Definition load_all_unrepaired := Gen.load_all tkey_unrepaired.
Definition winner_unrepaired := Gen.winner tkey_unrepaired.
Definition spec_ok_unrepaired := Gen.spec_ok tkey_unrepaired.
Definition sel_idx_unrepaired := Gen.sel_idx tkey_unrepaired.
Definition keep_idx_unrepaired := Gen.keep_idx tkey_unrepaired.
Definition kept_keys_unrepaired := Gen.kept_keys tkey_unrepaired.
Definition model_out_unrepaired := Gen.model_out tkey_unrepaired.
Definition run_check_unrepaired := Gen.run_check tkey_unrepaired.
Definition run_spec_unrepaired := Gen.run_spec tkey_unrepaired.
Definition model_load_unrepaired := Gen.model_load tkey_unrepaired.
Definition load_check_unrepaired := Gen.load_check tkey_unrepaired.
Definition load_spec_unrepaired := Gen.load_spec tkey_unrepaired.

(* ---------- the unrepaired code, literally: triplets (overlap, genomic_region[0], index) ---------- *)
Definition noninformative_infos_unrepaired (l:list rec) (idx:list nat) : list (Z*Z*nat) :=
  map (fun i => (ovl (nthr l i), rstart (nthr l i), i)) idx.
Definition max_overlap_unrepaired (infos:list (Z*Z*nat)) : Z := fold_left (fun m t => Z.max (fst (fst t)) m) infos 0.
Definition pick_noninformative_unrepaired (l:list rec) (idx:list nat) : option nat :=
  let infos := noninformative_infos_unrepaired l idx in scan_best_unrepaired (max_overlap_unrepaired infos) infos None None.
Definition beats_or_ties_unrepaired (l:list rec) (b j:nat) : Prop :=
  ovl (nthr l j) < ovl (nthr l b) \/ (ovl (nthr l j) = ovl (nthr l b) /\ rstart (nthr l b) <= rstart (nthr l j)).
(* best overlap with the gene region, then lowest region start *)
Definition best_non_unrepaired (l:list rec) (r:rec) : bool :=
  p_non r && forallb (fun x => negb (p_non x) || (ovl x <? ovl r) || ((ovl x =? ovl r) && (rstart r <=? rstart x))) l.
(* uninformative records that tie on (overlap with the gene region, region start) have the same key *)
Definition no_tie_unrepaired (l:list rec) : Prop :=
  forall a b, In a l -> In b l -> p_non a = true -> p_non b = true -> ovl a = ovl b -> rstart a = rstart b -> key_of a = key_of b.
Definition no_tie_b_unrepaired (l:list rec) : bool :=
  forallb (fun a => forallb (fun b => negb (p_non a && p_non b && (ovl a =? ovl b) && (rstart a =? rstart b)) || rec_eq a b) l) l.

Lemma forallb_ext_all {A} (f g:A -> bool) l : (forall x, f x = g x) -> forallb f l = forallb g l.
Proof. intros H. induction l as [|a t IH]; cbn; [reflexivity|]. rewrite H, IH. reflexivity. Qed.
Lemma max_overlap_unrepaired_eq (infos:list (Z*Z*nat)) :
  max_overlap_unrepaired infos = max_overlap (map (fun t => (fst (fst t), [snd (fst t)], snd t)) infos).
Proof. unfold max_overlap_unrepaired, max_overlap. generalize 0. induction infos as [|x t IH]; intros m; [reflexivity|]. cbn [map fold_left fst]. apply IH. Qed.
(* the literal transcription picks what the instance of the generic model picks *)
Theorem pick_noninformative_unrepaired_eq l idx : pick_noninformative_unrepaired l idx = Gen.pick_noninformative tkey_unrepaired l idx.
Proof. unfold pick_noninformative_unrepaired, Gen.pick_noninformative. cbn zeta. rewrite scan_best_unrepaired_eq, max_overlap_unrepaired_eq.
  unfold noninformative_infos_unrepaired, Gen.noninformative_infos, tkey_unrepaired. rewrite map_map. reflexivity. Qed.
Lemma best_non_unrepaired_eq l r : best_non_unrepaired l r = Gen.best_non tkey_unrepaired l r.
Proof. unfold best_non_unrepaired, Gen.best_non, tkey_unrepaired. f_equal. apply forallb_ext_all. intros x.
  rewrite zlist_ltb_single. f_equal. f_equal. destruct (rstart r <=? rstart x) eqn:E1, (rstart x <? rstart r) eqn:E2; try reflexivity; lia. Qed.
Lemma beats_or_ties_unrepaired_iff l b j : beats_or_ties_unrepaired l b j <-> Gen.beats_or_ties tkey_unrepaired l b j.
Proof. unfold beats_or_ties_unrepaired, Gen.beats_or_ties, zlist_le, tkey_unrepaired. rewrite zlist_ltb_single, Z.ltb_ge. reflexivity. Qed.
Lemma no_tie_unrepaired_iff l : no_tie_unrepaired l <-> Gen.no_tie tkey_unrepaired l.
Proof. unfold no_tie_unrepaired, Gen.no_tie, tkey_unrepaired. split; intros H a b Ha Hb Pa Pb E1 E2; apply H; auto; congruence. Qed.
Lemma no_tie_b_unrepaired_eq l : no_tie_b_unrepaired l = Gen.no_tie_b tkey_unrepaired l.
Proof. unfold no_tie_b_unrepaired, Gen.no_tie_b, tkey_unrepaired. apply forallb_ext_all. intros a. apply forallb_ext_all. intros b.
  cbn [zlist_eqb]. rewrite andb_true_r. reflexivity. Qed.

(* ---------- UNREPAIRED code: order independence only under the no-tie hypothesis ---------- *)
Theorem resolve_perm_invariant_partial l l' : Permutation l l' -> no_tie_unrepaired l ->
  forall k, In k (kept_keys_unrepaired l) <-> In k (kept_keys_unrepaired l').
Proof. intros P NT. apply (Gen.resolve_perm_invariant_partial tkey_unrepaired l l' P). apply no_tie_unrepaired_iff. exact NT. Qed.
Lemma no_tie_b_sound l : no_tie_b_unrepaired l = true -> no_tie_unrepaired l.
Proof. rewrite no_tie_b_unrepaired_eq. intros H. apply no_tie_unrepaired_iff. apply Gen.no_tie_b_sound. exact H. Qed.
Theorem uninformative_single_unrepaired l : l <> [] -> only_uninformative l = true ->
  exists b, keep_idx_unrepaired l = [b] /\ (b < length l)%nat /\ best_non_unrepaired l (nthr l b) = true.
Proof. intros NE OU. destruct (Gen.uninformative_single tkey_unrepaired l NE OU) as [b [H1 [H2 H3]]]. exists b. rewrite best_non_unrepaired_eq. auto. Qed.

(* without the hypothesis: two uninformative alignments on different chromosomes that tie - the first in list order stays *)
Definition tie1 := mkrec 1 1 1 100 200 (50, 300) false false Noninformative Noninformative 0 [] [].
Definition tie2 := mkrec 2 1 2 100 200 (50, 300) false false Noninformative Noninformative 0 [] [].
Example resolve_perm_invariant_refuted :
  Permutation [tie1; tie2] [tie2; tie1] /\ kept_keys_unrepaired [tie1; tie2] = [key_of tie1] /\ kept_keys_unrepaired [tie2; tie1] = [key_of tie2] /\ key_of tie1 <> key_of tie2.
Proof. split; [apply perm_swap|]. vm_compute. repeat split; discriminate. Qed.
(* the repaired code keeps the alignment on the lower chromosome in both orders *)
Example resolve_perm_invariant_witness : kept_keys [tie1; tie2] = [key_of tie1] /\ kept_keys [tie2; tie1] = [key_of tie1].
Proof. vm_compute. split; reflexivity. Qed.

(* ---------- REPAIRED code: order independence ---------- *)
(* the resolver is handed the alignment records of ONE read (group_of below; dataset_processor builds the lists per read id) *)
Definition one_read (l:list rec) : Prop := forall a b, In a l -> In b l -> rd a = rd b.
Definition one_read_b (l:list rec) : bool := match l with [] => true | a :: t => forallb (fun b => rd a =? rd b) t end.
Lemma one_read_b_sound l : one_read_b l = true -> one_read l.
Proof. destruct l as [|x t]; [intros _ a b []|]. cbn [one_read_b]. rewrite forallb_forall. intros H.
  assert (G: forall a, In a (x :: t) -> rd a = rd x).
  { intros a [<-|Ha]; [reflexivity|]. specialize (H a Ha). apply Z.eqb_eq in H. congruence. }
  intros a b Ha Hb. rewrite (G a Ha), (G b Hb). reflexivity. Qed.
(* the tie-break key and the read id determine the __eq__ key *)
Lemma tkey_key a b : rd a = rd b -> tkey a = tkey b -> key_of a = key_of b.
Proof. unfold tkey, key_of. intros E H. injection H as _ H2 H3 H4 H5. congruence. Qed.
Lemma one_read_no_tie l : one_read l -> Gen.no_tie tkey l.
Proof. intros O a b Ha Hb _ _ _ E. apply tkey_key; [apply O; assumption|exact E]. Qed.
Theorem resolve_perm_invariant l l' : Permutation l l' -> one_read l -> forall k, In k (kept_keys l) <-> In k (kept_keys l').
Proof. intros P O. apply (Gen.resolve_perm_invariant_partial tkey l l' P). apply one_read_no_tie. exact O. Qed.

(* ... and without any hypothesis for the lists the pipeline builds: the records of read `rid` among all records of all
   chromosomes (`all` = the concatenation of the save files in the order of chr_ids, load_record) *)
Lemma Permutation_filter_rec (f:rec -> bool) l l' : Permutation l l' -> Permutation (filter f l) (filter f l').
Proof. induction 1 as [|x l l' _ IH|x y l|l l' l'' _ IH1 _ IH2]; cbn [filter].
  - constructor.
  - destruct (f x); [constructor|]; exact IH.
  - destruct (f x), (f y); try apply Permutation_refl. apply perm_swap.
  - eapply perm_trans; eauto. Qed.
Lemma group_one_read all rid : one_read (group_of all rid).
Proof. intros a b Ha Hb. unfold group_of in *. apply filter_In in Ha, Hb. destruct Ha as [_ Ha], Hb as [_ Hb]. apply Z.eqb_eq in Ha, Hb. congruence. Qed.
Theorem resolve_perm_invariant_groups all all' rid : Permutation all all' ->
  forall k, In k (kept_keys (group_of all rid)) <-> In k (kept_keys (group_of all' rid)).
Proof. intros P. apply resolve_perm_invariant; [apply Permutation_filter_rec; exact P|apply group_one_read]. Qed.
(* order of chromosomes / files: any rearrangement of the save files gives a permutation of `all` *)
Corollary resolve_file_order_invariant (files files':list (Z * list rec)) rid : Permutation files files' ->
  forall k, In k (kept_keys (group_of (flat_map snd files) rid)) <-> In k (kept_keys (group_of (flat_map snd files') rid)).
Proof. intros P. apply resolve_perm_invariant_groups. apply Permutation_flat_map. exact P. Qed.
(* the specification's guard for the repaired code: order independence is REQUIRED of every list of records of one read *)
Definition run_spec := Gen.run_spec_with tkey one_read_b.

(* ---------- witnesses ---------- *)
(* kept on two loci: both retained, re-typed ambiguous, flagged *)
Definition locA := mkrec 1 1 1 100 200 (50, 300) false false Unique Unique 0 [1] [1].
Definition locB := mkrec 2 1 2 100 200 (50, 300) true false Unique Unique 0 [2] [2].
Definition locC := mkrec 3 1 2 900 990 (800, 1000) true false Inconsistent Inconsistent 0 [3] [3].
Example ties_kept_and_flagged_example :
  model_out TakeBest [locA; locB; locC] = Ok [(Unique, Unique, false); (Suspended, Suspended, true); (Suspended, Suspended, true)] /\
  model_out TakeBest [locB; locB; locC; set_verdict locA Unique Unique true] =
     Ok [(Ambiguous, Ambiguous, true); (Suspended, Suspended, true); (Suspended, Suspended, true); (Ambiguous, Ambiguous, true)].
Proof. vm_compute. split; reflexivity. Qed.
(* several retained records that name one and the same isoform are NOT flagged (and each of them counts, see MultimapWeight.v) *)
Definition sameA := mkrec 4 1 1 100 260 (50, 300) true false Unique Unique 0 [1] [1].
Example ties_flagged_refuted :
  model_out TakeBest [set_verdict locA Unique Unique true; sameA] = Ok [(Unique, Unique, true); (Unique, Unique, true)].
Proof. vm_compute. reflexivity. Qed.
(* the merge strategy cannot run on two informative records, ignore_multimapper leaves the gene type *)
Example other_strategies :
  resolve Merge [locA; locB] = Raises 3 /\ model_out IgnoreMultimapper [locA; locB] = Ok [(Suspended, Unique, false); (Suspended, Unique, true)].
Proof. vm_compute. split; reflexivity. Qed.
(* both constructors fold min(., first match's penalty) from 0.0: a non-negative penalty is lost *)
Example basic_penalty_examples : basic_penalty [] = 0 /\ basic_penalty [3; 1] = 0 /\ basic_penalty [-2; -5] = -2.
Proof. vm_compute. repeat split; reflexivity. Qed.
