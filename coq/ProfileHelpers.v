(* C19: declarative readings of the profile helpers of src/common.py that have no hand-written model (count_both_present_features,
   all_features_present, has_inconsistent_features, mask_profile, get_blocks_from_profile), as position-wise functions of the zipped
   profiles.  Their Gallina text is REGENERATED from the source (gen/Loops.v); Profile<Name>Spec.v proves, one file per function, that
   under the function's own precondition (the `assert len(a) == len(b)` of the source) the regenerated function is this reading. *)
From Coq Require Import ZArith List Bool Lia ZifyBool.
From IQ Require Import LoopsSupport.
Import ListNotations. Open Scope Z_scope.

(* declarative readings over the zipped profiles *)
Definition both_present (p:Z * Z) : bool := (fst p =? 1) && (snd p =? 1).
Definition spec_count_both (p1 p2:list Z) : Z := Z.of_nat (length (filter both_present (combine p1 p2))).
Definition spec_all_present (iso read:list Z) : bool := forallb (fun p => negb (fst p =? 1) || (snd p =? 1)) (combine iso read).
Definition spec_inconsistent (read gene:list Z) : bool := existsb (fun p => negb (fst p =? snd p) && negb (fst p =? 0)) (combine read gene).
Definition spec_mask (read truth:list Z) : list Z := map (fun p => if snd p =? 1 then fst p else 0) (combine read truth).
Definition spec_blocks {A} (features:list A) (profile:list Z) : list A := map fst (filter (fun p => snd p =? 1) (combine features profile)).

Lemma filter_len_le {A} (f:A -> bool) l : (length (filter f l) <= length l)%nat.
Proof. induction l as [|x t IH]; simpl; [lia|]. destruct (f x); simpl; lia. Qed.
Lemma pre_len (a b:list Z) : Nat.eqb (length a) (length b) = true -> length a = length b. Proof. apply Nat.eqb_eq. Qed.

Lemma fold_option_some {A B} (f : option B -> A -> option B) (Hf: forall b a, f (Some b) a = Some b) l b : fold_left f l (Some b) = Some b.
Proof. induction l as [|x t IH]; [reflexivity|]. cbn [fold_left]. rewrite Hf. exact IH. Qed.

