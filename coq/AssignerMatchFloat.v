(* C01: bit-exact instantiation of AssignerMatch.assign with primitive floats (nucleotide scores, penalty selection); used by the unit
   correspondence with the real LongReadAssigner.assign_to_isoform only - nothing in props/ depends on this file. *)
From Coq Require Import ZArith NArith QArith List Bool Floats.
From IQ Require Import CorrSupport Intervals Junctions AssignerDefs AssignerEndsDefs AssignerScore AssignerMatch.
From IQ.gen Require Import Tables Prims.
Import ListNotations. Open Scope Z_scope.

Definition fdivz (a b:Z) : float := PrimFloat.div (zf a) (zf b).
(* similarity - flanking_percentage, each a quotient of two integers converted to float *)
Definition f_make (a b:Z*Z) : float := PrimFloat.sub (fdivz (fst a) (snd a)) (fdivz (fst b) (snd b)).
Definition f_lt (a b:float) : bool := PrimFloat.ltb a b.
Definition f_ge_min (x:float) : bool := PrimFloat.leb (-0.5)%float x.                       (* x >= AmbiguityResolvingMethod.minimal_score *)
Definition f_keeps (x best:float) : bool := PrimFloat.leb best (PrimFloat.mul x 1.5%float).    (* x * top_scored_factor >= best *)
Definition to_sev (e:xev) : sev := mks (x_type e) (x_iso e) (x_read e) (x_info e).
Definition f_select (P:params) (rms:list (Z * list xev)) : option (list Z) :=
  match select_best P (map (fun m => (fst m, map to_sev (snd m))) rms) with Some (ids, _) => Some ids | None => None end.

Definition assign_float (P:params) (absd:Z) (arm:ARM) (g:gene) (r:read) : outcome result :=
  assign P absd arm float f_make f_lt f_ge_min f_keeps (f_select P) g r.
