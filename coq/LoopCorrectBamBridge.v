(* C16: Cigar2.correct_bam_coords is correct_bam_coords of src/common.py as regenerated into gen/Loops.v (tools/translate_loops.py). *)
From Coq Require Import ZArith List Bool Lia ZifyBool.
From IQ.gen Require Import Prims Loops.
From IQ Require Import Cigar Cigar2.
Import ListNotations. Open Scope Z_scope.

Theorem correct_bam_coords_is_the_source l : Cigar2.correct_bam_coords l = py_correct_bam_coords l.
Proof. reflexivity. Qed.
