(* C10: the polyA-requirement strategies and set_polya_requirement_strategy of the hand-written model Orchestration.v are those of
   src/dataset_processor.py.  gen/Extra.v is regenerated from the source on every check (tools/translate_extra.py). *)
From Coq Require Import ZArith List Bool.
From IQ Require Import Orchestration OrchestrationBridgeDefs.
From IQ.gen Require Import Extra.
Import ListNotations.

Lemma pus_of_onto : forall x:PUS, exists st, pus_of st = x.
Proof. intros x; destruct x; [exists PAuto|exists PNever|exists PAlways]; reflexivity. Qed.

Theorem polya_strategy_is_the_source :
  (forall flag st, set_strategy flag st = py_set_polya_requirement_strategy flag (pus_of st)) /\
  map pus_of [PAuto; PNever; PAlways] = PUS_all /\ (forall x:PUS, exists st, pus_of st = x).
Proof. split; [intros flag st; destruct st; reflexivity|]. split; [reflexivity|exact pus_of_onto]. Qed.
